"""C19 - converter combinators, filters, cmp_using.  Real-side drivers + case generators.

Four kinds of cases (one Coq `case` constructor each, see coq/theories/C19/Corr.v):
  KConv    a converter expression tree, built with the real pipe/optional/default_if_none/
           Converter over instrumented symbolic callables, invoked standalone, through a
           generated __init__ and through setters.convert / attribute assignment
  KToBool  converters.to_bool on one input;  KConsts: the two tuples read from the source
  KFilter  filters.include/exclude(*what) probed on (attribute, value) pairs
  KCmp     cmp_using(<subset of eq,lt,le,gt,ge>, require_same_type) and the six dunder calls
"""
from __future__ import annotations

import ast
import itertools
import os
import random
from decimal import Decimal
from fractions import Fraction
from pathlib import PurePosixPath

import attr
import attrs
from attr import Converter, Factory, converters, filters, setters
from attr._cmp import cmp_using

from . import vlib
from .driver import Case
from .vlib import b, lst, q

PROP = "C19"
HEADER = "From Attrs Require Import Base C19.Model C19.Corr."
CASE_TYPE = "case"
CHECK = "check_case"
MODEL = "model_of"
RULE = ("(1) converter trees: every tree of depth <= 1 over 13 leaf kinds (plain / Converter with each "
        "takes_self x takes_field combination / default_if_none value+factory; functions that answer a "
        "symbol, None, their argument, or raise) x 3 inputs x {standalone, __init__, assignment}, plus "
        "seeded random trees to depth 4 (pipe width <= 4, <= 6 for the 20% of trees without Converter members) in random class flavours (attr.s/define, slots, "
        "frozen, value passed / class default / Factory default, list-converter spelling, on_setattr at "
        "class or field level, direct setters.convert call); in 30% of the random cases and in a dedicated "
        "layer every callable (plain converter, function inside a Converter, factory) is a callable OBJECT "
        "with value-based __eq__/__hash__ (all of one arity are equal to each other, half of them falsy) and "
        "an EQUAL object with a different symbol was used as a converter earlier in the process - by another "
        "class or by a field of the same class declared before - so the symbol in the result term identifies "
        "the callee; the result is compared as a symbolic term "
        "together with the factory call counter.  (2) to_bool: every letter-case of every documented "
        "string spelling, near-miss and random ASCII strings, a heterogeneous pool of non-strings (incl. "
        "objects whose str()/repr() is a listed spelling: paths, exceptions, custom __str__, bytes, "
        "Decimal, Fraction; and numeric == matches) and non-ASCII strings (== against the listed "
        "elements is the oracle), every input also through optional(pipe(to_bool)) in __init__ and on "
        "assignment, and the two tuples extracted "
        "from the source with ast when it has that shape.  (3) filters: what-subsets of a 13-item "
        "core universe (types incl. bool/int and a subclass pair, names, equal-but-distinct and "
        "same-name-different Attributes) plus 8 items that are a type / a name / an Attribute only by "
        "isinstance (an Enum class, an ABC and its concrete subclass, a class with a custom "
        "metaclass; str-subclass and StrEnum names; an Attribute subclass instance) and junk: all "
        "subsets of size <= 2 over the 21 items and all subsets of the 8 in both tiers, all 8192 core "
        "subsets in the thorough tier, random ones; each probed on all 90 (attribute, value) pairs "
        "(attributes incl. three whose alias differs from the name: private, explicit alias, alias equal to "
        "another field's name - with those names and aliases among the listed names) "
        "(values incl. an Enum member, an ABC-subclass instance, a custom-metaclass instance), plus "
        "shuffled/duplicated spellings.  (4) cmp_using: all 64 configurations x 23 value pairs (same "
        "class, unrelated classes, identical object, subclass-related classes in both operand orders: "
        "bool/int, float/float-subclass, str/str-subclass) x {total honest functions, partial "
        "functions that raise on two values of different classes}, plus random behaviours (constant "
        "True/False/NotImplemented, flipped, negated, partial); every supplied function is "
        "instrumented; all six operators are called as dunder methods and for each the result (or the "
        "propagated exception) AND the exact call log (function, first argument, second argument, in "
        "order) are compared with the model.  distinct = distinct case  "
        "literal; non-trivial = converter tree with at least one combinator, any to_bool input, a "
        "non-empty what, a configuration with at least one function")
EXTRA_TRUSTED = [
    "harness/translate_c19.py: the translator from a small Python subset to Gallina (Gen/C19_tie.v) for "
    "_cmp._make_operator.method/_is_comparable_to/_check_same_type/cmp_using, filters._split_what/"
    "include_/exclude_, converters.to_bool and the optional/default_if_none/pipe closures; the meaning "
    "it gives to its primitives (traced call of a supplied function, isinstance vs exact class of a "
    "listed item, `in` over a tuple literal, `is None`) is trusted, the equality with the model is "
    "proved in C19/Tie.v",
    "CPython's functools.total_ordering (_convert table and the twelve _x_from_y functions) and "
    "the ==/!= operator protocol (reflected method, identity fallback) are re-stated by hand in "
    "C19/ModelCmp.v and tied to CPython only through the cmp_using correspondence cases",
    "str.lower on ASCII text is ASCII lower-casing (C19/ModelToBool.v lower); non-ASCII strings "
    "and non-strings enter the model only through the table of listed elements they are "
    "==-equal to, computed by the harness with Python's `in`",
    "Attribute.__eq__ (all-fields equality) is an oracle: the harness numbers the probe "
    "attributes by the equivalence classes real == gives",
]
ASSUMPTIONS = [
    "user callables are deterministic functions of their positional arguments (value or exception); "
    "factories take no arguments; to_bool inputs have a non-raising __eq__",
    "to_bool on str: theorems are about ASCII lower-casing; 'documented spellings' for non-strings "
    "means ==-equal to a listed element (DESIGN section 7 (iii): 1.0 and hostile __eq__ objects are accepted)",
    "cmp_using: both operands are instances of the generated class; supplied functions answer "
    "True, False or NotImplemented",
]



def pre_build():
    # Gen/C19_tie.v is regenerated from the current source text so that a fresh checkout builds
    from . import translate_c19
    translate_c19.regenerate()


def translated_tie():
    """Tie by translation: (status per translated function, Coq target with the tie lemmas)."""
    from . import translate_c19
    return translate_c19.regenerate(), "theories/C19/Tie.vo"


# ======================================================================================
# (1) converter trees


class UserErr(Exception):
    def __init__(self, tag):
        super().__init__(tag)
        self.tag = tag


class Tok:
    __slots__ = ("n", "truth")

    def __init__(self, n, truth=True):
        self.n, self.truth = n, truth

    def __bool__(self):
        return self.truth

    def __repr__(self):
        return "Tok(%d)" % self.n


class EqAll:
    """== everything (also None): a converter testing `== None` instead of `is None` shows."""
    def __eq__(self, other):
        return True

    def __ne__(self, other):
        return False

    __hash__ = None

    def __repr__(self):
        return "EqAll()"


class App:
    __slots__ = ("f", "args")

    def __init__(self, f, args):
        self.f, self.args = f, args


class Fresh:
    __slots__ = ("g", "k")

    def __init__(self, g, k):
        self.g, self.k = g, k


_ZERO_F = 0.0
_LIST = []
# token number -> Python object; several are falsy (optional must test `is None`, not truth)
TOKENS = [Tok(0), Tok(1, False), 0, "", False, (), _ZERO_F, EqAll(), "tok", _LIST, Tok(10), Tok(11)]
N_TOK = len(TOKENS)


class _State:
    counter = 0


def _sym_body(f, args):
    if f < 10:
        return App(f, args)
    if f < 20:
        return None
    if f < 30:
        raise UserErr(f)
    return args[0]


class _Mode:
    eqobj = False      # build every symbolic callable as a callable OBJECT with value equality


class _EqCallable:
    """A callable object whose __eq__/__hash__ look only at `key` (its role and arity), not at what it
    does: two of them are EQUAL but behave differently (different symbol f) - like a frozen attrs
    instance with __call__ whose __eq__ leaves a behavioural knob out.  Whoever looks a callable up by
    equality instead of using the object it was given calls the wrong one; the symbol in the result
    term is the identity tag of the callee."""
    __slots__ = ("f", "key")

    def __init__(self, f, key):
        self.f, self.key = f, key

    def __eq__(self, other):
        return isinstance(other, _EqCallable) and other.key == self.key

    def __ne__(self, other):
        return not self.__eq__(other)

    def __hash__(self):
        return hash(self.key)

    def __bool__(self):
        # half of them are FALSY callables: `if converter:` instead of `is not None` would skip them
        return self.f % 2 == 0


class EqFun1(_EqCallable):
    __slots__ = ()

    def __call__(self, v):
        return _sym_body(self.f, (v,))


class EqFun2(_EqCallable):
    __slots__ = ()

    def __call__(self, v, x):
        return _sym_body(self.f, (v, x))


class EqFun3(_EqCallable):
    __slots__ = ()

    def __call__(self, v, x, y):
        return _sym_body(self.f, (v, x, y))


class EqFactory(_EqCallable):
    __slots__ = ()

    def __call__(self):
        k = _State.counter
        _State.counter += 1
        return Fresh(self.f, k)


def mk_fun(f, k):
    """Symbolic callable number f with exactly k positional parameters (see std_app)."""
    if _Mode.eqobj:
        return {1: EqFun1, 2: EqFun2, 3: EqFun3}[k](f, ("fun", k))

    def body(args):
        return _sym_body(f, args)
    if k == 1:
        return lambda v: body((v,))
    if k == 2:
        return lambda v, x: body((v, x))
    return lambda v, x, y: body((v, x, y))


def mk_factory(g):
    if _Mode.eqobj:
        return EqFactory(g, ("factory",))

    def factory():
        k = _State.counter
        _State.counter += 1
        return Fresh(g, k)
    return factory


def build(t):
    """Tree (nested lists) -> real converter object."""
    k = t[0]
    if k == "fun":
        return mk_fun(t[1], 1)
    if k == "conv":
        return Converter(mk_fun(t[1], 1 + int(t[2]) + int(t[3])), takes_self=t[2], takes_field=t[3])
    if k == "pipe":
        return converters.pipe(*[build(c) for c in t[1]])
    if k == "opt":
        return converters.optional(build(t[1]))
    if k == "def":
        return converters.default_if_none(None if t[1] is None else TOKENS[t[1]])
    if k == "fac":
        if t[2] == "kw":
            return converters.default_if_none(factory=mk_factory(t[1]))
        return converters.default_if_none(Factory(mk_factory(t[1])))
    raise AssertionError(t)


def is_converter(t):
    k = t[0]
    if k == "conv":
        return True
    if k == "pipe":
        return any(is_converter(c) for c in t[1])
    if k == "opt":
        return is_converter(t[1])
    return False


def _funs_of(t):
    """function / factory symbols used in a tree"""
    if t is None:
        return set()
    if t[0] in ("fun", "conv", "fac"):
        return {t[1]}
    if t[0] == "pipe":
        return set().union(*[_funs_of(c) for c in t[1]]) if t[1] else set()
    if t[0] == "opt":
        return _funs_of(t[1])
    return set()


def depth(t):
    if t is None:
        return 0
    if t[0] == "pipe":
        return 1 + max([depth(c) for c in t[1]] or [0])
    if t[0] == "opt":
        return 1 + depth(t[1])
    return 0


def enc_tree(t):
    k = t[0]
    if k == "fun":
        return "(CFun %d)" % t[1]
    if k == "conv":
        return "(CConv %d %s %s)" % (t[1], b(t[2]), b(t[3]))
    if k == "pipe":
        return "(CPipe %s)" % lst(enc_tree(c) for c in t[1])
    if k == "opt":
        return "(COpt %s)" % enc_tree(t[1])
    if k == "def":
        return "(CDef %s)" % ("VNone" if t[1] is None else "(VTok %d)" % t[1])
    if k == "fac":
        return "(CFac %d)" % t[1]
    raise AssertionError(t)


def enc_val(o, inst=None, field=None):
    if o is None:
        return "VNone"
    if inst is not None and o is inst:
        return "VSelf"
    if field is not None and o is field:
        return "VField"
    if isinstance(o, App):
        return "(VApp %d %s)" % (o.f, lst(enc_val(a, inst, field) for a in o.args))
    if isinstance(o, Fresh):
        return "(VFresh %d %d)" % (o.g, o.k)
    for n, tok in enumerate(TOKENS):
        if o is tok:
            return "(VTok %d)" % n
    return "(VTok 999)"        # not a value the model can produce: forces a mismatch


def val_json(o, inst=None, field=None):
    return enc_val(o, inst, field)


def enc_exc(e):
    if isinstance(e, UserErr):
        return "(Raise (EUser %d))" % e.tag
    if isinstance(e, TypeError):
        return "(Raise EType)"
    return "(Raise EOther)"


INIT_FLAVOURS = ["attr.s", "attr.s-slots", "attr.s-frozen", "attr.s-frozen-slots", "define", "frozen",
                 "define-noslots"]
INIT_PASS = ["arg", "kwarg", "default", "factory", "noinit-default", "noinit-factory"]
SET_FLAVOURS = ["cls-convert", "cls-list", "field-convert", "define", "define-noslots", "cls-pipe-slots",
                "direct"]


def _mk_class(flavour, conv_obj, have_conv, default=attr.NOTHING, as_list=None, init=True, decoy=None):
    """decoy: a converter object for an additional keyword-only field `w` declared BEFORE `x`."""
    kw = {}
    if not init:
        kw["init"] = False
    if have_conv:
        kw["converter"] = as_list if as_list is not None else conv_obj
    if default is not attr.NOTHING:
        kw["default"] = default
    if flavour in ("define", "frozen", "define-noslots"):
        fld = attrs.field(**kw)
        ns = {"__annotations__": {"x": object}, "x": fld}
        if decoy is not None:
            ns = {"__annotations__": {"w": object, "x": object},
                  "w": attrs.field(converter=decoy, default=TOKENS[0], kw_only=True), "x": fld}
        base = type("K", (), ns)
        if flavour == "define":
            return attrs.define(base)
        if flavour == "frozen":
            return attrs.frozen(base)
        return attrs.define(base, slots=False)
    if flavour == "field-convert":
        kw["on_setattr"] = setters.convert
    ns = {}
    if decoy is not None:
        ns["w"] = attr.ib(converter=decoy, default=TOKENS[0], kw_only=True)
    ns["x"] = attr.ib(**kw)
    base = type("K", (), ns)
    opts = {
        "attr.s": {}, "attr.s-slots": {"slots": True}, "attr.s-frozen": {"frozen": True},
        "attr.s-frozen-slots": {"frozen": True, "slots": True},
        "cls-convert": {"on_setattr": setters.convert},
        "cls-list": {"on_setattr": [setters.convert]},
        "field-convert": {},
        "cls-pipe-slots": {"on_setattr": setters.pipe(setters.convert, setters.validate), "slots": True},
        "direct": {},
    }[flavour]
    return attr.s(base, **opts)


def real_conv(inp):
    """Run one converter case against the real library: ONE converter object (and one class),
    invoked on every input of inp["vs"] in turn.  Returns ([seen terms], n1, [json])."""
    t = inp["tree"]
    ctx = inp["ctx"]
    vs = [None if v is None else TOKENS[v] for v in inp["vs"]]
    n0 = inp["n0"]
    seen, sj = [], []

    def ok(r, inst=None, field=None):
        seen.append("(Ok %s)" % enc_val(r, inst, field))
        sj.append(enc_val(r, inst, field))

    def bad(e):
        seen.append(enc_exc(e))
        sj.append(type(e).__name__)

    _Mode.eqobj = bool(inp.get("eqobj"))
    try:
        if ctx == "SA":
            obj = build(t)
            if isinstance(obj, Converter) != is_converter(t):
                return (["(Raise EOther)"] * len(vs), n0,
                        "kind of the built object differs: isinstance(obj, Converter)=%s" % isinstance(obj, Converter))
            i, fl = TOKENS[inp["i"]], TOKENS[inp["fl"]]
            _State.counter = n0
            for v in vs:
                try:
                    r = obj(v, i, fl) if isinstance(obj, Converter) else obj(v)
                except Exception as e:  # noqa: BLE001
                    bad(e)
                else:
                    ok(r)
            return seen, _State.counter, sj
        have = t is not None
        obj = build(t) if have else None
        as_list = None
        if have and inp.get("as_list") and t[0] == "pipe" and t[1]:
            as_list = [build(c) for c in t[1]]
        # an EQUAL (same key) but different (other symbol) callable object, used as a converter earlier in
        # the process: by another class, or by a field of the same class declared before x
        decoy_field = None
        if have and inp.get("decoy"):
            free = set(range(10)) - _funs_of(t)
            d = min(free) if free else (8 if t[:2] == ["fun", 9] else 9)
            _Mode.eqobj = True
            if inp["decoy"] == "class":
                _mk_class("attr.s", mk_fun(d, 1), True)(TOKENS[0])
                _mk_class("define", Converter(mk_fun(d, 3), takes_self=True, takes_field=True), True)(TOKENS[0])
            else:
                decoy_field = mk_fun(d, 1)
            _Mode.eqobj = bool(inp.get("eqobj"))
        if ctx == "IN":
            how = inp["pass"]
            default = attr.NOTHING
            if how in ("default", "noinit-default"):
                default = vs[0]
            elif how in ("factory", "noinit-factory"):
                default = Factory(lambda: vs[0])
            cls = _mk_class(inp["flavour"], obj, have, default, as_list, init=not how.startswith("noinit"),
                            decoy=decoy_field)
            field = attr.fields(cls).x
            _State.counter = n0
            for v in vs:
                try:
                    if how == "arg":
                        inst = cls(v)
                    elif how == "kwarg":
                        inst = cls(x=v)
                    else:
                        inst = cls()
                except Exception as e:  # noqa: BLE001
                    bad(e)
                else:
                    ok(inst.x, inst, field)
            return seen, _State.counter, sj
        if ctx == "AS":
            cls = _mk_class(inp["flavour"], obj, have, attr.NOTHING, as_list, decoy=decoy_field)
            field = attr.fields(cls).x
            inst = cls.__new__(cls)          # no __init__: the converter must not have run yet
            _State.counter = n0
            for v in vs:
                try:
                    if inp["flavour"] == "direct":
                        r = setters.convert(inst, field, v)
                    else:
                        inst.x = v
                        r = inst.x
                except Exception as e:  # noqa: BLE001
                    bad(e)
                else:
                    ok(r, inst, field)
            return seen, _State.counter, sj
    finally:
        _State.counter = 0
        _Mode.eqobj = False
    raise AssertionError(ctx)


def enc_in(v):
    return "VNone" if v is None else "(VTok %d)" % v


def mk_conv_case(inp):
    if inp["ctx"] == "IN" and inp.get("pass") not in ("arg", "kwarg"):
        inp["vs"] = [inp["vs"][0]] * len(inp["vs"])      # a class has one default
    seen, n1, sj = real_conv(inp)
    t = inp["tree"]
    ctx = inp["ctx"]
    if ctx == "SA":
        i, fl = "(VTok %d)" % inp["i"], "(VTok %d)" % inp["fl"]
    else:
        i, fl = "VSelf", "VField"
    term = "(KConv %s %s %s %s %s %d %s %d)" % (
        {"SA": "KStandalone", "IN": "KInit", "AS": "KSetattr"}[ctx],
        "None" if t is None else "(Some %s)" % enc_tree(t),
        lst(enc_in(v) for v in inp["vs"]), i, fl, inp["n0"], lst(seen), n1)
    nontriv = t is not None and t[0] in ("pipe", "opt", "def", "fac", "conv")
    return Case(term, inp, {"results": sj, "counter_after": n1},
                sig={"part": "conv", "ctx": ctx, "callable_objects_with_value_equality": bool(inp.get("eqobj")),
                     "equal_decoy": inp.get("decoy") or "none"},
                nontrivial=nontriv, key=term)


LEAVES = [["fun", 1], ["fun", 10], ["fun", 20], ["fun", 30],
          ["conv", 2, False, False], ["conv", 3, True, False], ["conv", 4, False, True],
          ["conv", 5, True, True], ["conv", 11, True, True], ["conv", 21, True, False],
          ["def", 0], ["def", None], ["fac", 1, "kw"]]


def small_trees():
    out = [list(l) for l in LEAVES]
    out += [["opt", l] for l in LEAVES]
    out.append(["pipe", []])
    out += [["pipe", [l]] for l in LEAVES]
    out += [["pipe", [l1, l2]] for l1 in LEAVES for l2 in LEAVES]
    return out


def rand_leaf(rng):
    r = rng.random()
    if r < 0.30:
        return ["fun", rng.choice([0, 1, 2, 3, 4, 5, 6, 7, 8, 9, 10, 11, 20, 30, 31])]
    if r < 0.70:
        return ["conv", rng.choice([0, 1, 2, 3, 4, 5, 6, 7, 8, 9, 12, 22, 32]),
                rng.random() < 0.5, rng.random() < 0.5]
    if r < 0.85:
        return ["def", rng.choice([None] + list(range(N_TOK)))]
    return ["fac", rng.randrange(10), rng.choice(["kw", "Factory"])]


def rand_tree(rng, d, plain=False):
    """plain=True: no Converter member anywhere (pipe/optional then take their one-argument paths)."""
    if d == 0 or rng.random() < 0.15:
        while True:
            l = rand_leaf(rng)
            if not (plain and l[0] == "conv"):
                return l
    if rng.random() < 0.35:
        return ["opt", rand_tree(rng, d - 1, plain)]
    n = rng.choice([0, 1, 2, 2, 3, 3, 4, 5, 6] if plain else [0, 1, 2, 2, 3, 3, 4])
    return ["pipe", [rand_tree(rng, d - 1, plain) for _ in range(n)]]


def rand_ctx(rng, inp):
    ctx = rng.choice(["SA", "IN", "IN", "AS", "AS"])
    inp["ctx"] = ctx
    if rng.random() < 0.3:
        inp["eqobj"] = True
        inp["decoy"] = rng.choice([None, "class", "field"]) if ctx != "SA" else None
    if ctx == "SA":
        inp["i"], inp["fl"] = rng.randrange(N_TOK), rng.randrange(N_TOK)
    elif ctx == "IN":
        inp["flavour"] = rng.choice(INIT_FLAVOURS)
        inp["pass"] = rng.choice(INIT_PASS)
        inp["as_list"] = rng.random() < 0.3
    else:
        inp["flavour"] = rng.choice(SET_FLAVOURS)
        inp["as_list"] = rng.random() < 0.3
    return inp


def gen_conv(tier, rng):
    cases = []
    # exhaustive small layer: every tree of depth <= 1, three inputs, three contexts
    k = 0
    for t in small_trees():
        for vs in ([0], [None], [2], [None, 0, None]):
            for ctx in ("SA", "IN", "AS"):
                k += 1
                inp = {"part": "conv", "tree": t, "vs": list(vs), "n0": k % 7, "ctx": ctx}
                if ctx == "SA":
                    inp["i"], inp["fl"] = 10, 11
                elif ctx == "IN":
                    inp["flavour"] = INIT_FLAVOURS[k % len(INIT_FLAVOURS)]
                    inp["pass"] = INIT_PASS[(k // 3) % len(INIT_PASS)]
                    inp["as_list"] = (k % 5 == 0)
                else:
                    inp["flavour"] = SET_FLAVOURS[k % len(SET_FLAVOURS)]
                    inp["as_list"] = (k % 5 == 0)
                cases.append(mk_conv_case(inp))
    # a bare Converter (every flag combination) / plain function as the field's converter, in every
    # class flavour and passing mode: the four branches of _fmt_converter_call and of __call__
    for ts in (False, True):
        for tf in (False, True):
            for leaf in (["conv", 3, ts, tf], ["opt", ["conv", 4, ts, tf]], ["pipe", [["conv", 5, ts, tf]]]):
                for fl in INIT_FLAVOURS:
                    for how in INIT_PASS:
                        cases.append(mk_conv_case({"part": "conv", "tree": leaf, "vs": [0, 1], "n0": 2,
                                                   "ctx": "IN", "flavour": fl, "pass": how, "as_list": False}))
                for fl in SET_FLAVOURS:
                    cases.append(mk_conv_case({"part": "conv", "tree": leaf, "vs": [0, None, 1], "n0": 2,
                                               "ctx": "AS", "flavour": fl, "as_list": False}))
    for fl in INIT_FLAVOURS:
        for how in INIT_PASS:
            cases.append(mk_conv_case({"part": "conv", "tree": ["fun", 6], "vs": [0, None], "n0": 2,
                                       "ctx": "IN", "flavour": fl, "pass": how, "as_list": False}))
    # callable OBJECTS with value equality as converters (plain at the root, inside pipe/optional, inside a
    # Converter, as factory), after an equal-but-different one was used by another class / an earlier field
    eq_trees = [["fun", 1], ["fun", 10], ["fun", 30], ["pipe", [["fun", 1]]], ["pipe", [["fun", 1], ["fun", 2]]],
                ["opt", ["fun", 3]], ["conv", 4, False, False], ["conv", 5, True, True],
                ["pipe", [["fun", 1], ["conv", 2, True, False]]], ["fac", 1, "kw"], ["fac", 2, "Factory"]]
    for t in eq_trees:
        for decoy in ("class", "field", None):
            for k2, fl in enumerate(INIT_FLAVOURS):
                cases.append(mk_conv_case({"part": "conv", "tree": t, "vs": [0, None, 2], "n0": 1, "ctx": "IN",
                                           "flavour": fl, "pass": INIT_PASS[k2 % len(INIT_PASS)], "as_list": False,
                                           "eqobj": True, "decoy": decoy}))
            for fl in ("cls-convert", "define", "direct"):
                cases.append(mk_conv_case({"part": "conv", "tree": t, "vs": [0, None, 2], "n0": 1, "ctx": "AS",
                                           "flavour": fl, "as_list": False, "eqobj": True, "decoy": decoy}))
        cases.append(mk_conv_case({"part": "conv", "tree": t, "vs": [0, None], "n0": 1, "ctx": "SA",
                                   "i": 10, "fl": 11, "eqobj": True}))
    # no converter at all: identity in __init__ and on assignment
    for v in (0, None):
        for ctx, fl in (("IN", "attr.s"), ("IN", "define"), ("AS", "cls-convert"), ("AS", "define"), ("AS", "direct")):
            inp = {"part": "conv", "tree": None, "vs": [v, 8], "n0": 3, "ctx": ctx, "flavour": fl, "pass": "arg"}
            cases.append(mk_conv_case(inp))
    n_random = 2500 if tier == "quick" else 24000
    for _ in range(n_random):
        d = rng.choice([2, 3, 3, 4, 4, 4])
        plain = rng.random() < 0.2
        t = rand_tree(rng, d, plain)
        if t[0] not in ("pipe", "opt") and rng.random() < 0.8:      # else: a bare leaf is the field's converter
            t = ["pipe", [t, rand_tree(rng, d - 1, plain)]]
        vs = [rng.choice([None, None, None] + list(range(N_TOK))) for _ in range(rng.choice([1, 2, 2, 3]))]
        inp = rand_ctx(rng, {"part": "conv", "tree": t, "vs": vs, "n0": rng.randrange(40)})
        cases.append(mk_conv_case(inp))
    return cases


# ======================================================================================
# (2) to_bool

DOC_TRUTHY = (True, "true", "t", "yes", "y", "on", "1", 1)
DOC_FALSY = (False, "false", "f", "no", "n", "off", "0", 0)
DOC_ALL = DOC_TRUTHY + DOC_FALSY


def enc_str(s):
    if all(32 <= ord(ch) < 127 for ch in s):
        return q(s)
    assert all(ord(ch) < 128 for ch in s)
    return "(str_of_codes %s)" % lst(str(ord(ch)) for ch in s)


def enc_elt(e):
    if isinstance(e, bool):
        return "(EBool %s)" % b(e)
    if isinstance(e, str):
        return "(EStr %s)" % enc_str(e)
    if isinstance(e, int):
        return "(EInt %s)" % vlib.z(e)
    raise vlib.Infra("to_bool tuple element of unexpected kind: %r" % (e,))


class StrSub(str):
    pass


class EqOnly:
    """Equal exactly to the given objects."""
    def __init__(self, *to):
        self.to = to

    def __eq__(self, other):
        return any(other is t or (type(other) is type(t) and other == t) for t in self.to)

    __hash__ = None

    def __repr__(self):
        return "EqOnly%r" % (self.to,)


class NeverEq:
    def __eq__(self, other):
        return False

    __hash__ = None


class HasLower:
    def lower(self):
        return "yes"


class StrIs:
    """A non-str object whose str() (and optionally repr()/format()) is a listed spelling."""
    def __init__(self, text, also_repr=False):
        self.text, self.also_repr = text, also_repr

    def __str__(self):
        return self.text

    def __format__(self, spec):
        return self.text

    def __repr__(self):
        return self.text if self.also_repr else "StrIs(%r)" % self.text


class ListStr(list):
    def __str__(self):
        return "yes"


class IntLike:
    """Converts to 1 but is not equal to it."""
    def __int__(self):
        return 1

    def __index__(self):
        return 1

    def __bool__(self):
        return True


import enum  # noqa: E402


class IE(enum.IntEnum):
    ONE = 1
    ZERO = 0
    TWO = 2


def other_pool():
    return {
        "True": True, "False": False, "1": 1, "0": 0, "1.0": 1.0, "0.0": 0.0, "-0.0": -0.0, "2": 2,
        "-1": -1, "0.5": 0.5, "None": None, "[]": [], "()": (), "{}": {}, "b'true'": b"true",
        "b'1'": b"1", "bytearray(yes)": bytearray(b"yes"), "Decimal(1)": Decimal(1),
        "Decimal(0)": Decimal(0), "Decimal('1.5')": Decimal("1.5"), "Fraction(1)": Fraction(1),
        "Fraction(0)": Fraction(0), "1+0j": complex(1, 0), "0j": 0j, "nan": float("nan"),
        "inf": float("inf"), "10**30": 10 ** 30, "[1]": [1], "(1,)": (1,), "['true']": ["true"],
        "object()": object(), "EqAll()": EqAll(), "NeverEq()": NeverEq(), "EqOnly('yes')": EqOnly("yes"),
        "EqOnly(0,'off')": EqOnly(0, "off"), "EqOnly(True,False)": EqOnly(True, False),
        "EqOnly('YES')": EqOnly("YES"), "EqOnly(1)": EqOnly(1), "EqOnly('n')": EqOnly("n"),
        # non-str values whose str() lower-cased is a listed spelling: ValueError unless == a listed element
        "PurePosixPath('on')": PurePosixPath("on"), "PurePosixPath('TRUE')": PurePosixPath("TRUE"),
        "PurePosixPath('0')": PurePosixPath("0"), "KeyError(1)": KeyError(1), "KeyError(0)": KeyError(0),
        "ValueError('false')": ValueError("false"), "Exception('Yes')": Exception("Yes"),
        "StrIs('yes')": StrIs("yes"), "StrIs('TRUE')": StrIs("TRUE"), "StrIs('0')": StrIs("0"),
        "StrIs('off')": StrIs("off"), "StrIs('1')": StrIs("1"), "StrIs('n',repr)": StrIs("n", True),
        "StrIs('on',repr)": StrIs("on", True), "StrIs('False',repr)": StrIs("False", True),
        "StrIs('nope')": StrIs("nope"), "ListStr()": ListStr(), "IntLike()": IntLike(),
        "Decimal('1')": Decimal("1"), "Decimal('0')": Decimal("0"), "Decimal('1.0')": Decimal("1.0"),
        "Decimal('0E+3')": Decimal("0E+3"), "Fraction(2,2)": Fraction(2, 2), "Fraction(1,2)": Fraction(1, 2),
        "b'on'": b"on", "b'0'": b"0", "b'y'": b"y", "bytearray(b'1')": bytearray(b"1"),
        "memoryview(b'1')": memoryview(b"1"), "['1']": ["1"], "('y',)": ("y",), "{'on'}": {"on"},
        "{'t':1}": {"t": 1}, "range(1)": range(1), "type(True)": bool, "str": str, "len": len,
        "1e0": 1e0, "True+0": True + 0, "0*1.5": 0 * 1.5, "1.0000000000000002": 1.0000000000000002,
        "2**53+1": 2 ** 53 + 1, "-0": -0, "complex(0,0)": complex(0, 0), "complex(1,1)": complex(1, 1),
        "HasLower()": HasLower(), "IE.ONE": IE.ONE, "IE.ZERO": IE.ZERO, "IE.TWO": IE.TWO,
        "StrSub('YES')": StrSub("YES"), "StrSub('nope')": StrSub("nope"), "StrSub('oFf')": StrSub("oFf"),
        # non-ASCII strings: lower-cased by Python, then compared with the listed elements
        "u:fullwidth-y": "\uff59", "u:fullwidth-Y": "\uff39", "u:dotted-I": "\u0130",
        "u:FULLWIDTH-TRUE": "\uff34\uff32\uff35\uff25", "u:ye-long-s": "ye\u017f",
        "u:tRUE-uml": "tR\u00dcE", "u:Y-acute-ES": "\u00ddES", "u:kelvin": "\u212a",
        "u:o-dotted-I-n": "o\u0130n", "u:nbsp-yes": "\u00a0yes", "u:yes-zwj": "yes\u200d",
        "u:TRUE-combining": "TRUE\u0301", "u:T-fullwidth": "\uff34", "u:one-fullwidth": "\uff11",
        "u:arabic-one": "\u0661",
    }


def tb_classify(x):
    """-> Gallina tb_in for the input x."""
    if isinstance(x, str) and all(ord(ch) < 128 for ch in x):
        return "(TStr %s)" % enc_str(str(x))
    y = x.lower() if isinstance(x, str) else x        # builtin lower on non-ASCII text: oracle
    eqs = [e for e in DOC_ALL if (y in (e,))]
    return "(TOther %s)" % lst(enc_elt(e) for e in eqs)


def _tb_outcome(fn):
    try:
        r = fn()
    except ValueError:
        return "BValueError", "ValueError"
    except Exception as e:  # noqa: BLE001
        return "BOtherOutcome", type(e).__name__
    if r is True:
        return "(BOk true)", "True"
    if r is False:
        return "(BOk false)", "False"
    return "BOtherOutcome", repr(r)


_TB_CLS = []


def _tb_cls():
    if not _TB_CLS:
        @attr.s(on_setattr=setters.convert)
        class TB:
            x = attr.ib(default="1", converter=converters.optional(converters.pipe(converters.to_bool)))
        _TB_CLS.append(TB)
    return _TB_CLS[0]


def tb_observe(x):
    """to_bool(x) called directly and - for x other than None - as optional(pipe(to_bool)) in a
    generated __init__ and on assignment; the three must agree, else the case cannot match."""
    direct = _tb_outcome(lambda: converters.to_bool(x))
    if x is None:
        return direct
    TB = _tb_cls()
    inst = TB()

    def assign():
        inst.x = x
        return inst.x
    via_init = _tb_outcome(lambda: TB(x).x)
    via_assign = _tb_outcome(assign)
    if via_init[0] != direct[0] or via_assign[0] != direct[0]:
        return "BOtherOutcome", "direct %s / __init__ %s / assignment %s" % (direct[1], via_init[1], via_assign[1])
    return direct


def mk_tb_case(inp):
    if "str" in inp:
        x = inp["str"]
    else:
        x = other_pool()[inp["pool"]]
    seen, sj = tb_observe(x)
    term = "(KToBool %s %s)" % (tb_classify(x), seen)
    return Case(term, inp, sj, sig={"part": "to_bool"}, nontrivial=True, key=term)


class ExtractUnavailable(Exception):
    """to_bool no longer has the `val in (<literals>)` shape: the static tie is unavailable (the
    behavioural to_bool cases remain the authority; this must never pre-empt them)."""


_notes = {}


def extract_tuples():
    """ast extraction of the two tuples of to_bool from the checked source.  Raises
    ExtractUnavailable when the source has another shape."""
    path = os.path.join(vlib.REPO, "src", "attr", "converters.py")
    tree = ast.parse(open(path).read())
    fn = [n for n in ast.walk(tree) if isinstance(n, ast.FunctionDef) and n.name == "to_bool"]
    if len(fn) != 1:
        raise ExtractUnavailable("cannot find exactly one to_bool in %s" % path)
    found = {}
    for node in ast.walk(fn[0]):
        if not isinstance(node, ast.If):
            continue
        t = node.test
        if not (isinstance(t, ast.Compare) and len(t.ops) == 1 and isinstance(t.ops[0], ast.In)
                and isinstance(t.comparators[0], (ast.Tuple, ast.List, ast.Set))):
            continue
        if not (len(node.body) == 1 and isinstance(node.body[0], ast.Return)
                and isinstance(node.body[0].value, ast.Constant)
                and isinstance(node.body[0].value.value, bool)):
            raise ExtractUnavailable("to_bool: membership test whose body is not `return True/False`")
        elts = []
        for e in t.comparators[0].elts:
            if not isinstance(e, ast.Constant) or not isinstance(e.value, (bool, str, int)):
                raise ExtractUnavailable("to_bool: tuple element that is not a bool/str/int literal")
            elts.append(e.value)
        key = node.body[0].value.value
        if key in found:
            raise ExtractUnavailable("to_bool: two membership tests return %r" % key)
        found[key] = elts
    if set(found) != {True, False}:
        raise ExtractUnavailable("to_bool: expected one truthy and one falsy membership test in %s, found %r"
                         % (path, sorted(found)))
    return found[True], found[False]


def mk_consts_case(inp, replay=False):
    try:
        t, f = extract_tuples()
    except ExtractUnavailable as e:
        if replay:
            raise vlib.Infra("cannot replay the constants case: %s" % e)
        _notes["to_bool_constants_extracted"] = False
        _notes["to_bool_constants_note"] = ("static tie skipped, behavioural to_bool cases only: %s" % e)
        return None
    _notes["to_bool_constants_extracted"] = True
    term = "(KConsts %s %s)" % (lst(enc_elt(e) for e in t), lst(enc_elt(e) for e in f))
    return Case(term, inp, {"truthy": [repr(e) for e in t], "falsy": [repr(e) for e in f]},
                sig={"part": "to_bool_consts"}, nontrivial=True, key=term)


def all_cases_of(s):
    letters = [(ch.lower(), ch.upper()) if ch.isalpha() else (ch,) for ch in s]
    return ["".join(p) for p in itertools.product(*letters)]


NEAR_MISS = ["", " ", "tru", "truee", " true", "true ", "yess", "ye", "2", "-1", "01", "10", "00", "o",
             "of", "offf", "none", "null", "nil", "True\n", "\ttrue", "t\x00", "yes\x7f", "Y E S", "0.0",
             "1.0", "+1", "onn", "fals", "enable", "enabled", "disabled", "maybe", "TRUE.", "\"yes\"",
             "'no'", "tt", "ff", "yn", "ny", "truefalse", "on off", "0n", "0ff", "1 ", " 0", "\x00",
             "T\x1fRUE", "ok", "si", "ja", "nein", "oui", "non"]


def gen_tobool(tier, rng):
    cases = []
    cc = mk_consts_case({"part": "consts"})
    if cc is not None:
        cases.append(cc)
    for s in DOC_ALL:
        if isinstance(s, str):
            for v in all_cases_of(s):
                cases.append(mk_tb_case({"part": "tobool", "str": v}))
    for s in NEAR_MISS:
        cases.append(mk_tb_case({"part": "tobool", "str": s}))
    for name in other_pool():
        cases.append(mk_tb_case({"part": "tobool", "pool": name}))
    spellings = [s for s in DOC_ALL if isinstance(s, str)]
    alphabet = "".join(sorted(set("".join(spellings)))) + "TRUEFALSYNO xz_-\t\n2"
    n = 300 if tier == "quick" else 3000
    for _ in range(n):
        r = rng.random()
        if r < 0.6:       # mutate a spelling: random case, then maybe one edit
            s = "".join(ch.upper() if rng.random() < 0.5 else ch for ch in rng.choice(spellings))
            e = rng.random()
            if e < 0.25 and s:
                p = rng.randrange(len(s))
                s = s[:p] + s[p + 1:]
            elif e < 0.5:
                p = rng.randrange(len(s) + 1)
                s = s[:p] + rng.choice(alphabet) + s[p:]
            elif e < 0.7 and s:
                p = rng.randrange(len(s))
                s = s[:p] + rng.choice(alphabet) + s[p + 1:]
        elif r < 0.8:
            s = "".join(rng.choice(alphabet) for _ in range(rng.randrange(0, 6)))
        else:
            s = "".join(chr(rng.randrange(0, 128)) for _ in range(rng.randrange(1, 5)))
        cases.append(mk_tb_case({"part": "tobool", "str": s}))
    return cases


# ======================================================================================
# (3) filters


class P:
    pass


class Q(P):
    pass


@attr.s
class FA:
    x = attr.ib()
    y = attr.ib(default=3)


@attr.s
class FB:
    x = attr.ib()


@attr.s
class FC:
    z = attr.ib()
    x = attr.ib(default=1)


import abc  # noqa: E402


class Color(enum.Enum):          # metaclass EnumMeta
    RED = 1
    GREEN = 2


class Shape(abc.ABC):            # metaclass ABCMeta
    @abc.abstractmethod
    def area(self):
        ...


class Square(Shape):
    def area(self):
        return 1


class Meta(type):
    pass


class MetaK(metaclass=Meta):     # a custom metaclass
    pass


class FieldName(str):
    """A str subclass instance used as a field name (what a typed key would be)."""


class SE(enum.StrEnum):
    z = "z"


class SubAttr(attr.Attribute):
    """An Attribute subclass: isinstance(x, Attribute) holds, == with a plain Attribute does not."""
    __slots__ = ()


def _sub_attr(a):
    kw = {n: getattr(a, n) for n in attr.Attribute.__slots__ if n not in ("eq_key", "order_key")}
    return SubAttr(cmp=None, **kw)


# A listed item is a type / a name / an Attribute by isinstance (whatever its metaclass or
# subclass); the number of a type is its index here, a value is represented by type(value).
F_TYPES = [int, bool, str, type(None), P, Q, float, Color, Shape, Square, MetaK]
assert all(isinstance(t, type) for t in F_TYPES)
F_VALUES = [1, True, "s", None, P(), Q(), 1.5, Color.RED, Square(), MetaK()]
@attr.s
class FD:
    """fields whose alias (the __init__ parameter name) differs from the name"""
    _p = attr.ib()                    # private: name "_p", alias "p"
    r = attr.ib(alias="q")            # explicit alias
    y2 = attr.ib(alias="x")           # alias equal to ANOTHER field's name


F_ATTRS = [attr.fields(FA).x, attr.fields(FA).y, attr.fields(FB).x, attr.fields(FC).x, attr.fields(FC).z]
F_ATTRS.append(_sub_attr(F_ATTRS[0]))
F_ATTRS += [getattr(attr.fields(FD), "_p"), attr.fields(FD).r, attr.fields(FD).y2]
assert [a.alias for a in F_ATTRS[6:]] == ["p", "q", "x"] and [a.name for a in F_ATTRS[6:]] == ["_p", "r", "y2"]
assert F_ATTRS[0] == F_ATTRS[2] and F_ATTRS[0] is not F_ATTRS[2] and F_ATTRS[0] != F_ATTRS[3]
assert isinstance(F_ATTRS[5], attr.Attribute) and F_ATTRS[5] != F_ATTRS[0]
F_SNAMES = [FieldName("y"), SE.z, FieldName("nope")]
assert all(isinstance(n, str) and type(n) is not str for n in F_SNAMES)
F_JUNK = [42, None, 1.5, ("x",), b"x", list[int], Color.RED]
# the universe `what` is drawn from: (kind, payload).  Core (all subsets enumerated in the thorough tier)
F_UNIVERSE = ([("type", i) for i in (0, 1, 2, 4, 5)] + [("name", s) for s in ("x", "y", "z", "nope")]
              + [("attr", i) for i in (0, 1, 2, 3)])
# ... and the items that are a type / a name / an Attribute only by isinstance: classes with a
# metaclass other than `type`, names that are str-subclass instances, an Attribute subclass instance
F_EXTENDED = ([("type", i) for i in (7, 8, 9, 10)] + [("sname", i) for i in range(len(F_SNAMES))]
              + [("attr", 5)])
# ... and names / aliases of the fields whose alias differs from their name (only the NAME counts), and
# those Attributes themselves
F_ALIAS = [("name", n) for n in ("_p", "p", "q", "r", "y2")] + [("attr", 6), ("attr", 7)]
F_JUNK_ITEMS = [("junk", i) for i in range(len(F_JUNK))]


def _attr_rest(a):
    """Number of the ==-equivalence class of Attribute a among the probe attributes."""
    for n, o in enumerate(F_ATTRS):
        if o == a and hash(o) == hash(a):
            return n
    raise vlib.Infra("attribute not equal to itself")


def enc_attr(a):
    return "(A_ %s %d)" % (q(a.name), _attr_rest(a))


def _probe_table():
    return lst("(%s, %d)" % (enc_attr(a), F_TYPES.index(type(v))) for a in F_ATTRS for v in F_VALUES)


# every (attribute, value) probe, as (Attribute, number of the value's exact class); part of every case file
HEADER = HEADER + "\nFrom Coq Require Import List String.\nImport ListNotations.\nOpen Scope string_scope.\n" \
    "Definition fprobes : list (attribute * nat) := %s." % _probe_table()


def what_obj(item):
    kind, p = item
    if kind == "type":
        return F_TYPES[p]
    if kind == "name":
        return p
    if kind == "sname":
        return F_SNAMES[p]
    if kind == "attr":
        return F_ATTRS[p]
    return F_JUNK[p]


def enc_witem(item):
    kind, p = item
    if kind == "type":
        return "(WType %d)" % p
    if kind == "name":
        return "(WName %s)" % q(p)
    if kind == "sname":
        return "(WName %s)" % q("".join(F_SNAMES[p]))       # the characters of the str-subclass instance
    if kind == "attr":
        return "(WAttr %s)" % enc_attr(F_ATTRS[p])
    return "WJunk"


def mk_filter_case(inp):
    items = [tuple(i) for i in inp["what"]]
    objs = [what_obj(i) for i in items]
    inc = filters.include(*objs)
    exc = filters.exclude(*objs)
    seen, sj = [], []
    for a in F_ATTRS:
        for v in F_VALUES:
            ri, re_ = inc(a, v), exc(a, v)
            if not (isinstance(ri, bool) and isinstance(re_, bool)):
                # not a bool: the model cannot say that; force a mismatch by an extra observation
                seen.append("Ptt")
            seen.append("P%s%s" % ("t" if ri else "f", "t" if re_ else "f"))
            sj.append([bool(ri), bool(re_)])
    # the probe table (every attribute x every value) is defined once, in HEADER, as `fprobes`
    term = "(KFilter %s fprobes %s)" % (lst(enc_witem(i) for i in items), lst(seen))
    ext = any(tuple(i) in F_EXTENDED for i in items)
    return Case(term, inp, sj, sig={"part": "filters", "what_has_isinstance_only_item": ext,
                                    "what_names_alias_or_private_field": any(tuple(i) in F_ALIAS for i in items)},
                nontrivial=bool(items), key=term)


def gen_filters(tier, rng):
    cases = []
    U = F_UNIVERSE
    UE = F_UNIVERSE + F_EXTENDED + F_ALIAS
    # every what of size <= 2 over the whole universe, and every subset of the extended items
    subsets = [c for k in (0, 1, 2) for c in itertools.combinations(UE, k)]
    subsets += [c for k in range(3, len(F_EXTENDED) + 1) for c in itertools.combinations(F_EXTENDED, k)]
    subsets.append(tuple(UE))
    if tier == "quick":
        subsets.append(tuple(U))
        for _ in range(150):
            subsets.append(tuple(u for u in UE if rng.random() < rng.choice([0.2, 0.5, 0.8])))
    else:
        subsets += [c for k in range(3, len(U) + 1) for c in itertools.combinations(U, k)]
        for _ in range(1500):
            subsets.append(tuple(u for u in UE if rng.random() < rng.choice([0.2, 0.5, 0.8])))
    for s in subsets:
        cases.append(mk_filter_case({"part": "filter", "what": [list(i) for i in s]}))
    # spelling variations: junk mixed in, duplicates, shuffled order
    for _ in range(100 if tier == "quick" else 1000):
        s = [u for u in UE if rng.random() < 0.3]
        s += [rng.choice(F_JUNK_ITEMS) for _ in range(rng.randrange(3))]
        s += [rng.choice(s) for _ in range(rng.randrange(3))] if s else []
        rng.shuffle(s)
        cases.append(mk_filter_case({"part": "filter", "what": [list(i) for i in s]}))
    return cases


# ======================================================================================
# (4) cmp_using

OPS = ["eq", "ne", "lt", "le", "gt", "ge"]
FUNCS = ["eq", "lt", "le", "gt", "ge"]
# wrapped values: (python value, class number, rank)
class FloatSub(float):
    pass


class StrSubC(str):
    pass


# wrapped values: name -> (python value, rank).  The class number the model sees is the index of
# the value's EXACT class (type(v), never isinstance) in C_CLASSES: bool is not int, a float
# subclass is not float, a str subclass is not str.
_C_RAW = {"i1": (1, 1), "i2": (2, 2), "f1": (1.0, 1), "f2": (2.0, 2), "sa": ("a", 5), "bT": (True, 1),
          "bF": (False, 0), "i0": (0, 0), "F1": (FloatSub(1.0), 1), "F2": (FloatSub(2.0), 2),
          "Sa": (StrSubC("a"), 5)}
C_CLASSES = [int, float, str, bool, FloatSub, StrSubC]
C_VALUES = {k: (v, C_CLASSES.index(type(v)), r) for k, (v, r) in _C_RAW.items()}
assert all(type(v) is C_CLASSES[c] for v, c, _r in C_VALUES.values())
# (left, right, same wrapper object); every subclass-related pair appears in BOTH operand orders
C_PAIRS = [("i1", "i2", False), ("i2", "i1", False), ("i1", "i1", False), ("i1", "i1", True),
           ("i1", "f1", False), ("f1", "i2", False), ("i2", "sa", False), ("f2", "f1", False),
           # bool is a subclass of int
           ("bT", "i1", False), ("i1", "bT", False), ("bF", "i0", False), ("i0", "bF", False),
           ("bT", "i2", False), ("i2", "bT", False), ("bT", "bF", False),
           # float vs a float subclass, str vs a str subclass
           ("f1", "F1", False), ("F1", "f1", False), ("f1", "F2", False), ("F2", "f1", False),
           ("sa", "Sa", False), ("Sa", "sa", False), ("F1", "F2", False), ("Sa", "Sa", False)]
BEHS = ["H", "T", "F", "N", "flip", "neg", "P", "P"]


def _rank(x):
    for v, _c, r in C_VALUES.values():
        if type(v) is type(x) and v == x:
            return r
    raise AssertionError(x)


def _pair_kind(l, r, same):
    if same:
        return "identical-object"
    a, bb = C_VALUES[l][0], C_VALUES[r][0]
    if type(a) is type(bb):
        return "same-class"
    if isinstance(bb, type(a)):
        return "right-is-subclass-instance"
    if isinstance(a, type(bb)):
        return "left-is-subclass-instance"
    return "unrelated-classes"


def _honest(op, x, y):
    return {"eq": x == y, "lt": x < y, "le": x <= y, "gt": x > y, "ge": x >= y}[op]


class PartialErr(TypeError):
    """Raised by a supplied function that is only defined on two values of one class."""


_CALLS = []        # call log of the supplied functions: (function name, x, y)


def mk_cmp_func(op, beh):
    """Instrumented supplied function: every call is logged before anything else happens."""
    def f(x, y):
        _CALLS.append((op, x, y))
        if beh == "H":
            return _honest(op, _rank(x), _rank(y))
        if beh == "T":
            return True
        if beh == "F":
            return False
        if beh == "N":
            return NotImplemented
        if beh == "flip":
            return _honest(op, _rank(y), _rank(x))
        if beh == "P":                      # partial: written for one value type only
            if type(x) is not type(y):
                raise PartialErr("%s is only defined on two values of one class" % op)
            return _honest(op, _rank(x), _rank(y))
        return not _honest(op, _rank(x), _rank(y))
    return f


def enc_beh(bh):
    return {"H": "BHonest", "T": "(BConst TT)", "F": "(BConst FF)", "N": "(BConst NI)", "flip": "BFlip",
            "neg": "BNeg", "P": "BPartial"}[bh]


def _enc_cval_of(x):
    for v, c, rk in C_VALUES.values():
        if type(v) is type(x) and v == x:
            return "C_ %d %s" % (c, vlib.z(rk))
    return None


_COP = {"eq": "OEq", "ne": "ONe", "lt": "OLt", "le": "OLe", "gt": "OGt", "ge": "OGe"}


def mk_cmp_case(inp):
    have = inp["have"]            # dict func -> bool
    behs = inp["behs"]            # dict func -> behaviour
    rst = inp["rst"]
    l, r, same = C_PAIRS[inp["pair"]]
    kwargs = {op: mk_cmp_func(op, behs[op]) for op in FUNCS if have[op]}
    seen_json = None
    try:
        if rst and inp.get("rst_default"):
            cls = cmp_using(**kwargs)                 # documented default: require_same_type=True
        else:
            cls = cmp_using(require_same_type=rst, **kwargs)
    except ValueError:
        seen = "None"
        seen_json = "ValueError"
    except Exception as e:  # noqa: BLE001
        seen = "(Some [])"
        seen_json = "construction raised " + type(e).__name__
    else:
        a = cls(C_VALUES[l][0])
        bb = a if same else cls(C_VALUES[r][0])
        res = []
        seen_json = []
        ok = True
        for op in OPS:
            del _CALLS[:]
            try:
                x = getattr(a, "__%s__" % op)(bb)     # direct dunder call: NotImplemented is visible
            except PartialErr:
                t, shown = "EX", "raised PartialErr"
            except Exception as e:  # noqa: BLE001
                ok = False
                t, shown = None, "raised " + type(e).__name__
            else:
                shown = repr(x)
                if x is True:
                    t = "TT"
                elif x is False:
                    t = "FF"
                elif x is NotImplemented:
                    t = "NI"
                else:
                    ok = False
                    t = None
            log = []
            for fop, x1, y1 in _CALLS:
                e1, e2 = _enc_cval_of(x1), _enc_cval_of(y1)
                if e1 is None or e2 is None:
                    ok = False
                else:
                    log.append("(%s, %s, %s)" % (_COP[fop], e1, e2))
            seen_json.append([shown, [[fop, repr(x1), repr(y1)] for fop, x1, y1 in _CALLS]])
            del _CALLS[:]
            if t is not None:
                res.append("(%s, %s)" % (t, lst(log)))
        seen = "(Some %s)" % lst(res) if ok else "(Some [])"
    cfg = "(Build_cfg %s %s %s %s %s %s)" % tuple([b(have[op]) for op in FUNCS] + [b(rst)])
    bs = "(Build_behs %s %s %s %s %s)" % tuple(enc_beh(behs[op]) for op in FUNCS)

    def wv(name, ident):
        _v, c, rk = C_VALUES[name]
        return "(%d, C_ %d %s)" % (ident, c, vlib.z(rk))
    term = "(KCmp %s %s %s %s %s)" % (cfg, bs, wv(l, 0), wv(l if same else r, 0 if same else 1), seen)
    return Case(term, inp, seen_json, sig={"part": "cmp_using", "pair_kind": _pair_kind(l, r, same)},
                nontrivial=any(have.values()), key=term)


def gen_cmp(tier, rng):
    cases = []
    for bits in itertools.product([False, True], repeat=5):
        have = dict(zip(FUNCS, bits))
        for rst in (True, False):
            for p in range(len(C_PAIRS)):
                for bh in ("H", "P"):      # total honest functions / functions defined on one class only
                    cases.append(mk_cmp_case({"part": "cmp", "have": have, "rst": rst, "pair": p,
                                              "rst_default": p % 2 == 0, "behs": {op: bh for op in FUNCS}}))
    for _ in range(500 if tier == "quick" else 6000):
        have = {op: rng.random() < 0.55 for op in FUNCS}
        behs = {op: (rng.choice(BEHS) if have[op] else "H") for op in FUNCS}
        cases.append(mk_cmp_case({"part": "cmp", "have": have, "rst": rng.random() < 0.6,
                                  "rst_default": rng.random() < 0.5,
                                  "pair": rng.randrange(len(C_PAIRS)), "behs": behs}))
    return cases


# ======================================================================================
# driver interface


def generate(tier, seed):
    rng = random.Random(seed)
    cases = []
    cases += gen_tobool(tier, rng)
    cases += gen_cmp(tier, rng)
    cases += gen_filters(tier, rng)
    cases += gen_conv(tier, rng)
    return cases


def rerun(inp):
    part = inp["part"]
    if part == "conv":
        return mk_conv_case(inp)
    if part == "tobool":
        return mk_tb_case(inp)
    if part == "consts":
        return mk_consts_case(inp, replay=True)
    if part == "filter":
        return mk_filter_case(inp)
    if part == "cmp":
        return mk_cmp_case(inp)
    raise vlib.Infra("unknown case kind %r" % part)


def extra(tier, seed):
    return [], dict(_notes, runtime_observations=0)


def corpus():
    return []


def EXHAUSTIVE(tier):
    # the spaces named "all ..." in the quantifier (letter-cases, 64 configurations, depth<=1 trees;
    # what-subsets in the thorough tier) are enumerated completely; the deep trees are sampled
    return False


def distribution(cases):
    from collections import Counter
    parts = Counter(c.sig.get("part") for c in cases)
    ctxs = Counter(c.inp.get("ctx") for c in cases if c.inp.get("part") == "conv")
    depths = Counter(depth(c.inp.get("tree")) for c in cases if c.inp.get("part") == "conv")
    flav = Counter(c.inp.get("flavour") for c in cases if c.inp.get("part") == "conv" and c.inp.get("flavour"))
    pk = Counter(c.sig.get("pair_kind") for c in cases if c.sig.get("part") == "cmp_using")
    fx = sum(1 for c in cases if c.sig.get("what_has_isinstance_only_item"))
    return {"parts": dict(parts), "cmp_using_pair_kinds": dict(pk),
            "filters_what_with_metaclass_type_or_str_subclass_name_or_attribute_subclass": fx, "converter_contexts": dict(ctxs),
            "converter_tree_depths": dict(sorted(depths.items())), "class_flavours": dict(flav)}
