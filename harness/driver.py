"""Generic check driver: build proofs, run corpus + correspondence, classify, report.

A property module provides:
  PROP            "C20"
  HEADER          Coq `From Attrs Require Import ...` line(s) for case files
  CASE_TYPE       Gallina type of a case
  CHECK           Gallina function  case -> bool
  MODEL           Gallina function  case -> <observation>   (for replay files)
  RULE            text: how cases are generated and what counts as non-trivial
  generate(tier, seed) -> list[Case]
  rerun(inp) -> Case           re-run one stored input against the real code
  corpus() -> [(name, fn)]     regression reproducers (fn() -> None | str)
  extra(tier, seed) -> (list[Discrepancy], dict)   optional runtime-only observations
  EXHAUSTIVE(tier) -> bool     optional
  EXTRA_TARGETS, EXTRA_TRUSTED, ASSUMPTIONS optional
"""
from __future__ import annotations

import argparse
import json
import os
import sys
import time
import traceback

from . import vlib
from .vlib import Discrepancy, Infra

# properties whose decision functions are additionally tied by translation (Core/TranslatedTie.v)
TRANSLATED_TIE = {"C03", "C04", "C09", "C14"}


class Case:
    __slots__ = ("term", "inp", "seen", "sig", "nontrivial", "key")

    def __init__(self, term, inp, seen, sig=None, nontrivial=True, key=None):
        self.term = term            # Gallina literal of the case (input + implementation's observation)
        self.inp = inp              # JSON-able input, enough for rerun()
        self.seen = seen            # JSON-able: what the implementation showed
        self.sig = sig or {}        # facts about the *case* for the known-findings matcher
        self.nontrivial = nontrivial
        self.key = key if key is not None else term


def _explain(mod, c: Case):
    try:
        return vlib.eval_in_coq(mod.PROP, mod.HEADER, "%s (%s)" % (mod.MODEL, c.term))
    except Exception as e:  # pragma: no cover
        return "<explain failed: %r>" % (e,)


def run(mod, argv=None):
    ap = argparse.ArgumentParser(prog="check " + mod.PROP)
    ap.add_argument("--tier", default=os.environ.get("VERIF_TIER", "quick"), choices=["quick", "thorough"])
    ap.add_argument("--seed", type=int, default=int(os.environ.get("VERIF_SEED", "20260930")))
    ap.add_argument("--replay", default=None)
    a = ap.parse_args(argv)
    t0 = time.time()
    prop = mod.PROP
    try:
        return _run(mod, a, t0)
    except Infra as e:
        print("INFRASTRUCTURE FAILURE in check %s (not a verdict about attrs):\n%s" % (prop, e))
        return 2
    except Exception:
        print("INFRASTRUCTURE FAILURE in check %s (harness crashed, not a verdict about attrs):" % prop)
        traceback.print_exc()
        return 2


def _run(mod, a, t0):
    prop = mod.PROP
    if hasattr(mod, "pre_build"):
        mod.pre_build()
    model_ok, proofs_ok, rep, log = vlib.build_property(prop, getattr(mod, "EXTRA_TARGETS", ()))
    if not model_ok:
        raise Infra("the Coq model of %s does not build:\n%s" % (prop, log[-4000:]))
    tie_cov = {}
    if prop in TRANSLATED_TIE:
        # second tie: decision functions regenerated from the source text must equal the model's
        from . import translate
        status = translate.regenerate_all()
        if all(v == "translated" for v in status.values()):
            ok_tie, log_tie = vlib.make(["theories/Core/TranslatedTie.vo"])
            tie_cov["translated_tie"] = {"functions": status, "lemmas_check": ok_tie}
            if not ok_tie:
                proofs_ok = False
                log = log_tie
        else:
            tie_cov["translated_tie"] = {"functions": status, "lemmas_check": "unavailable (source shape not in the translator's subset; not a verdict)"}
    if hasattr(mod, "translated_tie"):
        # a property's own translator: (status per function, tie target)
        status, target = mod.translated_tie()
        if all(v == "translated" for v in status.values()):
            ok_tie, log_tie = vlib.make([target])
            tie_cov["translated_tie"] = {"functions": status, "lemmas_check": ok_tie, "lemmas": target}
            if not ok_tie:
                proofs_ok = False
                log = log_tie
        else:
            tie_cov["translated_tie"] = {"functions": status, "lemmas": target,
                                         "lemmas_check": "unavailable (source shape not in the translator's subset; not a verdict)"}

    if a.replay:
        data = json.load(open(a.replay))
        rp = data["replay"]
        if "corpus" in rp:
            fn = dict(mod.corpus())[rp["corpus"]]
            r = fn()
            print("replay corpus %s -> %s" % (rp["corpus"], r))
            if r:
                print("VIOLATION property=%s replay=%s" % (prop, a.replay))
            return 1 if r else 0
        if "input" not in rp:
            print("replay names a proof obligation, re-checking proofs: ok=%s" % proofs_ok)
            if not proofs_ok:
                print("VIOLATION property=%s replay=%s no-failing-input-found" % (prop, a.replay))
            return 0 if proofs_ok else 1
        if hasattr(mod, "replay_override"):
            ov = mod.replay_override(rp["input"])
            if ov is not None:
                bad, seen, says = ov
                print("replay: implementation now shows %s" % json.dumps(seen, default=str)[:2000])
                print("replay: model says %s" % str(says)[:2000])
                if bad:
                    print("VIOLATION property=%s replay=%s" % (prop, a.replay))
                else:
                    print("replay: model and implementation agree on this input now")
                return 1 if bad else 0
        c = mod.rerun(rp["input"])
        bad = vlib.run_cases(prop, mod.HEADER, mod.CASE_TYPE, mod.CHECK, [c.term], tag="replay")
        print("replay: implementation now shows %s" % json.dumps(c.seen, default=str)[:2000])
        print("replay: model says %s" % _explain(mod, c)[:2000])
        if bad:
            print("VIOLATION property=%s replay=%s" % (prop, a.replay))
        else:
            print("replay: model and implementation agree on this input now")
        return 1 if bad else 0

    discrepancies = []
    n_corpus = 0
    for name, fn in mod.corpus():
        n_corpus += 1
        try:
            r = fn()
        except Exception as e:  # a reproducer that crashes is itself a finding
            r = "reproducer raised %s: %s" % (type(e).__name__, e)
        if r:
            discrepancies.append(Discrepancy({"corpus": name}, "regression corpus %s: %s" % (name, r),
                                             {"corpus": name, "result": r}))

    tier = a.tier
    cases = mod.generate(tier, a.seed)
    extra_disc, extra_cov = ([], {})
    if hasattr(mod, "extra"):
        extra_disc, extra_cov = mod.extra(tier, a.seed)
        discrepancies.extend(extra_disc)

    def evaluate(cs, tag):
        bad = vlib.run_cases(prop, mod.HEADER, mod.CASE_TYPE, mod.CHECK, [c.term for c in cs], tag=tag)
        out = []
        for i in bad[:4]:
            c = cs[i]
            model_says = _explain(mod, c)
            sig = dict(c.sig)
            sig.setdefault("kind", "model-mismatch")
            out.append(Discrepancy(sig, "model and implementation differ on case %d" % i,
                                   {"input": c.inp, "implementation": c.seen, "model": model_says,
                                    "seed": a.seed, "tier": tier}))
        for i in bad[4:]:
            c = cs[i]
            sig = dict(c.sig)
            sig.setdefault("kind", "model-mismatch")
            out.append(Discrepancy(sig, "model and implementation differ on case %d" % i,
                                   {"input": c.inp, "implementation": c.seen, "seed": a.seed, "tier": tier}))
        return out

    discrepancies.extend(evaluate(cases, "cases"))

    proof_failure = None
    if not proofs_ok:
        item = vlib.failing_item(log)
        searched = "tier %s (%d cases)" % (tier, len(cases))
        if not discrepancies and tier == "quick":
            # widen the search for a concrete failing input
            more = mod.generate("thorough", a.seed + 1)
            discrepancies.extend(evaluate(more, "widen"))
            searched += " + thorough (%d cases)" % len(more)
            cases = cases + more
        proof_failure = {"name": item, "what": "proof obligation no longer checks: " + item,
                         "log": log, "searched": searched}
        print("PROOF OBLIGATION FAILED for %s: %s" % (prop, item))

    thms = rep["theorems"] if rep else []
    assumptions = rep["assumptions"] if rep else {}
    keys = {c.key for c in cases if c.nontrivial}
    samples = [{"input": c.inp, "implementation": c.seen} for c in cases[:: max(1, len(cases) // 5)]][:6]
    exhaustive = bool(getattr(mod, "EXHAUSTIVE", lambda t: False)(tier))
    cov = dict(extra_cov)
    cov.update(tie_cov)
    cov["corpus_cases"] = n_corpus
    if hasattr(mod, "distribution"):
        cov["input_distribution"] = mod.distribution(cases)
    if tier == "thorough" and proofs_ok and not os.environ.get("VERIF_NO_COQCHK"):
        ok_chk, summary = vlib.coqchk(prop)
        cov["coqchk"] = summary
        if not ok_chk:
            proof_failure = proof_failure or {"name": "coqchk Attrs.Props.%s" % prop,
                                              "what": "coqchk rejects the compiled proofs of " + prop,
                                              "log": summary, "searched": "tier thorough"}
    n_obl = len(thms) if thms else max(1, getattr(mod, "N_THEOREMS", 1))
    return vlib.finish(
        prop, tier, a.seed, t0,
        obligations=n_obl,
        discharged=(len(thms) if proofs_ok else 0),
        assumptions=assumptions,
        checker_cmd="cd /verif/coq && make theories/Props/%s.vo (coqc 8.16.1, full .vo build) ; "
                    "coqc on generated case shards evaluating `%s` with vm_compute" % (prop, mod.CHECK),
        evaluations=len(cases) + n_corpus + int(extra_cov.get("runtime_observations", 0)),
        distinct_nontrivial=len(keys),
        rule=mod.RULE,
        samples=samples,
        exhaustive=exhaustive,
        discrepancies=discrepancies,
        proof_failure=proof_failure,
        extra_cov=cov,
        extra_trusted=getattr(mod, "EXTRA_TRUSTED", ()),
        assumptions_list=getattr(mod, "ASSUMPTIONS", ()),
    )
