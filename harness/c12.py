"""C12 - evolve / assoc build an independent, invariant-respecting copy.

Classes come from the shared specification generator (harness/initgen.py: aliases, private
names, kw_only, init=False, converters, validators, hooks, frozen, slots, cache_hash,
exception classes, inheritance chains).  For every class an original is built through the real
initializer and put through a history ({hash taken, field reassigned, field deleted}); then
`attr.evolve` / `attr.assoc` run on it with change sets over the init aliases / field names
plus a malformed stream.  Two kinds of Coq cases:

* model cases    (one per class x history, all runs): observation == faithful model;
* property cases (one per assoc run whose observation violates the property's postcondition):
                 fail by construction and carry a case signature for the known-findings matcher
                 (K3a / K3b were found this way; both are repaired in /repo now, so none is
                 expected).  The model case re-evaluates the postcondition in Coq and fails
                 when the harness did not flag exactly the violating runs.
"""
from __future__ import annotations

import itertools
import random
import warnings
from collections import Counter

import attr
from attr import _config
from attr.exceptions import AttrsAttributeNotFoundError, FrozenInstanceError

from . import initgen as g
from . import vlib
from .c01 import describe
from .driver import Case
from .initgen import REC, UNSET, Marker, Sym, Tok
from .vlib import b, lst, pair, q

PROP = "C12"
HEADER = "From Attrs Require Import Base Core.Attr Core.Init Core.InitCorr C12.Model C12.Corr."
CASE_TYPE = "case"
CHECK = "check_case"
MODEL = "model_of"
RULE = ("seeded random class specifications of the C01 generator (per field: default none/value/"
        "factory(takes_self) x init x kw_only x converter none/plain/Converter(takes_self,takes_field) "
        "x validator x alias/private name x on_setattr; per class: slots x frozen x cache_hash(+unsafe_hash) "
        "x kw_only x class on_setattr x pre/post hooks x exception base; chains up to depth 3, mixed "
        "slotted/dict bases, overridden names; plus fields literally named count/index); an original "
        "built by the real initializer (values carry IDENTITY separately from equality: opaque tokens whose == is "
        "identity, tokens that are == to every other token of their key, empty lists (all ==, never the same object; "
        "unhashed classes only), None/False/NOTHING; the encoding and the model see identity only) x history in {none, hash, reassign, hash+reassign, reassign+hash, "
        "delete}; evolve with every subset of the init aliases (all subsets up to 4 init fields in the "
        "thorough tier, sampled beyond / in quick) x {validators on/off, a callback raising, NOTHING as "
        "value} + malformed keys {private name, unknown, init=False field}; assoc (non-exception "
        "classes) with subsets of the field names + malformed {unknown, count, index, __len__, __init__, "
        "_attrs_cached_hash, mixed}; "
        "compared: outcome class, same class, new object, every field of the result and of the original "
        "afterwards, hash-cache state, BaseException.args, callback trace, frozenness probe, "
        "hash(result)==hash(instance with the same fields and empty cache).  A case = one (class, "
        "history) with up to 12 of its runs; non-trivial = class has a field; distinct = distinct case term")
EXTRA_TRUSTED = [
    "the field tuple and MRO __slots__ are read from the real class and given to the model (as in C01); "
    "whether an attrs ancestor has a generated __getstate__ is computed from the generator's own "
    "description of the chain",
    "copy.copy is modelled abstractly for the two transfer paths that occur with the default "
    "getstate_setstate (generated __getstate__/__setstate__ pair; default reduce protocol of a pure "
    "dict chain = shallow __dict__ copy); CPython's copy/copyreg machinery itself is trusted (C10)",
    "the assignments of a history run through the real class __setattr__; the model is given the value "
    "the field holds afterwards (hooks are C05/C06's subject)",
]
EXTRA_TRUSTED += [
    "tie by translation: harness/translate_c12.py (Python ast of evolve / assoc -> Gallina over the combinators of "
    "coq/theories/C12/TieLib.v) and the meaning TieLib.v gives to the Python constructs of its subset (getattr, "
    "object.__setattr__, dict store/membership, for loops, copy.copy = the model's shallow_copy, cls(**kw) = run_init)",
]
ASSUMPTIONS = [
    "no two init fields share an alias (K8); getstate_setstate left at its default; eq/hash per field left "
    "at their defaults, no eq_key",
    "assoc is not run on BaseException subclasses (copy.copy of an exception re-runs the initializer "
    "through BaseException.__reduce__: C10 territory)",
    "user callables are symbolic: they record their arguments and return a fresh term",
    "the property layer makes no claim for originals with an unset field or a stale cached hash",
]



def pre_build():
    # Gen/C12_Funcs.v is regenerated from the current source text (C12/Tie.v depends on it)
    from . import translate_c12
    translate_c12.regenerate()


def translated_tie():
    from . import translate_c12
    return translate_c12.regenerate(), "theories/C12/Tie.vo"


TUPLE_ATTRS = ["__add__", "__class__", "__class_getitem__", "__contains__", "__delattr__", "__dir__",
               "__doc__", "__eq__", "__format__", "__ge__", "__getattribute__", "__getitem__",
               "__getnewargs__", "__getstate__", "__gt__", "__hash__", "__init__", "__init_subclass__",
               "__iter__", "__le__", "__len__", "__lt__", "__mul__", "__ne__", "__new__", "__reduce__",
               "__reduce_ex__", "__repr__", "__rmul__", "__setattr__", "__sizeof__", "__str__",
               "__subclasshook__", "count", "index", "__dict__", "__module__"]
CACHE = "_attrs_cached_hash"
PROBE = "_c12_probe_"

# --------------------------------------------------------------------------------------
# encoders (the original instance is a named constant, every other instance of the class
# is "the instance under construction")


class Enc:
    def __init__(self, cls, orig):
        self.cls, self.orig = cls, orig

    def val(self, v):
        if isinstance(v, (Tok, LTok)):
            return "VTok %d" % v.n            # identity, never equality
        if v is None:
            return "VNone"
        if v is attr.NOTHING:
            return "VNothing"
        if isinstance(v, bool):
            return "VBool %s" % b(v)
        if isinstance(v, g.Dflt):
            return "VDefault %s" % q(v.fld)
        if isinstance(v, Sym):
            return "VApp %s %s" % (q(v.fn), lst(self.val(a) for a in v.args))
        if isinstance(v, attr.Attribute):
            return "VAttr %s" % q(v.name)
        if v is self.orig:
            return 'VApp "<orig>" []'
        if isinstance(v, self.cls):
            return "VSelf"
        return "VApp %s []" % q("<foreign:%s>" % type(v).__name__)

    def pv(self, v):
        s = self.val(v)
        return "(%s)" % s if " " in s else s

    def oval(self, v):
        return "None" if v is UNSET else "(Some %s)" % self.pv(v)

    def state(self, st):
        return lst(pair(q(n), self.oval(v)) for n, v in st)

    def event(self, ev):
        k = ev[0]
        if k == "pre":
            return "(EvPreInit %s %s)" % (lst(self.val(v) for v in ev[1]),
                                          lst(pair(q(n), self.val(v)) for n, v in ev[2]))
        if k == "fac":
            return "(EvFactory %s %s %s)" % (q(ev[1]), q(ev[2]), b(ev[3]))
        if k == "conv":
            return "(EvConverter %s %s %s)" % (q(ev[1]), q(ev[2]), lst(self.val(v) for v in ev[3]))
        if k == "val":
            return "(EvValidator %s %s %s %s)" % (q(ev[1]), q(ev[2]), self.pv(ev[3]), self.state(ev[4]))
        if k == "post":
            return "EvPostInit"
        if k == "hook":
            return "(EvHook %s (HUser %s) %s)" % (q(ev[1]), q(ev[2]), self.pv(ev[3]))
        raise ValueError(ev)

    def trace(self, tr):
        return lst(self.event(e) for e in tr)

    def js(self, v):
        if v is UNSET:
            return "<unset>"
        if v is self.orig:
            return "<orig>"
        if isinstance(v, self.cls):
            return "<self>"
        if isinstance(v, Sym):
            return "%s(%s)" % (v.fn, ", ".join(self.js(a) for a in v.args))
        if isinstance(v, attr.Attribute):
            return "<Attribute %s>" % v.name
        return repr(v)

    def js_state(self, st):
        return [(n, self.js(v)) for n, v in st]

    def js_trace(self, tr):
        out = []
        for ev in tr:
            if ev[0] == "val":
                out.append(["val", ev[1], ev[2], self.js(ev[3]), self.js_state(ev[4])])
            elif ev[0] == "conv":
                out.append(["conv", ev[1], ev[2], [self.js(v) for v in ev[3]]])
            elif ev[0] == "pre":
                out.append(["pre", [self.js(v) for v in ev[1]], [(n, self.js(v)) for n, v in ev[2]]])
            else:
                out.append([x if isinstance(x, (str, bool)) else self.js(x) for x in ev])
        return out


class EqTok(Tok):
    """A value whose == / hash go by `key` while its identity (what the model and the encoding see) is `n`:
    equal-but-distinct objects (equal instances of value classes, True/1/1.0, ...)."""
    __slots__ = ("key",)

    def __init__(self, n, key):
        Tok.__init__(self, n)
        self.key = key

    def __eq__(self, other):
        return isinstance(other, EqTok) and other.key == self.key

    def __ne__(self, other):
        return not self.__eq__(other)

    def __hash__(self):
        return hash(("EqTok", self.key))

    def __repr__(self):
        return "EqTok(%d, key=%d)" % (self.n, self.key)


class LTok(list):
    """A mutable container: every two of them are == (both empty), none is another; unhashable."""

    def __init__(self, n):
        list.__init__(self)
        self.n = n

    def __repr__(self):
        return "LTok(%d)" % self.n


def mkval(d):
    """Value descriptors: n -> opaque token n (== is identity), "N" -> NOTHING, "Z" -> None, "F" -> False,
    ["E", n, key] -> token n that is == to every token with the same key, ["L", n] -> an empty list with identity n."""
    if isinstance(d, (list, tuple)):
        return EqTok(d[1], d[2]) if d[0] == "E" else LTok(d[1])
    if d == "N":
        return attr.NOTHING
    if d == "Z":
        return None
    if d == "F":
        return False
    return Tok(d)


# --------------------------------------------------------------------------------------
# the original


def fields_state(cls, inst):
    return [(a.name, getattr(inst, a.name, UNSET)) for a in attr.fields(cls)]


def raw_fresh(cls, inst):
    """An instance holding inst's current field values with an empty hash cache."""
    f = cls.__new__(cls)
    for a in attr.fields(cls):
        v = getattr(inst, a.name, UNSET)
        if v is not UNSET:
            object.__setattr__(f, a.name, v)
    try:
        object.__setattr__(f, CACHE, None)
    except AttributeError:
        pass
    return f


def hash_probe(cut, x):
    """hash(x) == hash(instance with the same fields, empty cache); None when not applicable."""
    if not cut.spec["cache_hash"]:
        return None
    try:
        return hash(x) == hash(raw_fresh(cut.cls, x))
    except (AttributeError, TypeError):
        return None


def has_pair(cut):
    s = cut.spec
    return bool(s["slots"] or (s["base"] is not None and has_pair(s["base"])))


def inherits_pair(cut):
    base = cut.spec["base"]
    return base is not None and has_pair(base)


class Original:
    """The original instance after construction + history, with everything the case needs."""

    def __init__(self, cut, plan):
        cls = cut.cls
        REC.cls = cls
        REC.reset(None)
        _config._run_validators = True
        self.inst = inst = cls(**{n: mkval(d) for n, d in plan["kw"]})
        self.enc = enc = Enc(cls, inst)
        st0 = fields_state(cls, inst)
        # Tok/Sym/Dflt hash by identity: every value a cached hash may have been computed from stays
        # alive as long as the original, so that no later object can reuse its address (= its hash)
        self.keep = [v for _, v in st0]
        c0 = getattr(inst, CACHE, UNSET)
        if c0 is not UNSET and c0 is not None:
            raise vlib.Infra("hash cache computed right after construction")
        self.state0_t = enc.state(st0 + ([(CACHE, None)] if c0 is None else []))
        steps = []
        for p in plan["hist"]:
            if p[0] == "h":
                try:
                    hash(inst)
                except (AttributeError, TypeError):
                    pass
                steps.append("HHash")
            elif p[0] == "s":
                try:
                    setattr(inst, p[1], mkval(p[2]))
                except Exception:
                    pass
                cur = getattr(inst, p[1], UNSET)
                self.keep.append(cur)
                if cur is not UNSET:
                    steps.append("(HSet %s %s)" % (q(p[1]), enc.pv(cur)))
            elif p[0] == "d":
                try:
                    object.__delattr__(inst, p[1])
                except AttributeError:
                    pass
                steps.append("(HDel %s)" % q(p[1]))
        REC.reset(None)
        self.hist_t = lst(steps)
        self.pre_state = fields_state(cls, inst)
        self.pre_cache = getattr(inst, CACHE, UNSET)
        self.pre_t = "(%s, %s)" % (enc.state(self.pre_state), self.cache_kind(inst))
        self.before_key = self.view_key(inst)
        # property-layer domain facts
        all_set = all(v is not UNSET for _, v in self.pre_state)
        if cut.spec["cache_hash"]:
            try:
                cons = self.pre_cache is not UNSET and (self.pre_cache is None
                                                        or self.pre_cache == hash(raw_fresh(cls, inst)))
            except (AttributeError, TypeError):
                cons = False
        else:
            cons = True
        self.in_domain = all_set and cons

    def cache_kind(self, x):
        c = getattr(x, CACHE, UNSET)
        if c is UNSET:
            return "CaUnset"
        if c is None:
            return "CaNone"
        if self.pre_cache is not UNSET and self.pre_cache is not None and c == self.pre_cache:
            return "CaSame"
        return "CaOther"

    def view_key(self, x):
        return (self.enc.state(fields_state(self.enc.cls, x)), self.cache_kind(x))

    def oview(self):
        k = self.view_key(self.inst)
        if k == self.before_key:
            return "OSame", "same"
        return "(OChanged %s %s)" % k, {"state": self.enc.js_state(fields_state(self.enc.cls, self.inst)),
                                        "cache": k[1]}


def frozen_probe(x):
    try:
        setattr(x, PROBE, 0)
    except FrozenInstanceError:
        return True
    except Exception:
        return False
    return False


# --------------------------------------------------------------------------------------
# runs


def enc_changes(enc, changes):
    return lst(pair(q(n), enc.val(v)) for n, v in changes)


def run_evolve(cut, o, run):
    cls, inst, enc = cut.cls, o.inst, o.enc
    changes = [(n, mkval(d)) for n, d in run["changes"]]
    REC.cls = cls
    REC.reset(run["fault"])
    _config._run_validators = run["von"]
    new = None
    try:
        try:
            new = attr.evolve(inst, **dict(changes))
            out = ("done",)
        except Marker as m:
            out = ("raised", m.idx)
        except TypeError:
            out = ("typeerror",) if not REC.trace else ("other", "TypeError after callbacks")
        except AttributeError:
            out = ("attrerror",) if not REC.trace else ("other", "AttributeError after callbacks")
        except Exception as e:
            out = ("other", type(e).__name__)
    finally:
        _config._run_validators = True
    trace = list(REC.trace)
    REC.reset(None)
    js = {"op": "evolve", "changes": [(n, enc.js(v)) for n, v in changes], "validators_on": run["von"],
          "fault_at": run["fault"], "outcome": out[0], "trace": enc.js_trace(trace)}
    if out[0] == "done":
        st = fields_state(cls, new)
        ck = o.cache_kind(new)
        args_t, args_js = "None", None
        if issubclass(cls, BaseException):
            args_t = "(Some %s)" % lst(enc.val(v) for v in new.args)
            args_js = [enc.js(v) for v in new.args]
        same, fresh = type(new) is type(inst), new is not inst
        ov_t, ov_js = o.oview()
        fz = frozen_probe(new)
        hp = hash_probe(cut, new)
        out_t = "(EoDone %s %s %s %s %s %s %s %s)" % (
            b(same), b(fresh), enc.state(st), ck, args_t, enc.trace(trace), b(fz),
            "None" if hp is None else "(Some %s)" % b(hp))
        js.update(same_class=same, new_object=fresh, state=enc.js_state(st), cache=ck, args=args_js,
                  frozen_probe=fz, hash_like_fresh=hp, original_after=ov_js)
    else:
        ov_t, ov_js = o.oview()
        js["original_after"] = ov_js
        if out[0] == "typeerror":
            out_t = "EoTypeError"
        elif out[0] == "attrerror":
            out_t = "EoAttrError"
        elif out[0] == "raised":
            out_t = "(EoRaised %d %s)" % (out[1], enc.trace(trace))
        else:
            out_t = "(EoOther %s)" % q(out[1])
            js["outcome"] = out[1]
    term = "(REvolve %s %s %s %s %s)" % (
        b(run["von"]), "None" if run["fault"] is None else "(Some %d)" % run["fault"],
        enc_changes(enc, changes), out_t, ov_t)
    return term, js, len(trace), None


def name_kind(cut, names):
    fn = set(cut.field_names)
    bad = [n for n in names if n not in fn]
    if not bad:
        return "none"
    if all(n in ("count", "index") for n in bad):
        return "count/index"
    if all(n in TUPLE_ATTRS for n in bad):
        return "tuple-attribute"
    return "other"


def run_assoc(cut, o, run):
    cls, inst, enc = cut.cls, o.inst, o.enc
    changes = [(n, mkval(d)) for n, d in run["changes"]]
    names = [n for n, _ in changes]
    fnames = cut.field_names
    REC.cls = cls
    REC.reset(None)
    new = None
    try:
        with warnings.catch_warnings():
            warnings.simplefilter("ignore")
            new = attr.assoc(inst, **dict(changes))
        out = "done"
    except AttrsAttributeNotFoundError:
        out = "notfound"
    except AttributeError:
        out = "attrerror"
    except Exception as e:
        out = "other:" + type(e).__name__
    trace = list(REC.trace)
    REC.reset(None)
    js = {"op": "assoc", "changes": [(n, enc.js(v)) for n, v in changes], "outcome": out}
    all_fields = all(n in fnames for n in names)
    failed = []
    if out == "done":
        st = fields_state(cls, new)
        ck = o.cache_kind(new)
        named = [(n, getattr(new, n, UNSET)) for n in names if n not in fnames]
        same, fresh = type(new) is type(inst), new is not inst
        ov_t, ov_js = o.oview()
        fz = frozen_probe(new)
        hp = hash_probe(cut, new)
        out_t = "(AoDone %s %s %s %s %s %s %s %s)" % (
            b(same), b(fresh), enc.state(st), ck, enc.state(named), enc.trace(trace), b(fz),
            "None" if hp is None else "(Some %s)" % b(hp))
        js.update(same_class=same, new_object=fresh, state=enc.js_state(st), cache=ck,
                  named=enc.js_state(named), trace=enc.js_trace(trace), frozen_probe=fz,
                  hash_like_fresh=hp, original_after=ov_js)
        if all_fields:
            ch = dict(changes)
            want = [(n, ch[n] if n in ch else v) for n, v in o.pre_state]
            if not same:
                failed.append("class")
            if not fresh:
                failed.append("identity")
            if enc.state(st) != enc.state(want):
                failed.append("fields")
            if trace:
                failed.append("callbacks")
            if fz != cut.frozen:
                failed.append("frozen")
            if not (hp if hp is not None else not cut.spec["cache_hash"]):
                failed.append("hash")
            if ov_t != "OSame":
                failed.append("original")
        else:
            failed.append("accepted")
    else:
        ov_t, ov_js = o.oview()
        js["original_after"] = ov_js
        out_t = {"notfound": "AoNotFound", "attrerror": "AoAttrError"}.get(out) or "(AoOther %s)" % q(out)
        if all_fields:
            failed.append("raised")
        else:
            if out != "notfound":
                failed.append("wrong-exception")
            if ov_t != "OSame":
                failed.append("original")
    post_ok = (not o.in_domain) or not failed
    term = "(RAssoc %s %s %s %s)" % (enc_changes(enc, changes), out_t, ov_t, b(not post_ok))
    facts = None
    if not post_ok:
        attrs_by_name = {a.name: a for a in attr.fields(cls)}
        part = any((attrs_by_name[n].hash if attrs_by_name[n].hash is not None else bool(attrs_by_name[n].eq))
                   for n in names if n in attrs_by_name)
        facts = {
            "layer": "property", "op": "assoc",
            "dict_class": not (cut.spec["slots"] or inherits_pair(cut)),
            "cache_hash": bool(cut.spec["cache_hash"]),
            "has_dict": hasattr(inst, "__dict__"),
            "hashed_before": o.pre_cache is not UNSET and o.pre_cache is not None,
            "changed_participates": bool(part),
            "unknown_name_kind": name_kind(cut, names),
            "outcome": out.split(":")[0],
            "deviation": "+".join(failed),
        }
        js["postcondition_failed"] = failed
    return term, js, len(trace), facts


# --------------------------------------------------------------------------------------
# case assembly


def warm_bases(cut):
    """evolve / assoc an instance of every ancestor first, base-most first: anything the functions
    remember per class must not leak into a subclass.  Part of every case, so that replays do it too."""
    chain = []
    c = cut.spec["base"]
    while c is not None:
        chain.append(c)
        c = c.spec["base"]
    for c in reversed(chain):
        try:
            REC.cls = c.cls
            REC.reset(None)
            sg = g.signature_of(c.cls)
            x = c.cls(**{n: Tok(0) for n, k, d in sg if not d})
            attr.evolve(x)
            if not issubclass(c.cls, BaseException):
                with warnings.catch_warnings():
                    warnings.simplefilter("ignore")
                    attr.assoc(x)
        except Exception:
            pass
    REC.reset(None)


def assemble(cut, plan, only=None, prop_mode=False):
    """Run every run of the plan on a freshly prepared original.  Returns (model case, property cases)."""
    warm_bases(cut)
    spec_t = g.enc_spec(cut)
    inh = inherits_pair(cut)
    runs_t, seen, props = [], [], []
    first = None
    runs = plan["runs"] if only is None else [plan["runs"][only]]
    for idx, run in enumerate(runs):
        o = Original(cut, plan)
        key = (o.state0_t, o.hist_t, o.pre_t)
        if first is None:
            first = key
        elif key != first:
            raise vlib.Infra("the original is not reproducible: %r vs %r" % (first, key))
        t, js, n, facts = (run_evolve if run["op"] == "evolve" else run_assoc)(cut, o, run)
        runs_t.append(t)
        seen.append(js)
        run["_n"] = n
        if facts is not None or (prop_mode and run["op"] == "assoc"):
            pt = "(K true %s %s %s %s %s [%s])" % (spec_t, b(inh), o.state0_t, o.hist_t, o.pre_t, t)
            pinp = {"chain": describe(cut), "kw": plan["kw"], "hist": plan["hist"],
                    "runs": [{k: v for k, v in run.items() if k != "_n"}], "mode": "property"}
            props.append(Case(pt, pinp, js, sig=facts or {"layer": "property"}, nontrivial=True, key=pt))
    if first is None:
        o = Original(cut, plan)
        first = (o.state0_t, o.hist_t, o.pre_t)
    term = "(K false %s %s %s %s %s %s)" % (spec_t, b(inh), first[0], first[1], first[2], lst(runs_t))
    inp = {"chain": describe(cut), "kw": plan["kw"], "hist": plan["hist"],
           "runs": [{k: v for k, v in r.items() if k != "_n"} for r in runs], "mode": "model"}
    case = Case(term, inp, seen, sig={"layer": "model"}, nontrivial=bool(cut.field_names), key=term)
    return case, props


# --------------------------------------------------------------------------------------
# generation


def build_chain(rng, uidc):
    """As c01.build_chain (only definable classes are kept), with more hash caching and the
    occasional field literally named like a tuple method."""
    depth = rng.choice([1, 1, 1, 2, 2, 3])
    cut, chain = None, []
    for _ in range(depth):
        uidc[0] += 1
        ok = None
        for _attempt in range(20):
            spec = g.gen_class_spec(rng, "%d" % uidc[0], base=cut)
            if rng.random() < 0.3:
                spec["cache_hash"] = True
                spec["exc"] = False
            if rng.random() < 0.07:
                nm = rng.choice(["count", "index"])
                if all(f["name"] != nm for f in spec["fields"]):
                    hooks_ok = not (spec["frozen"] or (cut is not None and cut.frozen))
                    spec["fields"].append(g.gen_field(rng, nm, spec["uid"], hooks_ok))
            c = g.ClassUnderTest(spec)
            if c.def_error and "No mandatory attributes" in c.def_error[1]:
                for f in spec["fields"]:
                    if f["default"] is None and f["init"]:
                        f["kw_only"] = True
                spec.pop("_named_sig", None)
                c = g.ClassUnderTest(spec)
            if c.def_error is None:
                ok = c
                break
        if ok is None:
            break
        chain.append(ok)
        cut = ok
    return chain


def subsets(rng, items, cap):
    n = len(items)
    if 2 ** n <= cap:
        return [list(c) for r in range(n + 1) for c in itertools.combinations(items, r)]
    out = [[], list(items)] + [[x] for x in items]
    seen = {tuple(s) for s in out}
    tries = 0
    while len(out) < cap and tries < 10 * cap:
        tries += 1
        s = tuple(x for x in items if rng.random() < 0.5)
        if s not in seen:
            seen.add(s)
            out.append(list(s))
    return out[:max(cap, 2)]


class Toks:
    """Fresh value descriptors.  Identity is always fresh (a new token number); equality is not: a third of the
    values are == to every other value of their key (two keys), some are empty lists (all == each other; only for
    classes that are never hashed), now and then a falsy constant (None / False)."""

    def __init__(self, rng=None, lists_ok=False):
        self.n = 0
        self.rng = rng
        self.lists_ok = lists_ok

    def __call__(self):
        r = self.rng.random() if self.rng is not None else 1.0
        if r < 0.06:
            return self.rng.choice(["Z", "F"])
        self.n += 1
        if r < 0.36:
            return ["E", self.n, self.rng.randrange(2)]
        if r < 0.46 and self.lists_ok:
            return ["L", self.n]
        return self.n


def plans_for(cut, rng, tier):
    """Yield plans (kw, hist, runs) for one class."""
    cls = cut.cls
    thorough = tier != "quick"
    fl = attr.fields(cls)
    sg = g.signature_of(cls)
    init_aliases = [a.alias for a in fl if a.init]
    names = [a.name for a in fl]
    is_exc = issubclass(cls, BaseException)
    mutable = not cut.frozen
    hists = [[]]
    if cut.spec["cache_hash"]:
        hists.append([("h",)])
    if mutable and names:
        hists.append([("s", rng.choice(names), None)])
        if cut.spec["cache_hash"]:
            hists.append([("h",), ("s", rng.choice(names), None)])
            if thorough or rng.random() < 0.5:
                hists.append([("s", rng.choice(names), None), ("h",)])
    set_init = [a.name for a in fl if a.init]
    if set_init and rng.random() < (0.25 if thorough else 0.15):
        hists.append([("d", rng.choice(set_init))])
    if cut.frozen and names and rng.random() < 0.2:
        hists.append([("s", rng.choice(names), None)])          # assignment fails: no change
    for hi, hist in enumerate(hists):
        tk = Toks(rng, lists_ok=not cut.spec["cache_hash"])
        kw = [(n, tk()) for n, k, d in sg if (not d) or rng.random() < 0.6]
        if kw and rng.random() < 0.05:
            j = rng.randrange(len(kw))
            if dict((n, d) for n, k, d in sg)[kw[j][0]]:
                kw[j] = (kw[j][0], "N")
        hist = [p if p[0] != "s" else ("s", p[1], tk()) for p in hist]
        runs = []
        rich = hi == 0 or thorough
        cap = (16 if len(init_aliases) <= 4 else 16) if thorough else (8 if hi == 0 else 4)
        for s in subsets(rng, init_aliases, cap):
            ch = [(al, tk()) for al in s]
            rng.shuffle(ch)
            runs.append({"op": "evolve", "changes": ch, "von": True, "fault": None})
        if rich:
            priv = [a for a in fl if a.init and a.name != a.alias]
            if priv:
                a = rng.choice(priv)
                runs.append({"op": "evolve", "changes": [(a.name, tk())], "von": True, "fault": None})
                others = [(al, tk()) for al in init_aliases if al != a.alias and rng.random() < 0.5]
                runs.append({"op": "evolve", "changes": others + [(a.name, tk())], "von": True, "fault": None})
            runs.append({"op": "evolve", "changes": [("no_such_name", tk())], "von": True, "fault": None})
            noninit = [a for a in fl if not a.init]
            if noninit:
                a = rng.choice(noninit)
                runs.append({"op": "evolve", "changes": [(a.name, tk())], "von": True, "fault": None})
                if a.alias != a.name:
                    runs.append({"op": "evolve", "changes": [(a.alias, tk())], "von": True, "fault": None})
            if init_aliases:
                s = [al for al in init_aliases if rng.random() < 0.5]
                runs.append({"op": "evolve", "changes": [(al, tk()) for al in s], "von": False, "fault": None})
                al = rng.choice(init_aliases)
                runs.append({"op": "evolve", "changes": [(al, "N")], "von": True, "fault": None})
                s = [al for al in init_aliases if rng.random() < 0.4]
                runs.append({"op": "evolve", "changes": [(al, tk()) for al in s], "von": True, "fault": "pick"})
                runs.append({"op": "evolve", "changes": [], "von": True, "fault": "pick"})
        if not is_exc:
            acap = (8 if thorough else (5 if hi == 0 else 3))
            for s in subsets(rng, names, acap):
                ch = [(n, tk()) for n in s]
                rng.shuffle(ch)
                runs.append({"op": "assoc", "changes": ch})
            if rich or any(p[0] == "h" for p in hist):
                bad = ["no_such_name", "count", "index", "__len__", "__init__", CACHE]
                for nm in (bad if rich else [rng.choice(bad)]):
                    runs.append({"op": "assoc", "changes": [(nm, tk())]})
                if names:
                    n0 = rng.choice(names)
                    nm = rng.choice([x for x in bad if x != n0])
                    runs.append({"op": "assoc", "changes": [(n0, tk()), (nm, tk())]})
                    runs.append({"op": "assoc", "changes": [(nm, tk()), (n0, tk())]})
        yield {"kw": kw, "hist": [list(p) for p in hist], "runs": runs}


def resolve_faults(cut, plan, rng):
    """A 'pick' fault becomes a concrete callback index of the same evolve call without fault
    (dropped when that call runs no callback)."""
    out = []
    for run in plan["runs"]:
        if run.get("fault") == "pick":
            o = Original(cut, plan)
            probe = dict(run, fault=None)
            _, js, n, _ = run_evolve(cut, o, probe)
            if n == 0:
                continue
            run = dict(run, fault=rng.randrange(n))
        out.append(run)
    plan["runs"] = out


_dist = Counter()


def generate(tier, seed):
    rng = random.Random(seed)
    n_chains = 320 if tier == "quick" else 1800
    uidc = [0]
    cases, props = [], []
    _dist.clear()
    for _ in range(n_chains):
        for cut in build_chain(rng, uidc):
            _dist["classes"] += 1
            _dist["slots=%s" % cut.spec["slots"]] += 1
            _dist["frozen=%s" % cut.frozen] += 1
            _dist["cache_hash=%s" % cut.spec["cache_hash"]] += 1
            _dist["exception=%s" % issubclass(cut.cls, BaseException)] += 1
            _dist["fields=%d" % len(cut.field_names)] += 1
            for plan in plans_for(cut, rng, tier):
                try:
                    Original(cut, plan)
                except vlib.Infra:
                    raise
                except Exception as e:       # the generated call does not construct: not this check's subject
                    _dist["skipped_unconstructible:" + type(e).__name__] += 1
                    continue
                resolve_faults(cut, plan, rng)
                # at most 12 runs per case: keeps a shard of 400 cases (one coqc process) below ~1 GB
                for j in range(0, max(1, len(plan["runs"])), 12):
                    part = dict(plan, runs=plan["runs"][j:j + 12])
                    case, ps = assemble(cut, part)
                    cases.append(case)
                    props.extend(ps)
                _dist["history=%s" % ("".join(p[0] for p in plan["hist"]) or "none")] += 1
                for r in plan["runs"]:
                    _dist["runs_" + r["op"]] += 1
    _dist["property_level_cases"] = len(props)
    return cases + props


def distribution(cases):
    return dict(sorted(_dist.items()))


def rebuild(desc):
    base = rebuild(desc["base"]) if desc.get("base") else None
    spec = dict(desc)
    spec["base"] = base
    spec["fields"] = [dict(f) for f in desc["fields"]]
    return g.ClassUnderTest(spec)


def rerun(inp):
    cut = rebuild(inp["chain"])
    if cut.cls is None:
        raise vlib.Infra("the class of the replay is no longer definable: %r" % (cut.def_error,))
    plan = {"kw": [tuple(p) for p in inp["kw"]], "hist": [tuple(p) for p in inp["hist"]],
            "runs": [dict(r, changes=[tuple(c) for c in r["changes"]]) for r in inp["runs"]]}
    case, props = assemble(cut, plan, prop_mode=inp.get("mode") == "property")
    if inp.get("mode") == "property":
        return props[0]
    return case


def corpus():
    import importlib.util, os
    spec = importlib.util.spec_from_file_location("verif_defects", os.path.join(vlib.VERIF, "corpus", "defects.py"))
    m = importlib.util.module_from_spec(spec)
    spec.loader.exec_module(m)
    return [(k, f) for k, f in m.ALL.items() if "_%s_" % PROP in k]


def EXHAUSTIVE(tier):
    return False
