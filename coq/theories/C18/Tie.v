(** * C18 — tie by translation: the [__call__] bodies of the validator classes and the
    constructor functions, regenerated from the CURRENT source text ([Gen/C18_calls.v], written
    by harness/translate_c18.py on every run), coincide on EVERY input with [Model.run] /
    [Model.build] — the functions all property theorems of [Props/C18.v] are stated about.

    A source change that alters the logic of one of these functions makes a lemma below fail to
    compile: a proof-obligation failure of ./check C18.  The proofs are by case analysis /
    list induction with generic tactics (never by comparing text), so rewrites that keep the
    meaning inside the translator's subset still pass. *)
From Coq Require Import List Bool ZArith Lia.
Import ListNotations.
From Attrs Require Import C18.Model C18.Proofs C18.ProofsEq C18.TieLib Gen.C18_calls.

Lemma caught_single c d : caught c [d] = subclass c d.
Proof. unfold caught. cbn. apply orb_false_r. Qed.

Ltac zsplit :=
  repeat match goal with
         | |- context [(?a >? ?b)%Z] => rewrite (Z.gtb_ltb a b)
         | |- context [(?a >=? ?b)%Z] => rewrite (Z.geb_leb a b)
         end;
  repeat match goal with
         | |- context [(?a <? ?b)%Z] => destruct (Z.ltb_spec a b)
         | |- context [(?a <=? ?b)%Z] => destruct (Z.leb_spec a b)
         | |- context [(?a =? ?b)%Z] => destruct (Z.eqb_spec a b)
         end.

Ltac step :=
  match goal with
  | |- context [match ?e with _ => _ end] =>
      lazymatch e with
      | context [match _ with _ => _ end] => fail
      | context [Z.ltb] => fail
      | context [Z.leb] => fail
      | context [Z.gtb] => fail
      | context [Z.geb] => fail
      | context [Z.eqb] => fail
      | _ => destruct e eqn:?
      end
  end.

Ltac open_lib :=
  unfold ctl_result, cbind, ebind, ctry, ev_of_tri, ev_of_len, ev_of_gres, ev_of_result, of_tri,
    call_opt, is_some, max_len_res, min_len_res, absorb_typeerror, fin_res, iter_value in *.

Ltac norm := open_lib; cbn in *; open_lib; cbn in *; rewrite ?caught_single in *.

Ltac crush :=
  norm; repeat (step; norm); zsplit; norm;
  try reflexivity; try congruence; try lia; try assumption.

Lemma tie_fully_translated : c18_fully_translated = true.
Proof. reflexivity. Qed.

Section Tie.
  Variable test : atom -> nat -> tri.
  Variable len : nat -> lenres.
  Notation run := (run test len).

  (** ** Leaves *)
  Lemma tie_instance_of_call : forall t x, t_InstanceOf_call test len t x = run (VInst t) x.
  Proof. intros t [i n its f]. unfold t_InstanceOf_call. crush. Qed.

  Lemma tie_matches_re_call : forall p f x, t_MatchesRe_call test len (f, p) x = run (VRe p f) x.
  Proof. intros p f [i n its fi]. unfold t_MatchesRe_call. crush. Qed.

  Lemma tie_in_call : forall o r x, t_In_call test len o x = run (VIn o r) x.
  Proof. intros o r [i n its f]. unfold t_In_call, absorb_typeerror, caught. crush. Qed.

  Lemma tie_is_callable_call : forall x, t_IsCallable_call test len x = run VCallable x.
  Proof. intros [i n its f]. unfold t_IsCallable_call. crush. Qed.

  Lemma tie_number_call : forall b o x, t_Number_call test len b o x = run (VNum b o) x.
  Proof. intros b o [i n its f]. unfold t_Number_call. crush. Qed.

  Lemma tie_max_len_call : forall n x, t_MaxLength_call test len n x = run (VMaxLen n) x.
  Proof. intros n [i nn its f]. unfold t_MaxLength_call, max_len_res. crush. Qed.

  Lemma tie_min_len_call : forall n x, t_MinLength_call test len n x = run (VMinLen n) x.
  Proof. intros n [i nn its f]. unfold t_MinLength_call, min_len_res. crush. Qed.

  (** ** Combinators: the sub-validators are passed as their own [run]. *)
  Lemma tie_optional_call : forall w x, t_Optional_call test len (run w) x = run (VOpt w) x.
  Proof. intros w [i n its f]. unfold t_Optional_call. crush. Qed.

  Lemma tie_not_call : forall w m e x, t_Not_call test len (run w) e x = run (VNot w m e) x.
  Proof. intros w m e x. unfold t_Not_call. crush. Qed.

  Lemma tie_and_call : forall l vs x, t_And_call test len (map run vs) x = run (VAnd l vs) x.
  Proof.
    intros l vs x. unfold t_And_call. cbn.
    induction vs as [|w vs IH]; [reflexivity|]. cbn in *. destruct (run w x) eqn:E; crush.
  Qed.

  Lemma tie_or_call : forall vs x, t_Or_call test len (map run vs) x = run (VOr vs) x.
  Proof.
    intros vs x. unfold t_Or_call, caught. cbn.
    induction vs as [|w vs IH]; [reflexivity|]. cbn in *. destruct (run w x) eqn:E; crush.
  Qed.

  Lemma tie_deep_iterable_call : forall m it x,
    t_DeepIterable_call test len (run m) (option_map run it) x = run (VDeepIt m it) x.
  Proof.
    intros m it x. unfold t_DeepIterable_call, iter_value, fin_res.
    destruct it as [w|]; cbn; [destruct (run w x) eqn:E; cbn; [|reflexivity]|];
      (induction (items x) as [|[k g] its IH]; [crush | cbn in *; destruct (run m k) eqn:Ek; crush]).
  Qed.

  Lemma tie_deep_mapping_call : forall kv vv mv x,
    t_DeepMapping_call test len (run kv) (run vv) (option_map run mv) x = run (VDeepMap kv vv mv) x.
  Proof.
    intros kv vv mv x. unfold t_DeepMapping_call, iter_value, fin_res.
    destruct mv as [w|]; cbn; [destruct (run w x) eqn:E; cbn; [|reflexivity]|];
      (induction (items x) as [|[k g] its IH];
       [crush
       | cbn in *; destruct (run kv k) eqn:Ek; cbn; [|reflexivity];
         destruct g as [y|c]; cbn; [|reflexivity]; destruct (run vv y) eqn:Ey; crush]).
  Qed.

  (** ** Constructor functions composed with the calls: what the user-facing names mean. *)
  Lemma tie_instance_of : forall t x, t_instance_of test len t x = run (build (SInst t)) x.
  Proof. intros. unfold t_instance_of. apply tie_instance_of_call. Qed.

  Lemma tie_is_callable : forall x, t_is_callable test len x = run (build SCallable) x.
  Proof. intros. unfold t_is_callable. apply tie_is_callable_call. Qed.

  (** The operator table: [lt] uses [operator.lt], … *)
  Lemma tie_lt : forall b x, t_lt test len b x = run (build (SNum OLt b)) x.
  Proof. intros. unfold t_lt. apply tie_number_call. Qed.
  Lemma tie_le : forall b x, t_le test len b x = run (build (SNum OLe b)) x.
  Proof. intros. unfold t_le. apply tie_number_call. Qed.
  Lemma tie_ge : forall b x, t_ge test len b x = run (build (SNum OGe b)) x.
  Proof. intros. unfold t_ge. apply tie_number_call. Qed.
  Lemma tie_gt : forall b x, t_gt test len b x = run (build (SNum OGt b)) x.
  Proof. intros. unfold t_gt. apply tie_number_call. Qed.

  Lemma tie_max_len : forall n x, t_max_len test len n x = run (build (SMaxLen n)) x.
  Proof. intros. unfold t_max_len. apply tie_max_len_call. Qed.
  Lemma tie_min_len : forall n x, t_min_len test len n x = run (build (SMinLen n)) x.
  Proof. intros. unfold t_min_len. apply tie_min_len_call. Qed.
End Tie.

(** [matches_re]: which pattern method [func] selects ([None] and anything else: fullmatch). *)
Lemma tie_matches_re_func : forall func, t_matches_re_func func = func_or_default func.
Proof. intros [[]|]; reflexivity. Qed.

(** [in_]: what is stored as [options] / [_original_options]. *)
Lemma tie_in_ctor : forall p conv,
  VIn (fst (t_in_ p conv)) (snd (t_in_ p conv)) = build (SIn p conv).
Proof. intros p []; reflexivity. Qed.

(** ** Constructors of validator objects out of validator objects *)

(** [and_] / [or_]: stated at the strength the property has — the composed validator behaves as
    "all members in order" / "any member in order" whatever splicing the constructor does, and
    equal member lists give equal validators.  (Whether nested [_AndValidator]s are spliced is not
    observable through either, so a constructor that stops splicing still passes.) *)
Section CtorOutcome.
  Variable test : atom -> nat -> tri.
  Variable len : nat -> lenres.
  Notation run := (run test len).

  Lemma ff_flat_map (x : value) (g : validator -> list validator) :
    (forall v, first_failure (map (fun w => run w x) (g v)) = first_failure [run v x]) ->
    forall vs, first_failure (map (fun w => run w x) (flat_map g vs))
               = first_failure (map (fun w => run w x) vs).
  Proof.
    intros Hg. induction vs as [|v vs IH]; cbn; [reflexivity|].
    rewrite map_app, first_failure_app, IH, Hg. cbn. destruct (run v x); reflexivity.
  Qed.

  Lemma tie_and_ctor_outcome : forall vs x, run (t_and_ vs) x = run (VAnd false vs) x.
  Proof.
    intros vs x. unfold t_and_. rewrite !run_and_ff. apply ff_flat_map.
    intros []; cbn [map first_failure]; try reflexivity;
      try (rewrite run_and_ff; destruct (first_failure _); reflexivity).
  Qed.

  Lemma any_flat_map (x : value) (g : validator -> list validator) :
    (forall v T,
       match any_ok (map (fun w => run w x) (g v)) with
       | Ok => Ok | Raise c => if subclass c EException then T else Raise c end
       = match run v x with
         | Ok => Ok | Raise c => if subclass c EException then T else Raise c end) ->
    forall vs, any_ok (map (fun w => run w x) (flat_map g vs)) = any_ok (map (fun w => run w x) vs).
  Proof.
    intros Hg. induction vs as [|v vs IH]; cbn; [reflexivity|].
    rewrite map_app, any_ok_splice, IH. apply Hg.
  Qed.

  Lemma tie_or_ctor_outcome : forall vs x, run (t_or_ vs) x = run (VOr vs) x.
  Proof.
    intros vs x. unfold t_or_. rewrite !run_or_any. apply any_flat_map.
    intros v T; destruct v; cbn [map any_ok]; rewrite ?run_or_any;
      match goal with
      | |- context [match ?e with Ok => Ok | Raise _ => _ end] =>
          lazymatch e with
          | context [match _ with _ => _ end] => fail
          | _ => destruct e as [|c] eqn:E
          end
      end; try reflexivity;
      destruct (subclass c EException) eqn:S; cbn; rewrite ?S; reflexivity.
  Qed.
End CtorOutcome.

Section CtorEq.
  Variable peq : param -> param -> bool.
  Notation veqP := (veqP peq).

  Lemma tie_and_ctor_eq : forall vs ws, Forall2 veqP vs ws -> veqb peq (t_and_ vs) (t_and_ ws) = true.
  Proof.
    intros vs ws H. unfold t_and_. rewrite veq_and. cbn. apply list_same_Forall2.
    apply (Forall2_flat_map_cong veqP veqP); [|exact H].
    intros v w Hv. unfold ProofsEq.veqP in *.
    destruct v, w; try discriminate Hv;
      first [ rewrite veq_and in Hv; apply andb_true_iff in Hv as [_ Hv];
              apply list_same_Forall2 in Hv; exact Hv
            | constructor; [exact Hv | constructor] ].
  Qed.

  Lemma tie_or_ctor_eq : forall vs ws, Forall2 veqP vs ws -> veqb peq (t_or_ vs) (t_or_ ws) = true.
  Proof.
    intros vs ws H. unfold t_or_. rewrite veq_or. apply list_same_Forall2.
    apply (Forall2_flat_map_cong veqP veqP); [|exact H].
    intros v w Hv. unfold ProofsEq.veqP in *.
    destruct v, w; try discriminate Hv;
      first [ rewrite veq_or in Hv; apply list_same_Forall2 in Hv; exact Hv
            | constructor; [exact Hv | constructor] ].
  Qed.
End CtorEq.

(** [not_] always wraps: the result is a [_NotValidator] around the very validator passed in, with
    the normalised exception classes and the message (or the default template). *)
Lemma tie_not_ctor : forall e m single excs,
  t_not_ (build e) m excs = build (SNot e m single excs).
Proof. intros. reflexivity. Qed.

Lemma tie_not_ctor_any : forall v m excs, t_not_ v m excs = VNot v (msg_param m) excs.
Proof. intros. reflexivity. Qed.

(** What omitted keyword arguments of [not_] mean: no message (the default template) and the
    documented classes [(ValueError, TypeError)]. *)
Lemma tie_not_defaults :
  t_not__default_msg = None /\ t_not__default_exc_types = [EValueError; ETypeError].
Proof. split; reflexivity. Qed.
