(** * C18 — correspondence: the check function evaluated by [coqc] on the validator
    trees / values the harness ran against the real library. *)
From Coq Require Import List Bool ZArith.
Import ListNotations.
From Attrs Require Import Base C18.Model.

(** What the harness saw: [None] returned and the value untouched, an exception of
    a class, or something the property forbids outright ([OBad 1]: a non-[None]
    result, [OBad 2]: the value was altered, [OBad 9]: the constructor call failed). *)
Inductive obs := OOk | ORaise (c : exc) | OBad (k : nat).

Definition to_obs (r : result) : obs := match r with Ok => OOk | Raise c => ORaise c end.

Definition obs_eqb (a b : obs) : bool :=
  match a, b with
  | OOk, OOk => true
  | ORaise c, ORaise d => exc_eqb c d
  | OBad j, OBad k => Nat.eqb j k
  | _, _ => false
  end.

Lemma exc_eqb_spec a b : exc_eqb a b = true <-> a = b.
Proof. destruct a, b; cbn; split; intros H; try reflexivity; discriminate. Qed.

Lemma obs_eqb_spec a b : obs_eqb a b = true <-> a = b.
Proof.
  destruct a as [|c|j], b as [|d|k]; cbn; split; intros H; try reflexivity; try discriminate.
  - apply exc_eqb_spec in H. congruence.
  - inversion H; subst. now apply exc_eqb_spec.
  - apply Nat.eqb_eq in H. congruence.
  - inversion H; subst. apply Nat.eqb_refl.
Qed.

(** ** Oracle tables *)
Definition ttable := list (atom * list (nat * tri)).
Definition ltable := list (nat * lenres).

Fixpoint assoc_nat {A} (i : nat) (l : list (nat * A)) : option A :=
  match l with
  | [] => None
  | (j, a) :: r => if Nat.eqb i j then Some a else assoc_nat i r
  end.

Fixpoint lookup_test (tb : ttable) (a : atom) (i : nat) : tri :=
  match tb with
  | [] => RR EUnknown
  | (b, row) :: r =>
      if atom_eqb a b then match assoc_nat i row with Some t => t | None => RR EUnknown end
      else lookup_test r a i
  end.

Definition lookup_len (lt : ltable) (i : nat) : lenres :=
  match assoc_nat i lt with Some l => l | None => LR EUnknown end.

Fixpoint lookup_peq (tb : list (param * param * bool)) (a b : param) : bool :=
  match tb with
  | [] => false
  | (a', b', r) :: rest =>
      if param_eqb a a' && param_eqb b b' then r else lookup_peq rest a b
  end.

Fixpoint lookup_hashable (tb : list (param * bool)) (a : param) : bool :=
  match tb with
  | [] => false
  | (a', r) :: rest => if param_eqb a a' then r else lookup_hashable rest a
  end.

(** Short forms for the value literals. *)
Definition Va (i : nat) : value := V i false [] (Some ETypeError).   (* not iterable *)
Definition Vn (i : nat) : value := V i true [] (Some ETypeError).    (* None *)
Definition Vu (i : nat) : value := V i false [] (Some EUnknown).     (* members not recorded (never needed) *)

(** ** Cases *)
Inductive case :=
| CR (e : sexpr) (tb : ttable) (lt : ltable) (runs : list (value * obs))
    (* one validator expression, the documented predicates tabulated, and for each
       value what [validator(inst, attr, value)] did *)
| CE (e1 e2 : sexpr) (peqs : list (param * param * bool)) (hs : list (param * bool))
     (seen_eq seen_hash_eq : bool)
    (* the same expression built twice from (possibly distinct) arguments, what [==]
       says about each pair of arguments, which arguments hash, and whether the two
       validators compared equal / both hashed to the same number *)
| CX (tbl : list (exc * exc * bool)).
    (* issubclass over the real exception classes *)

Inductive explain :=
| XR (model : list obs)
| XE (same_parameters model_eq parameters_hashable model_hashable : bool)
| XX (model : list (exc * exc * bool)).

Definition run_case (e : sexpr) (tb : ttable) (lt : ltable) (x : value) : obs :=
  to_obs (run (lookup_test tb) (lookup_len lt) (build e) x).

Definition model_of (c : case) : explain :=
  match c with
  | CR e tb lt runs => XR (map (fun xo => run_case e tb lt (fst xo)) runs)
  | CE e1 e2 pe hs _ _ =>
      XE (same_params (lookup_peq pe) e1 e2)
         (veqb (lookup_peq pe) (build e1) (build e2))
         (params_hashable (lookup_hashable hs) e1 && params_hashable (lookup_hashable hs) e2)
         (vhashable (lookup_hashable hs) (build e1) && vhashable (lookup_hashable hs) (build e2))
  | CX tbl => XX (map (fun t => (fst (fst t), snd (fst t), subclass (fst (fst t)) (snd (fst t)))) tbl)
  end.

Definition check_case (c : case) : bool :=
  match c with
  | CR e tb lt runs => forallb (fun xo => obs_eqb (run_case e tb lt (fst xo)) (snd xo)) runs
  | CE e1 e2 pe hs seen_eq seen_hash =>
      let peq := lookup_peq pe in
      let hb := lookup_hashable hs in
      if same_params peq e1 e2 then
        (* equal parameters: the validators must compare equal, and hash equally when every
           parameter hashes (only what the property states is compared; what the modelled
           __eq__ / __hash__ say is shown by [model_of]) *)
        seen_eq &&
        (if params_hashable hb e1 && params_hashable hb e2 then seen_hash else true)
      else true      (* the property says nothing about unequal parameters *)
  | CX tbl => forallb (fun t => Bool.eqb (subclass (fst (fst t)) (snd (fst t))) (snd t)) tbl
  end.

Lemma check_case_sound_run e tb lt runs :
  check_case (CR e tb lt runs) = true <->
  Forall (fun xo => snd xo = to_obs (run (lookup_test tb) (lookup_len lt) (build e) (fst xo))) runs.
Proof.
  cbn. rewrite forallb_forall, Forall_forall. split; intros H xo Hin.
  - symmetry. apply obs_eqb_spec. now apply H.
  - apply obs_eqb_spec. symmetry. now apply H.
Qed.
