(** * C18 — the correspondence check, read through the main theorem. *)
From Coq Require Import List Bool ZArith.
Import ListNotations.
From Attrs Require Import C18.Model C18.Proofs C18.Corr.

Lemma check_case_sound_l : forall e tb lt runs,
  check_case (CR e tb lt runs) = true ->
  Forall (fun xo => snd xo = to_obs (spec (lookup_test tb) (lookup_len lt) (build e) (fst xo))) runs.
Proof.
  intros e tb lt runs H. apply check_case_sound_run in H.
  eapply Forall_impl; [|exact H]. intros xo Hx. cbn in Hx.
  now rewrite <- validator_compositional_l.
Qed.
