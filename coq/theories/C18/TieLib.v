(** * C18 — target language of the source translation (harness/translate_c18.py).

    The [__call__] bodies of the validator classes are regenerated from the current source
    text into Gallina terms over the combinators below ([Gen/C18_calls.v]); [C18/Tie.v]
    proves the regenerated functions equal to [Model.run] on every input.

    An expression evaluates to a value or raises ([ev]); a statement sequence continues,
    returns, or raises ([ctl]); [for] loops leave at the first [return] / exception;
    iterating a *value* yields its members and may end by raising; [try/except] filters by
    exception class exactly like [Model.caught]. *)
From Coq Require Import List Bool ZArith.
Import ListNotations.
From Attrs Require Import C18.Model.

Inductive ev (A : Type) := EV (a : A) | EX (c : exc).
Arguments EV {A} a.
Arguments EX {A} c.

Inductive ctl := CNext | CRet | CExc (c : exc).

Definition ebind {A B} (e : ev A) (k : A -> ev B) : ev B :=
  match e with EV a => k a | EX c => EX c end.

Definition cbind {A} (e : ev A) (k : A -> ctl) : ctl :=
  match e with EV a => k a | EX c => CExc c end.

(** [try: <e> / except T: handler / else: ok] *)
Definition ctry {A} (e : ev A) (T : list exc) (ok : A -> ctl) (handler : ctl) : ctl :=
  match e with
  | EV a => ok a
  | EX c => if caught c T then handler else CExc c
  end.

Definition ev_of_tri (t : tri) : ev bool :=
  match t with TT => EV true | FF => EV false | RR c => EX c end.
Definition ev_of_len (l : lenres) : ev Z :=
  match l with LN n => EV n | LR c => EX c end.
Definition ev_of_gres (g : gres value) : ev value :=
  match g with GV y => EV y | GE c => EX c end.
Definition ev_of_result (r : result) : ev unit :=
  match r with Ok => EV tt | Raise c => EX c end.

(** [for a in l: body]; [after] is the rest of the function. *)
Fixpoint for_each {A} (body : A -> ctl) (l : list A) (after : ctl) : ctl :=
  match l with
  | [] => after
  | a :: r => match body a with CNext => for_each body r after | other => other end
  end.

(** [for m in value: body] — the iteration itself may end with an exception. *)
Definition iter_value (body : value * gres value -> ctl) (x : value) (after : ctl) : ctl :=
  for_each body (items x) (match fin x with None => after | Some c => CExc c end).

(** Calling an attribute that may be [None]. *)
Definition call_opt (f : option (value -> result)) (x : value) : result :=
  match f with Some g => g x | None => Raise ETypeError end.
Definition is_some {A} (o : option A) : bool := match o with Some _ => true | None => false end.

(** A function body: falling off the end and [return] both give [None]. *)
Definition ctl_result (c : ctl) : result :=
  match c with CExc e => Raise e | _ => Ok end.

(** [func is re.match] etc. for the [func] argument of [matches_re] ([None] allowed). *)
Definition func_is (func : option refunc) (f : refunc) : bool :=
  match func with Some g => refunc_eqb g f | None => false end.
