(** * C18 — shipped validators: executable model.

    Mirrors [attr/validators.py] (every [__call__] of the validator classes, the
    constructor functions [in_], [matches_re], [optional], [deep_iterable], [not_],
    [or_]) and [attr/_make.py] ([_AndValidator.__call__], [and_]).

    Python builtins applied to user data are oracles: [test] answers an atomic
    documented predicate ([isinstance], [in], [operator.lt/le/ge/gt], the chosen
    [re] function, [callable]) on a value identified by its index with
    True / False / raises(class); [len] answers [len(value)].  Values carry what
    the composite validators themselves look at: whether the value [is None], the
    members iteration yields (with what [value[key]] gives for each of them) and
    how the iteration ends.

    Definitions only; proofs are in [C18/Proofs.v]. *)

From Coq Require Import List Bool ZArith.
Import ListNotations.

(** ** Exception classes (a finite slice of the real hierarchy, checked against the
    real classes by the harness at start-up). *)
Inductive exc :=
| EBaseException | EKeyboardInterrupt | EException | ETypeError | ENotCallable
| EValueError | ELookupError | EKeyError | EIndexError | ERuntimeError
| EAttributeError | EUnknown.

Definition exc_eqb (a b : exc) : bool :=
  match a, b with
  | EBaseException, EBaseException | EKeyboardInterrupt, EKeyboardInterrupt
  | EException, EException | ETypeError, ETypeError | ENotCallable, ENotCallable
  | EValueError, EValueError | ELookupError, ELookupError | EKeyError, EKeyError
  | EIndexError, EIndexError | ERuntimeError, ERuntimeError
  | EAttributeError, EAttributeError | EUnknown, EUnknown => true
  | _, _ => false
  end.

(** Direct base class.  [EUnknown] stands for "the oracle table has no entry"; it is
    never produced by the real side and is related to nothing. *)
Definition parent (c : exc) : option exc :=
  match c with
  | EBaseException | EUnknown => None
  | EKeyboardInterrupt | EException => Some EBaseException
  | ETypeError | EValueError | ELookupError | ERuntimeError | EAttributeError => Some EException
  | ENotCallable => Some ETypeError          (* exceptions.py: class NotCallableError(TypeError) *)
  | EKeyError | EIndexError => Some ELookupError
  end.

Fixpoint sub_fuel (n : nat) (c d : exc) : bool :=
  exc_eqb c d ||
  match n with
  | 0 => false
  | S n' => match parent c with None => false | Some p => sub_fuel n' p d end
  end.

(** [issubclass(c, d)] *)
Definition subclass (c d : exc) : bool := sub_fuel 4 c d.

(** [except <tuple of classes>] *)
Definition caught (c : exc) (l : list exc) : bool := existsb (subclass c) l.
Arguments subclass : simpl never.
Arguments caught : simpl never.

(** ** Argument objects: opaque user objects, and the objects the constructors derive. *)
Inductive refunc := Fullmatch | Search | Match.
Inductive cmpop := OLt | OLe | OGe | OGt.

Inductive param :=
| P (i : nat)                    (* a user-supplied object *)
| PT (p : param)                 (* tuple(p) *)
| PC (p : param)                 (* re.compile(regex, flags) *)
| PM (f : refunc) (p : param)    (* the bound method pattern.fullmatch / .search / .match *)
| PDef.                          (* the default message template of not_ *)

Definition refunc_eqb (a b : refunc) : bool :=
  match a, b with Fullmatch, Fullmatch | Search, Search | Match, Match => true | _, _ => false end.
Definition cmpop_eqb (a b : cmpop) : bool :=
  match a, b with OLt, OLt | OLe, OLe | OGe, OGe | OGt, OGt => true | _, _ => false end.

Fixpoint param_eqb (a b : param) : bool :=
  match a, b with
  | P i, P j => Nat.eqb i j
  | PT p, PT q | PC p, PC q => param_eqb p q
  | PM f p, PM g q => refunc_eqb f g && param_eqb p q
  | PDef, PDef => true
  | _, _ => false
  end.

(** ** Atomic tests and their outcomes *)
Inductive atom :=
| AInst (t : param)                  (* isinstance(value, t) *)
| AIn (opts : param)                 (* value in opts *)
| ACmp (o : cmpop) (bound : param)   (* operator.<o>(value, bound), truthiness *)
| ARe (f : refunc) (pat : param)     (* the chosen re function finds a match *)
| ACallable.                         (* callable(value) *)

Definition atom_eqb (a b : atom) : bool :=
  match a, b with
  | AInst p, AInst q | AIn p, AIn q => param_eqb p q
  | ACmp o p, ACmp o' q => cmpop_eqb o o' && param_eqb p q
  | ARe f p, ARe g q => refunc_eqb f g && param_eqb p q
  | ACallable, ACallable => true
  | _, _ => false
  end.

Inductive tri := TT | FF | RR (c : exc).
Inductive lenres := LN (n : Z) | LR (c : exc).

(** ** Values *)
Inductive gres (A : Type) := GV (a : A) | GE (c : exc).
Arguments GV {A} a.
Arguments GE {A} c.

(** [V id isnone items fin]: iterating the value yields the keys of [items] in order
    and then stops ([fin = None]) or raises ([fin = Some c]; a non-iterable has no
    items and [Some ETypeError]); the second component of an item is what
    [value[key]] gives. *)
Inductive value :=
| V (id : nat) (isnone : bool) (items : list (value * gres value)) (fin : option exc).

Definition vid (x : value) : nat := match x with V i _ _ _ => i end.
Definition isnone (x : value) : bool := match x with V _ n _ _ => n end.
Definition items (x : value) : list (value * gres value) := match x with V _ _ l _ => l end.
Definition fin (x : value) : option exc := match x with V _ _ _ f => f end.

(** ** Validator objects (what the constructors return) *)
Inductive validator :=
| VInst (t : param)                                   (* _InstanceOfValidator(type) *)
| VRe (pat : param) (f : refunc)                      (* _MatchesReValidator(pattern, pattern.<f>) *)
| VOpt (v : validator)                                (* _OptionalValidator(validator) *)
| VIn (opts orig : param)                             (* _InValidator(options, _original_options) *)
| VCallable                                           (* _IsCallableValidator() *)
| VDeepIt (m : validator) (it : option validator)     (* _DeepIterable(member, iterable) *)
| VDeepMap (k v : validator) (m : option validator)   (* _DeepMapping(key, value, mapping) *)
| VNum (bound : param) (o : cmpop)                    (* _NumberValidator(bound, "<o>", operator.<o>) *)
| VMaxLen (n : Z)                                     (* _MaxLengthValidator(n) *)
| VMinLen (n : Z)                                     (* _MinLengthValidator(n) *)
| VNot (v : validator) (msg : param) (excs : list exc)(* _NotValidator(validator, msg, exc_types) *)
| VOr (vs : list validator)                           (* _OrValidator(tuple) *)
| VAnd (aslist : bool) (vs : list validator).         (* _AndValidator(tuple, or the caller's list) *)

Inductive result := Ok | Raise (c : exc).

Definition of_tri (t : tri) (doc : exc) : result :=
  match t with TT => Ok | FF => Raise doc | RR c => Raise c end.

(** [try: in_options = value in options / except TypeError: in_options = False] *)
Definition absorb_typeerror (t : tri) : tri :=
  match t with RR c => if subclass c ETypeError then FF else RR c | _ => t end.

Definition fin_res (x : value) : result :=
  match fin x with None => Ok | Some c => Raise c end.

(** [for a in l: f(a)]: the first exception leaves the loop; [tail] is what happens after
    the last member. *)
Definition loop_all {A : Type} (f : A -> result) (tail : result) : list A -> result :=
  fix loop (l : list A) : result :=
    match l with
    | [] => tail
    | a :: r => match f a with Raise c => Raise c | Ok => loop r end
    end.

(** [for v in validators: try: v(..) / except Exception: continue / else: return]
    followed by [raise ValueError]. *)
Definition loop_any {A : Type} (f : A -> result) : list A -> result :=
  fix loop (l : list A) : result :=
    match l with
    | [] => Raise EValueError
    | a :: r =>
        match f a with
        | Ok => Ok
        | Raise c => if subclass c EException then loop r else Raise c
        end
    end.

Section Run.
  Variable test : atom -> nat -> tri.
  Variable len : nat -> lenres.

  (** The validators without sub-validators: "if not <predicate>: raise <documented>". *)
  Definition max_len_res (n : Z) (x : value) : result :=
    match len (vid x) with
    | LR c => Raise c
    | LN l => if (l >? n)%Z then Raise EValueError else Ok      (* if len(value) > self.max_length *)
    end.
  Definition min_len_res (n : Z) (x : value) : result :=
    match len (vid x) with
    | LR c => Raise c
    | LN l => if (l <? n)%Z then Raise EValueError else Ok      (* if len(value) < self.min_length *)
    end.

  (** ** [__call__] of every class, loops and [try]/[except] filters as written.

      [loop_all f tail l]: [for a in l: f(a)] leaving at the first exception, then [tail];
      [loop_any f l]: the loop of [_OrValidator.__call__]. *)
  Fixpoint run (v : validator) (x : value) {struct v} : result :=
    match v with
    | VInst t => of_tri (test (AInst t) (vid x)) ETypeError
    | VRe p f => of_tri (test (ARe f p) (vid x)) EValueError
    | VOpt w => if isnone x then Ok else run w x                 (* if value is None: return *)
    | VIn opts _ => of_tri (absorb_typeerror (test (AIn opts) (vid x))) EValueError
    | VCallable => of_tri (test ACallable (vid x)) ENotCallable
    | VDeepIt m it =>
        match (match it with None => Ok | Some w => run w x end) with
        | Raise c => Raise c
        | Ok =>                                                   (* for member in value: *)
            loop_all (fun kg : value * gres value => run m (fst kg)) (fin_res x) (items x)
        end
    | VDeepMap kv vv mv =>
        match (match mv with None => Ok | Some w => run w x end) with
        | Raise c => Raise c
        | Ok =>                                                   (* for key in value: *)
            loop_all (fun kg : value * gres value =>
                        match run kv (fst kg) with
                        | Raise c => Raise c
                        | Ok =>
                            match snd kg with
                            | GE c => Raise c                     (* value[key] raised *)
                            | GV y => run vv y
                            end
                        end) (fin_res x) (items x)
        end
    | VNum b o => of_tri (test (ACmp o b) (vid x)) EValueError
    | VMaxLen n => max_len_res n x
    | VMinLen n => min_len_res n x
    | VNot w _ excs =>
        match run w x with
        | Ok => Raise EValueError                                (* else: raise ValueError *)
        | Raise c => if caught c excs then Ok else Raise c       (* except self.exc_types: pass *)
        end
    | VOr vs => loop_any (fun w => run w x) vs
    | VAnd _ vs => loop_all (fun w => run w x) Ok vs
    end.

  (** ** The documented predicate, compositionally: the meaning of a composite is a
      function of the meanings of its parts (all of them, no early exit). *)
  Fixpoint first_failure (rs : list result) : result :=
    match rs with [] => Ok | Ok :: r => first_failure r | Raise c :: _ => Raise c end.

  (** "any accepts": failures of class [Exception] are skipped, the first acceptance
      wins, anything that is not an [Exception] ends the search. *)
  Fixpoint any_ok (rs : list result) : result :=
    match rs with
    | [] => Raise EValueError
    | Ok :: _ => Ok
    | Raise c :: r => if subclass c EException then any_ok r else Raise c
    end.

  Definition invert (excs : list exc) (r : result) : result :=
    match r with
    | Ok => Raise EValueError
    | Raise c => if caught c excs then Ok else Raise c
    end.

  Definition opt_res (o : option result) : result := match o with None => Ok | Some r => r end.

  Fixpoint spec (v : validator) (x : value) {struct v} : result :=
    match v with
    | VInst t => of_tri (test (AInst t) (vid x)) ETypeError
    | VRe p f => of_tri (test (ARe f p) (vid x)) EValueError
    | VOpt w => if isnone x then Ok else spec w x
    | VIn opts _ => of_tri (absorb_typeerror (test (AIn opts) (vid x))) EValueError
    | VCallable => of_tri (test ACallable (vid x)) ENotCallable
    | VDeepIt m it =>
        first_failure
          (opt_res (option_map (fun w => spec w x) it)
           :: map (fun kg : value * gres value => spec m (fst kg)) (items x) ++ [fin_res x])
    | VDeepMap kv vv mv =>
        first_failure
          (opt_res (option_map (fun w => spec w x) mv)
           :: flat_map (fun kg : value * gres value =>
                          [spec kv (fst kg);
                           match snd kg with GV y => spec vv y | GE c => Raise c end]) (items x)
           ++ [fin_res x])
    | VNum b o => of_tri (test (ACmp o b) (vid x)) EValueError
    | VMaxLen n => max_len_res n x
    | VMinLen n => min_len_res n x
    | VNot w _ excs => invert excs (spec w x)
    | VOr vs => any_ok (map (fun w => spec w x) vs)
    | VAnd _ vs => first_failure (map (fun w => spec w x) vs)
    end.
End Run.

(** ** The constructor functions *)

(** [and_( *validators)]: members that are [_AndValidator]s are spliced. *)
Definition and_splice (v : validator) : list validator :=
  match v with VAnd _ ws => ws | _ => [v] end.
Definition and_ (vs : list validator) : validator := VAnd false (flat_map and_splice vs).

(** [or_( *validators)] *)
Definition or_splice (v : validator) : list validator :=
  match v with VOr ws => ws | _ => [v] end.
Definition or_ (vs : list validator) : validator := VOr (flat_map or_splice vs).

(** What the user writes. *)
Inductive sexpr :=
| SInst (t : param)                                             (* instance_of(t) *)
| SRe (r : param) (compiled : bool) (f : option refunc)         (* matches_re(r[, flags], func=f) *)
| SOpt (e : sexpr)                                              (* optional(e) *)
| SOptL (aslist : bool) (es : list sexpr)                       (* optional([..]) / optional((..)) *)
| SIn (p : param) (conv : bool)                                 (* in_(p); conv: p is a list, dict or set *)
| SCallable                                                     (* is_callable() *)
| SDeepIt (m : sexpr) (it : option sexpr)                       (* deep_iterable(m, it) *)
| SDeepItL (aslist : bool) (ms : list sexpr) (it : option sexpr)(* deep_iterable([..], it) *)
| SDeepMap (k v : sexpr) (m : option sexpr)                     (* deep_mapping(k, v, m) *)
| SNum (o : cmpop) (b : param)                                  (* lt / le / ge / gt (b) *)
| SMaxLen (n : Z)
| SMinLen (n : Z)
| SNot (e : sexpr) (msg : option param) (single : bool) (excs : list exc)
                                                                (* not_(e, msg=, exc_types= one class | iterable) *)
| SOr (es : list sexpr)                                         (* or_( *es) *)
| SAnd (es : list sexpr).                                       (* and_( *es) *)

Definition msg_param (m : option param) : param := match m with None => PDef | Some p => p end.
Definition func_or_default (f : option refunc) : refunc := match f with None => Fullmatch | Some g => g end.

Fixpoint build (e : sexpr) : validator :=
  match e with
  | SInst t => VInst t
  | SRe r c f => VRe (if c then r else PC r) (func_or_default f)
  | SOpt e' => VOpt (build e')
  | SOptL l es => VOpt (VAnd l (map build es))          (* _AndValidator(validator): no splicing, no tuple() *)
  | SIn p conv => VIn (if conv then PT p else p) p
  | SCallable => VCallable
  | SDeepIt m it => VDeepIt (build m) (option_map build it)
  | SDeepItL _ ms it => VDeepIt (and_ (map build ms)) (option_map build it)
  | SDeepMap k v m => VDeepMap (build k) (build v) (option_map build m)
  | SNum o b => VNum b o
  | SMaxLen n => VMaxLen n
  | SMinLen n => VMinLen n
  | SNot e' m _ excs => VNot (build e') (msg_param m) excs   (* tuple(exc_types) or (exc_types,) *)
  | SOr es => or_ (map build es)
  | SAnd es => and_ (map build es)
  end.

(** ** Equality and hashing of validator objects (the classes' own attrs
    configuration: every class compares all its fields with [==]; every class hashes all
    of them except [_InValidator._original_options] (hash=False)). *)

(** Element-wise comparison of two sequences of the same kind. *)
Definition list_same {A : Type} (f : A -> A -> bool) : list A -> list A -> bool :=
  fix go (l l' : list A) : bool :=
    match l, l' with
    | [], [] => true
    | a :: r, a' :: r' => f a a' && go r r'
    | _, _ => false
    end.

Definition opt_same {A : Type} (f : A -> A -> bool) (a b : option A) : bool :=
  match a, b with None, None => true | Some x, Some y => f x y | _, _ => false end.

Definition opt_all {A : Type} (f : A -> bool) (a : option A) : bool :=
  match a with None => true | Some x => f x end.

Section EqHash.
  Variable peq : param -> param -> bool.       (* a == b *)
  Variable hashable : param -> bool.           (* hash(a) does not raise *)
  Variable ph : param -> Z.                    (* hash(a) *)
  Variable mix : nat -> list Z -> Z.           (* hash of a tuple; first argument tells the class / tuple kind *)

  (** The generated [__eq__]: same class, then field by field. *)
  Fixpoint veqb (a b : validator) {struct a} : bool :=
    match a, b with
    | VInst t, VInst u => peq t u
    | VRe p f, VRe q g => peq p q && peq (PM f p) (PM g q)
    | VOpt v, VOpt w => veqb v w
    | VIn o r, VIn o' r' => peq o o' && peq r r'
    | VCallable, VCallable => true
    | VDeepIt m i, VDeepIt m' i' => veqb m m' && opt_same (fun v w => veqb v w) i i'
    | VDeepMap k v m, VDeepMap k' v' m' =>
        veqb k k' && veqb v v' && opt_same (fun v w => veqb v w) m m'
    | VNum b o, VNum b' o' => peq b b' && cmpop_eqb o o'    (* compare_op / compare_func follow from o *)
    | VMaxLen n, VMaxLen n' | VMinLen n, VMinLen n' => Z.eqb n n'
    | VNot v m e, VNot v' m' e' => veqb v v' && peq m m' && list_same exc_eqb e e'
    | VOr vs, VOr ws => list_same (fun v w => veqb v w) vs ws
    | VAnd l vs, VAnd l' ws =>
        Bool.eqb l l' && list_same (fun v w => veqb v w) vs ws   (* a list never equals a tuple *)
    | _, _ => false
    end.

  (** The generated [__hash__] raises iff a hashed field is unhashable. *)
  Fixpoint vhashable (v : validator) : bool :=
    match v with
    | VInst t => hashable t
    | VRe p f => hashable p && hashable (PM f p)
    | VOpt w => vhashable w
    | VIn o _ => hashable o                                  (* _original_options: hash=False *)
    | VCallable => true
    | VDeepIt m i => vhashable m && opt_all (fun w => vhashable w) i
    | VDeepMap k w m => vhashable k && vhashable w && opt_all (fun u => vhashable u) m
    | VNum b _ => hashable b
    | VMaxLen _ | VMinLen _ => true
    | VNot w m _ => vhashable w && hashable m
    | VOr vs => forallb (fun w => vhashable w) vs
    | VAnd l vs => negb l && forallb (fun w => vhashable w) vs   (* a list is unhashable *)
    end.

  Definition hopt (o : option Z) : Z := match o with None => mix 99 [] | Some h => h end.
  Definition hcmp (o : cmpop) : Z := match o with OLt => 0 | OLe => 1 | OGe => 2 | OGt => 3 end%Z.
  Definition hexc (c : exc) : Z :=
    match c with
    | EBaseException => 0 | EKeyboardInterrupt => 1 | EException => 2 | ETypeError => 3
    | ENotCallable => 4 | EValueError => 5 | ELookupError => 6 | EKeyError => 7
    | EIndexError => 8 | ERuntimeError => 9 | EAttributeError => 10 | EUnknown => 11
    end%Z.

  (** [hash((class salt, field, ...))]; meaningful when [vhashable]. *)
  Fixpoint vhash (v : validator) : Z :=
    match v with
    | VInst t => mix 0 [ph t]
    | VRe p f => mix 1 [ph p; ph (PM f p)]
    | VOpt w => mix 2 [vhash w]
    | VIn o _ => mix 3 [ph o]
    | VCallable => mix 4 []
    | VDeepIt m i => mix 5 [vhash m; hopt (option_map (fun w => vhash w) i)]
    | VDeepMap k w m => mix 6 [vhash k; vhash w; hopt (option_map (fun u => vhash u) m)]
    | VNum b o => mix 7 [ph b; hcmp o]
    | VMaxLen n => mix 8 [n]
    | VMinLen n => mix 9 [n]
    | VNot w m e => mix 10 [vhash w; ph m; mix 98 (map hexc e)]
    | VOr vs => mix 11 [mix 98 (map (fun w => vhash w) vs)]
    | VAnd _ vs => mix 12 [mix 98 (map (fun w => vhash w) vs)]
    end.

  (** "Built from equal parameters": the same call shape with pairwise equal arguments. *)
  Fixpoint same_params (a b : sexpr) {struct a} : bool :=
    match a, b with
    | SInst t, SInst u => peq t u
    | SRe r c f, SRe r' c' f' =>
        peq r r' && Bool.eqb c c' && refunc_eqb (func_or_default f) (func_or_default f')
    | SOpt e, SOpt e' => same_params e e'
    | SOptL l es, SOptL l' es' => Bool.eqb l l' && list_same (fun e e' => same_params e e') es es'
    | SIn p c, SIn p' c' => peq p p' && Bool.eqb c c'
    | SCallable, SCallable => true
    | SDeepIt m i, SDeepIt m' i' =>
        same_params m m' && opt_same (fun e e' => same_params e e') i i'
    | SDeepItL l ms i, SDeepItL l' ms' i' =>
        Bool.eqb l l' && list_same (fun e e' => same_params e e') ms ms'
        && opt_same (fun e e' => same_params e e') i i'
    | SDeepMap k v m, SDeepMap k' v' m' =>
        same_params k k' && same_params v v' && opt_same (fun e e' => same_params e e') m m'
    | SNum o b, SNum o' b' => cmpop_eqb o o' && peq b b'
    | SMaxLen n, SMaxLen n' | SMinLen n, SMinLen n' => Z.eqb n n'
    | SNot e m s x, SNot e' m' s' x' =>
        same_params e e' && peq (msg_param m) (msg_param m') && Bool.eqb s s' && list_same exc_eqb x x'
    | SOr es, SOr es' | SAnd es, SAnd es' => list_same (fun e e' => same_params e e') es es'
    | _, _ => false
    end.

  (** The objects the constructors derive from equal arguments are equal again:
      [tuple(options)] of a list / dict / set, the compiled pattern and its bound method. *)
  Fixpoint derived_same (a b : sexpr) {struct a} : bool :=
    match a, b with
    | SRe r c f, SRe r' c' f' =>
        let p := if c then r else PC r in
        let p' := if c' then r' else PC r' in
        peq p p' && peq (PM (func_or_default f) p) (PM (func_or_default f') p')
    | SIn p c, SIn p' c' => if c then peq (PT p) (PT p') else true
    | SOpt e, SOpt e' | SNot e _ _ _, SNot e' _ _ _ => derived_same e e'
    | SOptL _ es, SOptL _ es' | SOr es, SOr es' | SAnd es, SAnd es' =>
        list_same (fun e e' => derived_same e e') es es'
    | SDeepIt m i, SDeepIt m' i' =>
        derived_same m m' && opt_same (fun e e' => derived_same e e') i i'
    | SDeepItL _ ms i, SDeepItL _ ms' i' =>
        list_same (fun e e' => derived_same e e') ms ms'
        && opt_same (fun e e' => derived_same e e') i i'
    | SDeepMap k v m, SDeepMap k' v' m' =>
        derived_same k k' && derived_same v v' && opt_same (fun e e' => derived_same e e') m m'
    | _, _ => true
    end.

  (** Every argument of every call is hashable (a list argument never is). *)
  Fixpoint params_hashable (a : sexpr) : bool :=
    match a with
    | SInst t => hashable t
    | SRe r _ _ => hashable r
    | SOpt e => params_hashable e
    | SOptL l es => negb l && forallb (fun e => params_hashable e) es
    | SIn p c => hashable p && negb c
    | SCallable => true
    | SDeepIt m i => params_hashable m && opt_all (fun e => params_hashable e) i
    | SDeepItL l ms i =>
        negb l && forallb (fun e => params_hashable e) ms && opt_all (fun e => params_hashable e) i
    | SDeepMap k v m =>
        params_hashable k && params_hashable v && opt_all (fun e => params_hashable e) m
    | SNum _ b => hashable b
    | SMaxLen _ | SMinLen _ => true
    | SNot e m _ _ => params_hashable e && hashable (msg_param m)
    | SOr es | SAnd es => forallb (fun e => params_hashable e) es
    end.
End EqHash.
