(** * C18 — proofs about the validator model. *)

From Coq Require Import List Bool ZArith Lia.
Import ListNotations.
From Attrs Require Import C18.Model.

(** ** A nested induction principle for [validator] (lists and options of children). *)
Section ValidatorInd.
  Variable Q : validator -> Prop.
  Definition Qopt (o : option validator) : Prop := match o with None => True | Some w => Q w end.
  Hypothesis HInst : forall t, Q (VInst t).
  Hypothesis HRe : forall p f, Q (VRe p f).
  Hypothesis HOpt : forall v, Q v -> Q (VOpt v).
  Hypothesis HIn : forall o r, Q (VIn o r).
  Hypothesis HCall : Q VCallable.
  Hypothesis HDeepIt : forall m it, Q m -> Qopt it -> Q (VDeepIt m it).
  Hypothesis HDeepMap : forall k v m, Q k -> Q v -> Qopt m -> Q (VDeepMap k v m).
  Hypothesis HNum : forall b o, Q (VNum b o).
  Hypothesis HMax : forall n, Q (VMaxLen n).
  Hypothesis HMin : forall n, Q (VMinLen n).
  Hypothesis HNot : forall v m e, Q v -> Q (VNot v m e).
  Hypothesis HOr : forall vs, Forall Q vs -> Q (VOr vs).
  Hypothesis HAnd : forall l vs, Forall Q vs -> Q (VAnd l vs).

  Fixpoint validator_ind' (v : validator) : Q v :=
    let go := fix go (l : list validator) : Forall Q l :=
                match l with
                | [] => Forall_nil Q
                | w :: r => Forall_cons w (validator_ind' w) (go r)
                end in
    let goo := fun o : option validator =>
                 match o return Qopt o with None => I | Some w => validator_ind' w end in
    match v with
    | VInst t => HInst t
    | VRe p f => HRe p f
    | VOpt w => HOpt w (validator_ind' w)
    | VIn o r => HIn o r
    | VCallable => HCall
    | VDeepIt m it => HDeepIt m it (validator_ind' m) (goo it)
    | VDeepMap k w m => HDeepMap k w m (validator_ind' k) (validator_ind' w) (goo m)
    | VNum b o => HNum b o
    | VMaxLen n => HMax n
    | VMinLen n => HMin n
    | VNot w m e => HNot w m e (validator_ind' w)
    | VOr vs => HOr vs (go vs)
    | VAnd l vs => HAnd l vs (go vs)
    end.
End ValidatorInd.

(** ** Exception classes *)

Lemma exc_eqb_eq a b : exc_eqb a b = true <-> a = b.
Proof. destruct a, b; cbn; split; intros H; try reflexivity; discriminate. Qed.

Lemma subclass_refl c : subclass c c = true.
Proof. destruct c; reflexivity. Qed.

Lemma subclass_trans a b c : subclass a b = true -> subclass b c = true -> subclass a c = true.
Proof. destruct a, b; cbn; try discriminate; destruct c; cbn; auto. Qed.

(** Everything except [BaseException], [KeyboardInterrupt] (and the table-miss marker) is
    an [Exception]. *)
Lemma subclass_Exception c :
  subclass c EException = false <-> c = EBaseException \/ c = EKeyboardInterrupt \/ c = EUnknown.
Proof.
  destruct c; cbn; split; intros H; try discriminate; auto;
    destruct H as [H | [H | H]]; discriminate.
Qed.

Lemma NotCallable_is_TypeError : subclass ENotCallable ETypeError = true.
Proof. reflexivity. Qed.

(** ** Loops versus their declarative reading *)

Lemma loop_all_first_failure {A} (f : A -> result) tail l :
  loop_all f tail l = first_failure (map f l ++ [tail]).
Proof.
  induction l as [|a r IH]; cbn.
  - destruct tail; reflexivity.
  - destruct (f a); [apply IH | reflexivity].
Qed.

Lemma loop_any_any_ok {A} (f : A -> result) l : loop_any f l = any_ok (map f l).
Proof.
  induction l as [|a r IH]; cbn; [reflexivity|].
  destruct (f a) as [|c]; [reflexivity|]. destruct (subclass c EException); [apply IH | reflexivity].
Qed.

Lemma first_failure_app a b :
  first_failure (a ++ b) = match first_failure a with Ok => first_failure b | Raise c => Raise c end.
Proof. induction a as [|[|c] a IH]; cbn; auto. Qed.

Lemma first_failure_Ok rs : first_failure rs = Ok <-> Forall (fun r => r = Ok) rs.
Proof.
  induction rs as [|[|c] r IH]; cbn; split; intros H; auto; try discriminate.
  - constructor; [reflexivity | now apply IH].
  - inversion H; subst. now apply IH.
  - inversion H as [|? ? H1 ?]; discriminate.
Qed.

Lemma first_failure_Raise rs c :
  first_failure rs = Raise c <->
  exists pre post, rs = pre ++ Raise c :: post /\ Forall (fun r => r = Ok) pre.
Proof.
  induction rs as [|[|d] r IH]; cbn; split.
  - discriminate.
  - intros (pre & post & H & _). destruct pre; discriminate.
  - intros H. apply IH in H as (pre & post & -> & Hp). exists (Ok :: pre), post. split; auto.
  - intros (pre & post & H & Hp). apply IH. destruct pre as [|p pre]; [discriminate|].
    inversion H; subst. inversion Hp; subst. eauto.
  - intros H. inversion H; subst. exists [], r. split; auto.
  - intros (pre & post & H & Hp). destruct pre as [|p pre].
    + inversion H; subst; reflexivity.
    + inversion H; subst. inversion Hp; discriminate.
Qed.

Lemma any_ok_Ok rs :
  any_ok rs = Ok <->
  exists pre post, rs = pre ++ Ok :: post /\
                   Forall (fun r => exists c, r = Raise c /\ subclass c EException = true) pre.
Proof.
  induction rs as [|[|d] r IH]; cbn; split.
  - discriminate.
  - intros (pre & post & H & _). destruct pre; discriminate.
  - intros _. exists [], r. split; auto.
  - reflexivity.
  - destruct (subclass d EException) eqn:E; [|discriminate].
    intros H. apply IH in H as (pre & post & -> & Hp). exists (Raise d :: pre), post. split; eauto.
  - intros (pre & post & H & Hp). destruct pre as [|p pre]; [discriminate|].
    inversion H; subst. inversion Hp as [|? ? (c & Hc & Hs) Hp']; subst. inversion Hc; subst.
    rewrite Hs. apply IH. eauto.
Qed.

(** ** The main theorem: for trees of any depth, running the validator (loops with early
    exit) gives the compositional reading of the documented predicates. *)
Section Compositional.
  Variable test : atom -> nat -> tri.
  Variable len : nat -> lenres.
  Notation run := (run test len).
  Notation spec := (spec test len).

  Theorem validator_compositional_l : forall v x, run v x = spec v x.
  Proof.
    induction v as [t | p f | w IH | o r | | m it IHm IHit | kv vv mv IHk IHv IHm | b o | n | n
                   | w msg e IH | vs IH | l vs IH] using validator_ind'; intros x; cbn [Model.run Model.spec].
    - reflexivity.
    - reflexivity.
    - destruct (isnone x); auto.
    - reflexivity.
    - reflexivity.
    - rewrite loop_all_first_failure.
      assert (E : (match it with None => Ok | Some w => run w x end)
                  = opt_res (option_map (fun w => spec w x) it)).
      { destruct it as [w|]; cbn; [apply IHit | reflexivity]. }
      rewrite E. cbn [first_failure].
      rewrite (map_ext _ (fun kg : value * gres value => spec m (fst kg))) by (intros; apply IHm).
      destruct (opt_res _); reflexivity.
    - rewrite loop_all_first_failure.
      assert (E : (match mv with None => Ok | Some w => run w x end)
                  = opt_res (option_map (fun w => spec w x) mv)).
      { destruct mv as [w|]; cbn; [apply IHm | reflexivity]. }
      rewrite E. cbn [first_failure]. destruct (opt_res _); [|reflexivity].
      generalize (fin_res x). intros tail. induction (items x) as [|[k g] its IHits]; cbn.
      + reflexivity.
      + rewrite IHk. destruct (spec kv k); [|reflexivity].
        destruct g as [y|c]; [|reflexivity]. rewrite IHv. destruct (spec vv y); [|reflexivity].
        apply IHits.
    - reflexivity.
    - reflexivity.
    - reflexivity.
    - rewrite IH. reflexivity.
    - rewrite loop_any_any_ok. f_equal. apply map_ext_in. intros w Hin.
      rewrite Forall_forall in IH. now apply IH.
    - rewrite loop_all_first_failure.
      rewrite (map_ext_in _ (fun w => spec w x)).
      + rewrite first_failure_app. destruct (first_failure _); reflexivity.
      + intros w Hin. rewrite Forall_forall in IH. now apply IH.
  Qed.

  (** ** One law per constructor *)

  (** Leaves: accepted iff the documented predicate holds; the documented exception
      class when it does not; whatever the predicate itself raises otherwise. *)
  Lemma leaf_law_l (t : tri) (doc : exc) :
    (of_tri t doc = Ok <-> t = TT) /\
    (t = FF -> of_tri t doc = Raise doc) /\
    (forall c, t = RR c -> of_tri t doc = Raise c).
  Proof.
    repeat split; try (intros; subst; reflexivity). destruct t; cbn; intros; congruence.
  Qed.

  Lemma instance_of_iff_l t x :
    (run (VInst t) x = Ok <-> test (AInst t) (vid x) = TT) /\
    (test (AInst t) (vid x) = FF -> run (VInst t) x = Raise ETypeError).
  Proof. cbn. destruct (test (AInst t) (vid x)); cbn; repeat split; intros; congruence. Qed.

  Lemma matches_re_iff_l p f x :
    (run (VRe p f) x = Ok <-> test (ARe f p) (vid x) = TT) /\
    (test (ARe f p) (vid x) = FF -> run (VRe p f) x = Raise EValueError).
  Proof. cbn. destruct (test (ARe f p) (vid x)); cbn; repeat split; intros; congruence. Qed.

  Lemma number_iff_l b o x :
    (run (VNum b o) x = Ok <-> test (ACmp o b) (vid x) = TT) /\
    (test (ACmp o b) (vid x) = FF -> run (VNum b o) x = Raise EValueError).
  Proof. cbn. destruct (test (ACmp o b) (vid x)); cbn; repeat split; intros; congruence. Qed.

  Lemma is_callable_iff_l x :
    (run VCallable x = Ok <-> test ACallable (vid x) = TT) /\
    (test ACallable (vid x) = FF -> run VCallable x = Raise ENotCallable).
  Proof. cbn. destruct (test ACallable (vid x)); cbn; repeat split; intros; congruence. Qed.

  Lemma in_iff_l o r x :
    (run (VIn o r) x = Ok <-> test (AIn o) (vid x) = TT) /\
    (test (AIn o) (vid x) = FF -> run (VIn o r) x = Raise EValueError).
  Proof.
    cbn. destruct (test (AIn o) (vid x)) as [| |c]; cbn; repeat split; intros; try congruence.
    destruct (subclass c ETypeError); cbn in *; congruence.
  Qed.

  Lemma in_typeerror_counts_as_absent_l o r x c :
    test (AIn o) (vid x) = RR c ->
    (subclass c ETypeError = true -> run (VIn o r) x = Raise EValueError) /\
    (subclass c ETypeError = false -> run (VIn o r) x = Raise c).
  Proof. intros H. cbn. rewrite H. cbn. split; intros ->; reflexivity. Qed.

  Lemma max_len_iff_l n x :
    (run (VMaxLen n) x = Ok <-> exists l, len (vid x) = LN l /\ (l <= n)%Z) /\
    (forall l, len (vid x) = LN l -> (l > n)%Z -> run (VMaxLen n) x = Raise EValueError) /\
    (forall c, len (vid x) = LR c -> run (VMaxLen n) x = Raise c).
  Proof.
    cbn. unfold max_len_res. destruct (len (vid x)) as [l|c]; (split; [split|split]).
    - destruct (l >? n)%Z eqn:E; [discriminate|]. intros _. exists l. split; [reflexivity | lia].
    - intros (l' & H & Hle). inversion H; subst. destruct (l' >? n)%Z eqn:E; [lia | reflexivity].
    - intros l' H Hgt. inversion H; subst. destruct (l' >? n)%Z eqn:E; [reflexivity | lia].
    - discriminate.
    - discriminate.
    - intros (l & H & _). discriminate.
    - discriminate.
    - intros c' H. inversion H; reflexivity.
  Qed.

  Lemma min_len_iff_l n x :
    (run (VMinLen n) x = Ok <-> exists l, len (vid x) = LN l /\ (l >= n)%Z) /\
    (forall l, len (vid x) = LN l -> (l < n)%Z -> run (VMinLen n) x = Raise EValueError) /\
    (forall c, len (vid x) = LR c -> run (VMinLen n) x = Raise c).
  Proof.
    cbn. unfold min_len_res. destruct (len (vid x)) as [l|c]; (split; [split|split]).
    - destruct (l <? n)%Z eqn:E; [discriminate|]. intros _. exists l. split; [reflexivity | lia].
    - intros (l' & H & Hle). inversion H; subst. destruct (l' <? n)%Z eqn:E; [lia | reflexivity].
    - intros l' H Hgt. inversion H; subst. destruct (l' <? n)%Z eqn:E; [reflexivity | lia].
    - discriminate.
    - discriminate.
    - intros (l & H & _). discriminate.
    - discriminate.
    - intros c' H. inversion H; reflexivity.
  Qed.

  (** optional(v): None, or whatever v says. *)
  Lemma optional_iff_l w x :
    (run (VOpt w) x = Ok <-> isnone x = true \/ run w x = Ok) /\
    (isnone x = false -> run (VOpt w) x = run w x).
  Proof.
    cbn. destruct (isnone x); split.
    - tauto.
    - discriminate.
    - split; auto. intros [H|H]; [discriminate | exact H].
    - reflexivity.
  Qed.

  Lemma run_and_ff l vs x :
    run (VAnd l vs) x = first_failure (map (fun w => run w x) vs).
  Proof.
    cbn. rewrite loop_all_first_failure, first_failure_app.
    destruct (first_failure _); reflexivity.
  Qed.

  (** and_: accepts iff all accept ... *)
  Lemma and_iff_all_l l vs x :
    run (VAnd l vs) x = Ok <-> Forall (fun w => run w x = Ok) vs.
  Proof.
    rewrite run_and_ff, first_failure_Ok, Forall_map. reflexivity.
  Qed.

  (** ... and otherwise the first failure, in order, is what propagates. *)
  Lemma and_first_failure_l l vs x c :
    run (VAnd l vs) x = Raise c <->
    exists pre w post, vs = pre ++ w :: post /\
                       Forall (fun u => run u x = Ok) pre /\ run w x = Raise c.
  Proof.
    rewrite run_and_ff, first_failure_Raise. split.
    - intros (rp & rq & H & Hp).
      apply map_eq_app in H as (pre & rest & -> & <- & H2).
      apply map_eq_cons in H2 as (w & post & -> & Hw & _).
      exists pre, w, post. repeat split; auto. now apply Forall_map in Hp.
    - intros (pre & w & post & -> & Hp & Hw).
      exists (map (fun u => run u x) pre), (map (fun u => run u x) post).
      rewrite map_app; cbn. rewrite Hw. split; [reflexivity | now apply Forall_map].
  Qed.

  Lemma run_or_any vs x : run (VOr vs) x = any_ok (map (fun w => run w x) vs).
  Proof. cbn. apply loop_any_any_ok. Qed.

  (** or_, exactly: accepts iff some member accepts and every earlier member failed with
      an [Exception]. *)
  Lemma or_iff_first_l vs x :
    run (VOr vs) x = Ok <->
    exists pre w post, vs = pre ++ w :: post /\ run w x = Ok /\
      Forall (fun u => exists c, run u x = Raise c /\ subclass c EException = true) pre.
  Proof.
    rewrite run_or_any, any_ok_Ok. split.
    - intros (rp & rq & H & Hp).
      apply map_eq_app in H as (pre & rest & -> & <- & H2).
      apply map_eq_cons in H2 as (w & post & -> & Hw & _).
      exists pre, w, post. split; [reflexivity|]. split; [exact Hw|].
      exact (proj1 (Forall_map (fun u => run u x)
                      (fun r => exists c, r = Raise c /\ subclass c EException = true) pre) Hp).
    - intros (pre & w & post & -> & Hw & Hp).
      exists (map (fun u => run u x) pre), (map (fun u => run u x) post).
      rewrite map_app; cbn. rewrite Hw. split; [reflexivity|].
      exact (proj2 (Forall_map (fun u => run u x)
                      (fun r => exists c, r = Raise c /\ subclass c EException = true) pre) Hp).
  Qed.

  (** or_ iff any: when no member leaves with a non-[Exception] (KeyboardInterrupt …). *)
  Lemma or_iff_any_l vs x :
    (forall w c, In w vs -> run w x = Raise c -> subclass c EException = true) ->
    (run (VOr vs) x = Ok <-> Exists (fun w => run w x = Ok) vs) /\
    (run (VOr vs) x <> Ok -> run (VOr vs) x = Raise EValueError).
  Proof.
    rewrite run_or_any. induction vs as [|w vs IH]; intros Hex; cbn.
    - split; [|reflexivity]. split; [discriminate | intros H; inversion H].
    - destruct (run w x) as [|c] eqn:E.
      + split; [|congruence]. split; auto.
      + rewrite (Hex w c (or_introl eq_refl) E).
        destruct IH as [IH1 IH2]. { intros u d Hin. apply Hex. now right. }
        split; [|exact IH2]. rewrite IH1. split; intros H.
        * now right.
        * inversion H; subst; [congruence | assumption].
  Qed.

  (** or_ catches only [Exception]: anything else raised by a member ends the search, even
      when a later member would accept. *)
  Lemma or_only_catches_Exception_l pre w post x c :
    Forall (fun u => exists d, run u x = Raise d /\ subclass d EException = true) pre ->
    run w x = Raise c -> subclass c EException = false ->
    run (VOr (pre ++ w :: post)) x = Raise c.
  Proof.
    rewrite run_or_any. intros Hp Hw Hc. induction Hp as [|u pre (d & Hd & Hs) _ IH]; cbn.
    - rewrite Hw, Hc. reflexivity.
    - rewrite Hd, Hs. exact IH.
  Qed.

  (** not_: accepts iff the wrapped validator raises a listed class (or a subclass);
      other exceptions propagate; acceptance becomes ValueError. *)
  Lemma not_iff_listed_exception_l w m e x :
    (run (VNot w m e) x = Ok <-> exists c, run w x = Raise c /\ caught c e = true) /\
    (forall c, run w x = Raise c -> caught c e = false -> run (VNot w m e) x = Raise c) /\
    (run w x = Ok -> run (VNot w m e) x = Raise EValueError).
  Proof.
    cbn. destruct (run w x) as [|c]; repeat split.
    - discriminate.
    - intros (c & H & _). discriminate.
    - intros c H. discriminate.
    - destruct (caught c e) eqn:E; [eauto | discriminate].
    - intros (c' & H & Hc). inversion H; subst. rewrite Hc. reflexivity.
    - intros c' H Hc. inversion H; subst. rewrite Hc. reflexivity.
    - discriminate.
  Qed.

  Lemma caught_iff c l : caught c l = true <-> exists d, In d l /\ subclass c d = true.
  Proof. unfold caught. apply existsb_exists. Qed.

  (** deep_iterable: the iterable validator first, then every member in order, and the
      iteration itself must end normally. *)
  Lemma deep_iterable_iff_l m it x :
    run (VDeepIt m it) x = Ok <->
    (match it with None => True | Some w => run w x = Ok end) /\
    Forall (fun kg => run m (fst kg) = Ok) (items x) /\ fin x = None.
  Proof.
    cbn. rewrite loop_all_first_failure.
    destruct (match it with None => Ok | Some w => run w x end) as [|c] eqn:E.
    - rewrite first_failure_Ok, Forall_app, Forall_map.
      assert (Hit : match it with None => True | Some w => run w x = Ok end)
        by (destruct it; auto).
      unfold fin_res. split.
      + intros (H1 & H2). repeat split; auto. inversion H2 as [|? ? H3 _]; subst.
        destruct (fin x); [discriminate | reflexivity].
      + intros (_ & H1 & H2). split; auto. rewrite H2. auto.
    - split; [discriminate|]. intros (H & _). destruct it; [congruence | discriminate].
  Qed.

  Lemma deep_iterable_first_failure_l m it x :
    run (VDeepIt m it) x =
    first_failure ((match it with None => Ok | Some w => run w x end)
                   :: map (fun kg => run m (fst kg)) (items x) ++ [fin_res x]).
  Proof.
    cbn. rewrite loop_all_first_failure. destruct (match it with None => Ok | Some _ => _ end); reflexivity.
  Qed.

  (** deep_mapping: the mapping validator, then for every key in order the key validator
      on the key and the value validator on [value[key]] (which must not raise). *)
  Lemma deep_mapping_iff_l kv vv mv x :
    run (VDeepMap kv vv mv) x = Ok <->
    (match mv with None => True | Some w => run w x = Ok end) /\
    Forall (fun kg => run kv (fst kg) = Ok /\
                      exists y, snd kg = GV y /\ run vv y = Ok) (items x) /\
    fin x = None.
  Proof.
    cbn. rewrite loop_all_first_failure.
    destruct (match mv with None => Ok | Some w => run w x end) as [|c] eqn:E.
    - rewrite first_failure_Ok, Forall_app, Forall_map.
      assert (Hit : match mv with None => True | Some w => run w x = Ok end)
        by (destruct mv; auto).
      unfold fin_res. split.
      + intros (H1 & H2). repeat split; auto.
        * eapply Forall_impl; [|exact H1]. intros [k g] H; cbn in *.
          destruct (run kv k); [|discriminate]. split; [reflexivity|].
          destruct g as [y|d]; [eauto | discriminate].
        * inversion H2 as [|? ? H3 _]; subst. destruct (fin x); [discriminate | reflexivity].
      + intros (_ & H1 & H2). split.
        * eapply Forall_impl; [|exact H1]. intros [k g] (Hk & y & Hg & Hy); cbn in *.
          rewrite Hk, Hg. exact Hy.
        * rewrite H2. auto.
    - split; [discriminate|]. intros (H & _). destruct mv; [congruence | discriminate].
  Qed.

  (** A validator call has no result other than "returned None" or "raised": the model has
      no way to hand back or change the value (purity is structural). *)
  Lemma validator_pure_l v x : run v x = Ok \/ exists c, run v x = Raise c.
  Proof. destruct (run v x); eauto. Qed.

  (** ** Flattening done by the constructors is not observable in the outcome. *)

  Lemma first_failure_flat_and vs x :
    first_failure (map (fun w => run w x) (flat_map and_splice vs))
    = first_failure (map (fun w => run w x) vs).
  Proof.
    induction vs as [|w vs IH]; cbn; [reflexivity|].
    rewrite map_app, first_failure_app, IH.
    destruct w; cbn [and_splice map first_failure];
      try (match goal with |- context [run ?v x] => destruct (run v x) end; reflexivity).
    rewrite run_and_ff. destruct (first_failure _); reflexivity.
  Qed.

  Lemma and_flatten_equiv_l vs x : run (and_ vs) x = run (VAnd false vs) x.
  Proof. unfold and_. rewrite !run_and_ff. apply first_failure_flat_and. Qed.

  Lemma any_ok_app a b :
    any_ok (a ++ b) =
    match any_ok a with
    | Ok => Ok
    | Raise c => if existsb (fun r => match r with
                                      | Raise d => negb (subclass d EException)
                                      | Ok => false end) a
                 then Raise c else any_ok b
    end.
  Proof.
    induction a as [|[|d] a IH]; cbn; [reflexivity | reflexivity |].
    destruct (subclass d EException) eqn:E; cbn; [exact IH | reflexivity].
  Qed.

  (** An [_OrValidator] that fails without a non-[Exception] fails with ValueError, which
      the enclosing loop skips exactly like the members' own failures. *)
  Lemma any_ok_splice rs tail :
    any_ok (rs ++ tail) =
    match any_ok rs with
    | Ok => Ok
    | Raise c => if subclass c EException then any_ok tail else Raise c
    end.
  Proof.
    induction rs as [|[|d] rs IH]; cbn; [reflexivity | reflexivity |].
    destruct (subclass d EException) eqn:E; [exact IH | rewrite E; reflexivity].
  Qed.

  Lemma or_flatten_any vs x :
    any_ok (map (fun w => run w x) (flat_map or_splice vs)) = any_ok (map (fun w => run w x) vs).
  Proof.
    induction vs as [|w vs IH]; cbn; [reflexivity|].
    rewrite map_app, any_ok_splice, IH.
    destruct w; cbn [or_splice map any_ok];
      try (match goal with |- context [run ?v x] => destruct (run v x) as [|c] end;
           [reflexivity | destruct (subclass c EException) eqn:E; cbn; rewrite ?E; reflexivity]).
    rewrite run_or_any. destruct (any_ok _) as [|c]; [reflexivity|].
    destruct (subclass c EException) eqn:E; cbn; rewrite ?E; reflexivity.
  Qed.

  Lemma or_flatten_equiv_l vs x : run (or_ vs) x = run (VOr vs) x.
  Proof. unfold or_. rewrite !run_or_any. apply or_flatten_any. Qed.

  (** The list sugar. *)
  Lemma optional_list_equiv_l l es x :
    run (build (SOptL l es)) x = run (build (SOpt (SAnd es))) x.
  Proof.
    cbn [build].
    change (run (VOpt (VAnd l (map build es))) x)
      with (if isnone x then Ok else run (VAnd l (map build es)) x).
    change (run (VOpt (and_ (map build es))) x)
      with (if isnone x then Ok else run (and_ (map build es)) x).
    destruct (isnone x); [reflexivity|].
    rewrite and_flatten_equiv_l, !run_and_ff. reflexivity.
  Qed.

  Lemma deep_iterable_list_equiv_l l ms it x :
    run (build (SDeepItL l ms it)) x = run (build (SDeepIt (SAnd ms) it)) x.
  Proof. reflexivity. Qed.

  (** not_ normalises its exc_types: one class or an iterable of them give the same object. *)
  Lemma not_exc_types_normalised_l e m c :
    build (SNot e m true [c]) = build (SNot e m false [c]).
  Proof. reflexivity. Qed.

  Lemma matches_re_default_is_fullmatch_l r c :
    build (SRe r c None) = build (SRe r c (Some Fullmatch)).
  Proof. reflexivity. Qed.
End Compositional.

(** ** Non-vacuity: one concrete oracle on which the premises of the laws above hold and
    the interesting branches are taken. *)
Module Examples.
  (* value 0: an int; value 1: an object whose comparison raises KeyboardInterrupt;
     value 2: a mapping {0: 0, 1: <missing>} ; value 3: None *)
  Definition test (a : atom) (i : nat) : tri :=
    match a, i with
    | AInst _, 0 => TT
    | AInst _, _ => FF
    | ACmp _ _, 1 => RR EKeyboardInterrupt
    | ACmp OGt _, 0 => TT
    | ACmp _ _, _ => FF
    | AIn _, 1 => RR ENotCallable            (* a TypeError subclass from the membership test *)
    | AIn _, _ => FF
    | ACallable, _ => FF
    | ARe _ _, _ => RR ETypeError
    end.
  Definition len (i : nat) : lenres := match i with 2 => LN 2 | _ => LR ETypeError end.
  Definition x0 := V 0 false [] (Some ETypeError).
  Definition x1 := V 1 false [] (Some ETypeError).
  Definition x2 := V 2 false [(x0, GV x0); (x1, GE EKeyError)] None.
  Definition x3 := V 3 true [] (Some ETypeError).
  Notation run := (run test len).

  Example or_stops_at_non_Exception :
    run (VOr [VCallable; VNum (P 0) OLt; VInst (P 0)]) x1 = Raise EKeyboardInterrupt
    /\ run (VInst (P 0)) x0 = Ok /\ run (VOr [VCallable; VNum (P 0) OLt; VInst (P 0)]) x0 = Ok.
  Proof. repeat split; reflexivity. Qed.

  Example and_first_failure_in_order :
    run (VAnd false [VInst (P 0); VCallable; VNum (P 0) OLt]) x0 = Raise ENotCallable.
  Proof. reflexivity. Qed.

  Example not_catches_subclasses_only_of_listed :
    run (VNot VCallable PDef [ETypeError]) x0 = Ok                 (* NotCallableError is a TypeError *)
    /\ run (VNot VCallable PDef [EValueError]) x0 = Raise ENotCallable
    /\ run (VNot (VInst (P 0)) PDef [ETypeError]) x0 = Raise EValueError
    /\ run (VNot (VNum (P 0) OLt) PDef [EException]) x1 = Raise EKeyboardInterrupt.
  Proof. repeat split; reflexivity. Qed.

  Example in_absorbs_typeerror_subclass :
    run (VIn (P 0) (P 0)) x1 = Raise EValueError.
  Proof. reflexivity. Qed.

  Example deep_mapping_value_lookup_fails :
    run (VDeepMap (VOr []) VCallable None) x2 = Raise EValueError
    /\ run (VDeepMap (VAnd false []) (VInst (P 0)) None) x2 = Raise EKeyError
    /\ run (VDeepIt (VAnd false []) None) x2 = Ok
    /\ run (VDeepIt (VInst (P 0)) (Some (VMaxLen 2))) x2 = Raise ETypeError
    /\ run (VDeepIt (VInst (P 0)) (Some (VMaxLen 1))) x2 = Raise EValueError.
  Proof. repeat split; reflexivity. Qed.

  Example optional_none : run (VOpt (VOr [])) x3 = Ok /\ run (VOpt (VOr [])) x0 = Raise EValueError.
  Proof. split; reflexivity. Qed.
End Examples.
