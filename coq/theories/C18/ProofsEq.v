(** * C18 — validators built from equal parameters are equal and hash-equal; the
    documented membership reading of [in_]; refutation witnesses for the unguarded
    statements. *)

From Coq Require Import List Bool ZArith Lia.
Import ListNotations.
From Attrs Require Import C18.Model C18.Proofs.

(** ** List / option combinators *)

Lemma list_same_Forall2 {A} (f : A -> A -> bool) : forall l l',
  list_same f l l' = true <-> Forall2 (fun a b => f a b = true) l l'.
Proof.
  induction l as [|a r IH]; destruct l' as [|a' r']; cbn; split; intros H;
    try discriminate; try constructor; try (inversion H; fail).
  - apply andb_true_iff in H. tauto.
  - apply IH. apply andb_true_iff in H. tauto.
  - inversion H; subst. apply andb_true_iff. split; [assumption | now apply IH].
Qed.

Lemma list_same_exc_eq : forall l l', list_same exc_eqb l l' = true -> l = l'.
Proof.
  induction l as [|a r IH]; destruct l' as [|a' r']; cbn; intros H; try discriminate; auto.
  apply andb_true_iff in H as [H1 H2]. apply exc_eqb_eq in H1. f_equal; auto.
Qed.

Lemma Forall2_flat_map_cong {A B} (R : A -> A -> Prop) (S : B -> B -> Prop) (f : A -> list B) :
  (forall a b, R a b -> Forall2 S (f a) (f b)) ->
  forall l l', Forall2 R l l' -> Forall2 S (flat_map f l) (flat_map f l').
Proof.
  intros Hf l l' H. induction H as [|a b l l' Hab _ IH]; cbn; [constructor|].
  apply Forall2_app; auto.
Qed.

(** ** A nested induction principle for [sexpr]. *)
Section SexprInd.
  Variable Q : sexpr -> Prop.
  Definition Qo (o : option sexpr) : Prop := match o with None => True | Some w => Q w end.
  Hypothesis HInst : forall t, Q (SInst t).
  Hypothesis HRe : forall r c f, Q (SRe r c f).
  Hypothesis HOpt : forall e, Q e -> Q (SOpt e).
  Hypothesis HOptL : forall l es, Forall Q es -> Q (SOptL l es).
  Hypothesis HIn : forall p c, Q (SIn p c).
  Hypothesis HCall : Q SCallable.
  Hypothesis HDeepIt : forall m it, Q m -> Qo it -> Q (SDeepIt m it).
  Hypothesis HDeepItL : forall l ms it, Forall Q ms -> Qo it -> Q (SDeepItL l ms it).
  Hypothesis HDeepMap : forall k v m, Q k -> Q v -> Qo m -> Q (SDeepMap k v m).
  Hypothesis HNum : forall o b, Q (SNum o b).
  Hypothesis HMax : forall n, Q (SMaxLen n).
  Hypothesis HMin : forall n, Q (SMinLen n).
  Hypothesis HNot : forall e m s x, Q e -> Q (SNot e m s x).
  Hypothesis HOr : forall es, Forall Q es -> Q (SOr es).
  Hypothesis HAnd : forall es, Forall Q es -> Q (SAnd es).

  Fixpoint sexpr_ind' (e : sexpr) : Q e :=
    let go := fix go (l : list sexpr) : Forall Q l :=
                match l with
                | [] => Forall_nil Q
                | w :: r => Forall_cons w (sexpr_ind' w) (go r)
                end in
    let goo := fun o : option sexpr =>
                 match o return Qo o with None => I | Some w => sexpr_ind' w end in
    match e with
    | SInst t => HInst t
    | SRe r c f => HRe r c f
    | SOpt e' => HOpt e' (sexpr_ind' e')
    | SOptL l es => HOptL l es (go es)
    | SIn p c => HIn p c
    | SCallable => HCall
    | SDeepIt m it => HDeepIt m it (sexpr_ind' m) (goo it)
    | SDeepItL l ms it => HDeepItL l ms it (go ms) (goo it)
    | SDeepMap k v m => HDeepMap k v m (sexpr_ind' k) (sexpr_ind' v) (goo m)
    | SNum o b => HNum o b
    | SMaxLen n => HMax n
    | SMinLen n => HMin n
    | SNot e' m s x => HNot e' m s x (sexpr_ind' e')
    | SOr es => HOr es (go es)
    | SAnd es => HAnd es (go es)
    end.
End SexprInd.

Section EqHashProofs.
  Variable peq : param -> param -> bool.
  Variable hashable : param -> bool.
  Variable ph : param -> Z.
  Variable mix : nat -> list Z -> Z.
  Notation veq := (veqb peq).
  Notation same := (same_params peq).
  Notation derived := (derived_same peq).
  Notation vh := (vhashable hashable).
  Notation hash := (vhash ph mix).
  Definition veqP (a b : validator) : Prop := veqb peq a b = true.

  Lemma veq_or v w : veq (VOr v) (VOr w) = list_same (fun a b => veq a b) v w.
  Proof. reflexivity. Qed.
  Lemma veq_and l v l' w :
    veq (VAnd l v) (VAnd l' w) = Bool.eqb l l' && list_same (fun a b => veq a b) v w.
  Proof. reflexivity. Qed.

  Lemma veq_deepit m i m' i' :
    veq (VDeepIt m i) (VDeepIt m' i') = veq m m' && opt_same (fun a b => veq a b) i i'.
  Proof. reflexivity. Qed.
  Lemma veq_deepmap k v m k' v' m' :
    veq (VDeepMap k v m) (VDeepMap k' v' m')
    = veq k k' && veq v v' && opt_same (fun a b => veq a b) m m'.
  Proof. reflexivity. Qed.

  (** Splicing respects equality: equal members contribute pairwise equal sequences. *)
  Lemma or_splice_cong v w : veqP v w -> Forall2 veqP (or_splice v) (or_splice w).
  Proof.
    unfold veqP. intros H.
    destruct v, w; try discriminate H; cbn [or_splice];
      try (constructor; [exact H | constructor]).
    rewrite veq_or in H. now apply list_same_Forall2 in H.
  Qed.

  Lemma and_splice_cong v w : veqP v w -> Forall2 veqP (and_splice v) (and_splice w).
  Proof.
    unfold veqP. intros H.
    destruct v, w; try discriminate H; cbn [and_splice];
      try (constructor; [exact H | constructor]).
    rewrite veq_and in H. apply andb_true_iff in H as [_ H]. now apply list_same_Forall2 in H.
  Qed.

  Lemma or_cong vs ws : Forall2 veqP vs ws -> veq (or_ vs) (or_ ws) = true.
  Proof.
    intros H. unfold or_. rewrite veq_or. apply list_same_Forall2.
    apply (Forall2_flat_map_cong veqP veqP); auto using or_splice_cong.
  Qed.

  Lemma and_cong vs ws : Forall2 veqP vs ws -> veq (and_ vs) (and_ ws) = true.
  Proof.
    intros H. unfold and_. rewrite veq_and. cbn. apply list_same_Forall2.
    apply (Forall2_flat_map_cong veqP veqP); auto using and_splice_cong.
  Qed.

  Definition cong_at (e : sexpr) : Prop :=
    forall e2, same e e2 = true -> derived e e2 = true -> veq (build e) (build e2) = true.

  Lemma build_list_cong es : Forall cong_at es -> forall es',
    list_same (fun a b => same a b) es es' = true ->
    list_same (fun a b => derived a b) es es' = true ->
    Forall2 veqP (map build es) (map build es').
  Proof.
    induction 1 as [|e es He _ IH]; intros [|e' es'] Hs Hd; cbn in *; try discriminate.
    - constructor.
    - apply andb_true_iff in Hs as [Hs1 Hs2]. apply andb_true_iff in Hd as [Hd1 Hd2].
      constructor; [apply He; assumption | apply IH; assumption].
  Qed.

  Lemma build_opt_cong (o o' : option sexpr) :
    Qo cong_at o ->
    opt_same (fun a b => same a b) o o' = true ->
    opt_same (fun a b => derived a b) o o' = true ->
    opt_same (fun a b => veq a b) (option_map build o) (option_map build o') = true.
  Proof.
    destruct o as [e|], o' as [e'|]; cbn; intros H Hs Hd; try discriminate; auto.
  Qed.

  (** Validators built from equal parameters are equal — provided the objects the
      constructors derive from those parameters are equal again. *)
  Theorem equal_params_equal_l : forall e1 e2,
    same e1 e2 = true -> derived e1 e2 = true -> veq (build e1) (build e2) = true.
  Proof.
    intros e1. change (cong_at e1).
    induction e1 as [t | r c f | e IH | l es IH | p c | | m it IHm IHit | l ms it IHms IHit
                    | k v m IHk IHv IHm | o b | n | n | e m s x IH | es IH | es IH]
      using sexpr_ind'; intros e2 Hs Hd; destruct e2; try discriminate Hs;
      cbn [same_params derived_same] in Hs, Hd; cbn [build].
    - exact Hs.
    - exact Hd.
    - apply IH; assumption.
    - apply andb_true_iff in Hs as [Hl Hs].
      change (veq (VAnd l (map build es)) (VAnd aslist (map build es0)) = true).
      rewrite veq_and, Hl. cbn. apply list_same_Forall2. now apply build_list_cong.
    - apply andb_true_iff in Hs as [Hp Hc]. apply Bool.eqb_prop in Hc. subst conv.
      cbn. rewrite Hp, andb_true_r. destruct c; [exact Hd | exact Hp].
    - reflexivity.
    - apply andb_true_iff in Hs as [Hs1 Hs2]. apply andb_true_iff in Hd as [Hd1 Hd2].
      rewrite veq_deepit, (IHm _ Hs1 Hd1). cbn [andb]. now apply build_opt_cong.
    - apply andb_true_iff in Hs as [Hs Hs3]. apply andb_true_iff in Hs as [_ Hs2].
      apply andb_true_iff in Hd as [Hd2 Hd3].
      rewrite veq_deepit, and_cong by now apply build_list_cong. cbn [andb].
      now apply build_opt_cong.
    - apply andb_true_iff in Hs as [Hs Hs3]. apply andb_true_iff in Hs as [Hs1 Hs2].
      apply andb_true_iff in Hd as [Hd Hd3]. apply andb_true_iff in Hd as [Hd1 Hd2].
      rewrite veq_deepmap, (IHk _ Hs1 Hd1), (IHv _ Hs2 Hd2). cbn [andb]. now apply build_opt_cong.
    - cbn. rewrite andb_comm. exact Hs.
    - exact Hs.
    - exact Hs.
    - apply andb_true_iff in Hs as [Hs Hx]. apply andb_true_iff in Hs as [Hs _].
      apply andb_true_iff in Hs as [Hs Hm].
      cbn. rewrite (IH _ Hs Hd), Hm, Hx. reflexivity.
    - apply or_cong. now apply build_list_cong.
    - apply and_cong. now apply build_list_cong.
  Qed.

  (** The derived objects are equal whenever [tuple()], [re.compile] and the bound methods
      respect equality (true for lists and for patterns served from the [re] cache). *)
  Lemma derived_of_congruence :
    (forall p q, peq p q = true -> peq (PT p) (PT q) = true) ->
    (forall p q, peq p q = true -> peq (PC p) (PC q) = true) ->
    (forall f p q, peq p q = true -> peq (PM f p) (PM f q) = true) ->
    forall e1 e2, same e1 e2 = true -> derived e1 e2 = true.
  Proof.
    intros HT HC HM e1.
    induction e1 as [t | r c f | e IH | l es IH | p c | | m it IHm IHit | l ms it IHms IHit
                    | k v m IHk IHv IHm | o b | n | n | e m s x IH | es IH | es IH]
      using sexpr_ind'; intros e2 Hs; destruct e2; try discriminate Hs;
      cbn [same_params derived_same] in *; try reflexivity.
    - apply andb_true_iff in Hs as [Hs Hf]. apply andb_true_iff in Hs as [Hr Hc].
      apply Bool.eqb_prop in Hc. subst compiled.
      assert (Ef : func_or_default f = func_or_default f0).
      { destruct (func_or_default f), (func_or_default f0); try discriminate; reflexivity. }
      rewrite <- Ef. destruct c; cbn; apply andb_true_iff; auto.
    - auto.
    - apply andb_true_iff in Hs as [_ Hs]. revert es0 Hs.
      induction IH as [|e es He _ IHes]; intros [|e' es'] Hs; cbn in *; try discriminate; auto.
      apply andb_true_iff in Hs as [H1 H2]. rewrite (He _ H1). cbn. auto.
    - apply andb_true_iff in Hs as [Hp Hc]. destruct c; auto.
    - apply andb_true_iff in Hs as [Hs1 Hs2]. rewrite (IHm _ Hs1). cbn.
      destruct it as [w|], it0 as [w'|]; cbn in *; try discriminate; auto.
    - apply andb_true_iff in Hs as [Hs Hs3]. apply andb_true_iff in Hs as [_ Hs2].
      apply andb_true_iff. split.
      + revert ms0 Hs2.
        induction IHms as [|e es He _ IHes]; intros [|e' es'] Hs; cbn in *; try discriminate; auto.
        apply andb_true_iff in Hs as [H1 H2]. rewrite (He _ H1). cbn. auto.
      + destruct it as [w|], it0 as [w'|]; cbn in *; try discriminate; auto.
    - apply andb_true_iff in Hs as [Hs Hs3]. apply andb_true_iff in Hs as [Hs1 Hs2].
      rewrite (IHk _ Hs1), (IHv _ Hs2). cbn.
      destruct m as [w|], m0 as [w'|]; cbn in *; try discriminate; auto.
    - apply andb_true_iff in Hs as [Hs _]. apply andb_true_iff in Hs as [Hs _].
      apply andb_true_iff in Hs as [Hs _]. auto.
    - revert es0 Hs.
      induction IH as [|e es He _ IHes]; intros [|e' es'] Hs; cbn in *; try discriminate; auto.
      apply andb_true_iff in Hs as [H1 H2]. rewrite (He _ H1). cbn. auto.
    - revert es0 Hs.
      induction IH as [|e es He _ IHes]; intros [|e' es'] Hs; cbn in *; try discriminate; auto.
      apply andb_true_iff in Hs as [H1 H2]. rewrite (He _ H1). cbn. auto.
  Qed.

  (** ** Hashing *)

  Lemma forallb_flat_and vs :
    forallb (fun w => vh w) vs = true -> forallb (fun w => vh w) (flat_map and_splice vs) = true.
  Proof.
    induction vs as [|w vs IH]; cbn; [auto|]. intros H. apply andb_true_iff in H as [Hw Hvs].
    rewrite forallb_app, (IH Hvs), andb_true_r.
    destruct w; cbn [and_splice forallb]; try (rewrite Hw; reflexivity).
    cbn in Hw. apply andb_true_iff in Hw as [_ Hw]. exact Hw.
  Qed.

  Lemma forallb_flat_or vs :
    forallb (fun w => vh w) vs = true -> forallb (fun w => vh w) (flat_map or_splice vs) = true.
  Proof.
    induction vs as [|w vs IH]; cbn; [auto|]. intros H. apply andb_true_iff in H as [Hw Hvs].
    rewrite forallb_app, (IH Hvs), andb_true_r.
    destruct w; cbn [or_splice forallb]; try (rewrite Hw; reflexivity). exact Hw.
  Qed.

  (** Hashable arguments give a hashable validator (compiled patterns, their bound
      methods and the default message are hashable objects). *)
  Theorem hashable_params_hashable_l :
    (forall p, hashable (PC p) = true) -> (forall f p, hashable (PM f p) = true) ->
    hashable PDef = true ->
    forall e, params_hashable hashable e = true -> vh (build e) = true.
  Proof.
    intros HC HM HD e.
    induction e as [t | r c f | e IH | l es IH | p c | | m it IHm IHit | l ms it IHms IHit
                   | k v m IHk IHv IHm | o b | n | n | e m s x IH | es IH | es IH]
      using sexpr_ind'; cbn [params_hashable build]; intros H.
    - exact H.
    - cbn. rewrite HM, andb_true_r. destruct c; auto.
    - apply IH, H.
    - apply andb_true_iff in H as [Hl H]. cbn. rewrite Hl. cbn.
      rewrite forallb_forall in *. intros w Hin. apply in_map_iff in Hin as (e & <- & Hin).
      rewrite Forall_forall in IH. auto.
    - apply andb_true_iff in H as [Hp Hc]. destruct c; [discriminate | exact Hp].
    - reflexivity.
    - apply andb_true_iff in H as [H1 H2]. cbn. rewrite (IHm H1). cbn.
      destruct it as [w|]; cbn in *; auto.
    - apply andb_true_iff in H as [H H3]. apply andb_true_iff in H as [_ H2].
      cbn. apply andb_true_iff. split.
      + apply forallb_flat_and. rewrite forallb_forall in *. intros w Hin.
        apply in_map_iff in Hin as (e & <- & Hin). rewrite Forall_forall in IHms. auto.
      + destruct it as [w|]; cbn in *; auto.
    - apply andb_true_iff in H as [H H3]. apply andb_true_iff in H as [H1 H2].
      cbn. rewrite (IHk H1), (IHv H2). cbn. destruct m as [w|]; cbn in *; auto.
    - exact H.
    - reflexivity.
    - reflexivity.
    - apply andb_true_iff in H as [H1 H2]. cbn. rewrite (IH H1). cbn.
      destruct m; cbn in *; auto.
    - cbn. apply forallb_flat_or. rewrite forallb_forall in *. intros w Hin.
      apply in_map_iff in Hin as (e & <- & Hin). rewrite Forall_forall in IH. auto.
    - cbn. apply forallb_flat_and. rewrite forallb_forall in *. intros w Hin.
      apply in_map_iff in Hin as (e & <- & Hin). rewrite Forall_forall in IH. auto.
  Qed.

  (** The generated [__hash__] is consistent with the generated [__eq__]. *)
  Hypothesis Hph : forall a b, peq a b = true -> hashable a = true -> hashable b = true -> ph a = ph b.

  Definition hash_at (v : validator) : Prop :=
    forall w, veq v w = true -> vh v = true -> vh w = true -> hash v = hash w.

  Lemma hash_list vs : Forall hash_at vs -> forall ws,
    list_same (fun a b => veq a b) vs ws = true ->
    forallb (fun w => vh w) vs = true -> forallb (fun w => vh w) ws = true ->
    map (fun w => hash w) vs = map (fun w => hash w) ws.
  Proof.
    induction 1 as [|v vs Hv _ IH]; intros [|w ws] He H1 H2; cbn in *; try discriminate; auto.
    apply andb_true_iff in He as [He1 He2]. apply andb_true_iff in H1 as [H11 H12].
    apply andb_true_iff in H2 as [H21 H22]. f_equal; auto.
  Qed.

  Lemma hash_opt (o o' : option validator) :
    Qopt hash_at o -> opt_same (fun a b => veq a b) o o' = true ->
    opt_all (fun w => vh w) o = true -> opt_all (fun w => vh w) o' = true ->
    option_map (fun w => hash w) o = option_map (fun w => hash w) o'.
  Proof.
    destruct o as [v|], o' as [w|]; cbn; intros H He H1 H2; try discriminate; auto.
    f_equal. auto.
  Qed.

  Theorem eq_implies_hash_eq_l : forall v w,
    veq v w = true -> vh v = true -> vh w = true -> hash v = hash w.
  Proof.
    intros v. change (hash_at v).
    induction v as [t | p f | v IH | o r | | m it IHm IHit | kv vv mv IHk IHv IHm | b o | n | n
                   | v msg e IH | vs IH | l vs IH] using validator_ind';
      intros w He H1 H2; destruct w; try discriminate He; cbn [veqb vhashable vhash] in *.
    - f_equal. f_equal. auto.
    - apply andb_true_iff in He as [He1 He2]. apply andb_true_iff in H1 as [H11 H12].
      apply andb_true_iff in H2 as [H21 H22]. f_equal. f_equal; [|f_equal]; auto.
    - f_equal. f_equal. auto.
    - apply andb_true_iff in He as [He1 _]. f_equal. f_equal. auto.
    - reflexivity.
    - apply andb_true_iff in He as [He1 He2]. apply andb_true_iff in H1 as [H11 H12].
      apply andb_true_iff in H2 as [H21 H22].
      rewrite (IHm _ He1 H11 H21), (hash_opt _ _ IHit He2 H12 H22). reflexivity.
    - apply andb_true_iff in He as [He He3]. apply andb_true_iff in He as [He1 He2].
      apply andb_true_iff in H1 as [H1 H13]. apply andb_true_iff in H1 as [H11 H12].
      apply andb_true_iff in H2 as [H2 H23]. apply andb_true_iff in H2 as [H21 H22].
      rewrite (IHk _ He1 H11 H21), (IHv _ He2 H12 H22), (hash_opt _ _ IHm He3 H13 H23).
      reflexivity.
    - apply andb_true_iff in He as [He1 He2].
      assert (o = o0) by (destruct o, o0; try discriminate; reflexivity). subst.
      f_equal. f_equal. auto.
    - apply Z.eqb_eq in He. subst. reflexivity.
    - apply Z.eqb_eq in He. subst. reflexivity.
    - apply andb_true_iff in He as [He He3]. apply andb_true_iff in He as [He1 He2].
      apply andb_true_iff in H1 as [H11 H12]. apply andb_true_iff in H2 as [H21 H22].
      apply list_same_exc_eq in He3. subst.
      rewrite (IH _ He1 H11 H21), (Hph _ _ He2 H12 H22). reflexivity.
    - rewrite (hash_list _ IH _ He H1 H2). reflexivity.
    - apply andb_true_iff in He as [_ He]. apply andb_true_iff in H1 as [_ H1].
      apply andb_true_iff in H2 as [_ H2]. rewrite (hash_list _ IH _ He H1 H2). reflexivity.
  Qed.
End EqHashProofs.

(** The property's last sentence, assembled: equal parameters give equal validators and,
    when the parameters are hashable, both validators hash and hash equally. *)
Theorem validators_eq_hash_l :
  forall (peq : param -> param -> bool) (hashable : param -> bool) (ph : param -> Z)
         (mix : nat -> list Z -> Z),
  (forall a b, peq a b = true -> hashable a = true -> hashable b = true -> ph a = ph b) ->
  (forall p, hashable (PC p) = true) -> (forall f p, hashable (PM f p) = true) ->
  hashable PDef = true ->
  forall e1 e2,
    same_params peq e1 e2 = true -> derived_same peq e1 e2 = true ->
    veqb peq (build e1) (build e2) = true /\
    (params_hashable hashable e1 = true -> params_hashable hashable e2 = true ->
     vhashable hashable (build e1) = true /\ vhashable hashable (build e2) = true /\
     vhash ph mix (build e1) = vhash ph mix (build e2)).
Proof.
  intros peq hashable ph mix Hph HC HM HD e1 e2 Hs Hd.
  pose proof (equal_params_equal_l peq e1 e2 Hs Hd) as He.
  split; [exact He|]. intros H1 H2.
  pose proof (hashable_params_hashable_l hashable HC HM HD e1 H1) as V1.
  pose proof (hashable_params_hashable_l hashable HC HM HD e2 H2) as V2.
  repeat split; auto. eapply eq_implies_hash_eq_l; eauto.
Qed.

(** Non-vacuity: a nested expression built twice from distinct, pairwise equal arguments. *)
Example validators_eq_hash_example :
  let peq := fun a b : param => true in
  let e1 := SAnd [SIn (P 0) true; SAnd [SNum OLt (P 1); SRe (P 2) false None];
                  SOptL false [SNot (SInst (P 3)) None true [EValueError]]] in
  let e2 := SAnd [SIn (P 10) true; SAnd [SNum OLt (P 11); SRe (P 12) false (Some Fullmatch)];
                  SOptL false [SNot (SInst (P 13)) None true [EValueError]]] in
  same_params peq e1 e2 = true /\ derived_same peq e1 e2 = true /\
  build e1 <> build e2 /\ veqb peq (build e1) (build e2) = true.
Proof. cbn. repeat split; try reflexivity. discriminate. Qed.

(** ** Refutations of the unguarded statements (faithful model, concrete oracle). *)

(** Two equal sets / dicts may iterate in different orders, [in_] stores [tuple(options)],
    tuples compare in order: equal parameters, unequal validators. *)
Theorem eq_unordered_options_refuted_l :
  exists (peq : param -> param -> bool) e1 e2,
    same_params peq e1 e2 = true /\ veqb peq (build e1) (build e2) = false.
Proof.
  exists (fun a b => match a, b with PT (P 0), PT (P 1) => false | _, _ => true end),
         (SIn (P 0) true), (SIn (P 1) true).
  split; reflexivity.
Qed.

(** Two equal compiled patterns that are not the same object have unequal bound methods. *)
Theorem eq_recompiled_pattern_refuted_l :
  exists (peq : param -> param -> bool) e1 e2,
    same_params peq e1 e2 = true /\ veqb peq (build e1) (build e2) = false.
Proof.
  exists (fun a b => match a, b with PM _ (P 0), PM _ (P 1) => false | _, _ => true end),
         (SRe (P 0) true None), (SRe (P 1) true None).
  split; reflexivity.
Qed.

(** ** [in_] and membership in the caller's container *)
Section InMembership.
  Variable test : atom -> nat -> tri.
  Variable len : nat -> lenres.

  (** When the stored tuple answers the membership test like the caller's container
      (TypeError counted as absent on both sides), [in_] accepts exactly the members. *)
  Theorem in_iff_membership_l p conv x :
    (conv = true ->
     absorb_typeerror (test (AIn (PT p)) (vid x)) = absorb_typeerror (test (AIn p) (vid x))) ->
    (run test len (build (SIn p conv)) x = Ok <-> test (AIn p) (vid x) = TT) /\
    (absorb_typeerror (test (AIn p) (vid x)) = FF ->
     run test len (build (SIn p conv)) x = Raise EValueError).
  Proof.
    intros H. cbn [build]. destruct conv.
    - cbn. rewrite (H eq_refl). destruct (test (AIn p) (vid x)) as [| |c]; cbn.
      + split; [tauto | discriminate].
      + split; [split; discriminate | reflexivity].
      + destruct (subclass c ETypeError); cbn; split; try (split; discriminate); auto; discriminate.
    - cbn. destruct (test (AIn p) (vid x)) as [| |c]; cbn.
      + split; [tauto | discriminate].
      + split; [split; discriminate | reflexivity].
      + destruct (subclass c ETypeError); cbn; split; try (split; discriminate); auto; discriminate.
  Qed.
End InMembership.

(** Without that premise the statement fails: a value whose [__eq__] answers True is not a
    member of a set (hash lookup) but is found in the tuple the validator stores. *)
Theorem in_membership_refuted_l :
  exists (test : atom -> nat -> tri) len p x,
    test (AIn p) (vid x) = FF /\ run test len (build (SIn p true)) x = Ok.
Proof.
  exists (fun a _ => match a with AIn (PT _) => TT | _ => FF end), (fun _ => LN 0%Z),
         (P 0), (V 0 false [] None).
  split; reflexivity.
Qed.

(** Non-vacuity of the guarded statements: their premises are satisfiable, with the
    conversion actually taking place. *)
Example in_iff_membership_example :
  let test := fun (a : atom) (i : nat) =>
                match a, i with AIn _, 0 => TT | AIn _, 1 => RR ETypeError | _, _ => FF end in
  let len := fun _ : nat => LR ETypeError in
  (forall x, absorb_typeerror (test (AIn (PT (P 0))) (vid x))
             = absorb_typeerror (test (AIn (P 0)) (vid x))) /\
  run test len (build (SIn (P 0) true)) (V 0 false [] None) = Ok /\
  run test len (build (SIn (P 0) true)) (V 1 false [] None) = Raise EValueError /\
  run test len (build (SIn (P 0) true)) (V 2 false [] None) = Raise EValueError.
Proof. cbn. repeat split; reflexivity. Qed.

Example derived_of_congruence_example :
  let peq := fun a b : param => param_eqb a b in
  (forall p q, peq p q = true -> peq (PT p) (PT q) = true) /\
  (forall p q, peq p q = true -> peq (PC p) (PC q) = true) /\
  (forall f p q, peq p q = true -> peq (PM f p) (PM f q) = true) /\
  same_params peq (SOr [SIn (P 0) true; SRe (P 1) false None])
                  (SOr [SIn (P 0) true; SRe (P 1) false (Some Fullmatch)]) = true.
Proof.
  cbn. repeat split; auto. intros f p q H. rewrite H. destruct f; reflexivity.
Qed.

Example eq_implies_hash_eq_example :
  let peq := fun a b : param => param_eqb a b in
  let hashable := fun a : param => match a with P 9 => false | _ => true end in
  veqb peq (VIn (PT (P 0)) (P 9)) (VIn (PT (P 0)) (P 9)) = true /\
  vhashable hashable (VIn (PT (P 0)) (P 9)) = true /\          (* the unhashable original is not hashed *)
  vhashable hashable (VAnd true [VCallable]) = false.          (* optional([..]) keeps the caller's list *)
Proof. repeat split; reflexivity. Qed.
