(** Proofs about composite callbacks (C02/Compose.v): for EVERY fault oracle, any number
    of fields, converter members and validators, the step-by-step run equals the
    specification trace cut after the first raising callback. *)
From Coq Require Import List Bool String Arith Lia.
Import ListNotations.
From Attrs Require Import C02.Compose.
Open Scope nat_scope.

Lemma pipe_events_length fld steps x : List.length (pipe_events fld steps x) = List.length steps.
Proof. revert x; induction steps as [|s r IH]; intros x; cbn; [reflexivity | now rewrite IH]. Qed.

Lemma cut_clean f evs pos : faulty f (List.length evs) pos = false -> cut f evs pos = evs.
Proof.
  revert pos; induction evs as [|e r IH]; intros pos H; cbn in *; [reflexivity|].
  apply orb_false_iff in H as [H1 H2]. rewrite H1. now rewrite IH.
Qed.

Lemma faulty_app f n m pos : faulty f (n + m) pos = faulty f n pos || faulty f m (pos + n).
Proof.
  revert pos; induction n as [|n IH]; intros pos; cbn.
  - now rewrite Nat.add_0_r.
  - rewrite IH, orb_assoc. now replace (S pos + n) with (pos + S n) by lia.
Qed.

Lemma cut_app f a b pos :
  cut f (a ++ b) pos =
  if faulty f (List.length a) pos then cut f a pos else a ++ cut f b (pos + List.length a).
Proof.
  revert pos; induction a as [|e r IH]; intros pos; cbn.
  - now rewrite Nat.add_0_r.
  - destruct (f pos) eqn:F; cbn; [reflexivity|].
    rewrite IH. replace (S pos + List.length r) with (pos + S (List.length r)) by lia.
    now destruct (faulty f (List.length r) (S pos)).
Qed.

Lemma cut_length_clean f evs pos :
  faulty f (List.length evs) pos = false -> List.length (cut f evs pos) = List.length evs.
Proof. intros H. now rewrite cut_clean. Qed.

Lemma run_pipe_spec f fld steps x pos :
  run_pipe f fld steps x pos =
  (cut f (pipe_events fld steps x) pos,
   if faulty f (List.length steps) pos then None else Some (pipe_value steps x)).
Proof.
  revert x pos; induction steps as [|s r IH]; intros x pos; cbn; [reflexivity|].
  destruct (f pos) eqn:F; cbn; [reflexivity|]. now rewrite IH.
Qed.

Lemma run_and_spec f fld vs x pos :
  run_and f fld vs x pos =
  (cut f (and_events fld vs x) pos, negb (faulty f (List.length vs) pos)).
Proof.
  revert pos; induction vs as [|v r IH]; intros pos; cbn; [reflexivity|].
  destruct (f pos) eqn:F; cbn; [reflexivity|]. now rewrite IH.
Qed.

Lemma and_events_length fld vs x : List.length (and_events fld vs x) = List.length vs.
Proof. unfold and_events. now rewrite map_length. Qed.

Lemma run_convs_spec f fs i pos :
  run_convs f fs i pos =
  (cut f (conv_trace fs i) pos,
   if faulty f (List.length (conv_trace fs i)) pos then None else Some (stored fs i)).
Proof.
  revert i pos; induction fs as [|c r IH]; intros i pos; cbn [run_convs conv_trace stored]; [reflexivity|].
  rewrite run_pipe_spec, cut_app, app_length, faulty_app, pipe_events_length.
  destruct (faulty f (List.length (c_steps c)) pos) eqn:F; cbn [orb]; [reflexivity|].
  rewrite IH, cut_length_clean by (now rewrite pipe_events_length).
  rewrite pipe_events_length.
  rewrite (cut_clean f (pipe_events _ _ _)) by (now rewrite pipe_events_length).
  now destruct (faulty f (List.length (conv_trace r (S i))) (pos + List.length (c_steps c))).
Qed.

Lemma run_vals_spec f fs vs pos :
  run_vals f fs vs pos =
  (cut f (val_trace fs vs) pos, negb (faulty f (List.length (val_trace fs vs)) pos)).
Proof.
  revert vs pos; induction fs as [|c r IH]; intros vs pos; [reflexivity|].
  destruct vs as [|v vr]; [reflexivity|]. cbn [run_vals val_trace].
  rewrite run_and_spec, cut_app, app_length, faulty_app, and_events_length.
  destruct (faulty f (List.length (c_vals c)) pos) eqn:F; cbn [orb negb]; [reflexivity|].
  rewrite IH, cut_length_clean by (now rewrite and_events_length).
  rewrite and_events_length.
  rewrite (cut_clean f (and_events _ _ _)) by (now rewrite and_events_length).
  reflexivity.
Qed.

(** Main statement: the run is the specification trace cut at the first fault; construction
    finishes with the specified stored values iff no callback of the trace raises. *)
Lemma run_ctor_spec f von fs :
  run_ctor f von fs =
  (cut f (expected von fs) 0,
   if faulty f (List.length (expected von fs)) 0 then None else Some (stored fs 0)).
Proof.
  unfold run_ctor, expected. rewrite run_convs_spec.
  rewrite cut_app, app_length, faulty_app. cbn [Nat.add].
  destruct (faulty f (List.length (conv_trace fs 0)) 0) eqn:F; cbn [orb]; [reflexivity|].
  rewrite cut_length_clean by assumption. rewrite (cut_clean f (conv_trace fs 0)) by assumption.
  destruct von.
  - rewrite run_vals_spec.
    destruct (faulty f (List.length (val_trace fs (stored fs 0))) (List.length (conv_trace fs 0))); reflexivity.
  - cbn. now rewrite app_nil_r.
Qed.

Lemma faulty_no_fault n pos : faulty no_fault n pos = false.
Proof. revert pos; induction n as [|n IH]; intros pos; cbn; [reflexivity | apply IH]. Qed.

Lemma run_ctor_nofault von fs : run_ctor no_fault von fs = (expected von fs, Some (stored fs 0)).
Proof.
  rewrite run_ctor_spec, faulty_no_fault. now rewrite cut_clean by apply faulty_no_fault.
Qed.

(** a single marked fault at position k inside the trace: the prefix up to and including k *)
Lemma cut_single k evs pos :
  cut (Nat.eqb k) evs pos = if (pos <=? k) && (k <? pos + List.length evs)
                            then firstn (S (k - pos)) evs else evs.
Proof.
  revert pos; induction evs as [|e r IH]; intros pos; cbn [cut List.length].
  - destruct ((pos <=? k) && (k <? pos + 0)); now rewrite ?firstn_nil.
  - destruct (Nat.eqb_spec k pos) as [->|N].
    + rewrite Nat.leb_refl. replace (pos <? pos + S (List.length r)) with true
        by (symmetry; apply Nat.ltb_lt; lia). rewrite Nat.sub_diag. reflexivity.
    + rewrite IH. destruct (Nat.leb_spec pos k) as [L|L].
      * replace (S pos <=? k) with true by (symmetry; apply Nat.leb_le; lia).
        replace (S pos + List.length r) with (pos + S (List.length r)) by lia.
        destruct (k <? pos + S (List.length r)); cbn [andb]; [|reflexivity].
        replace (k - pos) with (S (k - S pos)) by lia. reflexivity.
      * replace (S pos <=? k) with false by (symmetry; apply Nat.leb_gt; lia). reflexivity.
Qed.

(** each member of a converter list runs exactly once, in list order, on the previous result *)
Lemma pipe_events_fns fld steps x :
  map (fun e => match e with EConv _ fn _ _ _ => fn | EVal _ fn _ => fn end) (pipe_events fld steps x)
  = map s_fn steps.
Proof. revert x; induction steps as [|s r IH]; intros x; cbn; [reflexivity | now rewrite IH]. Qed.
