(** * C02 — composite callbacks inside the init protocol.

    A field's converter may be a list (turned into [pipe(...)], whose members are plain
    callables or [Converter] instances) and its validator may be a list or an [and_]
    composite, possibly shared between fields and extended by [@x.validator].  The init
    generator sees one converter and one validator per field (Core/Init.v); this file
    models what runs *inside* them, step by step with a fault oracle, mirroring
    [pipe_converter] and [_AndValidator.__call__] of attr/_make.py, and construction of a
    class whose fields all receive an argument: all converter chains in field order,
    then all validator lists in field order on the converted values. *)
From Coq Require Import List Bool String Arith Lia.
Import ListNotations.
Open Scope string_scope.
Open Scope list_scope.

(** Symbolic values: the argument of field [i], or the result of callable [fn] on a value. *)
Inductive tm := TArg (i : nat) | TApp (fn : string) (x : tm).

(** A member of a converter list: plain callable ([false],[false]) or a Converter instance
    with its takes_self / takes_field flags. *)
Record step := { s_fn : string; s_self : bool; s_field : bool }.

Inductive event :=
| EConv (fld fn : string) (x : tm) (got_inst got_field : bool)
| EVal (fld fn : string) (x : tm).

Record cfield := { c_name : string; c_steps : list step; c_vals : list string }.

Definition faults := nat -> bool.
Definition no_fault : faults := fun _ => false.

(** ** Step-by-step interpreter (what the code does) *)

(** [pipe_converter]: thread the value through the members; the first one that raises ends it. *)
Fixpoint run_pipe (f : faults) (fld : string) (steps : list step) (x : tm) (pos : nat)
  : list event * option tm :=
  match steps with
  | [] => ([], Some x)
  | s :: r =>
      let ev := EConv fld (s_fn s) x (s_self s) (s_field s) in
      if f pos then ([ev], None)
      else let '(t, o) := run_pipe f fld r (TApp (s_fn s) x) (S pos) in (ev :: t, o)
  end.

(** [_AndValidator.__call__]: every member on the same (inst, attr, value). *)
Fixpoint run_and (f : faults) (fld : string) (vs : list string) (x : tm) (pos : nat)
  : list event * bool :=
  match vs with
  | [] => ([], true)
  | v :: r =>
      let ev := EVal fld v x in
      if f pos then ([ev], false)
      else let '(t, ok) := run_and f fld r x (S pos) in (ev :: t, ok)
  end.

(** conversion phase: fields in order, argument i for field i *)
Fixpoint run_convs (f : faults) (fs : list cfield) (i pos : nat) : list event * option (list tm) :=
  match fs with
  | [] => ([], Some [])
  | c :: r =>
      match run_pipe f (c_name c) (c_steps c) (TArg i) pos with
      | (t, None) => (t, None)
      | (t, Some v) =>
          let '(t', o) := run_convs f r (S i) (pos + List.length t) in
          (t ++ t', match o with Some vs => Some (v :: vs) | None => None end)
      end
  end.

(** validation phase on the stored values *)
Fixpoint run_vals (f : faults) (fs : list cfield) (vs : list tm) (pos : nat) : list event * bool :=
  match fs, vs with
  | c :: r, v :: vr =>
      match run_and f (c_name c) (c_vals c) v pos with
      | (t, false) => (t, false)
      | (t, true) => let '(t', ok) := run_vals f r vr (pos + List.length t) in (t ++ t', ok)
      end
  | _, _ => ([], true)
  end.

(** construction: [Some values] when it finished, [None] when a callback raised *)
Definition run_ctor (f : faults) (von : bool) (fs : list cfield) : list event * option (list tm) :=
  match run_convs f fs 0 0 with
  | (t, None) => (t, None)
  | (t, Some vs) =>
      if von then
        match run_vals f fs vs (List.length t) with
        | (t', true) => (t ++ t', Some vs)
        | (t', false) => (t ++ t', None)
        end
      else (t, Some vs)
  end.

(** ** Specification (what the property says) *)

Fixpoint pipe_events (fld : string) (steps : list step) (x : tm) : list event :=
  match steps with
  | [] => []
  | s :: r => EConv fld (s_fn s) x (s_self s) (s_field s) :: pipe_events fld r (TApp (s_fn s) x)
  end.

Fixpoint pipe_value (steps : list step) (x : tm) : tm :=
  match steps with [] => x | s :: r => pipe_value r (TApp (s_fn s) x) end.

Definition and_events (fld : string) (vs : list string) (x : tm) : list event :=
  map (fun v => EVal fld v x) vs.

Fixpoint conv_trace (fs : list cfield) (i : nat) : list event :=
  match fs with
  | [] => []
  | c :: r => pipe_events (c_name c) (c_steps c) (TArg i) ++ conv_trace r (S i)
  end.

Fixpoint stored (fs : list cfield) (i : nat) : list tm :=
  match fs with [] => [] | c :: r => pipe_value (c_steps c) (TArg i) :: stored r (S i) end.

Fixpoint val_trace (fs : list cfield) (vs : list tm) : list event :=
  match fs, vs with
  | c :: r, v :: vr => and_events (c_name c) (c_vals c) v ++ val_trace r vr
  | _, _ => []
  end.

Definition expected (von : bool) (fs : list cfield) : list event :=
  conv_trace fs 0 ++ (if von then val_trace fs (stored fs 0) else []).

(** the fault-free trace cut after the first raising callback *)
Fixpoint cut (f : faults) (evs : list event) (pos : nat) : list event :=
  match evs with
  | [] => []
  | e :: r => if f pos then [e] else e :: cut f r (S pos)
  end.

(** some callback at a position in [pos, pos+n) raises *)
Fixpoint faulty (f : faults) (n pos : nat) : bool :=
  match n with 0 => false | S m => f pos || faulty f m (S pos) end.

(** ** Correspondence case: a class spec, validators on/off, an optional single fault
    position, and what the real construction showed. *)
Record ccase := {
  cc_fields : list cfield;
  cc_von : bool;
  cc_fault : option nat;
  cc_seen_trace : list event;
  cc_seen_values : option (list tm)    (* None: the marked exception came out *)
}.

Definition fault_of (o : option nat) : faults :=
  match o with None => no_fault | Some k => Nat.eqb k end.

Fixpoint tm_eqb (a b : tm) : bool :=
  match a, b with
  | TArg i, TArg j => Nat.eqb i j
  | TApp f x, TApp g y => String.eqb f g && tm_eqb x y
  | _, _ => false
  end.

Definition event_eqb (a b : event) : bool :=
  match a, b with
  | EConv l f x s t, EConv l' f' x' s' t' =>
      String.eqb l l' && String.eqb f f' && tm_eqb x x' && Bool.eqb s s' && Bool.eqb t t'
  | EVal l f x, EVal l' f' x' => String.eqb l l' && String.eqb f f' && tm_eqb x x'
  | _, _ => false
  end.

Fixpoint list_eqb {A} (e : A -> A -> bool) (a b : list A) : bool :=
  match a, b with
  | [], [] => true
  | x :: r, y :: s => e x y && list_eqb e r s
  | _, _ => false
  end.

Definition model_of_c (c : ccase) := run_ctor (fault_of (cc_fault c)) (cc_von c) (cc_fields c).

Definition check_ccase (c : ccase) : bool :=
  let '(t, o) := model_of_c c in
  list_eqb event_eqb t (cc_seen_trace c) &&
  match o, cc_seen_values c with
  | None, None => true
  | Some a, Some b => list_eqb tm_eqb a b
  | _, _ => false
  end.
