(** * C16 — proofs about the model of [C16/Model.v]. *)
From Coq Require Import List Bool String ZArith Arith Lia.
Import ListNotations.
From Attrs Require Import Core.Attr Core.Init C16.Model.
Open Scope string_scope.
Open Scope list_scope.

Local Arguments attrib : simpl never.

(** ** Small facts *)

Lemma set_nth_same {A} (d : A) : forall n l, set_nth n (nth n l d) l = l.
Proof.
  induction n as [|n IH]; destruct l as [|x r]; cbn; try reflexivity.
  now rewrite IH.
Qed.

Lemma set_nth_length {A} (x : A) : forall n l, List.length (set_nth n x l) = List.length l.
Proof. induction n; destruct l; cbn; auto. Qed.

(** ** The caller's objects: everything in the world except the counter and the
    list of classes defined so far. *)

Definition same_objs (w w' : world) : Prop :=
  w_cas w' = w_cas w /\ w_decos w' = w_decos w /\ w_dicts w' = w_dicts w /\
  w_lists w' = w_lists w /\ w_metas w' = w_metas w /\ w_convs w' = w_convs w.

Definition frame (w w' : world) : Prop :=
  same_objs w w' /\ w_defs w' = w_defs w /\ (w_counter w <= w_counter w')%Z.

Lemma frame_refl w : frame w w.
Proof. repeat split; lia. Qed.

Lemma frame_trans a b c : frame a b -> frame b c -> frame a c.
Proof.
  unfold frame, same_objs. intros [(A1&A2&A3&A4&A5&A6x) [A6 A7]] [(B1&B2&B3&B4&B5&B6x) [B6 B7]].
  repeat split; try congruence; lia.
Qed.

Lemma attrib_frame w a : frame w (fst (attrib w a)).
Proof. unfold attrib; cbn. repeat split; cbn; lia. Qed.

Lemma attrib_frame' w a w1 c : attrib w a = (w1, c) -> frame w w1.
Proof. intros E. pose proof (attrib_frame w a) as H. now rewrite E in H. Qed.

Lemma exec_fields_frame : forall fs w, frame w (fst (exec_fields w fs)).
Proof.
  induction fs as [|f r IH]; intros w; cbn; [apply frame_refl|].
  destruct (fd_entry f).
  - destruct (attrib w a) as [w1 c] eqn:E.
    specialize (IH w1). destruct (exec_fields w1 r) as [w2 cd]. cbn in *.
    eapply frame_trans; [|exact IH]. eapply attrib_frame'; eauto.
  - specialize (IH w). destruct (exec_fields w r). exact IH.
  - specialize (IH w). destruct (exec_fields w r). exact IH.
  - apply IH.
Qed.

Lemma exec_body_frame w b : frame w (fst (exec_body w b)).
Proof.
  unfold exec_body. pose proof (exec_fields_frame (cb_fields b) w) as H.
  destruct (exec_fields w (cb_fields b)). exact H.
Qed.

Lemma walk_anns_frame cd : forall anns w, frame w (fst (walk_anns w cd anns)).
Proof.
  induction anns as [|[n cv] r IH]; intros w; cbn; [apply frame_refl|].
  destruct cv; [apply IH|].
  destruct (cd_get n cd) as [[c|]|].
  - specialize (IH w). destruct (walk_anns w cd r). exact IH.
  - match goal with |- context[attrib w ?a] => pose proof (attrib_frame w a) as H;
      destruct (attrib w a) as [w1 c] end.
    specialize (IH w1). destruct (walk_anns w1 cd r). cbn in *. eapply frame_trans; eauto.
  - match goal with |- context[attrib w ?a] => pose proof (attrib_frame w a) as H;
      destruct (attrib w a) as [w1 c] end.
    specialize (IH w1). destruct (walk_anns w1 cd r). cbn in *. eapply frame_trans; eauto.
Qed.

Lemma transform_attrs_frame mc w these aa kw cls :
  frame w (fst (transform_attrs mc w these aa kw cls)).
Proof.
  unfold transform_attrs.
  destruct these as [t|].
  - destruct (these_first_err w (co_tys cls) (deref_these w t)); cbn; apply frame_refl.
  - destruct aa.
    + pose proof (walk_anns_frame (co_cd cls) (co_anns cls) w) as H.
      destruct (walk_anns w (co_cd cls) (co_anns cls)) as [w1 l]. cbn in H.
      destruct (filter _ _); cbn; exact H.
    + cbn. apply frame_refl.
Qed.

(** ** [attrs.wrap]: the cells are not written (current code), and the world is
    framed (both variants). *)

Ltac break_ifs :=
  repeat match goal with
         | |- context[if ?b then _ else _] => destruct b
         | |- context[match ?x with [] => _ | _ :: _ => _ end] => destruct x
         end.

Lemma attrs_wrap_cells mc w c cls : fst (fst (attrs_wrap_gen false mc w c cls)) = c.
Proof.
  unfold attrs_wrap_gen.
  destruct (_ && _); [reflexivity|].
  destruct (transform_attrs mc w (ac_these c) (ac_auto_attribs c) (ac_kw_only c) cls) as [w1 [attrs|e]];
    [|reflexivity].
  cbv zeta. rewrite andb_false_l.
  break_ifs; reflexivity.
Qed.

Lemma attrs_wrap_frame sticky mc w c cls : frame w (snd (fst (attrs_wrap_gen sticky mc w c cls))).
Proof.
  unfold attrs_wrap_gen.
  destruct (_ && _); [apply frame_refl|].
  pose proof (transform_attrs_frame mc w (ac_these c) (ac_auto_attribs c) (ac_kw_only c) cls) as H.
  destruct (transform_attrs mc w (ac_these c) (ac_auto_attribs c) (ac_kw_only c) cls) as [w1 [attrs|e]];
    cbn in H; [|exact H].
  cbv zeta. break_ifs; exact H.
Qed.

Lemma do_it_frame w d cls aa os : frame w (fst (do_it w d cls aa os)).
Proof.
  unfold do_it. destruct (attrs_factory w _) as [c|e]; [|apply frame_refl].
  pose proof (attrs_wrap_frame false meta_copy w c cls) as H. unfold attrs_wrap.
  destruct (attrs_wrap_gen false meta_copy w c cls) as [[c' w1] o]. exact H.
Qed.

Lemma define_wrap_cells w d cls : fst (fst (define_wrap w d cls)) = d.
Proof.
  unfold define_wrap, define_wrap_gen. cbv zeta.
  destruct (_ && _); [reflexivity|].
  destruct (dc_auto_attribs d) as [aa|].
  - destruct (do_it w d cls aa _). reflexivity.
  - destruct (do_it w d cls true _) as [w1 o].
    destruct o as [[]|]; try reflexivity.
    destruct (do_it w1 d cls false _). reflexivity.
Qed.

Lemma define_wrap_frame sticky w d cls : frame w (snd (fst (define_wrap_gen sticky w d cls))).
Proof.
  unfold define_wrap_gen. cbv zeta.
  destruct (_ && _); [apply frame_refl|].
  destruct (dc_auto_attribs d) as [aa|].
  - match goal with |- context[do_it w d cls aa ?os] => pose proof (do_it_frame w d cls aa os) as H;
      destruct (do_it w d cls aa os) end. exact H.
  - match goal with |- context[do_it w d cls true ?os] => pose proof (do_it_frame w d cls true os) as H;
      destruct (do_it w d cls true os) as [w1 o]; set (OS := os) in * end.
    cbn in H.
    destruct o as [[]|]; try exact H.
    pose proof (do_it_frame w1 d cls false OS) as H2.
    destruct (do_it w1 d cls false OS). cbn in *. eapply frame_trans; eauto.
Qed.

(** Applying a decorator object to ANY class leaves the object as it was. *)
Lemma decorator_state_invariant_l w d cls : fst (fst (apply_deco w d cls)) = d.
Proof.
  destruct d as [c|c|e]; cbn.
  - pose proof (attrs_wrap_cells meta_copy w c cls) as H. unfold attrs_wrap.
    destruct (attrs_wrap_gen false meta_copy w c cls) as [[c' w1] o]. cbn in *. congruence.
  - pose proof (define_wrap_cells w c cls) as H.
    destruct (define_wrap w c cls) as [[c' w1] o]. cbn in *. congruence.
  - reflexivity.
Qed.

Lemma apply_deco_frame w d cls : frame w (snd (fst (apply_deco w d cls))).
Proof.
  destruct d as [c|c|e]; cbn.
  - pose proof (attrs_wrap_frame false meta_copy w c cls) as H. unfold attrs_wrap.
    destruct (attrs_wrap_gen false meta_copy w c cls) as [[c' w1] o]. exact H.
  - pose proof (define_wrap_frame false w c cls) as H. unfold define_wrap.
    destruct (define_wrap_gen false w c cls) as [[c' w1] o]. exact H.
  - apply frame_refl.
Qed.

Lemma make_class_frame w m : frame w (fst (make_class w m)).
Proof.
  unfold make_class, make_class_gen.
  destruct (dict_pop "__attrs_pre_init__" _) as [d1 pre].
  destruct (dict_pop "__attrs_post_init__" d1) as [d2 post].
  destruct (dict_pop "__init__" d2) as [d3 ui]. cbv zeta.
  destruct (_ && _); [apply frame_refl|].
  destruct (attrs_factory w _) as [c|e]; [|apply frame_refl].
  match goal with |- context[attrs_wrap w c ?cls] =>
    pose proof (attrs_wrap_frame false meta_copy w c cls) as H; unfold attrs_wrap;
    destruct (attrs_wrap_gen false meta_copy w c cls) as [[c' w1] o] end.
  exact H.
Qed.

(** A definition step leaves every object of the caller as it was; only the global
    counter moves (forward) and the new class is recorded. *)
Lemma def_step_objs w o : is_def o = true ->
  same_objs w (step w o) /\ (w_counter w <= w_counter (step w o))%Z /\
  exists oc, w_defs (step w o) = w_defs w ++ [oc].
Proof.
  destruct o; try discriminate; intros _; cbn.
  - pose proof (exec_body_frame w b) as H1.
    destruct (exec_body w b) as [w1 cls]. cbn in H1.
    pose proof (decorator_state_invariant_l w1 (nth d (w_decos w1) (DInvalid EOther)) cls) as HD.
    pose proof (apply_deco_frame w1 (nth d (w_decos w1) (DInvalid EOther)) cls) as H2.
    destruct (apply_deco w1 _ cls) as [[d' w2] oc]. cbn in *. subst d'.
    destruct H1 as [(A1&A2&A3&A4&A5&A6x) [A6 A7]], H2 as [(B1&B2&B3&B4&B5&B6x) [B6 B7]].
    split; [|split].
    + unfold same_objs; cbn. rewrite B2, set_nth_same. repeat split; congruence.
    + lia.
    + exists oc. congruence.
  - pose proof (make_class_frame w m) as H.
    destruct (make_class w m) as [w1 oc]. cbn in *.
    destruct H as [(A1&A2&A3&A4&A5&A6x) [A6 A7]].
    split; [|split]; [repeat split; assumption | lia | exists oc; congruence].
Qed.

(** ** Sorting by counter only depends on the relative order of the counters *)

Section SortRel.
  Context {A B : Type} (P : A -> B -> Prop) (k1 : A -> Z) (k2 : B -> Z).
  Hypothesis agree : forall a b a' b', P a b -> P a' b' -> (k1 a <=? k1 a')%Z = (k2 b <=? k2 b')%Z.

  Lemma insert_rel : forall l1 l2, Forall2 P l1 l2 -> forall x y, P x y ->
    Forall2 P (insert_by k1 x l1) (insert_by k2 y l2).
  Proof.
    induction 1 as [|a b l1 l2 Hab Hl IH]; intros x y Hxy; cbn.
    - constructor; [assumption | constructor].
    - rewrite (agree x y a b Hxy Hab).
      destruct (k2 y <=? k2 b)%Z.
      + constructor; [assumption|]. constructor; assumption.
      + constructor; [assumption|]. apply IH; assumption.
  Qed.

  Lemma sort_rel : forall l1 l2, Forall2 P l1 l2 -> Forall2 P (sort_by k1 l1) (sort_by k2 l2).
  Proof.
    induction 1 as [|a b l1 l2 Hab Hl IH]; cbn; [constructor|].
    apply insert_rel; assumption.
  Qed.
End SortRel.

(** Source order is what sorting by counter gives, for ANY strictly increasing
    assignment of counters (whatever the start value). *)
Lemma insert_front {A} (key : A -> Z) x l :
  Forall (fun y => (key x < key y)%Z) l -> insert_by key x l = x :: l.
Proof.
  destruct l as [|y r]; cbn; [reflexivity|]. intros H. inversion H; subst.
  destruct (Z.leb_spec (key x) (key y)); [reflexivity | lia].
Qed.

Fixpoint increasing {A} (key : A -> Z) (l : list A) : Prop :=
  match l with
  | [] => True
  | x :: r => Forall (fun y => (key x < key y)%Z) r /\ increasing key r
  end.

Lemma counter_irrelevant_l {A} (key : A -> Z) : forall l, increasing key l -> sort_by key l = l.
Proof.
  induction l as [|x r IH]; cbn; [reflexivity|]. intros [H1 H2].
  rewrite IH by assumption. apply insert_front; assumption.
Qed.

(** ** Two worlds that differ only in counter VALUES *)

Definition ca_erase (c : counting_attr) : counting_attr :=
  {| ca_counter := 0; ca_default := ca_default c; ca_vals := ca_vals c; ca_convs := ca_convs c;
     ca_cann := ca_cann c; ca_hook := ca_hook c; ca_kw := ca_kw c; ca_init := ca_init c; ca_meta := ca_meta c;
     ca_eqk := ca_eqk c; ca_type := ca_type c |}.
Definition ca_sim (a b : counting_attr) : Prop := ca_erase a = ca_erase b.

Definition leb_agree (p q : Z * Z) : Prop := (fst p <=? fst q)%Z = (snd p <=? snd q)%Z.
Definition ord_iso (K : list (Z * Z)) : Prop := forall p q, In p K -> In q K -> leb_agree p q.

Definition ckeys (l1 l2 : list counting_attr) : list (Z * Z) :=
  combine (map ca_counter l1) (map ca_counter l2).

Definition objs_sim (w1 w2 : world) : Prop :=
  w_decos w1 = w_decos w2 /\ w_dicts w1 = w_dicts w2 /\ w_lists w1 = w_lists w2 /\
  w_metas w1 = w_metas w2 /\ Forall2 ca_sim (w_cas w1) (w_cas w2) /\ w_convs w1 = w_convs w2.

Definition bounded (w : world) : Prop :=
  (0 <= w_counter w)%Z /\ Forall (fun c => (0 < ca_counter c <= w_counter w)%Z) (w_cas w).

Record sim (w1 w2 : world) : Prop := {
  s_objs : objs_sim w1 w2;
  s_ord : ord_iso (ckeys (w_cas w1) (w_cas w2));
  s_b1 : bounded w1;
  s_b2 : bounded w2 }.

Lemma ca_sim_refl a : ca_sim a a. Proof. reflexivity. Qed.

Lemma Forall2_nth {A B} (R : A -> B -> Prop) d1 d2 : R d1 d2 ->
  forall l1 l2, Forall2 R l1 l2 -> forall i, R (nth i l1 d1) (nth i l2 d2).
Proof.
  intros Hd. induction 1 as [|a b l1 l2 Hab Hl IH]; intros [|i]; cbn; auto.
Qed.

Lemma nth_keys : forall l1 l2, Forall2 ca_sim l1 l2 -> forall i,
  In (ca_counter (nth i l1 dummy_ca), ca_counter (nth i l2 dummy_ca)) (ckeys l1 l2) \/
  (ca_counter (nth i l1 dummy_ca) = 0 /\ ca_counter (nth i l2 dummy_ca) = 0)%Z.
Proof.
  induction 1 as [|a b l1 l2 Hab Hl IH]; intros [|i]; cbn; auto.
  destruct (IH i) as [H|H]; auto.
Qed.

(** Counting attrs seen by one definition in the two worlds: a shared one (same
    object on both sides) or the n-th one created by the class body itself. *)
Inductive cpair (K : list (Z * Z)) (c1 c2 : Z) : counting_attr -> counting_attr -> Prop :=
| cp_shared a b : ca_sim a b ->
    (In (ca_counter a, ca_counter b) K \/ (ca_counter a = 0 /\ ca_counter b = 0)%Z) ->
    cpair K c1 c2 a b
| cp_own a b n : ca_sim a b ->
    ca_counter a = (c1 + 1 + Z.of_nat n)%Z -> ca_counter b = (c2 + 1 + Z.of_nat n)%Z ->
    cpair K c1 c2 a b.

Lemma cpair_sim K c1 c2 a b : cpair K c1 c2 a b -> ca_sim a b.
Proof. destruct 1; assumption. Qed.

Lemma cpair_leb K c1 c2 :
  ord_iso K -> (0 <= c1)%Z -> (0 <= c2)%Z ->
  (forall p, In p K -> (0 < fst p <= c1 /\ 0 < snd p <= c2)%Z) ->
  forall a b a' b', cpair K c1 c2 a b -> cpair K c1 c2 a' b' ->
  (ca_counter a <=? ca_counter a')%Z = (ca_counter b <=? ca_counter b')%Z.
Proof.
  intros Hiso H1 H2 HK a b a' b' P Q.
  destruct P as [a b _ [Hin|[Ha Hb]] | a b n _ Ha Hb];
  destruct Q as [a' b' _ [Hin'|[Ha' Hb']] | a' b' n' _ Ha' Hb'].
  - exact (Hiso _ _ Hin Hin').
  - apply HK in Hin. cbn in Hin.
    destruct (Z.leb_spec (ca_counter a) (ca_counter a')), (Z.leb_spec (ca_counter b) (ca_counter b')); try reflexivity; lia.
  - apply HK in Hin. cbn in Hin.
    destruct (Z.leb_spec (ca_counter a) (ca_counter a')), (Z.leb_spec (ca_counter b) (ca_counter b')); try reflexivity; lia.
  - apply HK in Hin'. cbn in Hin'.
    destruct (Z.leb_spec (ca_counter a) (ca_counter a')), (Z.leb_spec (ca_counter b) (ca_counter b')); try reflexivity; lia.
  - destruct (Z.leb_spec (ca_counter a) (ca_counter a')), (Z.leb_spec (ca_counter b) (ca_counter b')); try reflexivity; lia.
  - destruct (Z.leb_spec (ca_counter a) (ca_counter a')), (Z.leb_spec (ca_counter b) (ca_counter b')); try reflexivity; lia.
  - apply HK in Hin'. cbn in Hin'.
    destruct (Z.leb_spec (ca_counter a) (ca_counter a')), (Z.leb_spec (ca_counter b) (ca_counter b')); try reflexivity; lia.
  - destruct (Z.leb_spec (ca_counter a) (ca_counter a')), (Z.leb_spec (ca_counter b) (ca_counter b')); try reflexivity; lia.
  - destruct (Z.leb_spec (ca_counter a) (ca_counter a')), (Z.leb_spec (ca_counter b) (ca_counter b')); try reflexivity; lia.
Qed.

Lemma bounded_keys w1 w2 : bounded w1 -> bounded w2 ->
  forall p, In p (ckeys (w_cas w1) (w_cas w2)) ->
  (0 < fst p <= w_counter w1 /\ 0 < snd p <= w_counter w2)%Z.
Proof.
  intros [_ B1] [_ B2] [x y] Hin. unfold ckeys in Hin.
  pose proof (in_combine_l _ _ _ _ Hin) as Hx. pose proof (in_combine_r _ _ _ _ Hin) as Hy.
  apply in_map_iff in Hx as (a & <- & Ha). apply in_map_iff in Hy as (b & <- & Hb).
  rewrite Forall_forall in B1, B2. cbn. split; [apply B1 | apply B2]; assumption.
Qed.

(** ** One definition in two related worlds gives the same outcome *)

Definition env_eq (w1 w2 : world) : Prop := w_lists w1 = w_lists w2 /\ w_convs w1 = w_convs w2.

Lemma resolve_seq_sim w1 w2 a : env_eq w1 w2 -> resolve_seq w1 a = resolve_seq w2 a.
Proof. intros [H H']. destruct a; cbn; try congruence. now rewrite H'. Qed.

Lemma objs_sim_env w1 w2 : objs_sim w1 w2 -> env_eq w1 w2.
Proof. intros (_&_&H&_&_&H'). split; assumption. Qed.

Lemma converter_ann_sim w1 w2 a : env_eq w1 w2 -> converter_ann w1 a = converter_ann w2 a.
Proof. intros [H H']. destruct a; cbn; try reflexivity; [now rewrite H | now rewrite H']. Qed.

Lemma attrib_sim w1 w2 a : env_eq w1 w2 ->
  ca_sim (snd (attrib w1 a)) (snd (attrib w2 a)).
Proof.
  intros H. unfold attrib, ca_sim, ca_erase; cbn.
  rewrite !(resolve_seq_sim w1 w2) by assumption.
  rewrite (converter_ann_sim w1 w2) by assumption.
  replace (resolve_hook w1 (aa_h a)) with (resolve_hook w2 (aa_h a)); [reflexivity|].
  destruct (aa_h a); cbn; try reflexivity. now rewrite (resolve_seq_sim w1 w2).
Qed.

Lemma attrib_counter w a : ca_counter (snd (attrib w a)) = (w_counter w + 1)%Z /\
  w_counter (fst (attrib w a)) = (w_counter w + 1)%Z.
Proof. unfold attrib; cbn. auto. Qed.

Lemma objs_sim_frame w1 w2 w1' w2' :
  objs_sim w1 w2 -> frame w1 w1' -> frame w2 w2' -> objs_sim w1' w2'.
Proof.
  unfold objs_sim, frame, same_objs.
  intros (A1&A2&A3&A4&A5&A6x) [(B1&B2&B3&B4&B5&B6x) _] [(C1&C2&C3&C4&C5&C6x) _].
  rewrite B1, B2, B3, B4, B5, B6x, C1, C2, C3, C4, C5, C6x. repeat split; assumption.
Qed.

Definition cd_rel (K : list (Z * Z)) (c1 c2 : Z) (e1 e2 : string * cdval) : Prop :=
  fst e1 = fst e2 /\
  match snd e1, snd e2 with
  | CdCA a, CdCA b => cpair K c1 c2 a b
  | CdVal, CdVal => True
  | _, _ => False
  end.

Lemma exec_fields_rel K c1 c2 : forall fs k w1 w2,
  objs_sim w1 w2 -> K = ckeys (w_cas w1) (w_cas w2) ->
  w_counter w1 = (c1 + Z.of_nat k)%Z -> w_counter w2 = (c2 + Z.of_nat k)%Z ->
  Forall2 (cd_rel K c1 c2) (snd (exec_fields w1 fs)) (snd (exec_fields w2 fs)).
Proof.
  induction fs as [|f r IH]; intros k w1 w2 Ho HK E1 E2; cbn; [constructor|].
  destruct (fd_entry f) as [a|id| |].
  - pose proof (attrib_sim w1 w2 a (objs_sim_env w1 w2 Ho)) as Hs.
    pose proof (attrib_counter w1 a) as [Hc1 Hw1]. pose proof (attrib_counter w2 a) as [Hc2 Hw2].
    pose proof (attrib_frame w1 a) as F1. pose proof (attrib_frame w2 a) as F2.
    destruct (attrib w1 a) as [w1' x], (attrib w2 a) as [w2' y]. cbn in *.
    assert (Ho' : objs_sim w1' w2') by (eapply objs_sim_frame; eauto).
    assert (HK' : K = ckeys (w_cas w1') (w_cas w2')).
    { destruct F1 as [(Q1&_) _], F2 as [(Q2&_) _]. now rewrite Q1, Q2. }
    specialize (IH (S k) w1' w2' Ho' HK').
    destruct (exec_fields w1' r) as [w1'' cd1], (exec_fields w2' r) as [w2'' cd2]. cbn in *.
    constructor.
    + split; [reflexivity|]. cbn. eapply cp_own with (n := k); [exact Hs | lia | lia].
    + apply IH; lia.
  - specialize (IH k w1 w2 Ho HK E1 E2).
    destruct (exec_fields w1 r) as [w1'' cd1], (exec_fields w2 r) as [w2'' cd2]. cbn in *.
    constructor; [|exact IH].
    split; [reflexivity|]. cbn. destruct Ho as (_&_&_&_&Hc&_). apply cp_shared.
    + apply Forall2_nth; [apply ca_sim_refl | exact Hc].
    + subst K. apply nth_keys. exact Hc.
  - specialize (IH k w1 w2 Ho HK E1 E2).
    destruct (exec_fields w1 r) as [w1'' cd1], (exec_fields w2 r) as [w2'' cd2]. cbn in *.
    constructor; [|exact IH]. split; [reflexivity | exact I].
  - apply (IH k); assumption.
Qed.

(** Name/attr lists that agree up to counter values. *)
Definition na_sim (e1 e2 : string * counting_attr) : Prop := fst e1 = fst e2 /\ ca_sim (snd e1) (snd e2).
Definition na_pair K c1 c2 (e1 e2 : string * counting_attr) : Prop :=
  fst e1 = fst e2 /\ cpair K c1 c2 (snd e1) (snd e2).

Lemma cas_of_cd_rel K c1 c2 cd1 cd2 :
  Forall2 (cd_rel K c1 c2) cd1 cd2 -> Forall2 (na_pair K c1 c2) (cas_of_cd cd1) (cas_of_cd cd2).
Proof.
  induction 1 as [|[n1 v1] [n2 v2] l1 l2 [Hn Hv] Hl IH]; cbn; [constructor|].
  cbn in Hn, Hv. destruct v1, v2; cbn; try contradiction; [|exact IH].
  constructor; [split; assumption | exact IH].
Qed.

Lemma cd_get_rel K c1 c2 n cd1 cd2 :
  Forall2 (cd_rel K c1 c2) cd1 cd2 ->
  match cd_get n cd1, cd_get n cd2 with
  | Some (CdCA a), Some (CdCA b) => ca_sim a b
  | Some CdVal, Some CdVal => True
  | None, None => True
  | _, _ => False
  end.
Proof.
  induction 1 as [|[n1 v1] [n2 v2] l1 l2 [Hn Hv] Hl IH]; cbn; [exact I|].
  cbn in Hn, Hv. subst n2. destruct (String.eqb n n1); [|exact IH].
  destruct v1, v2; try contradiction; [eapply cpair_sim; eauto | exact I].
Qed.

Lemma from_ca_sim mc w1 w2 tys n a b :
  (forall m, mc w1 m = mc w2 m) -> ca_sim a b ->
  from_counting_attr mc w1 tys n a = from_counting_attr mc w2 tys n b.
Proof.
  intros Hmc H. unfold ca_sim, ca_erase in H. injection H as H1 H2 H3 H4 H5 H6 H7 H8 H9 H10.
  unfold from_counting_attr. rewrite Hmc, H1, H2, H3, H4, H5, H6, H7, H8, H9, H10. reflexivity.
Qed.

Lemma map_from_ca_sim mc w1 w2 tys l1 l2 :
  (forall m, mc w1 m = mc w2 m) -> Forall2 na_sim l1 l2 ->
  map (fun e => from_counting_attr mc w1 tys (fst e) (snd e)) l1 =
  map (fun e => from_counting_attr mc w2 tys (fst e) (snd e)) l2.
Proof.
  intros Hmc. induction 1 as [|e1 e2 l1 l2 [Hn Hs] Hl IH]; cbn; [reflexivity|].
  rewrite IH, Hn. f_equal. apply from_ca_sim; assumption.
Qed.

Lemma walk_anns_rel K c1 c2 cd1 cd2 : Forall2 (cd_rel K c1 c2) cd1 cd2 ->
  forall anns w1 w2, env_eq w1 w2 ->
  Forall2 na_sim (snd (walk_anns w1 cd1 anns)) (snd (walk_anns w2 cd2 anns)).
Proof.
  intros Hcd. induction anns as [|[n cv] r IH]; intros w1 w2 Hl; cbn; [constructor|].
  destruct cv; [apply IH; assumption|].
  pose proof (cd_get_rel K c1 c2 n cd1 cd2 Hcd) as Hg.
  destruct (cd_get n cd1) as [[a|]|], (cd_get n cd2) as [[b|]|]; try contradiction.
  - specialize (IH w1 w2 Hl).
    destruct (walk_anns w1 cd1 r), (walk_anns w2 cd2 r). cbn in *.
    constructor; [split; [reflexivity | exact Hg] | exact IH].
  - match goal with |- context[attrib w1 ?x] =>
      pose proof (attrib_sim w1 w2 x Hl) as Hs; pose proof (attrib_frame w1 x) as F1;
      pose proof (attrib_frame w2 x) as F2;
      destruct (attrib w1 x) as [w1' p], (attrib w2 x) as [w2' q] end. cbn in *.
    assert (Hl' : env_eq w1' w2').
    { destruct Hl as [L1 L2], F1 as [(_&_&_&Q1&_&R1) _], F2 as [(_&_&_&Q2&_&R2) _]. split; congruence. }
    specialize (IH w1' w2' Hl').
    destruct (walk_anns w1' cd1 r), (walk_anns w2' cd2 r). cbn in *.
    constructor; [split; [reflexivity | exact Hs] | exact IH].
  - match goal with |- context[attrib w1 ?x] =>
      pose proof (attrib_sim w1 w2 x Hl) as Hs; pose proof (attrib_frame w1 x) as F1;
      pose proof (attrib_frame w2 x) as F2;
      destruct (attrib w1 x) as [w1' p], (attrib w2 x) as [w2' q] end. cbn in *.
    assert (Hl' : env_eq w1' w2').
    { destruct Hl as [L1 L2], F1 as [(_&_&_&Q1&_&R1) _], F2 as [(_&_&_&Q2&_&R2) _]. split; congruence. }
    specialize (IH w1' w2' Hl').
    destruct (walk_anns w1' cd1 r), (walk_anns w2' cd2 r). cbn in *.
    constructor; [split; [reflexivity | exact Hs] | exact IH].
Qed.

Lemma these_items_sim w1 w2 d : Forall2 ca_sim (w_cas w1) (w_cas w2) ->
  Forall2 na_sim (these_items w1 d) (these_items w2 d).
Proof.
  intros Hc. induction d as [|[n v] r IH]; cbn; [constructor|].
  destruct v; cbn; [|exact IH|exact IH].
  constructor; [|exact IH]. split; [reflexivity|]. cbn.
  apply Forall2_nth; [apply ca_sim_refl | exact Hc].
Qed.

Lemma Forall2_map_fst {A B C} (R : A * B -> A * C -> Prop) l1 l2 :
  (forall x y, R x y -> fst x = fst y) -> Forall2 R l1 l2 -> map fst l1 = map fst l2.
Proof. intros HR. induction 1; cbn; [reflexivity|]. f_equal; auto. Qed.

Lemma Forall2_impl {A B} (R S : A -> B -> Prop) l1 l2 :
  (forall x y, R x y -> S x y) -> Forall2 R l1 l2 -> Forall2 S l1 l2.
Proof. intros H. induction 1; constructor; auto. Qed.

Definition co_rel K c1 c2 (cls1 cls2 : class_obj) : Prop :=
  Forall2 (cd_rel K c1 c2) (co_cd cls1) (co_cd cls2) /\ co_anns cls1 = co_anns cls2 /\
  co_tys cls1 = co_tys cls2 /\ co_f cls1 = co_f cls2.

Section TransformRel.
  Variables (K : list (Z * Z)) (c1 c2 : Z).
  Hypothesis Hiso : ord_iso K.
  Hypothesis Hc1 : (0 <= c1)%Z.
  Hypothesis Hc2 : (0 <= c2)%Z.
  Hypothesis HK : forall p, In p K -> (0 < fst p <= c1 /\ 0 < snd p <= c2)%Z.

  Lemma finish_sim mc w1 w2 tys kw base l1 l2 :
    (forall m, mc w1 m = mc w2 m) -> Forall2 na_sim l1 l2 ->
    finish_attrs mc w1 tys kw base l1 = finish_attrs mc w2 tys kw base l2.
  Proof.
    intros Hmc Hl. unfold finish_attrs.
    rewrite (map_from_ca_sim mc w1 w2 tys l1 l2 Hmc Hl).
    assert (E : forall f : string -> option ty -> bool,
              existsb (fun e => f (fst e) (ca_type (snd e))) l1 =
              existsb (fun e => f (fst e) (ca_type (snd e))) l2).
    { intros f. induction Hl as [|e1 e2 r1 r2 [Hn Hs] Hr IH]; cbn; [reflexivity|].
      rewrite IH, Hn. unfold ca_sim, ca_erase in Hs.
      injection Hs as _ _ _ _ _ _ _ _ _ Ht. now rewrite Ht. }
    specialize (E (fun n t => match lookup_ty n tys, t with Some _, Some _ => true | _, _ => false end)).
    cbn in E. rewrite E. reflexivity.
  Qed.

  Lemma transform_rel mc w1 w2 these aa kw cls1 cls2 :
    objs_sim w1 w2 -> (forall w w', w_metas w = w_metas w' -> forall m, mc w m = mc w' m) ->
    co_rel K c1 c2 cls1 cls2 ->
    snd (transform_attrs mc w1 these aa kw cls1) = snd (transform_attrs mc w2 these aa kw cls2).
  Proof.
    intros Ho Hmc (Hcd & Hann & Htys & Hf).
    unfold transform_attrs. unfold co_base. rewrite Hf, Hann, Htys.
    destruct Ho as (Hdecos & Hdicts & Hlists & Hmetas & Hcas & Hconvs).
    assert (Hd : forall t, deref_these w1 t = deref_these w2 t).
    { intros [id|d]; cbn; congruence. }
    destruct these as [t|].
    - rewrite Hd.
      assert (E : these_first_err w1 (co_tys cls2) (deref_these w2 t)
                  = these_first_err w2 (co_tys cls2) (deref_these w2 t)).
      { induction (deref_these w2 t) as [|[n v] r IH]; [reflexivity|]. cbn.
        destruct v; try reflexivity.
        pose proof (Forall2_nth ca_sim dummy_ca dummy_ca (ca_sim_refl _) _ _ Hcas id) as Hs.
        unfold ca_sim, ca_erase in Hs. injection Hs as _ _ _ _ _ _ _ _ _ Ht. rewrite Ht, IH. reflexivity. }
      rewrite E. destruct (these_first_err w2 (co_tys cls2) (deref_these w2 t)); [reflexivity|].
      cbn. apply finish_sim; [apply Hmc; assumption | apply these_items_sim; assumption].
    - destruct aa.
      + pose proof (walk_anns_rel K c1 c2 _ _ Hcd (co_anns cls2) w1 w2 (conj Hlists Hconvs)) as Hw.
        pose proof (walk_anns_frame (co_cd cls1) (co_anns cls2) w1) as F1.
        pose proof (walk_anns_frame (co_cd cls2) (co_anns cls2) w2) as F2.
        destruct (walk_anns w1 (co_cd cls1) (co_anns cls2)) as [w1' l1].
        destruct (walk_anns w2 (co_cd cls2) (co_anns cls2)) as [w2' l2]. cbn in Hw, F1, F2.
        rewrite (Forall2_map_fst (na_pair K c1 c2) (cas_of_cd (co_cd cls1)) (cas_of_cd (co_cd cls2)));
          [| intros x y [H _]; exact H | apply cas_of_cd_rel; assumption].
        destruct (filter _ _); [|reflexivity]. cbn.
        apply finish_sim; [|exact Hw].
        apply Hmc. destruct F1 as [(_&_&_&_&Q1&_) _], F2 as [(_&_&_&_&Q2&_) _]. congruence.
      + cbn. apply finish_sim; [apply Hmc; assumption|].
        apply Forall2_impl with (R := na_pair K c1 c2).
        { intros x y [H1 H2]. split; [exact H1 | eapply cpair_sim; eauto]. }
        unfold sorted_by_counter. apply sort_rel.
        * intros a b a' b' [_ P] [_ Q]. exact (cpair_leb K c1 c2 Hiso Hc1 Hc2 HK _ _ _ _ P Q).
        * apply cas_of_cd_rel; assumption.
  Qed.
End TransformRel.

Lemma typed_fields_sim w1 w2 d : objs_sim w1 w2 -> typed_fields w1 d = typed_fields w2 d.
Proof.
  intros (_&_&_&_&Hcas&_). unfold typed_fields.
  induction d as [|[n v] r IH]; [reflexivity|]. cbn. rewrite IH. destruct v; try reflexivity.
  pose proof (Forall2_nth ca_sim dummy_ca dummy_ca (ca_sim_refl _) _ _ Hcas id) as Hs.
  unfold ca_sim, ca_erase in Hs. injection Hs as _ _ _ _ _ _ _ _ _ Ht. now rewrite Ht.
Qed.

Definition mc_ok (mc : world -> metaref -> metaval) : Prop :=
  forall w w', w_metas w = w_metas w' -> forall m, mc w m = mc w' m.

Lemma meta_copy_ok : mc_ok meta_copy.
Proof. intros w w' H [ks|id k]; cbn; congruence. Qed.

Section WrapRel.
  Variables (K : list (Z * Z)) (c1 c2 : Z).
  Hypothesis Hiso : ord_iso K.
  Hypothesis Hc1 : (0 <= c1)%Z.
  Hypothesis Hc2 : (0 <= c2)%Z.
  Hypothesis HK : forall p, In p K -> (0 < fst p <= c1 /\ 0 < snd p <= c2)%Z.

  Lemma attrs_wrap_rel sticky mc w1 w2 c cls1 cls2 :
    objs_sim w1 w2 -> mc_ok mc -> co_rel K c1 c2 cls1 cls2 ->
    snd (attrs_wrap_gen sticky mc w1 c cls1) = snd (attrs_wrap_gen sticky mc w2 c cls2) /\
    fst (fst (attrs_wrap_gen sticky mc w1 c cls1)) = fst (fst (attrs_wrap_gen sticky mc w2 c cls2)).
  Proof.
    intros Ho Hmc Hrel.
    pose proof (transform_rel K c1 c2 Hiso Hc1 Hc2 HK mc w1 w2 (ac_these c) (ac_auto_attribs c)
                  (ac_kw_only c) cls1 cls2 Ho Hmc Hrel) as HT.
    destruct Hrel as (_ & _ & _ & Hf).
    unfold attrs_wrap_gen, co_hash, co_eq, co_setattr, co_init, co_pre, co_post, co_base.
    rewrite Hf.
    destruct (transform_attrs mc w1 _ _ _ cls1) as [w1' tr1].
    destruct (transform_attrs mc w2 _ _ _ cls2) as [w2' tr2]. cbn in HT. subst tr2.
    cbv zeta.
    destruct (_ && _); [split; reflexivity|].
    destruct tr1 as [attrs|e]; [|split; reflexivity].
    break_ifs; split; reflexivity.
  Qed.

  Lemma attrs_factory_sim w1 w2 a : w_lists w1 = w_lists w2 -> attrs_factory w1 a = attrs_factory w2 a.
  Proof.
    intros H. unfold attrs_factory.
    replace (resolve_os w1 (ar_on_setattr a)) with (resolve_os w2 (ar_on_setattr a)); [reflexivity|].
    destruct (ar_on_setattr a); cbn; congruence.
  Qed.

  Lemma do_it_rel w1 w2 d cls1 cls2 aa os :
    objs_sim w1 w2 -> co_rel K c1 c2 cls1 cls2 ->
    snd (do_it w1 d cls1 aa os) = snd (do_it w2 d cls2 aa os).
  Proof.
    intros Ho Hrel. unfold do_it.
    rewrite (attrs_factory_sim w1 w2) by (apply Ho).
    destruct (attrs_factory w2 _) as [c|e]; [|reflexivity].
    pose proof (attrs_wrap_rel false meta_copy w1 w2 c cls1 cls2 Ho meta_copy_ok Hrel) as [H _].
    unfold attrs_wrap.
    destruct (attrs_wrap_gen false meta_copy w1 c cls1) as [[? ?] ?].
    destruct (attrs_wrap_gen false meta_copy w2 c cls2) as [[? ?] ?]. exact H.
  Qed.

  Lemma define_wrap_rel w1 w2 d cls1 cls2 :
    objs_sim w1 w2 -> co_rel K c1 c2 cls1 cls2 ->
    snd (define_wrap w1 d cls1) = snd (define_wrap w2 d cls2).
  Proof.
    intros Ho Hrel. unfold define_wrap, define_wrap_gen. cbv zeta.
    assert (Hb : co_base cls1 = co_base cls2) by (unfold co_base; now rewrite (proj2 (proj2 (proj2 Hrel)))).
    rewrite Hb.
    destruct (_ && _); [reflexivity|].
    destruct (dc_auto_attribs d) as [aa|].
    - match goal with |- context[do_it w1 d cls1 aa ?os] =>
        pose proof (do_it_rel w1 w2 d cls1 cls2 aa os Ho Hrel) as H;
        destruct (do_it w1 d cls1 aa os), (do_it w2 d cls2 aa os) end. exact H.
    - match goal with |- context[do_it w1 d cls1 true ?os] =>
        pose proof (do_it_rel w1 w2 d cls1 cls2 true os Ho Hrel) as H;
        pose proof (do_it_frame w1 d cls1 true os) as F1;
        pose proof (do_it_frame w2 d cls2 true os) as F2;
        set (OS := os) in *;
        destruct (do_it w1 d cls1 true OS) as [w1' o1], (do_it w2 d cls2 true OS) as [w2' o2] end.
      cbn in H, F1, F2. subst o2.
      destruct o1 as [[]|]; try reflexivity.
      assert (Ho' : objs_sim w1' w2') by (eapply objs_sim_frame; eauto).
      pose proof (do_it_rel w1' w2' d cls1 cls2 false OS Ho' Hrel) as H.
      destruct (do_it w1' d cls1 false OS), (do_it w2' d cls2 false OS). exact H.
  Qed.

  Lemma apply_deco_rel w1 w2 d cls1 cls2 :
    objs_sim w1 w2 -> co_rel K c1 c2 cls1 cls2 ->
    snd (apply_deco w1 d cls1) = snd (apply_deco w2 d cls2).
  Proof.
    intros Ho Hrel. destruct d as [c|c|e]; cbn; [| |reflexivity].
    - pose proof (attrs_wrap_rel false meta_copy w1 w2 c cls1 cls2 Ho meta_copy_ok Hrel) as [H _].
      unfold attrs_wrap.
      destruct (attrs_wrap_gen false meta_copy w1 c cls1) as [[? ?] ?].
      destruct (attrs_wrap_gen false meta_copy w2 c cls2) as [[? ?] ?]. exact H.
    - pose proof (define_wrap_rel w1 w2 c cls1 cls2 Ho Hrel) as H.
      destruct (define_wrap w1 c cls1) as [[? ?] ?], (define_wrap w2 c cls2) as [[? ?] ?]. exact H.
  Qed.

  Lemma make_class_rel w1 w2 m : objs_sim w1 w2 -> snd (make_class w1 m) = snd (make_class w2 m).
  Proof.
    intros Ho. unfold make_class, make_class_gen.
    rewrite (proj1 (proj2 Ho)).
    destruct (dict_pop "__attrs_pre_init__" _) as [d1 pre].
    destruct (dict_pop "__attrs_post_init__" d1) as [d2 post].
    destruct (dict_pop "__init__" d2) as [d3 ui]. cbv zeta.
    destruct (_ && _); [reflexivity|].
    rewrite (attrs_factory_sim w1 w2) by (apply Ho).
    destruct (attrs_factory w2 _) as [c|e]; [|reflexivity].
    match goal with |- context[attrs_wrap w1 c ?cls] =>
      assert (Hrel : co_rel K c1 c2 cls cls) by (repeat split; constructor);
      pose proof (attrs_wrap_rel false meta_copy w1 w2 c cls cls Ho meta_copy_ok Hrel) as [H _];
      unfold attrs_wrap;
      pose proof (attrs_wrap_frame false meta_copy w1 c cls) as F1;
      pose proof (attrs_wrap_frame false meta_copy w2 c cls) as F2;
      destruct (attrs_wrap_gen false meta_copy w1 c cls) as [[? wa] oa];
      destruct (attrs_wrap_gen false meta_copy w2 c cls) as [[? wb] ob] end.
    cbn in *. subst ob.
    rewrite (typed_fields_sim wa wb); [reflexivity|].
    apply (objs_sim_frame w1 w2 wa wb Ho F1 F2).
  Qed.
End WrapRel.

(** ** Steps preserve the relation *)

Lemma Forall2_set_nth {A B} (R : A -> B -> Prop) x y : R x y ->
  forall n l1 l2, Forall2 R l1 l2 -> Forall2 R (set_nth n x l1) (set_nth n y l2).
Proof.
  intros Hxy. induction n as [|n IH]; intros l1 l2 H; destruct H; cbn; constructor; auto.
Qed.

Lemma Forall_set_nth {A} (P : A -> Prop) x : P x ->
  forall n l, Forall P l -> Forall P (set_nth n x l).
Proof.
  intros Hx. induction n as [|n IH]; intros l H; destruct H; cbn; constructor; auto.
Qed.

Lemma Forall_set_nth_add (P : counting_attr -> Prop) s :
  (forall c, P c -> P (ca_add_validator c s)) ->
  forall n l, Forall P l -> Forall P (set_nth n (ca_add_validator (nth n l dummy_ca) s) l).
Proof.
  intros HP. induction n as [|n IH]; intros l H; destruct H; cbn; constructor; auto.
Qed.

Lemma map_counter_set_nth s : forall n l,
  map ca_counter (set_nth n (ca_add_validator (nth n l dummy_ca) s) l) = map ca_counter l.
Proof.
  induction n as [|n IH]; destruct l as [|x r]; cbn; try reflexivity.
  now rewrite IH.
Qed.

Lemma Forall2_length {A B} (R : A -> B -> Prop) l1 l2 : Forall2 R l1 l2 -> List.length l1 = List.length l2.
Proof. induction 1; cbn; congruence. Qed.

Lemma Forall2_app1 {A B} (R : A -> B -> Prop) l1 l2 x y :
  Forall2 R l1 l2 -> R x y -> Forall2 R (l1 ++ [x]) (l2 ++ [y]).
Proof. induction 1; cbn; intros; constructor; auto. Qed.

Lemma combine_app1 {A B} : forall (l1 : list A) (l2 : list B) x y,
  List.length l1 = List.length l2 -> combine (l1 ++ [x]) (l2 ++ [y]) = combine l1 l2 ++ [(x, y)].
Proof.
  induction l1 as [|a l1 IH]; destruct l2 as [|b l2]; cbn; intros; try discriminate; try reflexivity.
  f_equal. apply IH. congruence.
Qed.

Lemma sim_grow w1 w2 w1' w2' :
  sim w1 w2 -> same_objs w1 w1' -> same_objs w2 w2' ->
  (w_counter w1 <= w_counter w1')%Z -> (w_counter w2 <= w_counter w2')%Z -> sim w1' w2'.
Proof.
  intros [Ho Hord [N1 B1] [N2 B2]] (A1&A2&A3&A4&A5&A6x) (C1&C2&C3&C4&C5&C6x) L1 L2.
  destruct Ho as (O1&O2&O3&O4&O5&O6x).
  constructor.
  - unfold objs_sim. rewrite A1, A2, A3, A4, A5, A6x, C1, C2, C3, C4, C5, C6x. repeat split; assumption.
  - now rewrite A1, C1.
  - split; [lia|]. rewrite A1. eapply Forall_impl; [|exact B1]. cbn. intros; lia.
  - split; [lia|]. rewrite C1. eapply Forall_impl; [|exact B2]. cbn. intros; lia.
Qed.

Lemma same_objs_refl w : same_objs w w.
Proof. repeat split. Qed.

Lemma sim_def_left w1 w2 o : is_def o = true -> sim w1 w2 -> sim (step w1 o) w2.
Proof.
  intros Hd Hs. destruct (def_step_objs w1 o Hd) as (Hso & Hc & _).
  eapply sim_grow; eauto using same_objs_refl. lia.
Qed.

Lemma sim_def_both w1 w2 o : is_def o = true -> sim w1 w2 -> sim (step w1 o) (step w2 o).
Proof.
  intros Hd Hs. destruct (def_step_objs w1 o Hd) as (Hso1 & Hc1 & _).
  destruct (def_step_objs w2 o Hd) as (Hso2 & Hc2 & _).
  eapply sim_grow; eauto.
Qed.

(** The same definition in two related worlds records the same outcome. *)
Lemma def_step_rel w1 w2 o : is_def o = true -> sim w1 w2 ->
  exists oc, w_defs (step w1 o) = w_defs w1 ++ [oc] /\ w_defs (step w2 o) = w_defs w2 ++ [oc].
Proof.
  intros Hd [Ho Hord B1 B2].
  pose proof (bounded_keys w1 w2 B1 B2) as HK.
  destruct o; try discriminate; cbn.
  - pose proof (exec_body_frame w1 b) as F1. pose proof (exec_body_frame w2 b) as F2.
    assert (Hrel : co_rel (ckeys (w_cas w1) (w_cas w2)) (w_counter w1) (w_counter w2)
                     (snd (exec_body w1 b)) (snd (exec_body w2 b))).
    { unfold exec_body.
      pose proof (exec_fields_rel _ (w_counter w1) (w_counter w2) (cb_fields b) 0 w1 w2 Ho eq_refl) as H.
      destruct (exec_fields w1 (cb_fields b)), (exec_fields w2 (cb_fields b)). cbn in *.
      repeat split. apply H; lia. }
    destruct (exec_body w1 b) as [w1' cls1], (exec_body w2 b) as [w2' cls2]. cbn in *.
    assert (Ho' : objs_sim w1' w2') by (eapply objs_sim_frame; eauto).
    assert (Hdec : w_decos w1' = w_decos w2') by apply Ho'.
    rewrite Hdec.
    pose proof (apply_deco_rel _ _ _ Hord (proj1 B1) (proj1 B2) HK w1' w2'
                  (nth d (w_decos w2') (DInvalid EOther)) cls1 cls2 Ho' Hrel) as H.
    pose proof (apply_deco_frame w1' (nth d (w_decos w2') (DInvalid EOther)) cls1) as G1.
    pose proof (apply_deco_frame w2' (nth d (w_decos w2') (DInvalid EOther)) cls2) as G2.
    destruct (apply_deco w1' _ cls1) as [[d1 w1''] o1], (apply_deco w2' _ cls2) as [[d2 w2''] o2].
    cbn in *. subst o2. exists o1.
    destruct F1 as [_ [D1 _]], F2 as [_ [D2 _]], G1 as [_ [E1 _]], G2 as [_ [E2 _]].
    split; congruence.
  - pose proof (make_class_rel _ _ _ Hord (proj1 B1) (proj1 B2) HK w1 w2 m Ho) as H.
    pose proof (make_class_frame w1 m) as F1. pose proof (make_class_frame w2 m) as F2.
    destruct (make_class w1 m) as [w1' o1], (make_class w2 m) as [w2' o2]. cbn in *. subst o2.
    exists o1. destruct F1 as [_ [D1 _]], F2 as [_ [D2 _]]. split; congruence.
Qed.

Lemma ca_add_validator_sim a b s : ca_sim a b -> ca_sim (ca_add_validator a s) (ca_add_validator b s).
Proof.
  unfold ca_sim, ca_erase, ca_add_validator; cbn. intros H. injection H as H1 H2 H3 H4 H5 H6 H7 H8 H9 H10.
  congruence.
Qed.

(** What the caller does with its own objects keeps the two worlds related. *)
Lemma sim_nondef w1 w2 o : is_def o = false -> is_cop o = false -> sim w1 w2 ->
  sim (step w1 o) (step w2 o) /\ w_defs (step w1 o) = w_defs w1 /\ w_defs (step w2 o) = w_defs w2.
Proof.
  intros Hd Hcop [Ho Hord [N1 B1] [N2 B2]].
  pose proof Ho as (O1&O2&O3&O4&O5&O6x).
  destruct o; try discriminate; cbn.
  - (* OAttrib *)
    pose proof (attrib_sim w1 w2 a (conj O3 O6x)) as Hs.
    pose proof (attrib_counter w1 a) as [Hc1 Hw1]. pose proof (attrib_counter w2 a) as [Hc2 Hw2].
    pose proof (attrib_frame w1 a) as [(P1&P2&P3&P4&P5&P6x) [P6 _]].
    pose proof (attrib_frame w2 a) as [(Q1&Q2&Q3&Q4&Q5&Q6x) [Q6 _]].
    destruct (attrib w1 a) as [w1' x], (attrib w2 a) as [w2' y]. cbn in *.
    split; [|split; assumption].
    constructor; cbn.
    + unfold objs_sim; cbn. rewrite P1, P2, P3, P4, P5, P6x, Q1, Q2, Q3, Q4, Q5, Q6x.
      repeat split; try assumption. apply Forall2_app1; assumption.
    + rewrite P1, Q1. unfold ckeys. rewrite !map_app. cbn.
      rewrite combine_app1 by (rewrite !map_length; eapply Forall2_length; eauto).
      pose proof (bounded_keys w1 w2 (conj N1 B1) (conj N2 B2)) as HK.
      intros p q Hp Hq. apply in_app_or in Hp, Hq. unfold leb_agree.
      destruct Hp as [Hp|[<-|[]]], Hq as [Hq|[<-|[]]]; cbn.
      * exact (Hord p q Hp Hq).
      * apply HK in Hp. destruct (Z.leb_spec (fst p) (ca_counter x)), (Z.leb_spec (snd p) (ca_counter y)); try reflexivity; lia.
      * apply HK in Hq. destruct (Z.leb_spec (ca_counter x) (fst q)), (Z.leb_spec (ca_counter y) (snd q)); try reflexivity; lia.
      * rewrite !Z.leb_refl. reflexivity.
    + unfold bounded; cbn. split; [lia|]. rewrite P1. apply Forall_app. split.
      * eapply Forall_impl; [|exact B1]. cbn; intros; lia.
      * constructor; [lia | constructor].
    + unfold bounded; cbn. split; [lia|]. rewrite Q1. apply Forall_app. split.
      * eapply Forall_impl; [|exact B2]. cbn; intros; lia.
      * constructor; [lia | constructor].
  - (* ODecoS *)
    split; [|split; reflexivity].
    rewrite (attrs_factory_sim w1 w2 a O3).
    constructor; cbn; try (split; assumption); [|assumption].
    unfold objs_sim; cbn. rewrite O1. repeat split; assumption.
  - split; [|split; reflexivity].
    constructor; cbn; try (split; assumption); [|assumption].
    unfold objs_sim; cbn. rewrite O1. repeat split; assumption.
  - split; [|split; reflexivity].
    constructor; cbn; try (split; assumption); [|assumption].
    unfold objs_sim; cbn. rewrite O3. repeat split; assumption.
  - split; [|split; reflexivity].
    constructor; cbn; try (split; assumption); [|assumption].
    unfold objs_sim; cbn. rewrite O4. repeat split; assumption.
  - split; [|split; reflexivity].
    constructor; cbn; try (split; assumption); [|assumption].
    unfold objs_sim; cbn. rewrite O2. repeat split; assumption.
  - split; [|split; reflexivity].
    constructor; cbn; try (split; assumption); [|assumption].
    unfold objs_sim; cbn. rewrite O6x. repeat split; assumption.
  - split; [|split; reflexivity].
    constructor; cbn; try (split; assumption); [|assumption].
    unfold objs_sim; cbn. rewrite O3. repeat split; assumption.
  - (* OMetaSet *)
    rewrite O4. destruct (mem_str k (nth id (w_metas w2) [])).
    + split; [|split; reflexivity]. constructor; try (split; assumption); assumption.
    + split; [|split; reflexivity].
      constructor; cbn; try (split; assumption); [|assumption].
      unfold objs_sim; cbn. repeat split; assumption.
  - split; [|split; reflexivity].
    constructor; cbn; try (split; assumption); [|assumption].
    unfold objs_sim; cbn. rewrite O4. repeat split; assumption.
  - split; [|split; reflexivity].
    constructor; cbn; try (split; assumption); [|assumption].
    unfold objs_sim; cbn. rewrite O3. repeat split; assumption.
  - (* OCaValidator *)
    split; [|split; reflexivity].
    constructor; cbn.
    + unfold objs_sim; cbn. repeat split; try assumption.
      apply Forall2_set_nth; [|assumption].
      apply ca_add_validator_sim. apply Forall2_nth; [apply ca_sim_refl | assumption].
    + unfold ckeys. rewrite !map_counter_set_nth. exact Hord.
    + split; [assumption|]. apply Forall_set_nth_add; [|assumption]. intros c Hc; exact Hc.
    + split; [assumption|]. apply Forall_set_nth_add; [|assumption]. intros c Hc; exact Hc.
  - split; [|split; reflexivity].
    constructor; cbn; try (split; assumption); [|assumption].
    unfold objs_sim; cbn. rewrite O2. repeat split; assumption.
  - split; [|split; reflexivity].
    constructor; cbn; try (split; assumption); [|assumption].
    unfold objs_sim; cbn. rewrite O2. repeat split; assumption.
Qed.

(** ** Histories *)

Lemma plain_defs w o : is_def o = false -> is_cop o = false -> w_defs (step w o) = w_defs w.
Proof.
  destruct o as [a|a|c|l|ks|d|s ts tf|id s|id k|id k|id|id s|id k v|id k|d b|m|c t]; try discriminate;
    intros _ _; cbn; try reflexivity.
  destruct (mem_str _ _); reflexivity.
Qed.

Lemma nth_set_nth_eq {A} (x d : A) : forall t l, t < List.length l -> nth t (set_nth t x l) d = x.
Proof. induction t; destruct l; cbn; intros; try lia; [reflexivity | apply IHt; lia]. Qed.

Lemma nth_set_nth_neq {A} (x d : A) : forall t t' l, t <> t' -> nth t (set_nth t' x l) d = nth t l d.
Proof.
  induction t; destruct t', l; cbn; intros; try reflexivity; try congruence.
  apply IHt. congruence.
Qed.

Lemma nth_error_nth' {A} (d : A) : forall l t o, nth_error l t = Some o -> nth t l d = o /\ t < List.length l.
Proof.
  induction l; destruct t; cbn; intros; try discriminate.
  - injection H as <-. split; [reflexivity | lia].
  - apply IHl in H as [H1 H2]. split; [assumption | lia].
Qed.

(** A class operation only touches the class it is called for. *)
Lemma cop_defs w c t :
  w_defs (step w (OClassOp c t)) =
  match nth_error (w_defs w) t with
  | Some o => set_nth t (cop_outcome c o) (w_defs w)
  | None => w_defs w
  end.
Proof. cbn. destruct (nth_error (w_defs w) t); reflexivity. Qed.

Lemma cop_objs w c t :
  same_objs w (step w (OClassOp c t)) /\ w_counter (step w (OClassOp c t)) = w_counter w.
Proof. cbn. destruct (nth_error (w_defs w) t); split; try reflexivity; repeat split. Qed.

Lemma step_len w o :
  List.length (w_defs (step w o)) = List.length (w_defs w) + (if is_def o then 1 else 0).
Proof.
  destruct (is_def o) eqn:E.
  - destruct (def_step_objs w o E) as (_ & _ & oc & H). rewrite H, app_length. reflexivity.
  - destruct (is_cop o) eqn:E2.
    + destruct o; try discriminate. rewrite cop_defs.
      destruct (nth_error (w_defs w) t); [rewrite set_nth_length|]; lia.
    + rewrite plain_defs by assumption. lia.
Qed.

Lemma run_len : forall ops w, List.length (w_defs (run w ops)) = List.length (w_defs w) + n_defs ops.
Proof.
  induction ops as [|o r IH]; intros w; cbn; [unfold n_defs; cbn; lia|].
  unfold run in IH. rewrite IH, step_len. unfold n_defs. cbn. destruct (is_def o); cbn; lia.
Qed.

(** The class operations of a history that hit class [t], applied in order. *)
Fixpoint self_ops (t : nat) (ops : list op) (o : cls_outcome) : cls_outcome :=
  match ops with
  | [] => o
  | OClassOp c t' :: r => if Nat.eqb t' t then self_ops t r (cop_outcome c o) else self_ops t r o
  | _ :: r => self_ops t r o
  end.

Lemma step_nth d w o t : t < List.length (w_defs w) ->
  nth t (w_defs (step w o)) d = self_ops t [o] (nth t (w_defs w) d).
Proof.
  intros Ht. destruct (is_def o) eqn:E.
  - destruct (def_step_objs w o E) as (_ & _ & oc & H). rewrite H, app_nth1 by assumption.
    destruct o; try discriminate; reflexivity.
  - destruct (is_cop o) eqn:E2.
    + destruct o as [| | | | | | | | | | | | | | | |c t0]; try discriminate. cbn [self_ops].
      rewrite cop_defs.
      destruct (nth_error (w_defs w) t0) as [oc|] eqn:E3.
      * apply (nth_error_nth' d) in E3 as [Hn Hl].
        destruct (Nat.eqb_spec t0 t) as [->|Hne].
        -- rewrite nth_set_nth_eq by assumption. now rewrite Hn.
        -- rewrite nth_set_nth_neq by congruence. reflexivity.
      * destruct (Nat.eqb_spec t0 t) as [->|Hne]; [|reflexivity].
        apply nth_error_None in E3. lia.
    + rewrite plain_defs by assumption. destruct o; try discriminate; reflexivity.
Qed.

Lemma self_ops_app t : forall a b o, self_ops t (a ++ b) o = self_ops t b (self_ops t a o).
Proof.
  induction a as [|x a IH]; intros b o; [reflexivity|].
  destruct x; cbn; try apply IH. destruct (Nat.eqb t0 t); apply IH.
Qed.

Lemma run_nth d : forall ops w t, t < List.length (w_defs w) ->
  nth t (w_defs (run w ops)) d = self_ops t ops (nth t (w_defs w) d).
Proof.
  induction ops as [|o r IH]; intros w t Ht; [reflexivity|].
  change (run w (o :: r)) with (run (step w o) r).
  rewrite IH by (rewrite step_len; lia). rewrite step_nth by assumption.
  change (o :: r) with ([o] ++ r). now rewrite self_ops_app.
Qed.

Lemma keep_self_ops t t0 : forall r o, self_ops t0 (keep_self t t0 r) o = self_ops t r o.
Proof.
  induction r as [|x r IH]; intros o; [reflexivity|].
  destruct x; cbn; try apply IH.
  destruct (Nat.eqb t1 t); [cbn; rewrite Nat.eqb_refl|]; apply IH.
Qed.

Lemma keep_self_no_defs t t0 : forall r, n_defs (keep_self t t0 r) = 0.
Proof.
  induction r as [|x r IH]; [reflexivity|]. destruct x; cbn; try exact IH.
  destruct (Nat.eqb t1 t); [|exact IH]. unfold n_defs in *. cbn. exact IH.
Qed.

Lemma last_nth_len {A} (d : A) : forall l, l <> [] -> last l d = nth (List.length l - 1) l d.
Proof.
  induction l as [|x r IH]; [congruence|]. intros _. destruct r as [|y r']; [reflexivity|].
  change (last (x :: y :: r') d) with (last (y :: r') d).
  rewrite IH by discriminate. cbn. now rewrite Nat.sub_0_r.
Qed.

Lemma sim_cop_left w1 w2 c t : sim w1 w2 -> sim (step w1 (OClassOp c t)) w2.
Proof.
  intros Hs. destruct (cop_objs w1 c t) as [Ho Hc].
  eapply sim_grow; eauto using same_objs_refl; lia.
Qed.

Lemma hist_gen dflt : forall ops k w1 w2, sim w1 w2 -> k < n_defs ops ->
  nth (List.length (w_defs w1) + k) (w_defs (run w1 ops)) dflt
  = last (w_defs (run w2 (alone_from (List.length (w_defs w1)) (List.length (w_defs w1) + k)
                                      (List.length (w_defs w2)) ops))) dflt.
Proof.
  induction ops as [|o r IH]; intros k w1 w2 Hs Hk; [cbn in Hk; lia|].
  unfold n_defs in Hk. cbn in Hk. cbn [alone_from]. destruct (is_def o) eqn:E.
  - destruct k as [|k'].
    + rewrite Nat.add_0_r, Nat.eqb_refl.
      destruct (def_step_rel w1 w2 o E Hs) as (oc & D1 & D2).
      change (run w1 (o :: r)) with (run (step w1 o) r).
      change (run w2 (o :: ?x)) with (run (step w2 o) x).
      rewrite run_nth by (rewrite D1, app_length; cbn; lia).
      rewrite D1, app_nth2, Nat.sub_diag by lia. cbn [nth].
      set (t := List.length (w_defs w1)). set (t0 := List.length (w_defs w2)).
      set (wb := run (step w2 o) (keep_self t t0 r)).
      assert (Hlen : List.length (w_defs wb) = t0 + 1).
      { unfold wb. rewrite run_len, keep_self_no_defs, D2, app_length. cbn. lia. }
      rewrite last_nth_len by (destruct (w_defs wb); [cbn in Hlen; lia | discriminate]).
      rewrite Hlen. replace (t0 + 1 - 1) with t0 by lia.
      unfold wb. rewrite run_nth by (rewrite D2, app_length; cbn; lia).
      rewrite D2. unfold t0. rewrite app_nth2, Nat.sub_diag by lia. cbn [nth].
      now rewrite keep_self_ops.
    + cbn in Hk.
      replace (Nat.eqb (List.length (w_defs w1)) (List.length (w_defs w1) + S k')) with false
        by (symmetry; apply Nat.eqb_neq; lia).
      change (run w1 (o :: r)) with (run (step w1 o) r).
      pose proof (IH k' (step w1 o) w2 (sim_def_left w1 w2 o E Hs)) as H.
      rewrite step_len, E in H.
      replace (List.length (w_defs w1) + 1 + k') with (List.length (w_defs w1) + S k') in H by lia.
      replace (List.length (w_defs w1) + 1) with (S (List.length (w_defs w1))) in H by lia.
      apply H. unfold n_defs. lia.
  - change (run w1 (o :: r)) with (run (step w1 o) r).
    destruct (is_cop o) eqn:E2.
    + destruct o as [| | | | | | | | | | | | | | | |c t]; try discriminate.
      pose proof (IH k (step w1 (OClassOp c t)) w2 (sim_cop_left w1 w2 c t Hs)) as H.
      rewrite step_len in H. cbn in H. rewrite Nat.add_0_r in H. apply H. exact Hk.
    + change (run w2 (o :: ?x)) with (run (step w2 o) x).
      destruct (sim_nondef w1 w2 o E E2 Hs) as (Hs' & D1 & D2).
      pose proof (IH k (step w1 o) (step w2 o) Hs') as H. rewrite D1, D2 in H. apply H. exact Hk.
Qed.

Lemma sim_empty c1 c2 : (0 <= c1)%Z -> (0 <= c2)%Z -> sim (empty_world c1) (empty_world c2).
Proof.
  intros H1 H2. constructor; cbn.
  - repeat split. constructor.
  - intros p q [].
  - split; [assumption | constructor].
  - split; [assumption | constructor].
Qed.

Lemma sim_refl w : bounded w -> sim w w.
Proof.
  intros B. constructor; try assumption.
  - repeat split. induction (w_cas w); constructor; [apply ca_sim_refl | assumption].
  - assert (H : forall p, In p (ckeys (w_cas w) (w_cas w)) -> fst p = snd p).
    { unfold ckeys. induction (map ca_counter (w_cas w)) as [|x l IH]; cbn; [tauto|].
      intros p [<-|Hp]; [reflexivity | auto]. }
    intros p q Hp Hq. unfold leb_agree. now rewrite <- (H p Hp), <- (H q Hq).
Qed.

(** The outcome of definition number [k] of ANY history — other definitions before
    and after it, through the same decorator objects or not, the caller mutating its
    containers in between, resolve_types and the reading API applied to any class —
    observed at the end, is the outcome the same definition (with the class
    operations on that class itself) has in the history without the other
    definitions, whatever the global counter was at the start. *)
Theorem history_independent_l dflt ops k c1 c2 :
  (0 <= c1)%Z -> (0 <= c2)%Z -> k < n_defs ops ->
  nth k (w_defs (run (empty_world c1) ops)) dflt
  = last (w_defs (run (empty_world c2) (alone k ops))) dflt.
Proof.
  intros H1 H2 Hk. exact (hist_gen dflt ops k _ _ (sim_empty c1 c2 H1 H2) Hk).
Qed.

(** *** Objects of the caller across definitions *)

Lemma defs_only_objs : forall ops w, forallb is_def ops = true -> same_objs w (run w ops).
Proof.
  induction ops as [|o r IH]; intros w H; cbn; [apply same_objs_refl|].
  cbn in H. apply andb_true_iff in H as [Ho Hr].
  destruct (def_step_objs w o Ho) as ((A1&A2&A3&A4&A5&A6) & _).
  destruct (IH (step w o) Hr) as (B1&B2&B3&B4&B5&B6). unfold run in *.
  repeat split; congruence.
Qed.

Lemma n_defs_app a b : n_defs (a ++ b) = n_defs a + n_defs b.
Proof. unfold n_defs. now rewrite filter_app, app_length. Qed.

Lemma n_defs_all l : forallb is_def l = true -> n_defs l = List.length l.
Proof.
  unfold n_defs. induction l as [|o r IH]; cbn; [reflexivity|]. intros H.
  apply andb_true_iff in H as [-> Hr]. cbn. now rewrite IH.
Qed.

Lemma alone_all_defs t0 : forall h i o, forallb is_def h = true -> is_def o = true ->
  alone_from i (i + List.length h) t0 (h ++ [o]) = [o].
Proof.
  induction h as [|x r IH]; intros i o H Ho; cbn.
  - now rewrite Ho, Nat.add_0_r, Nat.eqb_refl.
  - cbn in H. apply andb_true_iff in H as [-> Hr].
    replace (Nat.eqb i (i + S (List.length r))) with false by (symmetry; apply Nat.eqb_neq; lia).
    replace (i + S (List.length r)) with (S i + List.length r) by lia. now apply IH.
Qed.

(** The intended reading for one decorator object (or any mix of definitions): after
    ANY history [h] of definitions the next definition has the outcome it has alone. *)
Lemma definition_history_independent_l dflt w h o :
  bounded w -> forallb is_def h = true -> is_def o = true ->
  last (w_defs (run w (h ++ [o]))) dflt = last (w_defs (run w [o])) dflt.
Proof.
  intros B Hh Ho.
  pose proof (hist_gen dflt (h ++ [o]) (List.length h) w w (sim_refl w B)) as H.
  rewrite (alone_all_defs _ h _ o Hh Ho) in H. rewrite <- H.
  - assert (Hl : List.length (w_defs (run w (h ++ [o]))) = List.length (w_defs w) + List.length h + 1).
    { rewrite run_len, n_defs_app, (n_defs_all h Hh). unfold n_defs. cbn. rewrite Ho. cbn. lia. }
    rewrite last_nth_len by (destruct (w_defs (run w (h ++ [o]))); [cbn in Hl; lia | discriminate]).
    rewrite Hl. f_equal. lia.
  - rewrite n_defs_app, (n_defs_all h Hh). unfold n_defs at 1. cbn. rewrite Ho. cbn. lia.
Qed.

(** ** Fingerprints: classes hold copies, so nothing the caller does later shows *)

Definition fattr_noalias (a : fattr) : Prop :=
  match fa_meta a with MVCopy _ => True | MVAlias _ => False end.
Definition outcome_noalias (o : cls_outcome) : Prop :=
  match o with Raised _ => True | Built r => Forall fattr_noalias (r_fields r) end.

Lemma noalias_from w1 tys l :
  Forall fattr_noalias (map (fun e => from_counting_attr meta_copy w1 tys (fst e) (snd e)) l).
Proof.
  apply Forall_forall. intros a Ha. apply in_map_iff in Ha as (e & <- & _).
  unfold fattr_noalias, from_counting_attr; cbn. destruct (ca_meta (snd e)); exact I.
Qed.
Lemma noalias_inh l : Forall fattr_noalias (map evolve_inh l).
Proof. apply Forall_forall. intros a Ha. apply in_map_iff in Ha as (e & <- & _). exact I. Qed.
Lemma noalias_kw l : Forall fattr_noalias l -> Forall fattr_noalias (map evolve_kw l).
Proof.
  intros Hl. apply Forall_forall. intros a Ha. apply in_map_iff in Ha as (e & <- & He).
  rewrite Forall_forall in Hl. exact (Hl e He).
Qed.

Lemma finish_noalias w1 tys kw base l attrs :
  finish_attrs meta_copy w1 tys kw base l = DOk attrs -> Forall fattr_noalias attrs.
Proof.
  unfold finish_attrs. destruct (existsb _ l); [discriminate|]. cbv zeta.
  match goal with |- context[order_ok false ?x] => destruct (order_ok false x) end; [|discriminate].
  intros H; injection H as <-.
  apply Forall_app; split; destruct kw; auto using noalias_from, noalias_inh, noalias_kw.
Qed.

Lemma transform_noalias w these aa kw cls w' attrs :
  transform_attrs meta_copy w these aa kw cls = (w', DOk attrs) -> Forall fattr_noalias attrs.
Proof.
  unfold transform_attrs.
  destruct these as [t|].
  - destruct (these_first_err _ _ _); [discriminate|]. intros H; injection H as _ H. eapply finish_noalias; eauto.
  - destruct aa.
    + destruct (walk_anns w (co_cd cls) (co_anns cls)) as [w1 l].
      destruct (filter _ _); [|discriminate]. intros H; injection H as _ H. eapply finish_noalias; eauto.
    + intros H; injection H as _ H. eapply finish_noalias; eauto.
Qed.

Lemma attrs_wrap_noalias w c cls : outcome_noalias (snd (attrs_wrap w c cls)).
Proof.
  unfold attrs_wrap, attrs_wrap_gen.
  destruct (_ && _); [exact I|].
  destruct (transform_attrs meta_copy w _ _ _ cls) as [w1 [attrs|e]] eqn:E; [|exact I].
  apply transform_noalias in E. cbv zeta.
  break_ifs; try exact I; exact E.
Qed.

Lemma do_it_noalias w d cls aa os : outcome_noalias (snd (do_it w d cls aa os)).
Proof.
  unfold do_it. destruct (attrs_factory w _) as [c|e]; [|exact I].
  pose proof (attrs_wrap_noalias w c cls) as H.
  destruct (attrs_wrap w c cls) as [[? ?] ?]. exact H.
Qed.

Lemma apply_deco_noalias w d cls : outcome_noalias (snd (apply_deco w d cls)).
Proof.
  destruct d as [c|c|e]; cbn; [| |exact I].
  - pose proof (attrs_wrap_noalias w c cls) as H. destruct (attrs_wrap w c cls) as [[? ?] ?]. exact H.
  - unfold define_wrap, define_wrap_gen. cbv zeta.
    destruct (_ && _); [exact I|].
    destruct (dc_auto_attribs c) as [aa|].
    + match goal with |- context[do_it w c cls aa ?os] => pose proof (do_it_noalias w c cls aa os) as H;
        destruct (do_it w c cls aa os) end. exact H.
    + match goal with |- context[do_it w c cls true ?os] => pose proof (do_it_noalias w c cls true os) as H;
        set (OS := os) in *; destruct (do_it w c cls true OS) as [w1 o] end.
      cbn in H. destruct o as [[]|]; try exact H.
      pose proof (do_it_noalias w1 c cls false OS) as H2. destruct (do_it w1 c cls false OS). exact H2.
Qed.

Lemma make_class_noalias w m : outcome_noalias (snd (make_class w m)).
Proof.
  unfold make_class, make_class_gen.
  destruct (dict_pop "__attrs_pre_init__" _) as [d1 pre].
  destruct (dict_pop "__attrs_post_init__" d1) as [d2 post].
  destruct (dict_pop "__init__" d2) as [d3 ui]. cbv zeta.
  destruct (_ && _); [exact I|].
  destruct (attrs_factory w _) as [c|e]; [|exact I].
  match goal with |- context[attrs_wrap w c ?cls] => pose proof (attrs_wrap_noalias w c cls) as H;
    destruct (attrs_wrap w c cls) as [[? ?] o] end. cbn in *.
  destruct o as [e|r]; cbn; [exact I|]. cbn in H.
  apply Forall_forall. intros fa Hfa. apply in_map_iff in Hfa as (x & <- & Hx).
  rewrite Forall_forall in H. exact (H x Hx).
Qed.

Lemma cop_noalias c o : outcome_noalias o -> outcome_noalias (cop_outcome c o).
Proof.
  destruct c, o as [e|r]; cbn; auto. intros H.
  apply Forall_forall. intros a Ha. apply in_map_iff in Ha as (x & <- & Hx).
  rewrite Forall_forall in H. exact (H x Hx).
Qed.

Lemma Forall_set_nth' {A} (P : A -> Prop) x : P x -> forall n l, Forall P l -> Forall P (set_nth n x l).
Proof. intros Hx. induction n; intros l H; destruct H; cbn; constructor; auto. Qed.

Lemma step_noalias w o : Forall outcome_noalias (w_defs w) -> Forall outcome_noalias (w_defs (step w o)).
Proof.
  intros H. destruct (is_def o) eqn:E.
  2:{ destruct (is_cop o) eqn:E2; [|now rewrite plain_defs].
      destruct o as [| | | | | | | | | | | | | | | |c t]; try discriminate. rewrite cop_defs.
      destruct (nth_error (w_defs w) t) as [oc|] eqn:E3; [|exact H].
      apply Forall_set_nth'; [|exact H]. apply cop_noalias.
      apply nth_error_In in E3. rewrite Forall_forall in H. auto. }
  destruct o; try discriminate; cbn.
  - pose proof (exec_body_frame w b) as [_ [D1 _]].
    destruct (exec_body w b) as [w1 cls]. cbn in D1.
    pose proof (apply_deco_noalias w1 (nth d (w_decos w1) (DInvalid EOther)) cls) as Hn.
    pose proof (apply_deco_frame w1 (nth d (w_decos w1) (DInvalid EOther)) cls) as [_ [D2 _]].
    destruct (apply_deco w1 _ cls) as [[d' w2] oc]. cbn in *.
    rewrite D2, D1. apply Forall_app. split; [assumption | constructor; [assumption | constructor]].
  - pose proof (make_class_noalias w m) as Hn. pose proof (make_class_frame w m) as [_ [D1 _]].
    destruct (make_class w m) as [w1 oc]. cbn in *. rewrite D1.
    apply Forall_app. split; [assumption | constructor; [assumption | constructor]].
Qed.

Lemma run_noalias : forall ops w, Forall outcome_noalias (w_defs w) -> Forall outcome_noalias (w_defs (run w ops)).
Proof.
  induction ops as [|o r IH]; intros w H; [exact H|]. apply (IH (step w o)). now apply step_noalias.
Qed.

(** A class built by the current code looks the same whatever the world has become. *)
Lemma observe_noalias w w' o : outcome_noalias o -> observe w o = observe w' o.
Proof.
  destruct o as [e|r]; [reflexivity|]. cbn. intros H.
  assert (E : map (ffp_of w) (r_fields r) = map (ffp_of w') (r_fields r)).
  { apply map_ext_in. intros a Ha. rewrite Forall_forall in H. specialize (H a Ha).
    unfold ffp_of, fattr_noalias in *. destruct (fa_meta a); [reflexivity | contradiction]. }
  now rewrite E.
Qed.

Lemma last_map {A B} (f : A -> B) d : forall l, last (map f l) (f d) = f (last l d).
Proof.
  induction l as [|x r IH]; [reflexivity|]. destruct r as [|y r']; [reflexivity|].
  change (last (map f (x :: y :: r')) (f d)) with (last (map f (y :: r')) (f d)). exact IH.
Qed.

Lemma Forall_nth_d {A} (P : A -> Prop) d l n : P d -> Forall P l -> P (nth n l d).
Proof.
  intros Hd H. destruct (nth_in_or_default n l d) as [Hin| ->]; [|exact Hd].
  rewrite Forall_forall in H. auto.
Qed.

(** The property on fingerprints, observed at the END of either history. *)
Theorem fingerprint_history_independent_l ops k c1 c2 :
  (0 <= c1)%Z -> (0 <= c2)%Z -> k < n_defs ops ->
  nth k (fingerprints (run (empty_world c1) ops)) (FExc EOther)
  = last (fingerprints (run (empty_world c2) (alone k ops))) (FExc EOther).
Proof.
  intros H1 H2 Hk. unfold fingerprints.
  set (wa := run (empty_world c1) ops). set (wb := run (empty_world c2) (alone k ops)).
  change (FExc EOther) with (observe wa (Raised EOther)) at 1.
  change (FExc EOther) with (observe wb (Raised EOther)).
  rewrite map_nth, last_map. unfold wa at 2.
  rewrite (history_independent_l (Raised EOther) ops k c1 c2 H1 H2 Hk). fold wb.
  apply observe_noalias.
  assert (Hn : Forall outcome_noalias (w_defs wb)) by (apply run_noalias; constructor).
  destruct (w_defs wb) as [|x r] eqn:E; [exact I|].
  rewrite last_nth_len by discriminate. apply Forall_nth_d; [exact I | exact Hn].
Qed.

(** Whatever happens after a class was defined — further definitions, the caller
    appending to the lists, setting metadata keys, adding validators to the shared
    attr.ib — its fingerprint stays what it was. *)
Lemma later_ops_invisible_l w ops :
  Forall outcome_noalias (w_defs w) ->
  map (observe (run w ops)) (w_defs w) = map (observe w) (w_defs w).
Proof.
  intros H. apply map_ext_in. intros o Ho. rewrite Forall_forall in H.
  apply observe_noalias. auto.
Qed.

(** *** The caller's containers *)

Lemma make_class_readonly_l w m : w_dicts (fst (make_class w m)) = w_dicts w.
Proof. destruct (make_class_frame w m) as [(_&_&H&_) _]. exact H. Qed.

Lemma these_readonly_l w d b : w_dicts (step w (OApply d b)) = w_dicts w.
Proof. destruct (def_step_objs w (OApply d b) eq_refl) as ((_&_&H&_) & _). exact H. Qed.

Lemma counting_attrs_untouched_l w o : is_def o = true -> w_cas (step w o) = w_cas w.
Proof. intros H. destruct (def_step_objs w o H) as ((H1&_) & _). exact H1. Qed.

Lemma decorators_untouched_l w o : is_def o = true -> w_decos (step w o) = w_decos w.
Proof. intros H. destruct (def_step_objs w o H) as ((_&H1&_) & _). exact H1. Qed.

(** Class-level [kw_only=True] makes NEW Attributes; without it a field is keyword-only
    exactly when its counting attr says so, whatever was defined from it before. *)
Lemma own_kw_from_counting_attr w tys n c : fa_kw (from_counting_attr meta_copy w tys n c) = ca_kw c.
Proof. reflexivity. Qed.

(** ** The code before the repairs: what the theorems above exclude *)

Definition obj_base : base_info :=
  {| bi_frozen := false; bi_exc := false; bi_ownsa := false; bi_hashable := true;
     bi_pre := false; bi_post := false; bi_attrs := [] |}.
Definition frozen_base : base_info :=
  {| bi_frozen := true; bi_exc := false; bi_ownsa := false; bi_hashable := true;
     bi_pre := false; bi_post := false;
     bi_attrs := [{| ba_name := "a"; ba_default := true; ba_vals := []; ba_convs := [];
                     ba_cann := None; ba_type := None; ba_hook := OsNone; ba_kw := false; ba_init := true; ba_meta := [] |}] |}.
Definition ib (d : bool) (c : seqarg) (m : metaarg) : attrib_args :=
  {| aa_default := d; aa_v := SNone; aa_c := c; aa_h := HANone; aa_kw := false; aa_init := true;
     aa_m := m; aa_eqk := EKNone; aa_type := None |}.
Definition body1 (a : attrib_args) (own_hash : bool) (base : base_info) : class_body :=
  {| cb_fields := [{| fd_name := "x"; fd_entry := EOwn a; fd_ann := true; fd_cv := false; fd_ty := TObj "int" |}];
     cb_hash := own_hash; cb_eq := false; cb_setattr := false; cb_init := false;
     cb_pre := false; cb_post := false; cb_base := base |}.
Definition cls1 (w : world) (b : class_body) : class_obj := snd (exec_body w b).

Definition s_ad_frozen : attrs_cells :=
  {| ac_these := None; ac_hash := None; ac_init := None; ac_slots := false; ac_frozen := true;
     ac_auto_attribs := false; ac_kw_only := false; ac_cache_hash := false; ac_auto_exc := false;
     ac_eq := None; ac_order := None; ac_auto_detect := true; ac_collect_by_mro := false;
     ac_on_setattr := COsNone |}.
Definition define_default : define_cells :=
  {| dc_these := None; dc_hash := None; dc_unsafe_hash := None; dc_init := None; dc_slots := true;
     dc_frozen := false; dc_auto_attribs := None; dc_kw_only := false; dc_cache_hash := false;
     dc_auto_exc := true; dc_eq := None; dc_order := Some false; dc_auto_detect := true;
     dc_on_setattr := OsaVal COsNone |}.

Definition w0 := empty_world 0.

(** F2: [nonlocal hash] — after a class with its own [__hash__] the shared
    [attr.s(auto_detect=True, frozen=True)] object stops generating [__hash__]. *)
Lemma attrs_hash_sticky_refuted :
  exists c clsA clsB,
    let '(c1, w1, _) := attrs_wrap_buggy w0 c clsA in
    snd (attrs_wrap_buggy w1 c1 clsB) <> snd (attrs_wrap_buggy w0 c clsB) /\ c1 <> c.
Proof.
  exists s_ad_frozen, (cls1 w0 (body1 (ib false SNone MANone) true obj_base)),
         (cls1 w0 (body1 (ib false SNone MANone) false obj_base)).
  vm_compute. split; intros H; discriminate H.
Qed.

(** ... and the current code does not have it (same classes). *)
Example attrs_hash_not_sticky :
  let clsA := cls1 w0 (body1 (ib false SNone MANone) true obj_base) in
  let clsB := cls1 w0 (body1 (ib false SNone MANone) false obj_base) in
  let '(c1, w1, _) := attrs_wrap w0 s_ad_frozen clsA in
  snd (attrs_wrap w1 c1 clsB) = snd (attrs_wrap w0 s_ad_frozen clsB) /\
  (exists r, snd (attrs_wrap w1 c1 clsB) = Built r /\ r_hash r = HGen).
Proof. vm_compute. split; [reflexivity | eexists; split; reflexivity]. Qed.

(** F3a: [nonlocal on_setattr] — after a class with a frozen base the shared
    [define()] object keeps NO_OP: the next class loses convert-on-assignment. *)
Lemma define_noop_sticky_refuted :
  exists d clsA clsB,
    let '(d1, w1, _) := define_wrap_buggy w0 d clsA in
    snd (define_wrap_buggy w1 d1 clsB) <> snd (define_wrap_buggy w0 d clsB).
Proof.
  exists define_default, (cls1 w0 (body1 (ib true (SOne "c1") MANone) false frozen_base)),
         (cls1 w0 (body1 (ib true (SOne "c1") MANone) false obj_base)).
  vm_compute. intros H; discriminate H.
Qed.

(** F3b: after any mutable class it keeps the default pipe: a later class with a
    frozen base is rejected. *)
Lemma define_default_sticky_refuted :
  exists d clsA clsB,
    let '(d1, w1, _) := define_wrap_buggy w0 d clsA in
    snd (define_wrap_buggy w1 d1 clsB) = Raised EValueError /\
    exists r, snd (define_wrap_buggy w0 d clsB) = Built r.
Proof.
  exists define_default, (cls1 w0 (body1 (ib true (SOne "c1") MANone) false obj_base)),
         (cls1 w0 (body1 (ib true (SOne "c1") MANone) false frozen_base)).
  vm_compute. split; [reflexivity | eexists; reflexivity].
Qed.

Example define_not_sticky :
  let clsA := cls1 w0 (body1 (ib true (SOne "c1") MANone) false frozen_base) in
  let clsB := cls1 w0 (body1 (ib true (SOne "c1") MANone) false obj_base) in
  let '(d1, w1, _) := define_wrap w0 define_default clsA in
  snd (define_wrap w1 d1 clsB) = snd (define_wrap w0 define_default clsB) /\
  (exists r, snd (define_wrap w1 d1 clsB) = Built r /\
             r_setattr r = SaHooked [("x", [HConvert; HValidate])]).
Proof. vm_compute. split; [reflexivity | eexists; split; reflexivity]. Qed.

Definition plain_args : attrs_args :=
  {| ar_these := None; ar_hash := None; ar_unsafe_hash := None; ar_init := None; ar_slots := false;
     ar_frozen := false; ar_auto_attribs := false; ar_kw_only := false; ar_cache_hash := false;
     ar_auto_exc := false; ar_eq := None; ar_order := None; ar_auto_detect := false;
     ar_collect_by_mro := false; ar_on_setattr := OsaVal COsNone |}.

Definition w_mk : world :=
  run w0 [OAttrib (ib false SNone MANone);
          ONewDict [("x", DCa 0); ("__attrs_post_init__", DFn)]].

(** F4: [cls_dict = attrs] — the three pops hit the caller's dict. *)
Lemma make_class_pops_refuted :
  exists w m, w_dicts (fst (make_class_buggy w m)) <> w_dicts w.
Proof.
  exists w_mk, {| mk_attrs := 0; mk_body := None; mk_args := plain_args; mk_base := obj_base |}.
  vm_compute. intros H; discriminate H.
Qed.

Example make_class_keeps_hooks :
  let m := {| mk_attrs := 0; mk_body := None; mk_args := plain_args; mk_base := obj_base |} in
  w_dicts (fst (make_class w_mk m)) = w_dicts w_mk /\
  (exists r, snd (make_class (fst (make_class w_mk m)) m) = Built r /\ r_post r = true).
Proof. vm_compute. split; [reflexivity | eexists; split; reflexivity]. Qed.

(** An Attribute that kept the caller's metadata dict instead of copying it would
    change when the caller sets a key later. *)
Definition w_meta : world := run w0 [ONewMeta ["k1"]].
Definition s_plain : attrs_cells :=
  {| ac_these := None; ac_hash := None; ac_init := None; ac_slots := false; ac_frozen := false;
     ac_auto_attribs := false; ac_kw_only := false; ac_cache_hash := false; ac_auto_exc := false;
     ac_eq := None; ac_order := None; ac_auto_detect := false; ac_collect_by_mro := false;
     ac_on_setattr := COsNone |}.

Lemma metadata_alias_refuted :
  exists w c cls k,
    let '(_, w1, o) := attrs_wrap_gen false meta_alias w c cls in
    observe (step w1 (OMetaSet 0 k)) o <> observe w1 o.
Proof.
  exists w_meta, s_plain, (cls1 w_meta (body1 (ib false SNone (MADict 0 MKDict)) false obj_base)), "k2".
  vm_compute. intros H; discriminate H.
Qed.

Example metadata_copied :
  let cls := cls1 w_meta (body1 (ib false SNone (MADict 0 MKDict)) false obj_base) in
  let '(_, w1, o) := attrs_wrap w_meta s_plain cls in
  observe (step w1 (OMetaSet 0 "k2")) o = observe w1 o /\
  exists f, observe w1 o = FOk f /\ map p_m (fp_fields f) = [["k1"]].
Proof. vm_compute. split; [reflexivity | eexists; split; reflexivity]. Qed.

(** One attr.ib() object used by a class under class-level [kw_only=True] and then by
    a class without: the second class's field is not keyword-only (and the shared
    object is what it was). *)
Definition s_kw : attrs_args :=
  {| ar_these := None; ar_hash := None; ar_unsafe_hash := None; ar_init := None; ar_slots := false;
     ar_frozen := false; ar_auto_attribs := false; ar_kw_only := true; ar_cache_hash := false;
     ar_auto_exc := false; ar_eq := None; ar_order := None; ar_auto_detect := false;
     ar_collect_by_mro := false; ar_on_setattr := OsaVal COsNone |}.
Definition body_shared : class_body :=
  {| cb_fields := [{| fd_name := "x"; fd_entry := EShared 0; fd_ann := false; fd_cv := false; fd_ty := TObj "int" |}];
     cb_hash := false; cb_eq := false; cb_setattr := false; cb_init := false;
     cb_pre := false; cb_post := false; cb_base := obj_base |}.
Definition shared_history : list op :=
  [OAttrib (ib false SNone MANone); ODecoS s_kw; ODecoS plain_args;
   OApply 0 body_shared; OApply 1 body_shared].

Example shared_counting_attr_example :
  let w := run w0 shared_history in
  (exists fa fb, fingerprints w = [FOk fa; FOk fb] /\
     map p_kw (fp_fields fa) = [true] /\ map p_kw (fp_fields fb) = [false]) /\
  w_cas w = w_cas (run w0 [OAttrib (ib false SNone MANone)]).
Proof. vm_compute. split; [do 2 eexists; repeat split; reflexivity | reflexivity]. Qed.

(** Non-vacuity of the history theorem: a history whose second definition has hooks,
    through a decorator object used before on a frozen-base class, with the caller
    appending to a validator list in between. *)
Definition sample_history : list op :=
  [ONewList ["v1"]; ODecoDefine define_default;
   OApply 0 (body1 (ib true (SOne "c1") MANone) false frozen_base);
   OListAppend 0 "v2";
   OApply 0 {| cb_fields := [{| fd_name := "x";
                                fd_entry := EOwn {| aa_default := true; aa_v := SList 0; aa_c := SNone;
                                                    aa_h := HANone; aa_kw := false; aa_init := true;
                                                    aa_m := MANone; aa_eqk := EKNone; aa_type := None |};
                                fd_ann := true; fd_cv := false; fd_ty := TObj "int" |}];
               cb_hash := false; cb_eq := false; cb_setattr := false; cb_init := false;
               cb_pre := false; cb_post := false; cb_base := obj_base |};
   OListAppend 0 "v3"].

Example sample_history_nonvacuous :
  1 < n_defs sample_history /\
  exists f, nth 1 (fingerprints (run (empty_world 7) sample_history)) (FExc EOther) = FOk f /\
            fp_assign f = [("x", AFired ["v1"; "v2"])].
Proof. vm_compute. split; [lia | eexists; split; reflexivity]. Qed.

Example counter_irrelevant_example :
  sort_by (fun e : string * Z => snd e) [("x", 11); ("y", 12); ("z", 40)]%Z
  = [("x", 11); ("y", 12); ("z", 40)]%Z.
Proof. reflexivity. Qed.

(** Definitions never write to an [attrs.Converter] instance (incl. its [_global_name] slot). *)
Lemma converter_objects_untouched_l w o : is_def o = true -> w_convs (step w o) = w_convs w.
Proof. intros H. destruct (def_step_objs w o H) as ((_&_&_&_&_&H1) & _). exact H1. Qed.

(** A Converter instance shared by two classes on differently named fields: each class
    converts each field with its own converter. *)
Example shared_converter_example :
  let fld n c := {| fd_name := n; fd_entry := EOwn (ib false c MANone); fd_ann := true; fd_cv := false; fd_ty := TObj "int" |} in
  let body fs := {| cb_fields := fs; cb_hash := false; cb_eq := false; cb_setattr := false;
                    cb_init := false; cb_pre := false; cb_post := false; cb_base := obj_base |} in
  let w := run w0 [ONewConv "c1" true true; ODecoDefine define_default;
                   OApply 0 (body [fld "x" (SConv 0)]);
                   OApply 0 (body [fld "x" (SOne "c2"); fld "y" (SConv 0)])] in
  exists fa fb, fingerprints w = [FOk fa; FOk fb] /\
    fp_initconv fb = Some [("x", Some ["c2"]); ("y", Some ["c1"])] /\
    w_convs w = w_convs (run w0 [ONewConv "c1" true true]).
Proof. vm_compute. do 2 eexists. repeat split; reflexivity. Qed.

(** ** Operations on existing classes *)

(** [resolve_types(A)] (or any other class operation) changes no other class. *)
Lemma class_op_local_l d w c t t' : t' <> t ->
  nth t' (w_defs (step w (OClassOp c t))) d = nth t' (w_defs w) d.
Proof.
  intros Hne. rewrite cop_defs. destruct (nth_error (w_defs w) t); [|reflexivity].
  apply nth_set_nth_neq. assumption.
Qed.

Lemma class_op_objs_l w c t :
  same_objs w (step w (OClassOp c t)) /\ w_counter (step w (OClassOp c t)) = w_counter w.
Proof. exact (cop_objs w c t). Qed.

Definition str_base : base_info :=
  {| bi_frozen := true; bi_exc := false; bi_ownsa := false; bi_hashable := true;
     bi_pre := false; bi_post := false;
     bi_attrs := [{| ba_name := "amount"; ba_default := true; ba_vals := []; ba_convs := [];
                     ba_cann := None; ba_type := Some (TStr "Money"); ba_hook := OsNone;
                     ba_kw := false; ba_init := true; ba_meta := [] |}] |}.
Definition frozen_define : define_cells :=
  {| dc_these := None; dc_hash := None; dc_unsafe_hash := None; dc_init := None; dc_slots := true;
     dc_frozen := true; dc_auto_attribs := None; dc_kw_only := false; dc_cache_hash := false;
     dc_auto_exc := true; dc_eq := None; dc_order := Some false; dc_auto_detect := true;
     dc_on_setattr := OsaVal COsNone |}.

(** define A(Base); resolve_types(A); define B(Base): A's inherited field is resolved,
    B's is the string it is when B is defined alone, and so is B's [__init__] annotation. *)
Example resolve_types_does_not_leak :
  let sub n := {| cb_fields := [{| fd_name := n; fd_entry := EOwn (ib true SNone MANone); fd_ann := true;
                                   fd_cv := false; fd_ty := TStr "int" |}];
                  cb_hash := false; cb_eq := false; cb_setattr := false; cb_init := false;
                  cb_pre := false; cb_post := false; cb_base := str_base |} in
  let ops := [ODecoDefine frozen_define; OApply 0 (sub "a"); OClassOp CResolve 0; OApply 0 (sub "b")] in
  exists fa fb, fingerprints (run w0 ops) = [FOk fa; FOk fb] /\
    map p_ty (fp_fields fa) = [Some (TObj "Money"); Some (TObj "int")] /\
    map p_ty (fp_fields fb) = [Some (TStr "Money"); Some (TStr "int")] /\
    fp_ann fa = Some [("amount", Some (TStr "Money")); ("a", Some (TStr "int"))] /\
    fp_ann fb = Some [("amount", Some (TStr "Money")); ("b", Some (TStr "int"))] /\
    alone 1 ops = [ODecoDefine frozen_define; OApply 0 (sub "b")] /\
    alone 0 ops = [ODecoDefine frozen_define; OApply 0 (sub "a"); OClassOp CResolve 0].
Proof. vm_compute. do 2 eexists. repeat split; reflexivity. Qed.

(** Converter wrappers made by one [def] (lists, optional, factories): each class's
    [__init__] annotation comes from ITS converter's annotation. *)
Example wrapper_annotations_per_class :
  let body c := body1 (ib false c MANone) false obj_base in
  let ops := [ODecoDefine define_default; OApply 0 (body (SLit ["c1"; "c2"]));
              OApply 0 (body (SLit ["c2"; "c1"])); OApply 0 (body (SOpt "c3"))] in
  map (fun f => match f with FOk x => fp_ann x | FExc _ => None end) (fingerprints (run w0 ops))
  = [Some [("x", Some (TObj "str"))]; Some [("x", None)];
     Some [("x", Some (TObj "typing.Optional[int]"))]].
Proof. vm_compute. reflexivity. Qed.

(** ** Round 4: metadata handed over as a live view; cmp_using keys *)

(** "A MappingProxyType is read-only already, keep it": the class then follows the
    caller's dict (only for proxies; dicts and other mappings are still copied). *)
Lemma metadata_proxy_alias_refuted :
  exists w c cls k,
    let '(_, w1, o) := attrs_wrap_gen false meta_alias_proxy w c cls in
    observe (step w1 (OMetaSet 0 k)) o <> observe w1 o /\
    observe (step w1 (OMetaDel 0 "k1")) o <> observe w1 o.
Proof.
  exists w_meta, s_plain, (cls1 w_meta (body1 (ib false SNone (MADict 0 MKProxy)) false obj_base)), "k2".
  vm_compute. split; intros H; discriminate H.
Qed.

Example metadata_any_kind_copied :
  forallb (fun k =>
    let cls := cls1 w_meta (body1 (ib false SNone (MADict 0 k)) false obj_base) in
    let '(_, w1, o) := attrs_wrap w_meta s_plain cls in
    match observe (run w1 [OMetaSet 0 "k2"; OMetaDel 0 "k1"]) o, observe w1 o with
    | FOk a, FOk b => match map p_m (fp_fields a), map p_m (fp_fields b) with
                      | [["k1"]], [["k1"]] => true | _, _ => false end
    | _, _ => false
    end) [MKDict; MKProxy; MKView] = true.
Proof. vm_compute. reflexivity. Qed.

(** Two classes whose eq keys come from cmp_using calls with the SAME function and
    different require_same_type: each class compares by ITS OWN option, in either order
    of definition. *)
Example cmp_using_keys_per_class :
  let body st := body1 {| aa_default := false; aa_v := SNone; aa_c := SNone; aa_h := HANone;
                          aa_kw := false; aa_init := true; aa_m := MANone;
                          aa_eqk := EKCmp "e1" st; aa_type := None |} false obj_base in
  let mixed ops := map (fun f => match f with FOk x => fp_mixed x | FExc _ => None end)
                       (fingerprints (run w0 (ODecoS plain_args :: ops))) in
  mixed [OApply 0 (body true); OApply 0 (body false)] = [Some false; Some true] /\
  mixed [OApply 0 (body false); OApply 0 (body true)] = [Some true; Some false].
Proof. vm_compute. split; reflexivity. Qed.

(** ** Round 5: a class_body with a nested [__annotations__] dict and fields with [type=] *)

Definition ib_typed (t : ty) : attrib_args :=
  {| aa_default := false; aa_v := SNone; aa_c := SNone; aa_h := HANone; aa_kw := false;
     aa_init := true; aa_m := MANone; aa_eqk := EKNone; aa_type := Some t |}.

Definition w_mk2 : world :=
  run w0 [OAttrib (ib_typed (TObj "int")); OAttrib (ib_typed (TObj "str"));
          ONewDict [("x", DCa 0)]; ONewDict [("x", DCa 1)];
          ONewDict [("__annotations__", DAnns [("registry", TObj "typing.ClassVar[dict]")])]].
Definition mkA := {| mk_attrs := 0; mk_body := Some 2; mk_args := plain_args; mk_base := obj_base |}.
Definition mkB := {| mk_attrs := 1; mk_body := Some 2; mk_args := plain_args; mk_base := obj_base |}.

(** [cls.__annotations__.update(...)] instead of the rebinding writes A's field types into the
    caller's NESTED dict (the class made by [types.new_class] has that very dict as its
    [__annotations__]); B made from the same class_body is then rejected. *)
Lemma make_class_annotations_update_refuted :
  w_dicts (fst (make_class_ann_update w_mk2 mkA)) <> w_dicts w_mk2 /\
  snd (make_class_ann_update (fst (make_class_ann_update w_mk2 mkA)) mkB) = Raised EValueError /\
  exists r, snd (make_class_ann_update w_mk2 mkB) = Built r.
Proof. vm_compute. split; [intros H; discriminate H | split; [reflexivity | eexists; reflexivity]]. Qed.

Example make_class_nested_annotations_kept :
  w_dicts (fst (make_class w_mk2 mkA)) = w_dicts w_mk2 /\
  snd (make_class (fst (make_class w_mk2 mkA)) mkB) = snd (make_class w_mk2 mkB) /\
  exists r, snd (make_class w_mk2 mkB) = Built r /\ map fa_type (r_fields r) = [Some (TObj "str")].
Proof. vm_compute. split; [reflexivity | split; [reflexivity | eexists; split; reflexivity]]. Qed.
