(** * C16 — correspondence: the check function evaluated by [coqc] on the histories
    the harness ran against the real library. *)
From Coq Require Import List Bool String ZArith Arith.
Import ListNotations.
From Attrs Require Import Base Core.Attr Core.Init C16.Model.
Open Scope string_scope.

(** Short names for case literals. *)
Notation A := Build_attrib_args.
Notation AR := Build_attrs_args.
Notation DC := Build_define_cells.
Notation F := Build_fdecl.
Notation BI := Build_base_info.
Notation CB := Build_class_body.
Notation MK := Build_mc_args.
Notation FP := Build_fp.
Notation PF := Build_ffp.

(** A field of a base class: name, validators; default present, nothing else. *)
Definition BA (n : string) (vs : list sym) (t : option ty) : battr :=
  {| ba_name := n; ba_default := true; ba_vals := vs; ba_convs := []; ba_cann := None;
     ba_type := t; ba_hook := OsNone;
     ba_kw := false; ba_init := true; ba_meta := [] |}.

(** ** Boolean equalities *)

Definition str_list_eqb := list_eqb String.eqb.

Definition dexc_eqb (a b : dexc) : bool :=
  match a, b with
  | EValueError, EValueError | ETypeError, ETypeError | EUnannotated, EUnannotated
  | EOther, EOther => true
  | _, _ => false
  end.

Definition kind_eqb (a b : kind) : bool :=
  match a, b with
  | KAbsent, KAbsent | KNone, KNone | KOwn, KOwn | KGen, KGen => true
  | _, _ => false
  end.

Definition ty_eqb (a b : ty) : bool :=
  match a, b with
  | TStr x, TStr y | TObj x, TObj y => String.eqb x y
  | _, _ => false
  end.
Definition ann_eqb (a b : string * option ty) : bool :=
  String.eqb (fst a) (fst b) && option_eqb ty_eqb (snd a) (snd b).

Definition asg_eqb (a b : asg) : bool :=
  match a, b with
  | AFrozen, AFrozen => true
  | AFired x, AFired y => str_list_eqb x y
  | _, _ => false
  end.

Definition ffp_eqb (a b : ffp) : bool :=
  String.eqb (p_n a) (p_n b) && Bool.eqb (p_kw a) (p_kw b) && Bool.eqb (p_d a) (p_d b) &&
  Bool.eqb (p_init a) (p_init b) && option_eqb ty_eqb (p_ty a) (p_ty b) &&
  option_eqb Bool.eqb (p_mix a) (p_mix b) &&
  str_list_eqb (p_v a) (p_v b) && str_list_eqb (p_c a) (p_c b) &&
  str_list_eqb (p_m a) (p_m b) && Bool.eqb (p_inh a) (p_inh b).

Definition sig_eqb (a b : string * bool * bool) : bool :=
  String.eqb (fst (fst a)) (fst (fst b)) && Bool.eqb (snd (fst a)) (snd (fst b)) &&
  Bool.eqb (snd a) (snd b).

Definition assign_eqb (a b : string * asg) : bool :=
  String.eqb (fst a) (fst b) && asg_eqb (snd a) (snd b).

Definition fp_eqb (a b : fp) : bool :=
  list_eqb ffp_eqb (fp_fields a) (fp_fields b) &&
  kind_eqb (fp_hash a) (fp_hash b) && kind_eqb (fp_eq a) (fp_eq b) &&
  kind_eqb (fp_init a) (fp_init b) &&
  option_eqb (list_eqb sig_eqb) (fp_sig a) (fp_sig b) &&
  option_eqb (list_eqb ann_eqb) (fp_ann a) (fp_ann b) &&
  Bool.eqb (fp_pre a) (fp_pre b) && Bool.eqb (fp_post a) (fp_post b) &&
  Bool.eqb (fp_owninit a) (fp_owninit b) &&
  option_eqb Bool.eqb (fp_hashes a) (fp_hashes b) &&
  option_eqb Bool.eqb (fp_mixed a) (fp_mixed b) &&
  option_eqb (list_eqb (fun x y => String.eqb (fst x) (fst y) &&
                                   option_eqb str_list_eqb (snd x) (snd y)))
             (fp_initconv a) (fp_initconv b) &&
  list_eqb assign_eqb (fp_assign a) (fp_assign b).

Definition fprint_eqb (a b : fprint) : bool :=
  match a, b with
  | FExc x, FExc y => dexc_eqb x y
  | FOk x, FOk y => fp_eqb x y
  | _, _ => false
  end.

Definition dval_eqb (a b : dval) : bool :=
  match a, b with
  | DCa x, DCa y => Nat.eqb x y
  | DFn, DFn => true
  | DAnns x, DAnns y =>
      (* the NESTED dict is compared deeply (as a set of name/type pairs) *)
      forallb (fun e => existsb (ann_eqb (fst e, Some (snd e))) (map (fun z => (fst z, Some (snd z))) y)) x &&
      forallb (fun e => existsb (ann_eqb (fst e, Some (snd e))) (map (fun z => (fst z, Some (snd z))) x)) y
  | _, _ => false
  end.

Definition pydict_eqb : pydict -> pydict -> bool :=
  list_eqb (fun a b => String.eqb (fst a) (fst b) && dval_eqb (snd a) (snd b)).

(** Metadata dicts are compared as key sets given in sorted order by the harness;
    the model keeps insertion order: compare as sets. *)
Definition set_eqb (a b : list string) : bool :=
  forallb (fun x => mem_str x b) a && forallb (fun x => mem_str x a) b.

(** Metadata keys inside fingerprints are sorted by the harness as well. *)
Definition ffp_eqb_m (a b : ffp) : bool :=
  String.eqb (p_n a) (p_n b) && Bool.eqb (p_kw a) (p_kw b) && Bool.eqb (p_d a) (p_d b) &&
  Bool.eqb (p_init a) (p_init b) && option_eqb ty_eqb (p_ty a) (p_ty b) &&
  option_eqb Bool.eqb (p_mix a) (p_mix b) &&
  str_list_eqb (p_v a) (p_v b) && str_list_eqb (p_c a) (p_c b) &&
  set_eqb (p_m a) (p_m b) && Bool.eqb (p_inh a) (p_inh b).

Definition fp_eqb_m (a b : fp) : bool :=
  list_eqb ffp_eqb_m (fp_fields a) (fp_fields b) &&
  fp_eqb {| fp_fields := []; fp_hash := fp_hash a; fp_eq := fp_eq a; fp_init := fp_init a;
            fp_sig := fp_sig a; fp_ann := fp_ann a; fp_pre := fp_pre a; fp_post := fp_post a;
            fp_owninit := fp_owninit a; fp_hashes := fp_hashes a; fp_mixed := fp_mixed a; fp_initconv := fp_initconv a;
            fp_assign := fp_assign a |}
         {| fp_fields := []; fp_hash := fp_hash b; fp_eq := fp_eq b; fp_init := fp_init b;
            fp_sig := fp_sig b; fp_ann := fp_ann b; fp_pre := fp_pre b; fp_post := fp_post b;
            fp_owninit := fp_owninit b; fp_hashes := fp_hashes b; fp_mixed := fp_mixed b; fp_initconv := fp_initconv b;
            fp_assign := fp_assign b |}.

Definition fprint_eqb_m (a b : fprint) : bool :=
  match a, b with
  | FExc x, FExc y => dexc_eqb x y
  | FOk x, FOk y => fp_eqb_m x y
  | _, _ => false
  end.

(** ** Cases *)

Record case := {
  c_counter : Z;                     (* _CountingAttr.cls_counter when the history started *)
  c_ops : list op;
  c_full : list fprint;              (* every defined class, observed at the END of the history *)
  c_alone : list fprint;             (* the same definitions, each without the other ones *)
  c_lists : list (list sym);         (* the caller's containers at the end of the history *)
  c_metas : list (list string);
  c_dicts : list pydict;
  c_noshare : bool }.                (* no Attribute OBJECT is shared between two classes *)


Definition model_full (c : case) : world := run (empty_world (c_counter c)) (c_ops c).

Definition model_alone (c : case) : list fprint :=
  map (fun k => last (fingerprints (run (empty_world (c_counter c)) (alone k (c_ops c)))) (FExc EOther))
      (seq 0 (n_defs (c_ops c))).

Definition model_of (c : case) :=
  (fingerprints (model_full c), model_alone c,
   (w_lists (model_full c), w_metas (model_full c), w_dicts (model_full c))).

Definition check_case (c : case) : bool :=
  let w := model_full c in
  (* the model predicts what the implementation showed ... *)
  list_eqb fprint_eqb_m (fingerprints w) (c_full c) &&
  list_eqb fprint_eqb_m (model_alone c) (c_alone c) &&
  (* ... the property itself on the observations ... *)
  list_eqb fprint_eqb (c_full c) (c_alone c) &&
  (* ... and the caller's containers hold what the caller put there *)
  list_eqb str_list_eqb (w_lists w) (c_lists c) &&
  list_eqb set_eqb (w_metas w) (c_metas c) &&
  list_eqb pydict_eqb (w_dicts w) (c_dicts c) &&
  (* every class owns its Attribute objects (what resolve_types relies on) *)
  c_noshare c.

Lemma dexc_eqb_spec a b : dexc_eqb a b = true <-> a = b.
Proof. destruct a, b; cbn; split; intros H; try reflexivity; try discriminate. Qed.

(** What a passing check means for the observations themselves: the fingerprint
    lists coincide position by position (the property's postcondition). *)
Lemma check_case_property c :
  check_case c = true -> list_eqb fprint_eqb (c_full c) (c_alone c) = true.
Proof.
  unfold check_case. intros H.
  repeat (apply andb_true_iff in H as [H ?]). assumption.
Qed.
