(** * C16 — class definition is a pure function of body, bases and arguments:
      executable model.

    Mirrors, statement by statement, the parts of [attr/_make.py] and
    [attr/_next_gen.py] through which one class definition could influence another:

    - [attrs()] (the factory: what it computes once and leaves in closure cells) and
      its inner [wrap] (what it computes per class: only locals in the current code);
    - [define()] / [frozen] / [mutable] and the inner [wrap] / [do_it];
    - [make_class] (copy of the caller's dict, the three pops, the fresh [body]);
    - [attrib()] (list sugar creating new [and_]/[pipe] objects, the global counter),
      [_CountingAttr.validator];
    - [_transform_attrs] ([these] / annotation walk / sort by counter, base fields,
      class-level [kw_only] evolving the new [Attribute]s, the order check),
      [Attribute.__init__] (metadata copied);
    - the decisions of [_ClassBuilder] that are visible from outside (effective
      class-level [on_setattr], [add_setattr], hash/eq/init selection, the
      frozen-plus-hooks rejection of [_make_init_script], the [__setattr__] reset).

    Decorator OBJECTS, [attr.ib()] objects and the caller's containers are explicit
    state ([world]); every function that the real code runs on them is a state
    transformer, also where the current code happens not to write anything, so that
    a write is expressible (see the [_buggy] variants at the end, which mirror the
    code before the three repairs).  Definitions only; proofs are in [C16/Proofs.v]. *)

From Coq Require Import List Bool String ZArith Arith.
Import ListNotations.
From Attrs Require Import Core.Attr Core.Init.
Open Scope string_scope.
Open Scope list_scope.

Definition sym := string.

Inductive dexc := EValueError | ETypeError | EUnannotated | EOther.
Inductive dres (A : Type) := DOk (a : A) | DErr (e : dexc).
Arguments DOk {A} a.
Arguments DErr {A} e.

(** Types as far as they matter here: a string annotation (not yet resolved) or an
    object ([attrs.resolve_types] turns the first into the second, IN PLACE, in the
    Attribute objects of the class it is called for). *)
Inductive ty := TStr (n : string) | TObj (n : string).

(** ** Arguments of [attrib()] as the caller writes them *)

(** [validator=] / [converter=]: nothing, one callable, a list literal, or a list
    object the caller keeps (index into [w_lists]). *)
Inductive seqarg := SNone | SOne (s : sym) | SLit (l : list sym) | SList (id : nat)
                   | SConv (id : nat)    (* an attrs.Converter(...) INSTANCE the caller keeps *)
                   | SOpt (s : sym).     (* converters.optional(s): a fresh wrapper closure *)
Inductive hookarg := HANone | HANoOp | HASeq (a : seqarg).
(** How the caller hands over a metadata container it keeps: the dict itself, a
    [types.MappingProxyType] over it, or another live Mapping view of it. *)
Inductive mkind := MKDict | MKProxy | MKView.
Inductive metaarg := MANone | MALit (ks : list string) | MADict (id : nat) (k : mkind).

(** [eq=cmp_using(eq=f, require_same_type=...)]: a NEW comparator class per call. *)
Inductive eqkey := EKNone | EKCmp (f : sym) (same_type : bool).

Record attrib_args := {
  aa_default : bool; aa_v : seqarg; aa_c : seqarg; aa_h : hookarg;
  aa_kw : bool; aa_init : bool; aa_m : metaarg; aa_eqk : eqkey; aa_type : option ty }.

(** The dict object a [_CountingAttr] holds in [.metadata]: one nobody else has
    ([{}] default or a literal) or the caller's. *)
Inductive metaref := MOwn (ks : list string) | MRef (id : nat) (k : mkind).

Record counting_attr := {
  ca_counter : Z;
  ca_default : bool;
  ca_vals : list sym;          (* [_validator]: [] = None, else the members of the and_ *)
  ca_convs : list sym;         (* [converter]: [] = None, else the members of the pipe *)
  ca_cann : option ty;         (* annotation of the converter object's first parameter *)
  ca_hook : on_setattr;
  ca_kw : bool; ca_init : bool;
  ca_meta : metaref;
  ca_eqk : eqkey;
  ca_type : option ty }.       (* type= *)

(** What an [Attribute] holds as metadata: a copy of the content, or (only in the
    buggy variant) the caller's dict itself. *)
Inductive metaval := MVCopy (ks : list string) | MVAlias (id : nat).

Record fattr := {
  fa_name : string; fa_default : bool; fa_vals : list sym; fa_convs : list sym;
  fa_cann : option ty; fa_type : option ty;
  fa_hint : bool;              (* the name is among typing.get_type_hints(cls) *)
  fa_hook : on_setattr; fa_kw : bool; fa_init : bool; fa_meta : metaval; fa_inh : bool;
  fa_eqk : eqkey }.

(** ** Decorator objects *)

(** A value in a caller dict: an attr.ib object, a function, or (under the key
    "__annotations__" of a class_body) a NESTED dict of annotations the caller owns too. *)
Inductive dval := DCa (id : nat) | DFn | DAnns (l : list (string * ty)).
Definition pydict := list (string * dval).

(** [these] as seen by [attrs.wrap]: the caller's dict object, or the private copy
    [make_class] hands over. *)
Inductive theseref := TRef (id : nat) | TVal (items : pydict).

Inductive osarg := OsaVal (o : cls_on_setattr) | OsaList (id : nat).

(** Keyword arguments of [attr.s(...)]. *)
Record attrs_args := {
  ar_these : option theseref; ar_hash : option bool; ar_unsafe_hash : option bool;
  ar_init : option bool; ar_slots : bool; ar_frozen : bool; ar_auto_attribs : bool;
  ar_kw_only : bool; ar_cache_hash : bool; ar_auto_exc : bool;
  ar_eq : option bool; ar_order : option bool; ar_auto_detect : bool;
  ar_collect_by_mro : bool; ar_on_setattr : osarg }.

(** The cells the inner [wrap] of [attrs()] closes over. *)
Record attrs_cells := {
  ac_these : option theseref; ac_hash : option bool; ac_init : option bool;
  ac_slots : bool; ac_frozen : bool; ac_auto_attribs : bool; ac_kw_only : bool;
  ac_cache_hash : bool; ac_auto_exc : bool; ac_eq : option bool; ac_order : option bool;
  ac_auto_detect : bool; ac_collect_by_mro : bool; ac_on_setattr : cls_on_setattr }.

(** The cells the inner [wrap]/[do_it] of [define()] close over. *)
Record define_cells := {
  dc_these : option nat; dc_hash : option bool; dc_unsafe_hash : option bool;
  dc_init : option bool; dc_slots : bool; dc_frozen : bool; dc_auto_attribs : option bool;
  dc_kw_only : bool; dc_cache_hash : bool; dc_auto_exc : bool;
  dc_eq : option bool; dc_order : option bool; dc_auto_detect : bool;
  dc_on_setattr : osarg }.

Inductive deco := DAttrs (c : attrs_cells) | DDefine (c : define_cells) | DInvalid (e : dexc).

(** ** Class bodies *)

Inductive entry :=
| EOwn (a : attrib_args)       (* x = attr.ib(...) written in the body *)
| EShared (id : nat)           (* x = <an attr.ib() object the caller keeps> *)
| EVal                         (* x = 5 *)
| ENoVal.                      (* annotation only *)

Record fdecl := { fd_name : string; fd_entry : entry; fd_ann : bool; fd_cv : bool;
                  fd_ty : ty (* the annotation, when [fd_ann] *) }.

(** A field of a base class (an Attribute made earlier: it holds copies only). *)
Record battr := {
  ba_name : string; ba_default : bool; ba_vals : list sym; ba_convs : list sym;
  ba_cann : option ty; ba_type : option ty;
  ba_hook : on_setattr; ba_kw : bool; ba_init : bool; ba_meta : list string }.

Record base_info := {
  bi_frozen : bool;      (* the base's __setattr__ is _frozen_setattrs *)
  bi_exc : bool;         (* BaseException subclass *)
  bi_ownsa : bool;       (* __attrs_own_setattr__ is true on the base *)
  bi_hashable : bool;    (* what instances inherit when __hash__ is left alone *)
  bi_pre : bool; bi_post : bool;
  bi_attrs : list battr  (* the base's own fields *) }.

Record class_body := {
  cb_fields : list fdecl;
  cb_hash : bool; cb_eq : bool; cb_setattr : bool; cb_init : bool; cb_pre : bool; cb_post : bool;
  cb_base : base_info }.

(** The class object handed to a decorator: what [cls.__dict__], the own
    annotations and the bases show. *)
Inductive cdval := CdCA (c : counting_attr) | CdVal.
Record cflags := {
  cf_hash : bool; cf_eq : bool; cf_setattr : bool; cf_init : bool; cf_pre : bool; cf_post : bool;
  cf_base : base_info }.
Record class_obj := {
  co_cd : list (string * cdval);
  co_anns : list (string * bool);       (* name, is ClassVar *)
  co_tys : list (string * ty);          (* the annotations themselves *)
  co_f : cflags }.
Definition co_hash c := cf_hash (co_f c).
Definition co_eq c := cf_eq (co_f c).
Definition co_setattr c := cf_setattr (co_f c).
Definition co_init c := cf_init (co_f c).
Definition co_pre c := cf_pre (co_f c).
Definition co_post c := cf_post (co_f c).
Definition co_base c := cf_base (co_f c).

(** ** What a definition produces *)

Inductive hash_dec := HGen | HNoneSet | HUntouched.
Inductive sa_dec :=
| SaFrozen
| SaHooked (l : list (string * list hook))
| SaReset                      (* __setattr__ put back to object's *)
| SaKeep.                      (* nothing written: the body's own or the inherited one *)

Record cls_result := {
  r_fields : list fattr;
  r_hash : hash_dec;
  r_eq : bool;                 (* __eq__ generated *)
  r_setattr : sa_dec;
  r_init : bool;               (* __init__ generated (else __attrs_init__) *)
  r_init_ann : list (string * option ty);   (* __init__.__annotations__, fixed when the script is made *)
  r_pre : bool; r_post : bool;
  r_slots : bool;
  r_cf : cflags }.            (* what the body and the bases themselves provide *)

Inductive cls_outcome := Raised (e : dexc) | Built (r : cls_result).

(** An [attrs.Converter] instance: the wrapped callable, the two flags and the
    (unused by the current code) [_global_name] slot. *)
Record conv_obj := { cv_sym : sym; cv_takes_self : bool; cv_takes_field : bool;
                     cv_first_param_type : option ty;
                     cv_global_name : option string }.

(** ** The world *)

Record world := {
  w_counter : Z;                    (* _CountingAttr.cls_counter *)
  w_cas : list counting_attr;       (* attr.ib() objects the caller keeps *)
  w_decos : list deco;              (* decorator objects the caller keeps *)
  w_dicts : list pydict;            (* these / make_class attrs / class_body dicts *)
  w_lists : list (list sym);        (* validator / converter / hook lists *)
  w_metas : list (list string);     (* metadata dicts (keys) *)
  w_convs : list conv_obj;          (* attrs.Converter instances *)
  w_defs : list cls_outcome }.      (* the classes defined so far, oldest first *)

Definition empty_world (c : Z) : world :=
  {| w_counter := c; w_cas := []; w_decos := []; w_dicts := []; w_lists := []; w_metas := [];
     w_convs := []; w_defs := [] |}.

Definition set_counter (w : world) (c : Z) : world :=
  {| w_counter := c; w_cas := w_cas w; w_decos := w_decos w; w_dicts := w_dicts w;
     w_lists := w_lists w; w_metas := w_metas w; w_convs := w_convs w; w_defs := w_defs w |}.
Definition set_cas (w : world) (x : list counting_attr) : world :=
  {| w_counter := w_counter w; w_cas := x; w_decos := w_decos w; w_dicts := w_dicts w;
     w_lists := w_lists w; w_metas := w_metas w; w_convs := w_convs w; w_defs := w_defs w |}.
Definition set_decos (w : world) (x : list deco) : world :=
  {| w_counter := w_counter w; w_cas := w_cas w; w_decos := x; w_dicts := w_dicts w;
     w_lists := w_lists w; w_metas := w_metas w; w_convs := w_convs w; w_defs := w_defs w |}.
Definition set_dicts (w : world) (x : list pydict) : world :=
  {| w_counter := w_counter w; w_cas := w_cas w; w_decos := w_decos w; w_dicts := x;
     w_lists := w_lists w; w_metas := w_metas w; w_convs := w_convs w; w_defs := w_defs w |}.
Definition set_lists (w : world) (x : list (list sym)) : world :=
  {| w_counter := w_counter w; w_cas := w_cas w; w_decos := w_decos w; w_dicts := w_dicts w;
     w_lists := x; w_metas := w_metas w; w_convs := w_convs w; w_defs := w_defs w |}.
Definition set_metas (w : world) (x : list (list string)) : world :=
  {| w_counter := w_counter w; w_cas := w_cas w; w_decos := w_decos w; w_dicts := w_dicts w;
     w_lists := w_lists w; w_metas := x; w_convs := w_convs w; w_defs := w_defs w |}.
Definition set_defs (w : world) (x : list cls_outcome) : world :=
  {| w_counter := w_counter w; w_cas := w_cas w; w_decos := w_decos w; w_dicts := w_dicts w;
     w_lists := w_lists w; w_metas := w_metas w; w_convs := w_convs w; w_defs := x |}.
Definition set_convs (w : world) (x : list conv_obj) : world :=
  {| w_counter := w_counter w; w_cas := w_cas w; w_decos := w_decos w; w_dicts := w_dicts w;
     w_lists := w_lists w; w_metas := w_metas w; w_convs := x; w_defs := w_defs w |}.

Fixpoint set_nth {A : Type} (n : nat) (x : A) (l : list A) : list A :=
  match l, n with
  | [], _ => []
  | _ :: r, O => x :: r
  | y :: r, S n' => y :: set_nth n' x r
  end.

Definition dummy_ca : counting_attr :=
  {| ca_counter := 0; ca_default := false; ca_vals := []; ca_convs := []; ca_cann := None;
     ca_hook := OsNone;
     ca_kw := false; ca_init := true; ca_meta := MOwn []; ca_eqk := EKNone; ca_type := None |}.

(** ** [attrib()] *)

Definition hook_of_sym (s : sym) : hook :=
  if String.eqb s "convert" then HConvert
  else if String.eqb s "validate" then HValidate else HUser s.

(** Reading a sequence argument NOW: [and_( *validator )], [pipe( *converter )],
    [setters.pipe( *on_setattr )] copy the members into a tuple; the list object
    itself is not kept. *)
Definition resolve_seq (w : world) (a : seqarg) : list sym :=
  match a with
  | SNone => []
  | SOne s => [s]
  | SLit l => l
  | SList id => nth id (w_lists w) []
  | SConv id => match nth_error (w_convs w) id with Some c => [cv_sym c] | None => [] end
  | SOpt s => [s]
  end.

(** The annotation table of the user's converter callables (an oracle: what
    [inspect.signature] shows for each function object; the harness's recording
    converters "c1" and "c3" are annotated, "c2" is not — all three are closures of ONE
    [def], i.e. share their code object and differ in [__annotations__]). *)
Definition conv_ann (s : sym) : option ty :=
  if String.eqb s "c1" then Some (TObj "str")
  else if String.eqb s "c3" then Some (TObj "int") else None.

Definition opt_ty (t : ty) : ty :=
  match t with TStr n => TObj ("typing.Optional[" ++ n ++ "]") | TObj n => TObj ("typing.Optional[" ++ n ++ "]") end.

(** First-parameter annotation of the converter OBJECT the field ends up with:
    the callable itself, the [pipe_converter] closure ([pipe] copies the first member's
    parameter annotation into the closure's [__annotations__]), the [optional] closure,
    or what the Converter instance read when it was made. *)
Definition converter_ann (w : world) (a : seqarg) : option ty :=
  match a with
  | SNone => None
  | SOne s => conv_ann s
  | SLit l => match l with s :: _ => conv_ann s | [] => None end
  | SList id => match nth id (w_lists w) [] with s :: _ => conv_ann s | [] => None end
  | SConv id => match nth_error (w_convs w) id with Some c => cv_first_param_type c | None => None end
  | SOpt s => option_map opt_ty (conv_ann s)
  end.

Definition resolve_hook (w : world) (a : hookarg) : on_setattr :=
  match a with
  | HANone => OsNone
  | HANoOp => OsNoOp
  | HASeq s => OsPipe (map hook_of_sym (resolve_seq w s))
  end.

Definition resolve_meta (a : metaarg) : metaref :=
  match a with
  | MANone => MOwn []            (* if metadata is None: metadata = {} *)
  | MALit ks => MOwn ks
  | MADict id k => MRef id k     (* the caller's object is kept by reference *)
  end.

Definition attrib (w : world) (a : attrib_args) : world * counting_attr :=
  let c := (w_counter w + 1)%Z in            (* _CountingAttr.cls_counter += 1 *)
  (set_counter w c,
   {| ca_counter := c; ca_default := aa_default a;
      ca_vals := resolve_seq w (aa_v a); ca_convs := resolve_seq w (aa_c a);
      ca_cann := converter_ann w (aa_c a);
      ca_hook := resolve_hook w (aa_h a);
      ca_kw := aa_kw a; ca_init := aa_init a; ca_meta := resolve_meta (aa_m a);
      ca_eqk := aa_eqk a; ca_type := aa_type a |}).

(** [_CountingAttr.validator(meth)]: a NEW and_ object replaces the old one. *)
Definition ca_add_validator (c : counting_attr) (s : sym) : counting_attr :=
  {| ca_counter := ca_counter c; ca_default := ca_default c; ca_vals := ca_vals c ++ [s];
     ca_convs := ca_convs c; ca_cann := ca_cann c; ca_hook := ca_hook c; ca_kw := ca_kw c;
     ca_init := ca_init c; ca_meta := ca_meta c; ca_eqk := ca_eqk c;
     ca_type := ca_type c |}.

(** ** Executing a class statement *)

Fixpoint exec_fields (w : world) (fs : list fdecl) : world * list (string * cdval) :=
  match fs with
  | [] => (w, [])
  | f :: r =>
      match fd_entry f with
      | EOwn a =>
          let '(w1, c) := attrib w a in
          let '(w2, cd) := exec_fields w1 r in (w2, (fd_name f, CdCA c) :: cd)
      | EShared id =>
          let '(w2, cd) := exec_fields w r in
          (w2, (fd_name f, CdCA (nth id (w_cas w) dummy_ca)) :: cd)
      | EVal => let '(w2, cd) := exec_fields w r in (w2, (fd_name f, CdVal) :: cd)
      | ENoVal => exec_fields w r
      end
  end.

Definition anns_of (fs : list fdecl) : list (string * bool) :=
  flat_map (fun f => if fd_ann f then [(fd_name f, fd_cv f)] else []) fs.
Definition tys_of (fs : list fdecl) : list (string * ty) :=
  flat_map (fun f => if fd_ann f then [(fd_name f, fd_ty f)] else []) fs.
Fixpoint lookup_ty (n : string) (l : list (string * ty)) : option ty :=
  match l with
  | [] => None
  | (k, t) :: r => if String.eqb n k then Some t else lookup_ty n r
  end.

Definition exec_body (w : world) (b : class_body) : world * class_obj :=
  let '(w1, cd) := exec_fields w (cb_fields b) in
  (w1, {| co_cd := cd; co_anns := anns_of (cb_fields b); co_tys := tys_of (cb_fields b);
          co_f := {| cf_hash := cb_hash b; cf_eq := cb_eq b; cf_setattr := cb_setattr b;
                     cf_init := cb_init b; cf_pre := cb_pre b; cf_post := cb_post b;
                     cf_base := cb_base b |} |}).

(** ** [_transform_attrs] *)

(** [types.MappingProxyType(dict(metadata))]: a shallow copy of the content at the
    time the Attribute is made. *)
Definition meta_copy (w : world) (m : metaref) : metaval :=
  match m with
  | MOwn ks => MVCopy ks
  | MRef id _ => MVCopy (nth id (w_metas w) [])   (* dict(metadata): whatever kind of mapping *)
  end.

(** [Attribute.from_counting_attr]: a NEW Attribute from the fields of the
    counting attr; nothing is written to the counting attr. *)
Definition from_counting_attr (mc : world -> metaref -> metaval) (w : world)
  (tys : list (string * ty)) (name : string) (c : counting_attr) : fattr :=
  {| fa_name := name; fa_default := ca_default c; fa_vals := ca_vals c; fa_convs := ca_convs c;
     fa_cann := ca_cann c;
     (* type = anns.get(attr_name); if type is None: type = ca.type *)
     fa_type := match lookup_ty name tys with Some t => Some t | None => ca_type c end;
     fa_hint := match lookup_ty name tys with Some _ => true | None => false end;
     fa_hook := ca_hook c; fa_kw := ca_kw c; fa_init := ca_init c;
     fa_meta := mc w (ca_meta c); fa_inh := false; fa_eqk := ca_eqk c |}.

Definition evolve_kw (a : fattr) : fattr :=
  {| fa_name := fa_name a; fa_default := fa_default a; fa_vals := fa_vals a;
     fa_convs := fa_convs a; fa_cann := fa_cann a; fa_type := fa_type a; fa_hint := fa_hint a;
     fa_hook := fa_hook a; fa_kw := true; fa_init := fa_init a;
     fa_meta := fa_meta a; fa_inh := fa_inh a; fa_eqk := fa_eqk a |}.
(** A base field as collected by [_collect_base_attrs]: [a.evolve(inherited=True)]. *)
Definition evolve_inh (a : battr) : fattr :=
  {| fa_name := ba_name a; fa_default := ba_default a; fa_vals := ba_vals a;
     fa_convs := ba_convs a; fa_cann := ba_cann a; fa_type := ba_type a;
     fa_hint := match ba_type a with Some _ => true | None => false end; fa_hook := ba_hook a; fa_kw := ba_kw a; fa_init := ba_init a;
     fa_meta := MVCopy (ba_meta a); fa_inh := true; fa_eqk := EKNone |}.

(** Stable insertion sort by counter: [sorted(..., key=lambda e: e[1].counter)]. *)
Fixpoint insert_by {A : Type} (key : A -> Z) (x : A) (l : list A) : list A :=
  match l with
  | [] => [x]
  | y :: r => if (key x <=? key y)%Z then x :: y :: r else y :: insert_by key x r
  end.
Fixpoint sort_by {A : Type} (key : A -> Z) (l : list A) : list A :=
  match l with
  | [] => []
  | x :: r => insert_by key x (sort_by key r)
  end.
(** Stable like Python's sort: the head goes in front of the first element whose key
    is not smaller.  (Counters are distinct, so this only matters for the statement.) *)
Definition sorted_by_counter (l : list (string * counting_attr)) : list (string * counting_attr) :=
  sort_by (fun e => ca_counter (snd e)) l.

Definition cas_of_cd (cd : list (string * cdval)) : list (string * counting_attr) :=
  flat_map (fun e => match snd e with CdCA c => [(fst e, c)] | CdVal => [] end) cd.

Fixpoint cd_get (n : string) (cd : list (string * cdval)) : option cdval :=
  match cd with
  | [] => None
  | (k, v) :: r => if String.eqb n k then Some v else cd_get n r
  end.

(** The annotation walk of the [auto_attribs is True] branch; [attrib(a)] is called
    for every annotated name that is not an attr.ib (global counter!). *)
Fixpoint walk_anns (w : world) (cd : list (string * cdval)) (anns : list (string * bool))
  : world * list (string * counting_attr) :=
  match anns with
  | [] => (w, [])
  | (n, cv) :: r =>
      if cv then walk_anns w cd r
      else
        match cd_get n cd with
        | Some (CdCA c) => let '(w2, l) := walk_anns w cd r in (w2, (n, c) :: l)
        | other =>
            let '(w1, c) := attrib w {| aa_default := match other with Some _ => true | None => false end;
                                        aa_v := SNone; aa_c := SNone; aa_h := HANone;
                                        aa_kw := false; aa_init := true; aa_m := MANone;
                                        aa_eqk := EKNone; aa_type := None |} in
            let '(w2, l) := walk_anns w1 cd r in (w2, (n, c) :: l)
        end
  end.

Definition annot_names (anns : list (string * bool)) : list string :=
  flat_map (fun e : string * bool => if snd e then [] else [fst e]) anns.

(** The mandatory-after-default check. *)
Fixpoint order_ok (had_default : bool) (l : list fattr) : bool :=
  match l with
  | [] => true
  | a :: r =>
      if fa_init a && negb (fa_kw a) then
        if had_default && negb (fa_default a) then false
        else order_ok (had_default || fa_default a) r
      else order_ok had_default r
  end.

(** [list(these.items())]: the counting attrs the dict refers to, in dict order. *)
Definition these_items (w : world) (d : pydict) : list (string * counting_attr) :=
  flat_map (fun e => match snd e with
                     | DCa id => [(fst e, nth id (w_cas w) dummy_ca)]
                     | _ => []
                     end) d.
Definition has_fn (d : pydict) : bool :=
  existsb (fun e => match snd e with DCa _ => false | _ => true end) d.

Definition deref_these (w : world) (t : theseref) : pydict :=
  match t with TRef id => nth id (w_dicts w) [] | TVal d => d end.

(** [fca(name, ca, anns.get(name)) for name, ca in these.items()]: a value that is not
    a counting attr fails with AttributeError, an annotated name whose counting attr
    has [type=] with ValueError — whichever comes first. *)
Fixpoint these_first_err (w : world) (tys : list (string * ty)) (d : pydict) : option dexc :=
  match d with
  | [] => None
  | (n, DCa id) :: r =>
      match lookup_ty n tys, ca_type (nth id (w_cas w) dummy_ca) with
      | Some _, Some _ => Some EValueError
      | _, _ => these_first_err w tys r
      end
  | _ :: _ => Some EOther
  end.

(** The rest of [_transform_attrs] once the (name, counting attr) list is known. *)
Definition finish_attrs (mc : world -> metaref -> metaval) (w1 : world) (tys : list (string * ty))
  (kw_only : bool) (base_attrs : list battr) (ca_list : list (string * counting_attr))
  : dres (list fattr) :=
  (* from_counting_attr: "Type annotation and type argument cannot both be present" *)
  if existsb (fun e => match lookup_ty (fst e) tys, ca_type (snd e) with
                       | Some _, Some _ => true | _, _ => false end) ca_list
  then DErr EValueError else
  let own := map (fun e => from_counting_attr mc w1 tys (fst e) (snd e)) ca_list in
  let taken := map fa_name own in
  let base := map evolve_inh
                  (filter (fun a => negb (mem_str (ba_name a) taken)) base_attrs) in
  (* if kw_only: NEW Attributes are made (a.evolve); the counting attrs stay *)
  let own := if kw_only then map evolve_kw own else own in
  let base := if kw_only then map evolve_kw base else base in
  let attrs := base ++ own in
  if order_ok false attrs then DOk attrs else DErr EValueError.

Definition transform_attrs (mc : world -> metaref -> metaval) (w : world)
  (these : option theseref) (auto_attribs kw_only : bool) (cls : class_obj)
  : world * dres (list fattr) :=
  let cd := co_cd cls in
  let anns := co_anns cls in
  let '(w1, ca_list) :=
    match these with
    | Some t =>
        let d := deref_these w t in
        (* from_counting_attr item by item, in dict order: the first offender decides *)
        match these_first_err w (co_tys cls) d with
        | Some e => (w, DErr e)
        | None => (w, DOk (these_items w d))
        end
    | None =>
        if auto_attribs then
          let '(w1, l) := walk_anns w cd anns in
          let unannotated := filter (fun n => negb (mem_str n (annot_names anns)))
                                    (map fst (cas_of_cd cd)) in
          match unannotated with
          | [] => (w1, DOk l)
          | _ => (w1, DErr EUnannotated)
          end
        else (w, DOk (sorted_by_counter (cas_of_cd cd)))
    end in
  match ca_list with
  | DErr e => (w1, DErr e)
  | DOk ca_list =>
      (w1, finish_attrs mc w1 (co_tys cls) kw_only (bi_attrs (co_base cls)) ca_list)
  end.

(** ** [_ClassBuilder] decisions *)

Definition to_core (a : fattr) : attribute :=
  {| a_name := fa_name a;
     a_default := if fa_default a then DValue else DNothing;
     a_validator := match fa_vals a with [] => None | s :: _ => Some s end;
     a_repr := true; a_eq := true; a_eq_key := None; a_order := true; a_order_key := None;
     a_hash := None; a_init := fa_init a; a_type := None;
     a_converter := match fa_convs a with [] => CNone | s :: _ => CPlain s false end;
     a_kw_only := fa_kw a; a_inherited := fa_inh a; a_on_setattr := fa_hook a;
     a_alias := Some (fa_name a) |}.

Definition spec_of (attrs : list fattr) (frozen : bool) (os : cls_on_setattr) : cls_spec :=
  {| k_attrs := map to_core attrs; k_frozen := frozen; k_slots := false; k_cache_hash := false;
     k_is_exc := false; k_pre_init := false; k_pre_init_has_args := false; k_post_init := false;
     k_on_setattr := os; k_mro_slots := []; k_has_dict := true |}.

(** [_determine_whether_to_implement] *)
Definition whether_to_implement (flag : option bool) (auto_detect own : bool) (default : bool) : bool :=
  match flag with
  | Some f => f
  | None => if negb auto_detect then default else if own then false else default
  end.

(** The fields [add_setattr] hooks and the hooks each gets. *)
Definition sa_attrs (eff : cls_on_setattr) (attrs : list fattr) : list (string * list hook) :=
  flat_map (fun a => if in_sa_attrs eff (to_core a)
                     then [(fa_name a, effective_hooks eff (to_core a))] else []) attrs.

(** [_make_init_script]: the two rejections. *)
Definition init_script_rejects (is_frozen : bool) (eff : cls_on_setattr) (attrs : list fattr) : bool :=
  (is_frozen && has_cls_on_setattr eff)
  || (is_frozen && existsb (fun a => negb (os_is_none (fa_hook a))) attrs).

(** [_attrs_to_init_script]: the annotation of each [__init__] parameter. *)
Definition init_annotations (attrs : list fattr) : list (string * option ty) :=
  flat_map (fun a => if fa_init a
                     then [(fa_name a, match fa_convs a with
                                       | [] => fa_type a                 (* a.type, no converter *)
                                       | _ => fa_cann a                  (* converter._first_param_type *)
                                       end)]
                     else []) attrs.

(** ** [attrs()]: the factory *)

Definition resolve_os (w : world) (a : osarg) : cls_on_setattr :=
  match a with
  | OsaVal o => o
  | OsaList id => COsPipe (map hook_of_sym (nth id (w_lists w) []))   (* setters.pipe( *on_setattr ) *)
  end.

Definition is_some_false (o : option bool) := match o with Some false => true | _ => false end.
Definition is_some_true (o : option bool) := match o with Some true => true | _ => false end.
Definition is_none {A} (o : option A) := match o with None => true | _ => false end.

Definition attrs_factory (w : world) (a : attrs_args) : dres attrs_cells :=
  (* eq_, order_ = _determine_attrs_eq_order(cmp, eq, order, None) *)
  let eq_ := ar_eq a in
  let order_ := match ar_order a with None => eq_ | o => o end in
  if is_some_false eq_ && is_some_true order_ then DErr EValueError else
  (* if unsafe_hash is not None: hash = unsafe_hash *)
  let hash := match ar_unsafe_hash a with Some h => Some h | None => ar_hash a end in
  (* if isinstance(on_setattr, (list, tuple)): on_setattr = setters.pipe( *on_setattr ) *)
  let on_setattr := resolve_os w (ar_on_setattr a) in
  DOk {| ac_these := ar_these a; ac_hash := hash; ac_init := ar_init a; ac_slots := ar_slots a;
         ac_frozen := ar_frozen a; ac_auto_attribs := ar_auto_attribs a;
         ac_kw_only := ar_kw_only a; ac_cache_hash := ar_cache_hash a;
         ac_auto_exc := ar_auto_exc a; ac_eq := eq_; ac_order := order_;
         ac_auto_detect := ar_auto_detect a; ac_collect_by_mro := ar_collect_by_mro a;
         ac_on_setattr := on_setattr |}.

Definition set_ac_hash (c : attrs_cells) (h : option bool) : attrs_cells :=
  {| ac_these := ac_these c; ac_hash := h; ac_init := ac_init c; ac_slots := ac_slots c;
     ac_frozen := ac_frozen c; ac_auto_attribs := ac_auto_attribs c; ac_kw_only := ac_kw_only c;
     ac_cache_hash := ac_cache_hash c; ac_auto_exc := ac_auto_exc c; ac_eq := ac_eq c;
     ac_order := ac_order c; ac_auto_detect := ac_auto_detect c;
     ac_collect_by_mro := ac_collect_by_mro c; ac_on_setattr := ac_on_setattr c |}.

(** ** [attrs.wrap]

    [sticky_hash] selects the code before the repair ([nonlocal hash; hash = False])
    — it is [false] in the model of the current code.  Every other per-class value
    is a local ([let]) exactly as in the source. *)
Definition attrs_wrap_gen (sticky_hash : bool) (mc : world -> metaref -> metaval)
  (w : world) (c : attrs_cells) (cls : class_obj) : attrs_cells * world * cls_outcome :=
  let base := co_base cls in
  (* cls.__setattr__ is _frozen_setattrs: an own __setattr__ in the body hides the base's *)
  let is_frozen := ac_frozen c || (negb (co_setattr cls) && bi_frozen base) in
  let is_exc := ac_auto_exc c && bi_exc base in
  let has_own_setattr := ac_auto_detect c && co_setattr cls in
  if has_own_setattr && is_frozen then (c, w, Raised EValueError) else
  (* builder = _ClassBuilder(...) *)
  let '(w1, tr) := transform_attrs mc w (ac_these c) (ac_auto_attribs c) (ac_kw_only c) cls in
  match tr with
  | DErr e => (c, w1, Raised e)
  | DOk attrs =>
      let eff := effective_cls_on_setattr (spec_of attrs is_frozen (ac_on_setattr c)) in
      let wrote_own_setattr := is_frozen in
      let eq := whether_to_implement (ac_eq c) (ac_auto_detect c) (co_eq cls) true in
      let gen_eq := negb is_exc && eq in
      (* if not frozen: builder.add_setattr() *)
      let hooked := if ac_frozen c then [] else sa_attrs eff attrs in
      let add_setattr_raises :=
        match hooked with [] => false | _ => has_own_setattr end in
      if add_setattr_raises then (c, w1, Raised EValueError) else
      let wrote_own_setattr := wrote_own_setattr || match hooked with [] => false | _ => true end in
      (* hash_ = hash ; if hash_ is None and auto_detect is True and own __hash__: hash_ = False *)
      let detect := is_none (ac_hash c) && ac_auto_detect c && (co_hash cls || co_eq cls) in
      let c' := if sticky_hash && detect then set_ac_hash c (Some false) else c in
      let hash_ := if detect then Some false else ac_hash c in
      let branch1 := is_some_false hash_ || (is_none hash_ && negb eq) || is_exc in
      let branch2 := is_some_true hash_ || (is_none hash_ && eq && is_frozen) in
      if (branch1 || negb branch2) && ac_cache_hash c then (c', w1, Raised ETypeError) else
      let hash_dec := if branch1 then HUntouched else if branch2 then HGen else HNoneSet in
      let gen_init := whether_to_implement (ac_init c) (ac_auto_detect c) (co_init cls) true in
      if init_script_rejects is_frozen eff attrs then (c', w1, Raised EValueError) else
      if negb gen_init && ac_cache_hash c then (c', w1, Raised ETypeError) else
      (* build_class *)
      let sa :=
        if is_frozen then SaFrozen
        else match hooked with
             | _ :: _ => SaHooked hooked
             | [] => if bi_ownsa base && negb has_own_setattr then SaReset else SaKeep
             end in
      (c', w1,
       Built {| r_fields := attrs; r_hash := hash_dec; r_eq := gen_eq; r_setattr := sa;
                r_init := gen_init; r_init_ann := init_annotations attrs;
                r_pre := co_pre cls || bi_pre base; r_post := co_post cls || bi_post base;
                r_slots := ac_slots c; r_cf := co_f cls |})
  end.

Definition attrs_wrap := attrs_wrap_gen false meta_copy.

(** ** [define()]: [wrap] and [do_it] *)

Definition os_is_plain_none (o : osarg) : bool :=
  match o with OsaVal COsNone => true | _ => false end.
Definition os_none_or_noop (o : osarg) : bool :=
  match o with OsaVal COsNone | OsaVal COsNoOp => true | _ => false end.

Definition set_dc_on_setattr (d : define_cells) (o : osarg) : define_cells :=
  {| dc_these := dc_these d; dc_hash := dc_hash d; dc_unsafe_hash := dc_unsafe_hash d;
     dc_init := dc_init d; dc_slots := dc_slots d; dc_frozen := dc_frozen d;
     dc_auto_attribs := dc_auto_attribs d; dc_kw_only := dc_kw_only d;
     dc_cache_hash := dc_cache_hash d; dc_auto_exc := dc_auto_exc d; dc_eq := dc_eq d;
     dc_order := dc_order d; dc_auto_detect := dc_auto_detect d; dc_on_setattr := o |}.

(** [do_it(cls, auto_attribs, on_setattr)]: a fresh [attrs(...)] closure applied at once. *)
Definition do_it (w : world) (d : define_cells) (cls : class_obj) (auto_attribs : bool)
  (on_setattr : osarg) : world * cls_outcome :=
  match attrs_factory w
          {| ar_these := option_map TRef (dc_these d); ar_hash := dc_hash d;
             ar_unsafe_hash := dc_unsafe_hash d; ar_init := dc_init d; ar_slots := dc_slots d;
             ar_frozen := dc_frozen d; ar_auto_attribs := auto_attribs;
             ar_kw_only := dc_kw_only d; ar_cache_hash := dc_cache_hash d;
             ar_auto_exc := dc_auto_exc d; ar_eq := dc_eq d; ar_order := dc_order d;
             ar_auto_detect := dc_auto_detect d; ar_collect_by_mro := true;
             ar_on_setattr := on_setattr |} with
  | DErr e => (w, Raised e)
  | DOk c => let '(_, w1, o) := attrs_wrap w c cls in (w1, o)
  end.

(** [sticky] selects the code before the repair ([nonlocal frozen, on_setattr]). *)
Definition define_wrap_gen (sticky : bool) (w : world) (d : define_cells) (cls : class_obj)
  : define_cells * world * cls_outcome :=
  (* cls_on_setattr = on_setattr *)
  let cls_on_setattr := dc_on_setattr d in
  let had_on_setattr := negb (os_none_or_noop cls_on_setattr) in
  (* if frozen is False and cls_on_setattr is None: cls_on_setattr = _DEFAULT_ON_SETATTR *)
  let cls_on_setattr :=
    if negb (dc_frozen d) && os_is_plain_none cls_on_setattr then OsaVal COsDefault
    else cls_on_setattr in
  (* for base_cls in cls.__bases__: if base_cls.__setattr__ is _frozen_setattrs *)
  if bi_frozen (co_base cls) && had_on_setattr then
    ((if sticky then set_dc_on_setattr d cls_on_setattr else d), w, Raised EValueError)
  else
  let cls_on_setattr := if bi_frozen (co_base cls) then OsaVal COsNoOp else cls_on_setattr in
  let d' := if sticky then set_dc_on_setattr d cls_on_setattr else d in
  match dc_auto_attribs d with
  | Some aa => let '(w1, o) := do_it w d cls aa cls_on_setattr in (d', w1, o)
  | None =>
      let '(w1, o) := do_it w d cls true cls_on_setattr in
      match o with
      | Raised EUnannotated => let '(w2, o2) := do_it w1 d cls false cls_on_setattr in (d', w2, o2)
      | _ => (d', w1, o)
      end
  end.

Definition define_wrap := define_wrap_gen false.

(** Applying a decorator object to a class. *)
Definition apply_deco (w : world) (d : deco) (cls : class_obj) : deco * world * cls_outcome :=
  match d with
  | DAttrs c => let '(c', w1, o) := attrs_wrap w c cls in (DAttrs c', w1, o)
  | DDefine c => let '(c', w1, o) := define_wrap w c cls in (DDefine c', w1, o)
  | DInvalid e => (d, w, Raised e)       (* the factory call itself raised: no decorator object *)
  end.

(** ** [make_class]

    [pop_from_caller] selects the code before the repair ([cls_dict = attrs]). *)
Fixpoint dict_pop (n : string) (d : pydict) : pydict * bool :=
  match d with
  | [] => ([], false)
  | (k, v) :: r =>
      if String.eqb n k then (r, true)
      else let '(r', f) := dict_pop n r in ((k, v) :: r', f)
  end.

Definition dict_has (n : string) (d : pydict) : bool := existsb (fun e => String.eqb n (fst e)) d.

Record mc_args := { mk_attrs : nat; mk_body : option nat; mk_args : attrs_args; mk_base : base_info }.

(** The nested annotations dict of a class_body (the class made by [types.new_class]
    gets this very dict object as its [__annotations__]). *)
Fixpoint body_anns (body : pydict) : list (string * ty) :=
  match body with
  | [] => []
  | (k, DAnns l) :: r => if String.eqb k "__annotations__" then l else body_anns r
  | _ :: r => body_anns r
  end.

(** [{k: v.type for k, v in cls_dict.items() if v.type is not None}] *)
Definition typed_fields (w : world) (cls_dict : pydict) : list (string * ty) :=
  flat_map (fun e => match snd e with
                     | DCa id => match ca_type (nth id (w_cas w) dummy_ca) with
                                 | Some t => [(fst e, t)] | None => [] end
                     | _ => []
                     end) cls_dict.

(** [d.update(typed)] on the nested dict (only the code variant with [.update] does this). *)
Definition upd_body (body : pydict) (typed : list (string * ty)) : pydict :=
  map (fun e => match snd e with
                | DAnns l =>
                    if String.eqb (fst e) "__annotations__"
                    then (fst e, DAnns (filter (fun x => negb (mem_str (fst x) (map fst typed))) l ++ typed))
                    else e
                | _ => e
                end) body.

(** [ann_update] selects a variant whose last statement is
    [cls.__annotations__.update(...)] instead of the rebinding [cls.__annotations__ = ...]. *)
(** After [cls.__annotations__ = {k: v.type ...}] the hinted names of the class itself
    are exactly the fields with [type=]. *)
Definition set_hint (typed : list string) (a : fattr) : fattr :=
  {| fa_name := fa_name a; fa_default := fa_default a; fa_vals := fa_vals a;
     fa_convs := fa_convs a; fa_cann := fa_cann a; fa_type := fa_type a;
     fa_hint := if fa_inh a then fa_hint a else mem_str (fa_name a) typed;
     fa_hook := fa_hook a; fa_kw := fa_kw a; fa_init := fa_init a;
     fa_meta := fa_meta a; fa_inh := fa_inh a; fa_eqk := fa_eqk a |}.
Definition rebind_annotations (typed : list string) (o : cls_outcome) : cls_outcome :=
  match o with
  | Built r =>
      Built {| r_fields := map (set_hint typed) (r_fields r); r_hash := r_hash r; r_eq := r_eq r;
               r_setattr := r_setattr r; r_init := r_init r; r_init_ann := r_init_ann r;
               r_pre := r_pre r; r_post := r_post r; r_slots := r_slots r; r_cf := r_cf r |}
  | Raised e => Raised e
  end.

Definition make_class_gen (pop_from_caller ann_update : bool) (w : world) (m : mc_args)
  : world * cls_outcome :=
  (* cls_dict = dict(attrs) *)
  let cls_dict := nth (mk_attrs m) (w_dicts w) [] in
  let '(cls_dict, pre_init) := dict_pop "__attrs_pre_init__" cls_dict in
  let '(cls_dict, post_init) := dict_pop "__attrs_post_init__" cls_dict in
  let '(cls_dict, user_init) := dict_pop "__init__" cls_dict in
  let w := if pop_from_caller then set_dicts w (set_nth (mk_attrs m) cls_dict (w_dicts w)) else w in
  (* body = {}; body.update(class_body); body[...] = popped hooks *)
  let body := match mk_body m with Some id => nth id (w_dicts w) [] | None => [] end in
  let cls :=
    {| co_cd := []; co_anns := []; co_tys := body_anns body;
       co_f := {| cf_hash := dict_has "__hash__" body; cf_eq := dict_has "__eq__" body;
                  cf_setattr := dict_has "__setattr__" body;
                  cf_init := dict_has "__init__" body || user_init;
                  cf_pre := dict_has "__attrs_pre_init__" body || pre_init;
                  cf_post := dict_has "__attrs_post_init__" body || post_init;
                  cf_base := mk_base m |} |} in
  (* eq, order = _determine_attrs_eq_order(cmp, eq, order, True) *)
  let a := mk_args m in
  let eq := match ar_eq a with None => Some true | e => e end in
  let order := match ar_order a with None => eq | o => o end in
  if is_some_false eq && is_some_true order then (w, Raised EValueError) else
  match attrs_factory w
          {| ar_these := Some (TVal cls_dict); ar_hash := ar_hash a;
             ar_unsafe_hash := ar_unsafe_hash a; ar_init := ar_init a; ar_slots := ar_slots a;
             ar_frozen := ar_frozen a; ar_auto_attribs := ar_auto_attribs a;
             ar_kw_only := ar_kw_only a; ar_cache_hash := ar_cache_hash a;
             ar_auto_exc := ar_auto_exc a; ar_eq := eq; ar_order := order;
             ar_auto_detect := ar_auto_detect a; ar_collect_by_mro := ar_collect_by_mro a;
             ar_on_setattr := ar_on_setattr a |} with
  | DErr e => (w, Raised e)
  | DOk c =>
      let '(_, w1, o) := attrs_wrap w c cls in
      (* cls.__annotations__ = {...}: a NEW dict is bound; the caller's nested dict stays *)
      let w2 :=
        match ann_update, o, mk_body m with
        | true, Built _, Some id =>
            set_dicts w1 (set_nth id (upd_body (nth id (w_dicts w1) []) (typed_fields w1 cls_dict))
                                  (w_dicts w1))
        | _, _, _ => w1
        end in
      (w2, rebind_annotations (map fst (typed_fields w1 cls_dict)) o)
  end.

Definition make_class := make_class_gen false false.

(** ** Histories *)

Inductive deco_kind := KS | KDefine.

(** Operations on an existing class: [attrs.resolve_types(cls)] writes the resolved
    types into the class's own Attribute objects; [fields()], [fields_dict()],
    [Attribute.evolve] (a copy), [validate(inst)], [asdict(inst)] only read. *)
Inductive class_op := CResolve | CPure.

Definition resolve_ty (t : ty) : ty := match t with TStr n => TObj n | TObj n => TObj n end.
Definition resolve_fattr (a : fattr) : fattr :=
  {| fa_name := fa_name a; fa_default := fa_default a; fa_vals := fa_vals a;
     fa_convs := fa_convs a; fa_cann := fa_cann a;
     (* for field in fields(cls): if field.name in hints: field.type = hints[field.name] *)
     fa_type := if fa_hint a then option_map resolve_ty (fa_type a) else fa_type a;
     fa_hint := fa_hint a;
     fa_hook := fa_hook a; fa_kw := fa_kw a; fa_init := fa_init a;
     fa_meta := fa_meta a; fa_inh := fa_inh a; fa_eqk := fa_eqk a |}.
Definition cop_outcome (c : class_op) (o : cls_outcome) : cls_outcome :=
  match c, o with
  | CResolve, Built r =>
      Built {| r_fields := map resolve_fattr (r_fields r); r_hash := r_hash r; r_eq := r_eq r;
               r_setattr := r_setattr r; r_init := r_init r; r_init_ann := r_init_ann r;
               r_pre := r_pre r; r_post := r_post r; r_slots := r_slots r; r_cf := r_cf r |}
  | _, _ => o
  end.

Inductive op :=
(* what the caller does with its own objects *)
| OAttrib (a : attrib_args)                 (* keep an attr.ib(...) object *)
| ODecoS (a : attrs_args)                   (* keep attr.s(...) *)
| ODecoDefine (c : define_cells)            (* keep attrs.define(...) / frozen(...) / mutable(...) *)
| ONewList (l : list sym)
| ONewMeta (ks : list string)
| ONewDict (d : pydict)
| ONewConv (s : sym) (takes_self takes_field : bool)   (* keep attrs.Converter(s, ...) *)
| OListAppend (id : nat) (s : sym)
| OMetaSet (id : nat) (k : string)
| OMetaDel (id : nat) (k : string)
| OListPop (id : nat)                       (* l.pop() *)
| OCaValidator (id : nat) (s : sym)         (* @shared.validator *)
| ODictSet (id : nat) (k : string) (v : dval)
| ODictDel (id : nat) (k : string)
(* definitions *)
| OApply (d : nat) (b : class_body)
| OMakeClass (m : mc_args)
(* what the public API offers on a class that exists already (target = its number) *)
| OClassOp (c : class_op) (t : nat).

Definition is_def (o : op) : bool :=
  match o with OApply _ _ | OMakeClass _ => true | _ => false end.
Definition is_cop (o : op) : bool := match o with OClassOp _ _ => true | _ => false end.

Definition dict_set (k : string) (v : dval) (d : pydict) : pydict :=
  if dict_has k d then map (fun e => if String.eqb k (fst e) then (k, v) else e) d
  else d ++ [(k, v)].

Definition step (w : world) (o : op) : world :=
  match o with
  | OAttrib a => let '(w1, c) := attrib w a in set_cas w1 (w_cas w1 ++ [c])
  | ODecoS a =>
      set_decos w (w_decos w ++ [match attrs_factory w a with DOk c => DAttrs c | DErr e => DInvalid e end])
  | ODecoDefine c => set_decos w (w_decos w ++ [DDefine c])
  | ONewList l => set_lists w (w_lists w ++ [l])
  | ONewMeta ks => set_metas w (w_metas w ++ [ks])
  | ONewDict d => set_dicts w (w_dicts w ++ [d])
  | ONewConv s ts tf =>
      set_convs w (w_convs w ++ [{| cv_sym := s; cv_takes_self := ts; cv_takes_field := tf;
                                    cv_first_param_type := conv_ann s; cv_global_name := None |}])
  | OListAppend id s => set_lists w (set_nth id (nth id (w_lists w) [] ++ [s]) (w_lists w))
  | OMetaDel id k =>
      set_metas w (set_nth id (filter (fun x => negb (String.eqb x k)) (nth id (w_metas w) [])) (w_metas w))
  | OListPop id => set_lists w (set_nth id (removelast (nth id (w_lists w) [])) (w_lists w))
  | OMetaSet id k =>
      let m := nth id (w_metas w) [] in
      if mem_str k m then w else set_metas w (set_nth id (m ++ [k]) (w_metas w))
  | OCaValidator id s =>
      set_cas w (set_nth id (ca_add_validator (nth id (w_cas w) dummy_ca) s) (w_cas w))
  | ODictSet id k v => set_dicts w (set_nth id (dict_set k v (nth id (w_dicts w) [])) (w_dicts w))
  | ODictDel id k => set_dicts w (set_nth id (fst (dict_pop k (nth id (w_dicts w) []))) (w_dicts w))
  | OApply d b =>
      let '(w1, cls) := exec_body w b in
      let '(d', w2, o) := apply_deco w1 (nth d (w_decos w1) (DInvalid EOther)) cls in
      set_defs (set_decos w2 (set_nth d d' (w_decos w2))) (w_defs w2 ++ [o])
  | OMakeClass m => let '(w1, o) := make_class w m in set_defs w1 (w_defs w1 ++ [o])
  | OClassOp c t =>
      match nth_error (w_defs w) t with
      | Some o => set_defs w (set_nth t (cop_outcome c o) (w_defs w))
      | None => w
      end
  end.

Definition run (w : world) (ops : list op) : world := fold_left step ops w.

Definition n_defs (ops : list op) : nat := List.length (filter is_def ops).

(** After definition [t]: only the class operations on [t] itself, which is class
    number [t0] of the reduced history. *)
Fixpoint keep_self (t t0 : nat) (ops : list op) : list op :=
  match ops with
  | [] => []
  | OClassOp c t' :: r => if Nat.eqb t' t then OClassOp c t0 :: keep_self t t0 r else keep_self t t0 r
  | _ :: r => keep_self t t0 r
  end.

(** The history of definition number [t] without the other definitions ([i] = number
    of definitions seen so far): the caller's operations on its own objects before it,
    the definition, and the class operations on the class itself afterwards ([t0] =
    its number in the reduced history).  Class
    operations on OTHER classes are dropped together with those classes. *)
Fixpoint alone_from (i t t0 : nat) (ops : list op) : list op :=
  match ops with
  | [] => []
  | o :: r =>
      if is_def o then (if Nat.eqb i t then o :: keep_self t t0 r else alone_from (S i) t t0 r)
      else if is_cop o then alone_from i t t0 r
      else o :: alone_from i t t0 r
  end.
Definition alone (k : nat) (ops : list op) : list op := alone_from 0 k 0 ops.

(** ** Behaviour fingerprint: what can be observed of a class from outside *)

Inductive kind := KAbsent | KNone | KOwn | KGen.
Inductive asg := AFrozen | AFired (l : list sym).

Record ffp := { p_n : string; p_kw : bool; p_d : bool; p_init : bool; p_ty : option ty;
                p_mix : option bool;   (* eq_key(1) == eq_key(1.0), when the field has an eq key *)
                p_v : list sym; p_c : list sym; p_m : list string; p_inh : bool }.

Record fp := {
  fp_fields : list ffp;
  fp_hash : kind; fp_eq : kind; fp_init : kind;
  fp_sig : option (list (string * bool * bool));   (* name, keyword-only, has default *)
  fp_ann : option (list (string * option ty));     (* __init__.__annotations__ per parameter *)
  fp_pre : bool; fp_post : bool; fp_owninit : bool;
  fp_hashes : option bool;
  fp_mixed : option bool;     (* generated __eq__ on two instances built from 1 and from 1.0 *)
  fp_initconv : option (list (string * option (list sym)));  (* per field after construction:
                                    which converters produced the stored value; None = never set *)
  fp_assign : list (string * asg) }.

Inductive fprint := FExc (e : dexc) | FOk (f : fp).

(** Metadata as seen NOW through the world (an alias follows the caller's dict). *)
Definition meta_now (w : world) (m : metaval) : list string :=
  match m with MVCopy ks => ks | MVAlias id => nth id (w_metas w) [] end.

Definition ffp_of (w : world) (a : fattr) : ffp :=
  {| p_n := fa_name a; p_kw := fa_kw a; p_d := fa_default a; p_init := fa_init a; p_ty := fa_type a;
     p_mix := match fa_eqk a with EKNone => None | EKCmp _ st => Some (negb st) end;
     p_v := fa_vals a; p_c := fa_convs a; p_m := meta_now w (fa_meta a); p_inh := fa_inh a |}.

Definition fire (a : fattr) (h : hook) : list sym :=
  match h with
  | HConvert => fa_convs a
  | HValidate => fa_vals a
  | HUser s => [s]
  | HFrozen => []
  end.

Fixpoint assoc_hooks (n : string) (l : list (string * list hook)) : option (list hook) :=
  match l with
  | [] => None
  | (k, v) :: r => if String.eqb n k then Some v else assoc_hooks n r
  end.

Definition observe (w : world) (o : cls_outcome) : fprint :=
  match o with
  | Raised e => FExc e
  | Built r =>
      let cls := r_cf r in
      (* creating a class whose namespace has __eq__ but no __hash__ makes Python put
         __hash__ = None there: the body's own __eq__ always, a generated __eq__ only
         when the class is re-created (slots) *)
      let py_none := negb (cf_hash cls) && (cf_eq cls || (r_slots r && r_eq r)) in
      let hk := match r_hash r with
                | HGen => KGen
                | HNoneSet => KNone
                | HUntouched => if cf_hash cls then KOwn else if py_none then KNone else KAbsent
                end in
      let ek := if r_eq r then KGen else if cf_eq cls then KOwn else KAbsent in
      let ik := if r_init r then KGen else if cf_init cls then KOwn else KAbsent in
      let pos := filter (fun a => fa_init a && negb (fa_kw a)) (r_fields r) in
      let kwo := filter (fun a => fa_init a && fa_kw a) (r_fields r) in
      let sig := map (fun a => (fa_name a, fa_kw a, fa_default a)) (pos ++ kwo) in
      FOk {| fp_fields := map (ffp_of w) (r_fields r);
             fp_hash := hk; fp_eq := ek; fp_init := ik;
             fp_sig := if r_init r then Some sig else None;
             fp_ann := if r_init r then Some (r_init_ann r) else None;
             fp_pre := r_init r && r_pre r; fp_post := r_init r && r_post r;
             fp_owninit := negb (r_init r) && cf_init cls;
             fp_hashes :=
               if r_init r then
                 Some (match hk with
                       | KOwn => true
                       (* the generated __hash__ hashes eq_key(value): a cmp_using class
                          defines __eq__ and is therefore unhashable *)
                       | KGen => negb (existsb (fun a => match fa_eqk a with EKNone => false | _ => true end)
                                               (r_fields r))
                       | KNone => false
                       | KAbsent => bi_hashable (cf_base cls)
                       end)
               else None;
             fp_mixed :=
               if r_init r && r_eq r then
                 Some (forallb (fun a => match fa_eqk a with
                                         | EKCmp _ true =>
                                             (* same-type requirement: int vs float fails unless a
                                                converter wrapped both values alike, or the field
                                                is not an __init__ argument *)
                                             negb (fa_init a) || match fa_convs a with [] => false | _ => true end
                                         | _ => true
                                         end) (r_fields r))
               else None;
             fp_initconv :=
               if r_init r then
                 Some (map (fun a => (fa_name a,
                                      if fa_init a || fa_default a then Some (fa_convs a) else None))
                           (r_fields r))
               else None;
             fp_assign :=
               map (fun a =>
                      (fa_name a,
                       match r_setattr r with
                       | SaFrozen => AFrozen
                       | SaHooked l =>
                           match assoc_hooks (fa_name a) l with
                           | Some hs => AFired (flat_map (fire a) hs)
                           | None => AFired []
                           end
                       | SaReset => AFired []
                       | SaKeep => if cf_setattr cls then AFired ["own_setattr"] else AFired []
                       end)) (r_fields r) |}
  end.

Definition fingerprints (w : world) : list fprint := map (observe w) (w_defs w).

(** ** The code before the three repairs (for the refutations) *)

Definition attrs_wrap_buggy := attrs_wrap_gen true meta_copy.
Definition define_wrap_buggy := define_wrap_gen true.
Definition make_class_buggy := make_class_gen true false.
Definition make_class_ann_update := make_class_gen false true.
Definition meta_alias (w : world) (m : metaref) : metaval :=
  match m with MOwn ks => MVCopy ks | MRef id _ => MVAlias id end.

(** The shortcut "a MappingProxyType is read-only already, keep it": only proxies alias. *)
Definition meta_alias_proxy (w : world) (m : metaref) : metaval :=
  match m with
  | MRef id MKProxy => MVAlias id
  | other => meta_copy w other
  end.
