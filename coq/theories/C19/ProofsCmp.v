(** * C19 (4/4) — proofs about the [cmp_using] model. *)

From Coq Require Import List Bool Arith ZArith Lia.
Import ListNotations.
From Attrs Require Import C19.ModelCmp.

(** cmp_using raises ValueError exactly when some but not all ordering
    functions are given and eq is missing. *)
Lemma construct_spec_l : forall c,
  construct_ok c = false <-> (0 < num_order_functions c < 4 /\ has_eq c = false).
Proof.
  intros [[] [] [] [] [] st]; cbn; split; intros H;
    try reflexivity; try discriminate; try (split; [lia | reflexivity]);
    destruct H as [H1 H2]; try discriminate; lia.
Qed.

(** Which dunder methods the class defines itself (the others are [object]'s). *)
Definition defined (c : cfg) (o : cop) : bool :=
  match o with
  | OEq | ONe => has_eq c
  | _ => supplied c o || wants_total_ordering c
  end.

(** As soon as one ordering function is supplied (and the class could be
    built) all four ordering operators exist. *)
Lemma all_order_ops_defined_l : forall c, construct_ok c = true ->
  0 < num_order_functions c ->
  defined c OLt = true /\ defined c OLe = true /\ defined c OGt = true /\ defined c OGe = true.
Proof.
  intros [[] [] [] [] [] st]; cbn; intros Hok Hn; try discriminate; try lia; auto.
Qed.

(** total_ordering's root is one of the supplied functions. *)
Lemma root_supplied_l : forall c, wants_total_ordering c = true -> supplied c (root c) = true.
Proof. intros [[] [] [] [] [] st]; cbn; intros H; try reflexivity; discriminate. Qed.

Section Laws.
Variable V : Type.
Variables feq flt fle fgt fge : V -> V -> tri.
Variable same_cls : V -> V -> bool.

Notation meth := (meth V feq flt fle fgt fge same_cls).
Notation fn := (fn V feq flt fle fgt fge).
Notation is_comparable_to := (is_comparable_to V same_cls).
Notation make_operator := (make_operator V same_cls).
Notation op_eq := (op_eq V feq same_cls).
Notation op_ne := (op_ne V feq same_cls).
Notation meth_eq := (meth_eq V feq same_cls).
Notation meth_ne := (meth_ne V feq same_cls).

(** A supplied function is what the operator computes with, on the two wrapped
    values in this order, called exactly once - and not at all when the operands
    are not comparable; total_ordering never replaces it. *)
Lemma uses_supplied_l : forall c o a b, supplied c o = true ->
  meth c o a b = if is_comparable_to c a b
                 then (fn o (w_val V a) (w_val V b), [(o, w_val V a, w_val V b)])
                 else (NI, []).
Proof.
  intros c o a b H. destruct o; cbn in H; try discriminate;
    unfold ModelCmp.meth, ModelCmp.meth_eq, meth_order, ModelCmp.make_operator;
    cbn [supplied ModelCmp.fn];
    rewrite H; destruct (is_comparable_to c a b); reflexivity.
Qed.

Lemma ne_negates_eq_l : forall c a b,
  meth c ONe a b = (tri_not (fst (meth c OEq a b)), snd (meth c OEq a b)).
Proof.
  intros. unfold ModelCmp.meth, ModelCmp.meth_ne. destruct (meth_eq c a b); reflexivity.
Qed.

(** With require_same_type, every one of the six methods - supplied or derived -
    answers NotImplemented for two (distinct) objects wrapping values of
    different classes, and NO supplied function is consulted (empty trace). *)
Lemma type_mismatch_notimplemented_l : forall c o a b,
  same_type c = true ->
  same_cls (w_val V a) (w_val V b) = false -> same_cls (w_val V b) (w_val V a) = false ->
  w_id V a <> w_id V b ->
  meth c o a b = (NI, []).
Proof.
  intros c o a b Hst Hab Hba Hid. apply Nat.eqb_neq in Hid.
  assert (Hid' : (w_id V b =? w_id V a) = false) by (rewrite Nat.eqb_sym; exact Hid).
  unfold ModelCmp.meth, meth_order, ModelCmp.op_eq, ModelCmp.op_ne, ModelCmp.meth_ne,
    ModelCmp.meth_eq, ModelCmp.make_operator, ModelCmp.is_comparable_to.
  rewrite Hst, Hab, Hba, Hid, Hid'. cbn [negb].
  destruct c as [[] [] [] [] [] st]; destruct o; reflexivity.
Qed.

(** Without the requirement nothing is filtered. *)
Lemma no_requirement_l : forall c a b, same_type c = false -> is_comparable_to c a b = true.
Proof. intros c a b H. unfold ModelCmp.is_comparable_to. now rewrite H. Qed.

(** ** "Compare through the supplied functions": every call any method makes is
    a call of a SUPPLIED function on the two wrapped values (in either order),
    and only between comparable operands. *)
Definition entry_ok (c : cfg) (a b : wobj V) (e : cop * V * V) : Prop :=
  let '(o, x, y) := e in
  supplied c o = true /\
  ((x = w_val V a /\ y = w_val V b /\ is_comparable_to c a b = true) \/
   (x = w_val V b /\ y = w_val V a /\ is_comparable_to c b a = true)).

Lemma entry_ok_sym c a b e : entry_ok c a b e -> entry_ok c b a e.
Proof. destruct e as [[o x] y]. cbn. tauto. Qed.

Lemma make_operator_trace c o a b : supplied c o = true ->
  Forall (entry_ok c a b) (snd (make_operator o (fn o) c a b)).
Proof.
  intros H. unfold ModelCmp.make_operator.
  destruct (is_comparable_to c a b) eqn:E; cbn; constructor; [|constructor].
  cbn. auto.
Qed.

Lemma meth_eq_trace c a b : Forall (entry_ok c a b) (snd (meth_eq c a b)).
Proof.
  unfold ModelCmp.meth_eq. destruct (has_eq c) eqn:E; [|constructor].
  apply (make_operator_trace c OEq a b). exact E.
Qed.

Lemma op_eq_trace c a b : Forall (entry_ok c a b) (snd (op_eq c a b)).
Proof.
  unfold ModelCmp.op_eq. pose proof (meth_eq_trace c a b) as H1.
  pose proof (meth_eq_trace c b a) as H2.
  destruct (meth_eq c a b) as [r1 t1]. destruct (meth_eq c b a) as [r2 t2]. cbn in *.
  destruct r1; cbn; try assumption.
  apply Forall_app. split; [assumption|].
  eapply Forall_impl; [|exact H2]. intros e. apply entry_ok_sym.
Qed.

Lemma op_ne_trace c a b : Forall (entry_ok c a b) (snd (op_ne c a b)).
Proof.
  unfold ModelCmp.op_ne, ModelCmp.meth_ne. pose proof (meth_eq_trace c a b) as H1.
  pose proof (meth_eq_trace c b a) as H2.
  destruct (meth_eq c a b) as [r1 t1]. destruct (meth_eq c b a) as [r2 t2]. cbn in *.
  destruct r1; cbn; try assumption.
  apply Forall_app. split; [assumption|].
  eapply Forall_impl; [|exact H2]. intros e. apply entry_ok_sym.
Qed.

Lemma derive_trace c a b r o res :
  Forall (entry_ok c a b) (snd (derive V r o res (op_eq c a b) (op_ne c a b))).
Proof.
  pose proof (op_eq_trace c a b) as He. pose proof (op_ne_trace c a b) as Hn.
  unfold derive. destruct res; try constructor; destruct r, o; try constructor; assumption.
Qed.

Lemma only_supplied_called_l : forall c o a b, Forall (entry_ok c a b) (snd (meth c o a b)).
Proof.
  intros c o a b.
  assert (Hord : Forall (entry_ok c a b) (snd (meth_order V feq flt fle fgt fge same_cls c o a b))).
  { unfold meth_order. destruct (supplied c o) eqn:Es.
    - apply make_operator_trace. exact Es.
    - destruct (wants_total_ordering c) eqn:Ew; [|constructor].
      pose proof (make_operator_trace c (root c) a b (root_supplied_l c Ew)) as Hr.
      pose proof (derive_trace c a b (root c) o) as Hd.
      destruct (make_operator (root c) (fn (root c)) c a b) as [res t]. cbn in Hr.
      specialize (Hd res).
      destruct (derive V (root c) o res (op_eq c a b) (op_ne c a b)) as [v t']. cbn in *.
      apply Forall_app. split; assumption. }
  destruct o; cbn [ModelCmp.meth]; try exact Hord.
  - apply meth_eq_trace.
  - unfold ModelCmp.meth_ne. pose proof (meth_eq_trace c a b) as H.
    destruct (meth_eq c a b); exact H.
Qed.

(** ** Derived operators are consistent: if the supplied functions all describe
    one total order (through an integer key), then every method the class
    defines - supplied or derived by total_ordering - answers according to that
    order.  All 64 configurations. *)
Variable key : V -> Z.

Lemma derived_consistent_l : forall c, construct_ok c = true ->
  (forall o, supplied c o = true ->
     forall x y, fn o x y = of_bool (honest o (key x) (key y))) ->
  forall a b, is_comparable_to c a b = true -> is_comparable_to c b a = true ->
  forall o, defined c o = true ->
  fst (meth c o a b) = of_bool (honest o (key (w_val V a)) (key (w_val V b))).
Proof.
  intros c Hok Hh a b Hab Hba o Hdef.
  unfold ModelCmp.meth, meth_order, ModelCmp.op_eq, ModelCmp.op_ne, ModelCmp.meth_ne,
    ModelCmp.meth_eq, ModelCmp.make_operator.
  rewrite ?Hab, ?Hba. cbn [negb].
  pose proof (Hh OEq) as Heq. pose proof (Hh OLt) as Hlt. pose proof (Hh OLe) as Hle.
  pose proof (Hh OGt) as Hgt. pose proof (Hh OGe) as Hge. clear Hh Hab Hba.
  set (ka := key (w_val V a)). set (kb := key (w_val V b)).
  destruct c as [[] [] [] [] [] st];
    cbn in Hok, Hdef, Heq, Hlt, Hle, Hgt, Hge |- *; try discriminate;
    destruct o; cbn in Hdef |- *; try discriminate;
    rewrite ?Heq, ?Hlt, ?Hle, ?Hgt, ?Hge by reflexivity;
    unfold honest; fold ka kb; rewrite ?(Z.compare_antisym ka kb);
    destruct (ka ?= kb)%Z; reflexivity.
Qed.

End Laws.

(** Non-vacuity: only [eq] and [gt] are supplied (honest, on integer ranks);
    the four missing operators are derived and agree with the order; a class
    mismatch gives NotImplemented everywhere; lt alone without eq cannot be built. *)
Example cmp_example :
  let c := {| has_eq := true; has_lt := false; has_le := false; has_gt := true;
              has_ge := false; same_type := true |} in
  let bs := {| b_eq := BHonest; b_lt := BConst NI; b_le := BConst NI; b_gt := BHonest; b_ge := BConst NI |} in
  let x := (0, {| cv_cls := 1; cv_rank := 3 |}) in
  let y := (1, {| cv_cls := 1; cv_rank := 5 |}) in
  let z := (2, {| cv_cls := 2; cv_rank := 5 |}) in
  option_map (map fst) (cmp_case c bs x y) = Some [FF; TT; TT; TT; FF; FF] /\
  option_map (map fst) (cmp_case c bs y x) = Some [FF; TT; FF; FF; TT; TT] /\
  (* x <= y is derived from gt alone (one call), x < y needs gt and then != (eq) *)
  option_map (map (fun r => map (fun e => fst (fst e)) (snd r))) (cmp_case c bs x y)
  = Some [[OEq]; [OEq]; [OGt; OEq]; [OGt]; [OGt]; [OGt; OEq]] /\
  (* class mismatch: NotImplemented everywhere and nothing is called *)
  cmp_case c bs y z = Some [(NI, []); (NI, []); (NI, []); (NI, []); (NI, []); (NI, [])] /\
  cmp_case {| has_eq := false; has_lt := true; has_le := false; has_gt := false;
              has_ge := false; same_type := true |} bs x y = None.
Proof. repeat split. Qed.

(** Non-vacuity of [derived_consistent_l]: honest functions on integer ranks
    satisfy its hypotheses; with only [eq] and [le] supplied, all six methods
    answer by the order, for all values of one class. *)
Example derived_consistent_nonvacuous :
  let c := {| has_eq := true; has_lt := false; has_le := true; has_gt := false;
              has_ge := false; same_type := true |} in
  forall a b : nat * cval, cv_cls (snd a) = cv_cls (snd b) ->
  forall o,
    fst (meth cval (interp BHonest OEq) (interp BHonest OLt) (interp BHonest OLe)
      (interp BHonest OGt) (interp BHonest OGe) (fun x y => cv_cls x =? cv_cls y) c o a b)
    = of_bool (honest o (cv_rank (snd a)) (cv_rank (snd b))).
Proof.
  intros c a b Hcls o.
  apply (derived_consistent_l cval _ _ _ _ _ _ cv_rank c).
  - reflexivity.
  - intros o' Hs x y. destruct o'; cbn in Hs; try discriminate; reflexivity.
  - cbn. unfold w_val. rewrite Hcls. apply Nat.eqb_refl.
  - cbn. unfold w_val. rewrite Hcls. apply Nat.eqb_refl.
  - destruct o; reflexivity.
Qed.
