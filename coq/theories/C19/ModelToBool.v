(** * C19 (2/4) — [converters.to_bool]: executable model.

    The two tuples are the spellings listed in the docstring of [to_bool]
    (the harness re-extracts the tuples of the source with [ast] on every run and
    the correspondence check compares them with these constants).

    Strings are Coq [string]s over ASCII; [lower] is ASCII lower-casing, which
    is what [str.lower] does on ASCII text.  For an input that is not an ASCII
    string, Python's [==] against the listed elements is an oracle: the input
    is represented by the list of listed elements it compares equal to. *)

From Coq Require Import List Bool Arith Ascii String ZArith.
Import ListNotations.

Inductive elt := EBool (b : bool) | EStr (s : string) | EInt (z : Z).

Definition truthy : list elt :=
  [EBool true; EStr "true"; EStr "t"; EStr "yes"; EStr "y"; EStr "on"; EStr "1"; EInt 1].
Definition falsy : list elt :=
  [EBool false; EStr "false"; EStr "f"; EStr "no"; EStr "n"; EStr "off"; EStr "0"; EInt 0].

Definition lower_ascii (c : ascii) : ascii :=
  let n := nat_of_ascii c in
  if (65 <=? n) && (n <=? 90) then ascii_of_nat (n + 32) else c.

Fixpoint lower (s : string) : string :=
  match s with
  | EmptyString => EmptyString
  | String c r => String (lower_ascii c) (lower r)
  end.

Inductive tb_in :=
| TStr (s : string)            (* an ASCII str *)
| TOther (eqs : list elt).     (* anything else: the listed elements it is ==-equal to *)

Definition elt_eqb (a b : elt) : bool :=
  match a, b with
  | EBool x, EBool y => Bool.eqb x y
  | EStr x, EStr y => String.eqb x y
  | EInt x, EInt y => Z.eqb x y
  | _, _ => false
  end.

(** [x == e] for one tuple element, as the [in] operator evaluates it. *)
Definition py_eq (x : tb_in) (e : elt) : bool :=
  match x with
  | TStr s => match e with EStr t => String.eqb s t | _ => false end
  | TOther eqs => existsb (elt_eqb e) eqs
  end.

Definition py_in (x : tb_in) (tup : list elt) : bool := existsb (py_eq x) tup.

Inductive tb_res := BOk (b : bool) | BValueError | BOtherOutcome.

Definition to_bool (x : tb_in) : tb_res :=
  let x := match x with TStr s => TStr (lower s) | _ => x end in   (* if isinstance(val, str): val = val.lower() *)
  if py_in x truthy then BOk true
  else if py_in x falsy then BOk false
  else BValueError.

(** The string spellings, for the statements. *)
Definition truthy_strings : list string := ["true"; "t"; "yes"; "y"; "on"; "1"]%string.
Definition falsy_strings : list string := ["false"; "f"; "no"; "n"; "off"; "0"]%string.

(** Byte codes -> string (the harness uses it for strings with characters that
    cannot be written inside a Coq string literal). *)
Fixpoint str_of_codes (l : list nat) : string :=
  match l with
  | [] => EmptyString
  | n :: r => String (ascii_of_nat n) (str_of_codes r)
  end.
