(** * C19 (2/4) — proofs about the [to_bool] model. *)

From Coq Require Import List Bool Arith Ascii String ZArith.
Import ListNotations.
From Attrs Require Import C19.ModelToBool.

Lemma lower_ascii_idem (c : ascii) : lower_ascii (lower_ascii c) = lower_ascii c.
Proof. destruct c as [[] [] [] [] [] [] [] []]; reflexivity. Qed.

Lemma lower_idem : forall s, lower (lower s) = lower s.
Proof. induction s as [|c r IH]; cbn; [reflexivity|]. now rewrite lower_ascii_idem, IH. Qed.

(** Case-insensitivity, for every string (not an enumeration). *)
Lemma to_bool_lower_l : forall s, to_bool (TStr s) = to_bool (TStr (lower s)).
Proof. intros s. unfold to_bool. now rewrite lower_idem. Qed.

Lemma to_bool_case_insensitive_l : forall s s',
  lower s = lower s' -> to_bool (TStr s) = to_bool (TStr s').
Proof. intros s s' H. unfold to_bool. now rewrite H. Qed.

Lemma py_in_truthy_str t : py_in (TStr t) truthy = existsb (String.eqb t) truthy_strings.
Proof. reflexivity. Qed.

Lemma py_in_falsy_str t : py_in (TStr t) falsy = existsb (String.eqb t) falsy_strings.
Proof. reflexivity. Qed.

Lemma existsb_eqb_in t l : existsb (String.eqb t) l = true <-> In t l.
Proof.
  rewrite existsb_exists. split.
  - intros (x & Hin & He). apply String.eqb_eq in He. now subst.
  - intros H. exists t. split; [assumption | apply String.eqb_refl].
Qed.

Lemma spellings_disjoint t : In t truthy_strings -> In t falsy_strings -> False.
Proof.
  unfold truthy_strings, falsy_strings. cbn. intros H1 H2.
  repeat (destruct H1 as [H1|H1]; [subst t; repeat (destruct H2 as [H2|H2]; [discriminate|]); exact H2|]).
  exact H1.
Qed.

(** [to_bool] on strings is exactly the documented table after lower-casing. *)
Lemma to_bool_str_true_l : forall s,
  to_bool (TStr s) = BOk true <-> In (lower s) truthy_strings.
Proof.
  intros s. unfold to_bool. rewrite py_in_truthy_str, py_in_falsy_str.
  rewrite <- existsb_eqb_in.
  destruct (existsb (String.eqb (lower s)) truthy_strings);
    destruct (existsb (String.eqb (lower s)) falsy_strings); split; intros H;
    try reflexivity; try discriminate.
Qed.

Lemma to_bool_str_false_l : forall s,
  to_bool (TStr s) = BOk false <-> In (lower s) falsy_strings.
Proof.
  intros s. unfold to_bool. rewrite py_in_truthy_str, py_in_falsy_str.
  destruct (existsb (String.eqb (lower s)) truthy_strings) eqn:Et;
    destruct (existsb (String.eqb (lower s)) falsy_strings) eqn:Ef; split; intros H;
    try reflexivity; try discriminate;
    try (apply existsb_eqb_in; assumption);
    try (apply existsb_eqb_in in H; congruence).
  exfalso. apply existsb_eqb_in in Et. apply (spellings_disjoint _ Et H).
Qed.

Lemma to_bool_str_error_l : forall s,
  to_bool (TStr s) = BValueError <-> ~ In (lower s) (truthy_strings ++ falsy_strings).
Proof.
  intros s. unfold to_bool. rewrite py_in_truthy_str, py_in_falsy_str, in_app_iff.
  rewrite <- !existsb_eqb_in.
  destruct (existsb (String.eqb (lower s)) truthy_strings);
    destruct (existsb (String.eqb (lower s)) falsy_strings); split; intros H;
    try reflexivity; try discriminate; try (intros [K|K]; discriminate);
    exfalso; apply H; auto.
Qed.

(** The result is never anything but True, False or ValueError. *)
Lemma to_bool_total_l : forall x,
  to_bool x = BOk true \/ to_bool x = BOk false \/ to_bool x = BValueError.
Proof.
  intros x. unfold to_bool.
  destruct (py_in _ truthy); [auto|]. destruct (py_in _ falsy); auto.
Qed.

(** Non-strings: accepted iff ==-equal to a listed element. *)
Lemma elt_eqb_spec a b : elt_eqb a b = true <-> a = b.
Proof.
  destruct a, b; cbn; split; intros H; try discriminate; try (inversion H; subst).
  - apply Bool.eqb_prop in H. now subst.
  - apply Bool.eqb_reflx.
  - apply String.eqb_eq in H. now subst.
  - apply String.eqb_refl.
  - apply Z.eqb_eq in H. now subst.
  - apply Z.eqb_refl.
Qed.

Lemma py_in_other eqs tup :
  py_in (TOther eqs) tup = true <-> exists e, In e tup /\ In e eqs.
Proof.
  unfold py_in. rewrite existsb_exists. split.
  - intros (e & Hin & H). cbn in H. apply existsb_exists in H as (e' & Hin' & He).
    apply elt_eqb_spec in He. subst. eauto.
  - intros (e & Hin & Hin'). exists e. split; [assumption|]. cbn.
    apply existsb_exists. exists e. split; [assumption | now apply elt_eqb_spec].
Qed.

Lemma to_bool_other_l : forall eqs,
  (to_bool (TOther eqs) = BOk true <-> exists e, In e truthy /\ In e eqs) /\
  (to_bool (TOther eqs) = BOk false <->
     (~ exists e, In e truthy /\ In e eqs) /\ exists e, In e falsy /\ In e eqs) /\
  (to_bool (TOther eqs) = BValueError <-> ~ exists e, In e (truthy ++ falsy) /\ In e eqs).
Proof.
  intros eqs. unfold to_bool.
  pose proof (py_in_other eqs truthy) as Ht. pose proof (py_in_other eqs falsy) as Hf.
  destruct (py_in (TOther eqs) truthy) eqn:Et; destruct (py_in (TOther eqs) falsy) eqn:Ef;
    (split; [|split]); split; intros H; try reflexivity; try discriminate.
  - apply Ht; reflexivity.
  - destruct H as [H _]. elim H. apply Ht; reflexivity.
  - elim H. destruct Ht as [Ht _]. destruct (Ht eq_refl) as (e & H1 & H2).
    exists e. split; [apply in_or_app; auto | assumption].
  - apply Ht; reflexivity.
  - destruct H as [H _]. elim H. apply Ht; reflexivity.
  - elim H. destruct Ht as [Ht _]. destruct (Ht eq_refl) as (e & H1 & H2).
    exists e. split; [apply in_or_app; auto | assumption].
  - apply Ht in H. discriminate.
  - split; [intros K; apply Ht in K; discriminate | apply Hf; reflexivity].
  - elim H. destruct Hf as [Hf _]. destruct (Hf eq_refl) as (e & H1 & H2).
    exists e. split; [apply in_or_app; auto | assumption].
  - apply Ht in H. discriminate.
  - destruct H as [_ H]. apply Hf in H. discriminate.
  - intros (e & H1 & H2). apply in_app_or in H1 as [H1|H1].
    + assert (K : true = true) by reflexivity. destruct Ht as [_ Ht'].
      assert (false = true) by (apply Ht'; eauto). discriminate.
    + destruct Hf as [_ Hf']. assert (false = true) by (apply Hf'; eauto). discriminate.
Qed.

(** Non-vacuity / the table in a few letter-cases. *)
Example to_bool_examples :
  to_bool (TStr "YeS") = BOk true /\ to_bool (TStr "oFF") = BOk false /\
  to_bool (TStr "1") = BOk true /\ to_bool (TStr " yes") = BValueError /\
  to_bool (TStr "") = BValueError /\
  to_bool (TOther [EBool true; EInt 1]) = BOk true /\      (* 1.0 *)
  to_bool (TOther []) = BValueError /\                     (* None, 2, ... *)
  to_bool (TOther (truthy ++ falsy)) = BOk true.           (* an object equal to everything *)
Proof. repeat split. Qed.
