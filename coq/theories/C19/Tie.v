(** * C19 — tie by translation: the anchor code regenerated from the CURRENT source text
    ([Gen/C19_tie.v], written by harness/translate_c19.py on every run) coincides on EVERY input with
    the functions of [C19/Model*.v] that the property theorems are stated about.  A source change that
    alters one of these functions makes a lemma below fail to compile: a proof-obligation failure of
    ./check C19, which then searches for a concrete failing input with its correspondence. *)
From Coq Require Import List Bool Arith String ZArith.
Import ListNotations.
From Attrs Require Import C19.Model Gen.C19_tie.
Open Scope string_scope.

Lemma tie_fully_translated : c19_fully_translated = true.
Proof. reflexivity. Qed.

(** ** _cmp.py *)

Section CmpTie.
Variables (V K : Type) (cls : V -> K) (cls_is cls_sub : K -> K -> bool).

(** the model's oracle [same_cls x y] = "[y.__class__ is x.__class__]" *)
Definition same_cls_of : V -> V -> bool := fun x y => cls_is (cls y) (cls x).

(** the [_requirements] list of a class built with this configuration (see [tie_cmp_using]) *)
Definition reqs_of (c : cfg) : list (nat * V -> nat * V -> bool) :=
  if same_type c then [t_check_same_type V K cls cls_is cls_sub] else [].

Lemma tie_check_same_type : forall a b,
  t_check_same_type V K cls cls_is cls_sub a b = same_cls_of (w_val V a) (w_val V b).
Proof. reflexivity. Qed.

Lemma tie_is_comparable_to : forall c a b,
  t_is_comparable_to V (reqs_of c) a b = is_comparable_to V same_cls_of c a b.
Proof.
  intros [e l le g ge []] a b; unfold t_is_comparable_to, reqs_of, is_comparable_to; cbn;
    rewrite ?andb_true_r, ?orb_false_r; reflexivity.
Qed.

(** [_make_operator(name, func).method]: guard first, then exactly one traced call, NotImplemented
    and exceptions passed on. *)
Lemma tie_method : forall o f c a b,
  t_method V o f (t_is_comparable_to V (reqs_of c)) a b = make_operator V same_cls_of o f c a b.
Proof.
  intros o f c a b. unfold t_method, make_operator. rewrite ?tie_is_comparable_to.
  destruct (is_comparable_to V same_cls_of c a b); cbn; try reflexivity;
    unfold call_fn; destruct (f (w_val V a) (w_val V b)); reflexivity.
Qed.
End CmpTie.

(** The body of [cmp_using]: when it raises, what it installs, when total_ordering is applied,
    which requirement it registers.  All 64 argument combinations. *)
Lemma tie_cmp_using : forall e l le g ge st,
  let c := Build_cfg e l le g ge st in
  match t_cmp_using e l le g ge st with
  | CRaise x => construct_ok c = false /\ x = "ValueError"
  | CClass body reqs total =>
      construct_ok c = true /\
      total = wants_total_ordering c /\
      reqs = (if st then ["_check_same_type"] else []) /\
      body_get "_is_comparable_to" body = Some (BName "_is_comparable_to") /\
      body_get "__eq__" body = (if supplied c OEq then Some (BOp "eq" F_eq) else None) /\
      body_get "__ne__" body = (if has_eq c then Some (BName "__ne__") else None) /\
      body_get "__lt__" body = (if supplied c OLt then Some (BOp "lt" F_lt) else None) /\
      body_get "__le__" body = (if supplied c OLe then Some (BOp "le" F_le) else None) /\
      body_get "__gt__" body = (if supplied c OGt then Some (BOp "gt" F_gt) else None) /\
      body_get "__ge__" body = (if supplied c OGe then Some (BOp "ge" F_ge) else None)
  end.
Proof. intros [] [] [] [] [] []; vm_compute; repeat split; reflexivity. Qed.

Lemma tie_require_same_type_default : t_require_same_type_default = true.
Proof. reflexivity. Qed.

(** ** filters.py — for every [what], including items that are a type / a name / an Attribute only
    by isinstance ([ti_exact] false) *)

Lemma tie_split_what : forall w,
  t_split_what w = (filter (fun x => ti_isinstance x KType) w,
                    filter (fun x => ti_isinstance x KName) w,
                    filter (fun x => ti_isinstance x KAttr) w).
Proof.
  intros w. unfold t_split_what.
  apply f_equal2; [apply f_equal2|]; apply filter_ext; intros [[] []]; reflexivity.
Qed.

Lemma mem_types w vt :
  t_mem (WType vt) (filter (fun x => ti_isinstance x KType) w)
  = existsb (Nat.eqb vt) (flat_map (fun x => match x with WType t => [t] | _ => [] end) (map ti w)).
Proof.
  induction w as [|[it ex] w IH]; [reflexivity|]. destruct it; cbn; try exact IH; f_equal; exact IH.
Qed.

Lemma mem_names w s :
  t_mem (WName s) (filter (fun x => ti_isinstance x KName) w)
  = existsb (String.eqb s) (flat_map (fun x => match x with WName t => [t] | _ => [] end) (map ti w)).
Proof.
  induction w as [|[it ex] w IH]; [reflexivity|]. destruct it; cbn; try exact IH; f_equal; exact IH.
Qed.

Lemma mem_attrs w a :
  t_mem (WAttr a) (filter (fun x => ti_isinstance x KAttr) w)
  = existsb (attr_eqb a) (flat_map (fun x => match x with WAttr t => [t] | _ => [] end) (map ti w)).
Proof.
  induction w as [|[it ex] w IH]; [reflexivity|]. destruct it; cbn; try exact IH; f_equal; exact IH.
Qed.

Ltac by_cases_on_memberships :=
  repeat match goal with |- context [existsb ?f ?l] => destruct (existsb f l) end; reflexivity.

(** [a] carries an arbitrary alias: reading [attribute.alias] instead of [attribute.name] breaks these. *)
Lemma tie_include : forall w a vt, t_include w a vt = include_ (map ti w) (ta a) vt.
Proof.
  intros w a vt. unfold t_include, include_, split_what. rewrite tie_split_what. cbn beta iota.
  rewrite ?mem_types, ?mem_names, ?mem_attrs. by_cases_on_memberships.
Qed.

Lemma tie_exclude : forall w a vt, t_exclude w a vt = exclude_ (map ti w) (ta a) vt.
Proof.
  intros w a vt. unfold t_exclude, exclude_, split_what. rewrite tie_split_what. cbn beta iota.
  rewrite ?mem_types, ?mem_names, ?mem_attrs. by_cases_on_memberships.
Qed.

(** ** converters.to_bool: control flow and both tuples *)
Lemma tie_to_bool : forall x, t_to_bool x = to_bool x.
Proof. intros []; reflexivity. Qed.

(** ** The closures of optional / default_if_none / pipe, on every argument list (wrong arities
    included) and for every meaning [call] of "call the object a sub-expression denotes". *)
Ltac args4 a := destruct a as [|?v [|?i [|?fl [|?x ?r]]]].
Ltac by_none_cases :=
  try reflexivity; cbn;
  repeat match goal with |- context [is_none ?v] => is_var v; destruct v end; reflexivity.

Lemma tie_optional3 : forall call c a n,
  t_optional_converter3 call c a n = optional_converter3 call c a n.
Proof. intros call c a n. args4 a; by_none_cases. Qed.

Lemma tie_optional1 : forall call c a n,
  t_optional_converter1 call c a n = optional_converter1 call c a n.
Proof. intros call c a n. args4 a; by_none_cases. Qed.

Lemma tie_default_value : forall d a n, t_default_if_none_value d a n = default_if_none_value d a n.
Proof. intros d a n. args4 a; by_none_cases. Qed.

Lemma tie_default_factory : forall g a n, t_default_if_none_factory g a n = default_if_none_factory g a n.
Proof. intros g a n. args4 a; by_none_cases. Qed.

Lemma tie_pipe3 : forall call cs a n, t_pipe_converter3 call cs a n = pipe_converter3 call cs a n.
Proof. intros call cs a n. args4 a; reflexivity. Qed.

Lemma tie_pipe1 : forall call cs a n, t_pipe_converter1 call cs a n = pipe_converter1 call cs a n.
Proof. intros call cs a n. args4 a; reflexivity. Qed.

(** Which closure [optional] / [pipe] build, and that the model's [call_obj] is these closures. *)
Lemma tie_optional_dispatch :
  t_optional_wrap_flags = Some (true, true) /\   (* Converter(optional_converter, takes_self=True, takes_field=True) *)
  t_optional_arity_if_converter = 3 /\ t_optional_arity_if_plain = 1 /\
  forall app c args n,
    call_obj app (COpt c) args n
    = if is_converter c
      then converter_obj_call true true (t_optional_converter3 (call_obj app) c) args n
      else t_optional_converter1 (call_obj app) c args n.
Proof.
  split; [reflexivity|]. split; [reflexivity|]. split; [reflexivity|]. intros app c args n. cbn [call_obj].
  destruct (is_converter c).
  - args4 args; try reflexivity; cbn; symmetry; apply tie_optional3.
  - symmetry. apply tie_optional1.
Qed.

Lemma tie_pipe_dispatch :
  t_pipe_wrap_flags = Some (true, true) /\       (* Converter(pipe_converter, takes_self=True, takes_field=True) *)
  t_pipe_arity_if_instance = 3 /\ t_pipe_arity_if_plain = 1 /\
  forall app cs args n,
    call_obj app (CPipe cs) args n
    = if t_pipe_return_instance cs
      then converter_obj_call true true (t_pipe_converter3 (call_obj app) cs) args n
      else t_pipe_converter1 (call_obj app) cs args n.
Proof.
  split; [reflexivity|]. split; [reflexivity|]. split; [reflexivity|]. intros app cs args n. cbn [call_obj].
  unfold t_pipe_return_instance. destruct (existsb is_converter cs).
  - args4 args; try reflexivity; cbn; symmetry; apply tie_pipe3.
  - symmetry. apply tie_pipe1.
Qed.

(** ** The generated __init__ works with the field's OWN converter object: a plain callable is
    wrapped in a new [Converter(a.converter)] (both flags false) around exactly that object, a
    Converter instance is used as it is - which is what [init_convert] does. *)
Lemma tie_init_wrap :
  t_converter_default_flags = (false, false) /\
  (forall has isconv, t_init_wrap has isconv = if has && negb isconv then WNew else WSame) /\
  forall app c v self fld n,
    init_convert app (Some c) v self fld n
    = match t_init_wrap true (is_converter c) with
      | WNew => let '(ts, tf) := t_converter_default_flags in
                fmt_converter_call ts tf (call_obj app c) v self fld n
      | WSame => let '(ts, tf) := flags_of c in fmt_converter_call ts tf (inner_of app c) v self fld n
      end.
Proof.
  split; [reflexivity|]. split; [intros [] []; reflexivity|].
  intros app c v self fld n. unfold init_convert. destruct (is_converter c); reflexivity.
Qed.
