(** * C19 (3/4) — [attr/filters.py]: executable model.

    Universe: types are numbers (a value is represented by the number of its
    exact class, [value.__class__]), field names are strings, an [Attribute] is
    its name plus a number standing for all its other fields ([Attribute.__eq__]
    and [__hash__] compare every field, and [frozenset] membership is [==]).
    [WJunk] is an item of [what] that is neither a type, a str nor an Attribute. *)

From Coq Require Import List Bool Arith String.
Import ListNotations.

Record attribute := { a_name : string; a_rest : nat }.

Inductive witem := WType (t : nat) | WName (s : string) | WAttr (a : attribute) | WJunk.

Definition attr_eqb (a b : attribute) : bool :=
  String.eqb (a_name a) (a_name b) && Nat.eqb (a_rest a) (a_rest b).

(** [_split_what]: three frozensets (membership is all that is used). *)
Definition split_what (w : list witem) : list nat * list string * list attribute :=
  (flat_map (fun x => match x with WType t => [t] | _ => [] end) w,
   flat_map (fun x => match x with WName s => [s] | _ => [] end) w,
   flat_map (fun x => match x with WAttr a => [a] | _ => [] end) w).

(** [include( *what )(attribute, value)] *)
Definition include_ (w : list witem) (a : attribute) (vt : nat) : bool :=
  let '(cls, names, attrs) := split_what w in
  existsb (Nat.eqb vt) cls || existsb (String.eqb (a_name a)) names || existsb (attr_eqb a) attrs.

(** [exclude( *what )(attribute, value)] *)
Definition exclude_ (w : list witem) (a : attribute) (vt : nat) : bool :=
  let '(cls, names, attrs) := split_what w in
  negb (existsb (Nat.eqb vt) cls || existsb (String.eqb (a_name a)) names || existsb (attr_eqb a) attrs).
