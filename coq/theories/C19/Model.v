(** * C19 — converter combinators, filters, cmp_using: the executable model
    (four parts, one file each; definitions only). *)
From Attrs Require Export C19.ModelConv C19.ModelToBool C19.ModelFilters C19.ModelCmp.
