(** * C19 (4/4) — [attr/_cmp.py] ([cmp_using], [_make_operator],
    [_is_comparable_to], [_check_same_type]), [attr._make.__ne__] and CPython's
    [functools.total_ordering] (its [_convert] table and the twelve
    [_x_from_y] functions): executable model.

    The supplied functions are oracles [V -> V -> tri] (they may answer
    NotImplemented, or raise: [EX]); every method also answers the trace of the
    calls made to them; [same_cls x y] stands for [y.__class__ is x.__class__].
    A wrapper object is an identity number plus the wrapped value. *)

From Coq Require Import List Bool Arith ZArith.
Import ListNotations.

Inductive tri := TT | FF | NI | EX.     (* True, False, NotImplemented; EX: the supplied
                                           function raised and the exception propagates *)
Inductive cop := OEq | ONe | OLt | OLe | OGt | OGe.

Record cfg := {
  has_eq : bool; has_lt : bool; has_le : bool; has_gt : bool; has_ge : bool;
  same_type : bool                      (* require_same_type *)
}.

Definition of_bool (b : bool) : tri := if b then TT else FF.
Definition tri_not (t : tri) : tri := match t with TT => FF | FF => TT | NI => NI | EX => EX end.

Definition b2n (b : bool) : nat := if b then 1 else 0.
Definition num_order_functions (c : cfg) : nat :=
  b2n (has_lt c) + b2n (has_le c) + b2n (has_gt c) + b2n (has_ge c).

(** [if 0 < num_order_functions < 4:] *)
Definition wants_total_ordering (c : cfg) : bool :=
  (0 <? num_order_functions c) && (num_order_functions c <? 4).

(** [cmp_using] raises ValueError instead of returning a class. *)
Definition construct_ok (c : cfg) : bool := negb (wants_total_ordering c && negb (has_eq c)).

Definition supplied (c : cfg) (o : cop) : bool :=
  match o with
  | OEq => has_eq c | ONe => false
  | OLt => has_lt c | OLe => has_le c | OGt => has_gt c | OGe => has_ge c
  end.

(** [root = max(roots)]: prefers __lt__ to __le__ to __gt__ to __ge__. *)
Definition root (c : cfg) : cop :=
  if has_lt c then OLt else if has_le c then OLe else if has_gt c then OGt else OGe.

Section Cmp.
Variable V : Type.
Variables feq flt fle fgt fge : V -> V -> tri.
Variable same_cls : V -> V -> bool.

Definition wobj := (nat * V)%type.
Definition w_id (a : wobj) : nat := fst a.
Definition w_val (a : wobj) : V := snd a.

Definition fn (o : cop) : V -> V -> tri :=
  match o with
  | OEq | ONe => feq
  | OLt => flt | OLe => fle | OGt => fgt | OGe => fge
  end.

(** Every method answers a result AND the trace of the calls it made to the
    supplied functions, in order: (which function, first argument, second argument). *)
Definition trace := list (cop * V * V).
Definition ret := (tri * trace)%type.

(** [_is_comparable_to]: all requirements; the only one is [_check_same_type]. *)
Definition is_comparable_to (c : cfg) (a b : wobj) : bool :=
  if same_type c then same_cls (w_val a) (w_val b) else true.

(** [_make_operator(name, func)]: the guard comes first; the function is not
    consulted at all when the operands are not comparable. *)
Definition make_operator (o : cop) (f : V -> V -> tri) (c : cfg) (a b : wobj) : ret :=
  if negb (is_comparable_to c a b) then (NI, [])
  else (f (w_val a) (w_val b), [(o, w_val a, w_val b)]).   (* NotImplemented / an exception pass on *)

(** [a.__eq__(b)]: the made operator, or [object.__eq__]. *)
Definition meth_eq (c : cfg) (a b : wobj) : ret :=
  if has_eq c then make_operator OEq feq c a b
  else (if w_id a =? w_id b then TT else NI, []).

(** [a.__ne__(b)]: attrs' [__ne__] and [object.__ne__] both negate [__eq__]
    and pass NotImplemented on. *)
Definition meth_ne (c : cfg) (a b : wobj) : ret :=
  let '(r, t) := meth_eq c a b in (tri_not r, t).

(** The operators [a == b] / [a != b] between two instances of the class:
    reflected method, then identity. *)
Definition op_eq (c : cfg) (a b : wobj) : ret :=
  let '(r1, t1) := meth_eq c a b in
  match r1 with
  | NI => let '(r2, t2) := meth_eq c b a in
          (match r2 with NI => of_bool (w_id a =? w_id b) | r => r end, t1 ++ t2)
  | r => (r, t1)
  end.

Definition op_ne (c : cfg) (a b : wobj) : ret :=
  let '(r1, t1) := meth_ne c a b in
  match r1 with
  | NI => let '(r2, t2) := meth_ne c b a in
          (match r2 with NI => of_bool (negb (w_id a =? w_id b)) | r => r end, t1 ++ t2)
  | r => (r, t1)
  end.

(** functools' [_convert] table: [derive root op op_result (self == other) (self != other)]
    answers the value and the FURTHER calls made ([and]/[or] are lazy: [==]/[!=]
    is evaluated only when the root result does not decide). *)
Definition derive (r o : cop) (res : tri) (eqv nev : ret) : ret :=
  match res with
  | NI => (NI, [])
  | EX => (EX, [])
  | _ =>
    match r, o with
    | OLt, OGt => match res with TT => (FF, []) | _ => nev end          (* not a<b and a!=b *)
    | OLt, OLe => match res with TT => (TT, []) | _ => eqv end          (* a<b or a==b *)
    | OLt, OGe => (tri_not res, [])                                     (* not a<b *)
    | OLe, OGe => match res with FF => (TT, []) | _ => eqv end          (* not a<=b or a==b *)
    | OLe, OLt => match res with TT => nev | _ => (FF, []) end          (* a<=b and a!=b *)
    | OLe, OGt => (tri_not res, [])                                     (* not a<=b *)
    | OGt, OLt => match res with TT => (FF, []) | _ => nev end          (* not a>b and a!=b *)
    | OGt, OGe => match res with TT => (TT, []) | _ => eqv end          (* a>b or a==b *)
    | OGt, OLe => (tri_not res, [])                                     (* not a>b *)
    | OGe, OLe => match res with FF => (TT, []) | _ => eqv end          (* not a>=b or a==b *)
    | OGe, OGt => match res with TT => nev | _ => (FF, []) end          (* a>=b and a!=b *)
    | OGe, OLt => (tri_not res, [])                                     (* not a>=b *)
    | _, _ => (NI, [])                                                  (* not in the table *)
    end
  end.

(** [a.__lt__(b)] etc.: supplied operator, else derived by total_ordering when
    it was applied (never over a supplied one), else [object]'s. *)
Definition meth_order (c : cfg) (o : cop) (a b : wobj) : ret :=
  if supplied c o then make_operator o (fn o) c a b
  else if wants_total_ordering c then
    let '(res, t) := make_operator (root c) (fn (root c)) c a b in
    let '(v, t') := derive (root c) o res (op_eq c a b) (op_ne c a b) in
    (v, t ++ t')
  else (NI, []).

Definition meth (c : cfg) (o : cop) (a b : wobj) : ret :=
  match o with
  | OEq => meth_eq c a b
  | ONe => meth_ne c a b
  | _ => meth_order c o a b
  end.

Definition all_ops : list cop := [OEq; ONe; OLt; OLe; OGt; OGe].

(** What the harness observes: ValueError at construction ([None]) or, for each
    of the six dunder calls, the result and the call log. *)
Definition cmp_observe (c : cfg) (a b : wobj) : option (list ret) :=
  if construct_ok c then Some (map (fun o => meth c o a b) all_ops) else None.

End Cmp.

(** ** Concrete instance used by the correspondence cases: values are a class
    number and an integer rank; each supplied function has one of a few
    behaviours over the honest comparison of ranks. *)
Record cval := { cv_cls : nat; cv_rank : Z }.

Definition honest_c (o : cop) (c : comparison) : bool :=
  match o, c with
  | OEq, Eq => true | OEq, _ => false
  | ONe, Eq => false | ONe, _ => true
  | OLt, Lt => true | OLt, _ => false
  | OLe, Gt => false | OLe, _ => true
  | OGt, Gt => true | OGt, _ => false
  | OGe, Lt => false | OGe, _ => true
  end.

Definition honest (o : cop) (x y : Z) : bool := honest_c o (x ?= y)%Z.

(** [BPartial]: honest on two values of one class, raises on anything else (a
    function written for one value type only - what require_same_type protects). *)
Inductive beh := BHonest | BConst (t : tri) | BFlip | BNeg | BPartial.

Definition interp (b : beh) (o : cop) (x y : cval) : tri :=
  match b with
  | BHonest => of_bool (honest o (cv_rank x) (cv_rank y))
  | BConst t => t
  | BFlip => of_bool (honest o (cv_rank y) (cv_rank x))
  | BNeg => of_bool (negb (honest o (cv_rank x) (cv_rank y)))
  | BPartial => if cv_cls x =? cv_cls y then of_bool (honest o (cv_rank x) (cv_rank y)) else EX
  end.

Record behs := { b_eq : beh; b_lt : beh; b_le : beh; b_gt : beh; b_ge : beh }.

Definition cmp_case (c : cfg) (bs : behs) (a b : nat * cval)
  : option (list (tri * list (cop * cval * cval))) :=
  cmp_observe cval (interp (b_eq bs) OEq) (interp (b_lt bs) OLt) (interp (b_le bs) OLe)
    (interp (b_gt bs) OGt) (interp (b_ge bs) OGe)
    (fun x y => cv_cls x =? cv_cls y) c a b.
