(** * C19 — correspondence: the check function evaluated by [coqc] on the inputs
    the harness ran against the real library.  One case type with one
    constructor per sub-model. *)
From Coq Require Import List Bool Arith Ascii String ZArith.
Import ListNotations.
From Attrs Require Import Base C19.Model.

Inductive case :=
(* one converter object invoked on the inputs [vs] one after the other (same
   object every time) in one of three contexts, starting from counter [n0]:
   what came back each time and the counter at the end *)
| KConv (k : ctx) (oc : option conv) (vs : list val) (i fl : val) (n0 : nat) (seen : list res) (n1 : nat)
(* to_bool on one input *)
| KToBool (x : tb_in) (seen : tb_res)
(* the two tuples read out of the source of to_bool by the ast extractor *)
| KConsts (t f : list elt)
(* include( *w ) and exclude( *w ) probed on (attribute, exact class of the value) pairs *)
| KFilter (w : list witem) (probes : list (attribute * nat)) (seen : list (bool * bool))
(* cmp_using(...) with behaviours for the supplied functions; a.__op__(b) for the six ops:
   result (or exception) and the log of the calls made to the supplied functions *)
| KCmp (c : cfg) (bs : behs) (a b : nat * cval) (seen : option (list (tri * list (cop * cval * cval)))).

(** Short name used in the case literals. *)
Definition A_ := Build_attribute.
Definition C_ := Build_cval.
(* (include result, exclude result) *)
Definition Ptf := (true, false).
Definition Pft := (false, true).
Definition Ptt := (true, true).
Definition Pff := (false, false).

Inductive obs :=
| OConv (r : list res) (n : nat)
| OToBool (r : tb_res)
| OConsts (t f : list elt)
| OFilter (l : list (bool * bool))
| OCmp (r : option (list (tri * list (cop * cval * cval)))).

(** Repeated invocation of the same object; an exception ends one invocation,
    not the sequence. *)
Fixpoint run_seq (k : ctx) (oc : option conv) (vs : list val) (i fl : val) (n : nat)
  : list res * nat :=
  match vs with
  | [] => ([], n)
  | v :: r => let '(x, n') := run_ctx k oc v i fl n in
              let '(xs, n'') := run_seq k oc r i fl n' in (x :: xs, n'')
  end.

Definition model_of (c : case) : obs :=
  match c with
  | KConv k oc vs i fl n0 _ _ => let '(r, n) := run_seq k oc vs i fl n0 in OConv r n
  | KToBool x _ => OToBool (to_bool x)
  | KConsts _ _ => OConsts truthy falsy
  | KFilter w probes _ =>
      OFilter (map (fun p => (include_ w (fst p) (snd p), exclude_ w (fst p) (snd p))) probes)
  | KCmp c bs a b _ => OCmp (cmp_case c bs a b)
  end.

Definition seen_of (c : case) : obs :=
  match c with
  | KConv _ _ _ _ _ _ seen n1 => OConv seen n1
  | KToBool _ seen => OToBool seen
  | KConsts t f => OConsts t f
  | KFilter _ _ seen => OFilter seen
  | KCmp _ _ _ _ seen => OCmp seen
  end.

(** ** Decidable equality of observations *)

Fixpoint val_eqb (a b : val) {struct a} : bool :=
  match a, b with
  | VTok n, VTok m => n =? m
  | VNone, VNone | VSelf, VSelf | VField, VField => true
  | VFresh g k, VFresh g' k' => (g =? g') && (k =? k')
  | VApp f xs, VApp f' ys =>
      (f =? f') &&
      (fix go (xs ys : list val) {struct xs} : bool :=
         match xs, ys with
         | [], [] => true
         | x :: xs', y :: ys' => val_eqb x y && go xs' ys'
         | _, _ => false
         end) xs ys
  | _, _ => false
  end.

Fixpoint val_ind' (P : val -> Prop)
  (Htok : forall n, P (VTok n)) (Hnone : P VNone) (Hself : P VSelf) (Hfield : P VField)
  (Hfresh : forall g k, P (VFresh g k))
  (Happ : forall f args, Forall P args -> P (VApp f args)) (v : val) : P v :=
  match v with
  | VTok n => Htok n
  | VNone => Hnone
  | VSelf => Hself
  | VField => Hfield
  | VFresh g k => Hfresh g k
  | VApp f args =>
      Happ f args ((fix go (l : list val) : Forall P l :=
                      match l with
                      | [] => Forall_nil P
                      | x :: r => Forall_cons x (val_ind' P Htok Hnone Hself Hfield Hfresh Happ x) (go r)
                      end) args)
  end.

Lemma val_eqb_spec : forall a b, val_eqb a b = true <-> a = b.
Proof.
  induction a as [n | | | | g k | f args IH] using val_ind'; intros b; destruct b; cbn;
    split; intros H; try reflexivity; try discriminate.
  - apply Nat.eqb_eq in H. now subst.
  - inversion H; subst. apply Nat.eqb_refl.
  - apply andb_true_iff in H as [H1 H2]. apply Nat.eqb_eq in H1, H2. now subst.
  - inversion H; subst. now rewrite !Nat.eqb_refl.
  - apply andb_true_iff in H as [H1 H2]. apply Nat.eqb_eq in H1. subst. f_equal.
    revert args0 H2. induction IH as [|x xs Hx Hxs IHxs]; intros ys H2; destruct ys; try discriminate.
    + reflexivity.
    + apply andb_true_iff in H2 as [Ha Hb]. apply Hx in Ha. apply IHxs in Hb. now subst.
  - inversion H; subst. rewrite Nat.eqb_refl. cbn. clear H.
    induction IH as [|x xs Hx Hxs IHxs]; [reflexivity|].
    apply andb_true_iff. split; [now apply Hx | exact IHxs].
Qed.

Definition exc_eqb (a b : exc) : bool :=
  match a, b with
  | EUser n, EUser m => n =? m
  | EType, EType | EOther, EOther => true
  | _, _ => false
  end.

Lemma exc_eqb_spec a b : exc_eqb a b = true <-> a = b.
Proof.
  destruct a, b; cbn; split; intros H; try reflexivity; try discriminate.
  - apply Nat.eqb_eq in H. now subst.
  - inversion H. apply Nat.eqb_refl.
Qed.

Definition res_eqb (a b : res) : bool :=
  match a, b with
  | Ok x, Ok y => val_eqb x y
  | Raise x, Raise y => exc_eqb x y
  | _, _ => false
  end.

Lemma res_eqb_spec a b : res_eqb a b = true <-> a = b.
Proof.
  destruct a, b; cbn; split; intros H; try discriminate.
  - apply val_eqb_spec in H. now subst.
  - inversion H. now apply val_eqb_spec.
  - apply exc_eqb_spec in H. now subst.
  - inversion H. now apply exc_eqb_spec.
Qed.

Definition tb_res_eqb (a b : tb_res) : bool :=
  match a, b with
  | BOk x, BOk y => Bool.eqb x y
  | BValueError, BValueError | BOtherOutcome, BOtherOutcome => true
  | _, _ => false
  end.

Lemma tb_res_eqb_spec a b : tb_res_eqb a b = true <-> a = b.
Proof.
  destruct a, b; cbn; split; intros H; try reflexivity; try discriminate.
  - apply Bool.eqb_prop in H. now subst.
  - inversion H. apply Bool.eqb_reflx.
Qed.

Definition bb_eqb (a b : bool * bool) : bool :=
  Bool.eqb (fst a) (fst b) && Bool.eqb (snd a) (snd b).

Lemma bb_eqb_spec a b : bb_eqb a b = true <-> a = b.
Proof.
  destruct a as [[] []], b as [[] []]; cbn; split; intros H; try reflexivity; try discriminate.
Qed.

Definition tri_eqb (a b : tri) : bool :=
  match a, b with TT, TT | FF, FF | NI, NI | EX, EX => true | _, _ => false end.

Definition cop_eqb (a b : cop) : bool :=
  match a, b with
  | OEq, OEq | ONe, ONe | OLt, OLt | OLe, OLe | OGt, OGt | OGe, OGe => true
  | _, _ => false
  end.

Lemma cop_eqb_spec a b : cop_eqb a b = true <-> a = b.
Proof. destruct a, b; cbn; split; intros H; try reflexivity; try discriminate. Qed.

Definition cval_eqb (a b : cval) : bool :=
  (cv_cls a =? cv_cls b) && Z.eqb (cv_rank a) (cv_rank b).

Lemma cval_eqb_spec a b : cval_eqb a b = true <-> a = b.
Proof.
  destruct a as [c r], b as [c' r']. unfold cval_eqb; cbn. rewrite andb_true_iff, Nat.eqb_eq, Z.eqb_eq.
  split; [intros [-> ->]; reflexivity | intros H; inversion H; auto].
Qed.

Definition entry_eqb (a b : cop * cval * cval) : bool :=
  cop_eqb (fst (fst a)) (fst (fst b)) && cval_eqb (snd (fst a)) (snd (fst b)) && cval_eqb (snd a) (snd b).

Lemma entry_eqb_spec a b : entry_eqb a b = true <-> a = b.
Proof.
  destruct a as [[o x] y], b as [[o' x'] y']. unfold entry_eqb; cbn.
  rewrite !andb_true_iff, cop_eqb_spec, !cval_eqb_spec.
  split; [intros [[-> ->] ->]; reflexivity | intros H; inversion H; auto].
Qed.

Lemma tri_eqb_spec a b : tri_eqb a b = true <-> a = b.
Proof. destruct a, b; cbn; split; intros H; try reflexivity; try discriminate. Qed.

Definition ret_eqb (a b : tri * list (cop * cval * cval)) : bool :=
  tri_eqb (fst a) (fst b) && list_eqb entry_eqb (snd a) (snd b).

Lemma ret_eqb_spec a b : ret_eqb a b = true <-> a = b.
Proof.
  destruct a as [r t], b as [r' t']. unfold ret_eqb; cbn.
  rewrite andb_true_iff, tri_eqb_spec, (list_eqb_spec entry_eqb entry_eqb_spec).
  split; [intros [-> ->]; reflexivity | intros H; inversion H; auto].
Qed.

Lemma option_eqb_spec {A} (eqb : A -> A -> bool)
  (Heq : forall x y, eqb x y = true <-> x = y) (a b : option A) :
  option_eqb eqb a b = true <-> a = b.
Proof.
  destruct a, b; cbn; split; intros H; try reflexivity; try discriminate.
  - apply Heq in H. now subst.
  - inversion H. now apply Heq.
Qed.

(* (proved here too so that this file depends on the model only) *)
Lemma elt_eqb_spec a b : elt_eqb a b = true <-> a = b.
Proof.
  destruct a, b; cbn; split; intros H; try discriminate; try (inversion H; subst).
  - apply Bool.eqb_prop in H. now subst.
  - apply Bool.eqb_reflx.
  - apply String.eqb_eq in H. now subst.
  - apply String.eqb_refl.
  - apply Z.eqb_eq in H. now subst.
  - apply Z.eqb_refl.
Qed.

Definition obs_eqb (a b : obs) : bool :=
  match a, b with
  | OConv r n, OConv r' n' => list_eqb res_eqb r r' && (n =? n')
  | OToBool r, OToBool r' => tb_res_eqb r r'
  | OConsts t f, OConsts t' f' => list_eqb elt_eqb t t' && list_eqb elt_eqb f f'
  | OFilter l, OFilter l' => list_eqb bb_eqb l l'
  | OCmp r, OCmp r' => option_eqb (list_eqb ret_eqb) r r'
  | _, _ => false
  end.

Lemma obs_eqb_spec a b : obs_eqb a b = true <-> a = b.
Proof.
  destruct a, b; cbn; split; intros H; try discriminate.
  - apply andb_true_iff in H as [H1 H2]. apply (list_eqb_spec res_eqb res_eqb_spec) in H1.
    apply Nat.eqb_eq in H2. now subst.
  - inversion H; subst. apply andb_true_iff.
    split; [now apply (list_eqb_spec res_eqb res_eqb_spec) | apply Nat.eqb_refl].
  - apply tb_res_eqb_spec in H. now subst.
  - inversion H. now apply tb_res_eqb_spec.
  - apply andb_true_iff in H as [H1 H2].
    apply (list_eqb_spec elt_eqb elt_eqb_spec) in H1, H2. now subst.
  - inversion H; subst. apply andb_true_iff.
    split; now apply (list_eqb_spec elt_eqb elt_eqb_spec).
  - apply (list_eqb_spec bb_eqb bb_eqb_spec) in H. now subst.
  - inversion H. now apply (list_eqb_spec bb_eqb bb_eqb_spec).
  - apply (option_eqb_spec _ (list_eqb_spec ret_eqb ret_eqb_spec)) in H. now subst.
  - inversion H. now apply (option_eqb_spec _ (list_eqb_spec ret_eqb ret_eqb_spec)).
Qed.

Definition check_case (c : case) : bool := obs_eqb (model_of c) (seen_of c).

Lemma check_case_sound c : check_case c = true <-> seen_of c = model_of c.
Proof. unfold check_case. rewrite obs_eqb_spec. split; congruence. Qed.
