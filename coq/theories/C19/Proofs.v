(** * C19 — proofs (four parts, one file each). *)
From Attrs Require Export C19.Model C19.ProofsConv C19.ProofsToBool C19.ProofsFilters C19.ProofsCmp.
