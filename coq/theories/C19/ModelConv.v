(** * C19 (1/4) — converter combinators: executable model.

    Mirrors [attr/_make.py] ([Converter.__init__] — the four [__call__] lambdas,
    [Converter._fmt_converter_call], [pipe], the converter wrapping in
    [_attrs_to_init_script]), [attr/converters.py] ([optional], [default_if_none])
    and [attr/setters.py] ([convert]).

    User callables are uninterpreted: [app f args] is what the symbolic function
    number [f] answers on the positional arguments [args] (a value or an
    exception); theorems quantify over every such interpretation.  Factories
    answer a fresh symbol [VFresh g k] where [k] is a global call counter that
    the model threads through every call.

    Definitions only; proofs are in [C19/ProofsConv.v]. *)

From Coq Require Import List Bool Arith.
Import ListNotations.

(** Symbolic Python values. *)
Inductive val :=
| VTok (n : nat)                  (* an opaque object (truthy or falsy, never None) *)
| VNone
| VSelf                           (* the instance being initialised / assigned to *)
| VField                          (* the field's Attribute *)
| VFresh (g k : nat)              (* result of the k-th factory call, made by factory g *)
| VApp (f : nat) (args : list val).

Inductive exc := EUser (n : nat) | EType | EOther.
Inductive res := Ok (v : val) | Raise (e : exc).

(** Converter expressions, as the user writes them. *)
Inductive conv :=
| CFun (f : nat)                          (* a plain unary callable *)
| CConv (f : nat) (ts tf : bool)          (* Converter(f, takes_self=ts, takes_field=tf) *)
| CPipe (cs : list conv)                  (* pipe( *cs ) *)
| COpt (c : conv)                         (* optional(c) *)
| CDef (d : val)                          (* default_if_none(d) *)
| CFac (g : nat).                         (* default_if_none(factory=g) / default_if_none(Factory(g)) *)

Definition is_none (v : val) : bool := match v with VNone => true | _ => false end.

(** [isinstance(<object c denotes>, Converter)] *)
Fixpoint is_converter (c : conv) : bool :=
  match c with
  | CFun _ => false
  | CConv _ _ _ => true
  | CPipe cs => existsb is_converter cs   (* return_instance = any(isinstance(c, Converter) ...) *)
  | COpt c' => is_converter c'            (* if isinstance(converter, Converter): return Converter(...) *)
  | CDef _ | CFac _ => false
  end.

(** Running state = the factory call counter; a call answers a result and the
    counter afterwards. *)
Definition out := (res * nat)%type.
Definition type_error (n : nat) : out := (Raise EType, n).

Section Interp.
Variable app : nat -> list val -> res.

(** A symbolic callable with exactly [k] positional parameters. *)
Definition sym_call (f k : nat) (args : list val) (n : nat) : out :=
  if length args =? k then (app f args, n) else type_error n.

Definition arity (ts tf : bool) : nat :=
  1 + (if ts then 1 else 0) + (if tf then 1 else 0).

(** [Converter.__init__]: which lambda becomes [__call__] (source order). *)
Definition converter_dunder_call (ts tf : bool) (inner : list val -> nat -> out)
  (v i fl : val) (n : nat) : out :=
  if negb (ts || tf) then inner [v] n
  else if ts && negb tf then inner [v; i] n
  else if negb ts && tf then inner [v; fl] n
  else inner [v; i; fl] n.

(** Calling a Converter instance: [__call__] has exactly three parameters. *)
Definition converter_obj_call (ts tf : bool) (inner : list val -> nat -> out)
  (args : list val) (n : nat) : out :=
  match args with
  | [v; i; fl] => converter_dunder_call ts tf inner v i fl n
  | _ => type_error n
  end.

(** [Converter._fmt_converter_call]: the call text in the generated [__init__]
    (source order of the four branches); the callee is [converter.converter]. *)
Definition fmt_converter_call (ts tf : bool) (inner : list val -> nat -> out)
  (v self fld : val) (n : nat) : out :=
  if negb (ts || tf) then inner [v] n
  else if ts && tf then inner [v; self; fld] n
  else if ts then inner [v; self] n
  else inner [v; fld] n.

(** The [for c in converters: val = ...] loop; an exception leaves the loop. *)
Section Loop.
  Variable step : conv -> val -> nat -> out.
  Fixpoint pipe_loop (cs : list conv) (v : val) (n : nat) : out :=
    match cs with
    | [] => (Ok v, n)
    | c :: r => match step c v n with
                | (Ok v', n') => pipe_loop r v' n'
                | e => e
                end
    end.
End Loop.

(** The closures made by [pipe] and [optional], over "call the object a
    sub-expression denotes with these positional arguments". *)
Section Closures.
  Variable call : conv -> list val -> nat -> out.

  (* c(val, inst, field) if isinstance(c, Converter) else c(val) *)
  Definition member_call (i fl : val) (c : conv) (v : val) (n : nat) : out :=
    if is_converter c then call c [v; i; fl] n else call c [v] n.

  Definition pipe_converter3 (cs : list conv) (a : list val) (n : nat) : out :=
    match a with
    | [v; i; fl] => pipe_loop (member_call i fl) cs v n
    | _ => type_error n
    end.

  Definition pipe_converter1 (cs : list conv) (a : list val) (n : nat) : out :=
    match a with
    | [v] => pipe_loop (fun c v n => call c [v] n) cs v n
    | _ => type_error n
    end.

  Definition optional_converter3 (c : conv) (a : list val) (n : nat) : out :=
    match a with
    | [v; i; fl] => if is_none v then (Ok VNone, n) else call c [v; i; fl] n
    | _ => type_error n
    end.

  Definition optional_converter1 (c : conv) (a : list val) (n : nat) : out :=
    match a with
    | [v] => if is_none v then (Ok VNone, n) else call c [v] n
    | _ => type_error n
    end.
End Closures.

(** The two [default_if_none_converter] closures. *)
Definition default_if_none_value (d : val) (a : list val) (n : nat) : out :=
  match a with
  | [v] => if negb (is_none v) then (Ok v, n) else (Ok d, n)
  | _ => type_error n
  end.

Definition default_if_none_factory (g : nat) (a : list val) (n : nat) : out :=
  match a with
  | [v] => if negb (is_none v) then (Ok v, n) else (Ok (VFresh g n), S n)
  | _ => type_error n
  end.

(** Call the Python object that [c] denotes with positional arguments [args]. *)
Fixpoint call_obj (c : conv) (args : list val) (n : nat) {struct c} : out :=
  match c with
  | CFun f => sym_call f 1 args n
  | CConv f ts tf => converter_obj_call ts tf (sym_call f (arity ts tf)) args n
  | CPipe cs =>
      if existsb is_converter cs
      then converter_obj_call true true (pipe_converter3 call_obj cs) args n
      else pipe_converter1 call_obj cs args n
  | COpt c' =>
      if is_converter c'
      then converter_obj_call true true (optional_converter3 call_obj c') args n
      else optional_converter1 call_obj c' args n
  | CDef d => default_if_none_value d args n
  | CFac g => default_if_none_factory g args n
  end.

(** For a Converter instance: its [.converter] attribute and its two flags. *)
Definition inner_of (c : conv) : list val -> nat -> out :=
  match c with
  | CConv f ts tf => sym_call f (arity ts tf)
  | CPipe cs => pipe_converter3 call_obj cs
  | COpt c' => optional_converter3 call_obj c'
  | _ => fun _ n => (Raise EOther, n)
  end.

Definition flags_of (c : conv) : bool * bool :=
  match c with
  | CConv _ ts tf => (ts, tf)
  | _ => (true, true)       (* Converter(..., takes_self=True, takes_field=True) *)
  end.

(** ** The three ways a converter gets invoked. *)

(** Standalone: the user calls the object the way its kind demands. *)
Definition standalone (c : conv) (v i fl : val) (n : nat) : out :=
  if is_converter c then call_obj c [v; i; fl] n else call_obj c [v] n.

(** Generated [__init__]: a plain callable is wrapped in [Converter(a.converter)];
    then [_fmt_converter_call] with the Converter's flags calls [.converter]. *)
Definition init_convert (oc : option conv) (v self fld : val) (n : nat) : out :=
  match oc with
  | None => (Ok v, n)
  | Some c =>
      if negb (is_converter c)
      then fmt_converter_call false false (call_obj c) v self fld n
      else let '(ts, tf) := flags_of c in
           fmt_converter_call ts tf (inner_of c) v self fld n
  end.

(** [setters.convert(instance, attrib, new_value)] *)
Definition setters_convert (oc : option conv) (inst attrib v : val) (n : nat) : out :=
  match oc with
  | None => (Ok v, n)
  | Some c =>
      if negb (is_converter c) then call_obj c [v] n
      else call_obj c [v; inst; attrib] n
  end.

(** ** Reference semantics: what the property says a converter expression means. *)
Definition opt_args (b : bool) (x : val) : list val := if b then [x] else [].

Fixpoint ref (c : conv) (i fl v : val) (n : nat) {struct c} : out :=
  match c with
  | CFun f => (app f [v], n)
  | CConv f ts tf => (app f (v :: opt_args ts i ++ opt_args tf fl), n)
  | CPipe cs => pipe_loop (fun c v n => ref c i fl v n) cs v n
  | COpt c' => if is_none v then (Ok VNone, n) else ref c' i fl v n
  | CDef d => if is_none v then (Ok d, n) else (Ok v, n)
  | CFac g => if is_none v then (Ok (VFresh g n), S n) else (Ok v, n)
  end.

End Interp.

(** The interpretation of function symbols used by the correspondence cases
    (the harness builds its Python callables to match): numbers below 10 are
    free symbols, 10-19 answer None, 20-29 raise their own exception, 30 and
    above answer their first argument unchanged. *)
Definition std_app (f : nat) (args : list val) : res :=
  if f <? 10 then Ok (VApp f args)
  else if f <? 20 then Ok VNone
  else if f <? 30 then Raise (EUser f)
  else match args with v :: _ => Ok v | [] => Raise EOther end.

Inductive ctx := KStandalone | KInit | KSetattr.

Definition run_ctx (k : ctx) (oc : option conv) (v i fl : val) (n : nat) : out :=
  match k with
  | KStandalone => match oc with Some c => standalone std_app c v i fl n | None => (Ok v, n) end
  | KInit => init_convert std_app oc v i fl n
  | KSetattr => setters_convert std_app oc i fl v n
  end.
