(** * C19 (1/4) — proofs about the converter-combinator model. *)

From Coq Require Import List Bool Arith Lia.
Import ListNotations.
From Attrs Require Import C19.ModelConv.

(** Nested induction principle for [conv] (the list inside [CPipe]). *)
Fixpoint conv_ind' (P : conv -> Prop)
  (Hfun : forall f, P (CFun f))
  (Hconv : forall f ts tf, P (CConv f ts tf))
  (Hpipe : forall cs, Forall P cs -> P (CPipe cs))
  (Hopt : forall c, P c -> P (COpt c))
  (Hdef : forall d, P (CDef d))
  (Hfac : forall g, P (CFac g))
  (c : conv) : P c :=
  match c with
  | CFun f => Hfun f
  | CConv f ts tf => Hconv f ts tf
  | CPipe cs =>
      Hpipe cs ((fix go (l : list conv) : Forall P l :=
                   match l with
                   | [] => Forall_nil P
                   | x :: r => Forall_cons x (conv_ind' P Hfun Hconv Hpipe Hopt Hdef Hfac x) (go r)
                   end) cs)
  | COpt c' => Hopt c' (conv_ind' P Hfun Hconv Hpipe Hopt Hdef Hfac c')
  | CDef d => Hdef d
  | CFac g => Hfac g
  end.

(** Sequencing of two calls: the second runs only if the first did not raise. *)
Definition bind (o : out) (k : val -> nat -> out) : out :=
  match o with
  | (Ok v, n) => k v n
  | e => e
  end.

Lemma pipe_loop_ext (s1 s2 : conv -> val -> nat -> out) : forall cs,
  Forall (fun c => forall v n, s1 c v n = s2 c v n) cs ->
  forall v n, pipe_loop s1 cs v n = pipe_loop s2 cs v n.
Proof.
  induction cs as [|c r IH]; intros HF v n; cbn; [reflexivity|].
  inversion HF as [|? ? Hc Hr]; subst. rewrite Hc.
  destruct (s2 c v n) as [[v'|e] n']; [apply IH; assumption | reflexivity].
Qed.

Lemma pipe_loop_cons (s : conv -> val -> nat -> out) c r v n :
  pipe_loop s (c :: r) v n = bind (s c v n) (pipe_loop s r).
Proof. cbn. destruct (s c v n) as [[v'|e] n']; reflexivity. Qed.

Lemma pipe_loop_app (s : conv -> val -> nat -> out) : forall a b v n,
  pipe_loop s (a ++ b) v n = bind (pipe_loop s a v n) (pipe_loop s b).
Proof.
  induction a as [|c a IH]; intros b v n; [reflexivity|].
  cbn [app]. rewrite !pipe_loop_cons.
  destruct (s c v n) as [[v'|e] n']; cbn; [apply IH | reflexivity].
Qed.

Section Proofs.
Variable app : nat -> list val -> res.

Notation standalone := (standalone app).
Notation ref := (ref app).
Notation call_obj := (call_obj app).

Lemma dunder_call_symbolic f ts tf v i fl n :
  converter_dunder_call ts tf (sym_call app f (arity ts tf)) v i fl n
  = (app f (v :: opt_args ts i ++ opt_args tf fl), n).
Proof. destruct ts, tf; reflexivity. Qed.

Lemma existsb_false_forall {A} (p : A -> bool) l :
  existsb p l = false -> Forall (fun x => p x = false) l.
Proof.
  induction l as [|x r IH]; cbn; intros H; [constructor|].
  apply orb_false_iff in H as [H1 H2]. constructor; auto.
Qed.

(** ** The dispatch machinery implements the reference semantics, for every
    expression tree of any width and depth. *)
Lemma standalone_ref_l : forall c v i fl n, standalone c v i fl n = ref c i fl v n.
Proof.
  induction c as [f | f ts tf | cs IH | c IH | d | g] using conv_ind'; intros v i fl n.
  - reflexivity.
  - unfold ModelConv.standalone. cbn. apply dunder_call_symbolic.
  - unfold ModelConv.standalone. cbn [is_converter ModelConv.call_obj ModelConv.ref].
    destruct (existsb is_converter cs) eqn:E.
    + cbn. apply pipe_loop_ext.
      eapply Forall_impl; [|exact IH]. intros c Hc v' n'. apply Hc.
    + cbn. apply pipe_loop_ext.
      pose proof (existsb_false_forall _ _ E) as HF.
      rewrite Forall_forall in *. intros c Hin v' n'.
      rewrite <- (IH c Hin v' i fl n'). unfold ModelConv.standalone.
      rewrite (HF c Hin). reflexivity.
  - specialize (IH v i fl n). unfold ModelConv.standalone in *.
    cbn [is_converter ModelConv.call_obj ModelConv.ref].
    destruct (is_converter c) eqn:E; cbn; destruct v; cbn; try reflexivity; exact IH.
  - cbn. destruct v; reflexivity.
  - cbn. destruct v; reflexivity.
Qed.

(** ** pipe *)

(** pipe(c1..cn) applies c1..cn in order, each member invoked the way its kind
    demands (with the same instance and field). *)
Lemma pipe_spec_l : forall cs v i fl n,
  standalone (CPipe cs) v i fl n = pipe_loop (fun c v n => standalone c v i fl n) cs v n.
Proof.
  intros. rewrite standalone_ref_l. cbn [ModelConv.ref]. apply pipe_loop_ext.
  apply Forall_forall. intros c _ v' n'. symmetry. apply standalone_ref_l.
Qed.

Lemma pipe_empty_l : forall v i fl n, standalone (CPipe []) v i fl n = (Ok v, n).
Proof. reflexivity. Qed.

Lemma pipe_cons_l : forall c r v i fl n,
  standalone (CPipe (c :: r)) v i fl n
  = bind (standalone c v i fl n) (fun v' n' => standalone (CPipe r) v' i fl n').
Proof.
  intros. rewrite pipe_spec_l, pipe_loop_cons.
  destruct (standalone c v i fl n) as [[v'|e] n']; cbn; [|reflexivity].
  now rewrite pipe_spec_l.
Qed.

Lemma pipe_app_l : forall a b v i fl n,
  standalone (CPipe (a ++ b)) v i fl n = standalone (CPipe [CPipe a; CPipe b]) v i fl n.
Proof.
  intros. rewrite (pipe_spec_l (a ++ b)), (pipe_spec_l [CPipe a; CPipe b]), pipe_loop_app.
  cbn [pipe_loop]. rewrite (pipe_spec_l a).
  destruct (pipe_loop (fun c v n => standalone c v i fl n) a v n) as [[v'|e] n']; cbn; [|reflexivity].
  rewrite (pipe_spec_l b).
  destruct (pipe_loop (fun c v n => standalone c v i fl n) b v' n') as [[v''|e] n'']; reflexivity.
Qed.

(** Instance and field reach exactly the Converter members, according to their flags. *)
Lemma member_converter_l : forall f ts tf v i fl n,
  standalone (CConv f ts tf) v i fl n = (app f (v :: opt_args ts i ++ opt_args tf fl), n).
Proof. intros. now rewrite standalone_ref_l. Qed.

Lemma member_plain_l : forall f v i fl n, standalone (CFun f) v i fl n = (app f [v], n).
Proof. reflexivity. Qed.

(** ** optional *)
Lemma optional_none_l : forall c i fl n, standalone (COpt c) VNone i fl n = (Ok VNone, n).
Proof. intros. now rewrite standalone_ref_l. Qed.

Lemma optional_some_l : forall c v i fl n, v <> VNone ->
  standalone (COpt c) v i fl n = standalone c v i fl n.
Proof.
  intros c v i fl n Hv. rewrite !standalone_ref_l. cbn.
  destruct v; cbn; try reflexivity. now elim Hv.
Qed.

(** ** default_if_none *)
Lemma default_value_l : forall d v i fl n,
  standalone (CDef d) v i fl n = (Ok (if is_none v then d else v), n).
Proof. intros. cbn. destruct v; reflexivity. Qed.

Lemma default_factory_none_l : forall g i fl n,
  standalone (CFac g) VNone i fl n = (Ok (VFresh g n), S n).
Proof. reflexivity. Qed.

Lemma default_factory_some_l : forall g v i fl n, v <> VNone ->
  standalone (CFac g) v i fl n = (Ok v, n).
Proof. intros g v i fl n Hv. cbn. destruct v; try reflexivity. now elim Hv. Qed.

(** The counter never decreases, whatever the expression: a later factory call
    cannot re-issue an earlier symbol. *)
Lemma pipe_loop_mono (s : conv -> val -> nat -> out) : forall cs,
  Forall (fun c => forall v n, n <= snd (s c v n)) cs ->
  forall v n, n <= snd (pipe_loop s cs v n).
Proof.
  induction cs as [|c r IH]; intros HF v n; cbn; [lia|].
  inversion HF as [|? ? Hc Hr]; subst. specialize (Hc v n).
  destruct (s c v n) as [[v'|e] n']; cbn in *; [|assumption].
  specialize (IH Hr v' n'). lia.
Qed.

Lemma counter_mono_l : forall c v i fl n, n <= snd (standalone c v i fl n).
Proof.
  intros c v i fl n. rewrite standalone_ref_l. revert v n.
  induction c as [f | f ts tf | cs IH | c IH | d | g] using conv_ind'; intros v n; cbn.
  - lia.
  - lia.
  - apply pipe_loop_mono. exact IH.
  - destruct (is_none v); cbn; [lia | apply IH].
  - destruct (is_none v); cbn; lia.
  - destruct (is_none v); cbn; lia.
Qed.

(** Two factory calls with anything at all in between give different results. *)
Lemma factory_fresh_l : forall g i fl n c v i' fl',
  let '(r1, n1) := standalone (CFac g) VNone i fl n in
  let n2 := snd (standalone c v i' fl' n1) in
  let '(r2, _) := standalone (CFac g) VNone i fl n2 in
  r1 <> r2.
Proof.
  intros g i fl n c v i' fl'. cbn.
  pose proof (counter_mono_l c v i' fl' (S n)) as H.
  intros Heq. inversion Heq. lia.
Qed.

(** ** The three invocation contexts compute the same thing. *)
Lemma init_agrees_l : forall c v self fld n,
  init_convert app (Some c) v self fld n = standalone c v self fld n.
Proof.
  intros c v self fld n. unfold init_convert, ModelConv.standalone.
  destruct (is_converter c) eqn:E; cbn [negb].
  - destruct c as [f | f ts tf | cs | c' | d | g]; cbn in E; try discriminate.
    + cbn. destruct ts, tf; reflexivity.
    + cbn [flags_of inner_of ModelConv.call_obj]. rewrite E. reflexivity.
    + cbn [flags_of inner_of ModelConv.call_obj]. rewrite E. reflexivity.
  - reflexivity.
Qed.

Lemma setattr_agrees_l : forall c v self fld n,
  setters_convert app (Some c) self fld v n = standalone c v self fld n.
Proof.
  intros. unfold setters_convert, ModelConv.standalone. destruct (is_converter c); reflexivity.
Qed.

Lemma no_converter_identity_l : forall v self fld n,
  init_convert app None v self fld n = (Ok v, n) /\
  setters_convert app None self fld v n = (Ok v, n).
Proof. split; reflexivity. Qed.

(** The dispatch never manufactures a TypeError of its own: if the user
    functions do not raise it, no invocation does (arities always match). *)
Definition app_no_etype : Prop := forall f a, app f a <> Raise EType.

Lemma pipe_loop_no_etype (s : conv -> val -> nat -> out) : forall cs,
  Forall (fun c => forall v n, fst (s c v n) <> Raise EType) cs ->
  forall v n, fst (pipe_loop s cs v n) <> Raise EType.
Proof.
  induction cs as [|c r IH]; intros HF v n; cbn; [discriminate|].
  inversion HF as [|? ? Hc Hr]; subst. specialize (Hc v n).
  destruct (s c v n) as [[v'|e] n']; cbn in *; [apply IH; assumption | assumption].
Qed.

Lemma dispatch_arity_consistent_l : app_no_etype ->
  forall c v i fl n, fst (standalone c v i fl n) <> Raise EType.
Proof.
  intros Happ c v i fl n. rewrite standalone_ref_l. revert v n.
  induction c as [f | f ts tf | cs IH | c IH | d | g] using conv_ind'; intros v n; cbn.
  - apply Happ.
  - apply Happ.
  - apply pipe_loop_no_etype. exact IH.
  - destruct (is_none v); cbn; [discriminate | apply IH].
  - destruct (is_none v); discriminate.
  - destruct (is_none v); discriminate.
Qed.

End Proofs.

(** Non-vacuity: a depth-3 tree mixing every constructor; the plain member gets
    one argument, the Converter members get instance and/or field, the factory
    result carries the counter. *)
Example conv_example :
  let c := CPipe [CFun 1; COpt (CPipe [CConv 2 true false; CFun 10]); CFac 7; CConv 3 false true] in
  is_converter c = true /\
  standalone std_app c (VTok 5) VSelf VField 4
  = (Ok (VApp 3 [VFresh 7 4; VField]), 5) /\
  init_convert std_app (Some c) (VTok 5) VSelf VField 4
  = (Ok (VApp 3 [VFresh 7 4; VField]), 5).
Proof. repeat split. Qed.

(** Non-vacuity of [dispatch_arity_consistent_l]: the interpretation used by the
    correspondence cases never raises TypeError itself. *)
Example std_app_no_etype : app_no_etype std_app.
Proof.
  intros f a. unfold std_app.
  destruct (f <? 10); [discriminate|]. destruct (f <? 20); [discriminate|].
  destruct (f <? 30); [discriminate|]. destruct a; discriminate.
Qed.
