(** * C19 (3/4) — proofs about the filters model. *)

From Coq Require Import List Bool Arith String.
Import ListNotations.
From Attrs Require Import C19.ModelFilters.

Lemma exclude_is_negation_l : forall w a vt, exclude_ w a vt = negb (include_ w a vt).
Proof. reflexivity. Qed.

Lemma attr_eqb_spec a b : attr_eqb a b = true <-> a = b.
Proof.
  destruct a as [n r], b as [n' r']. unfold attr_eqb; cbn. rewrite andb_true_iff.
  rewrite String.eqb_eq, Nat.eqb_eq. split; [intros [-> ->]; reflexivity | intros H; inversion H; auto].
Qed.

Lemma in_types w t :
  In t (flat_map (fun x => match x with WType t => [t] | _ => [] end) w) <-> In (WType t) w.
Proof.
  rewrite in_flat_map. split.
  - intros (x & Hin & H). destruct x; cbn in H; try contradiction.
    destruct H as [->|[]]. assumption.
  - intros H. exists (WType t). cbn. auto.
Qed.

Lemma in_names w s :
  In s (flat_map (fun x => match x with WName s => [s] | _ => [] end) w) <-> In (WName s) w.
Proof.
  rewrite in_flat_map. split.
  - intros (x & Hin & H). destruct x; cbn in H; try contradiction.
    destruct H as [->|[]]. assumption.
  - intros H. exists (WName s). cbn. auto.
Qed.

Lemma in_attrs w a :
  In a (flat_map (fun x => match x with WAttr a => [a] | _ => [] end) w) <-> In (WAttr a) w.
Proof.
  rewrite in_flat_map. split.
  - intros (x & Hin & H). destruct x; cbn in H; try contradiction.
    destruct H as [->|[]]. assumption.
  - intros H. exists (WAttr a). cbn. auto.
Qed.

Lemma existsb_in {A} (eqb : A -> A -> bool) (Heq : forall x y, eqb x y = true <-> x = y) x l :
  existsb (eqb x) l = true <-> In x l.
Proof.
  rewrite existsb_exists. split.
  - intros (y & Hin & H). apply Heq in H. now subst.
  - intros H. exists x. split; [assumption | now apply Heq].
Qed.

(** include accepts a field iff its value's exact type, its name or the
    Attribute itself is listed. *)
Lemma include_iff_l : forall w a vt,
  include_ w a vt = true <->
  In (WType vt) w \/ In (WName (a_name a)) w \/ In (WAttr a) w.
Proof.
  intros w a vt. unfold include_, split_what.
  rewrite !orb_true_iff.
  rewrite (existsb_in Nat.eqb Nat.eqb_eq), (existsb_in String.eqb String.eqb_eq),
    (existsb_in attr_eqb attr_eqb_spec).
  rewrite in_types, in_names, in_attrs. tauto.
Qed.

Lemma exclude_iff_l : forall w a vt,
  exclude_ w a vt = true <->
  ~ (In (WType vt) w \/ In (WName (a_name a)) w \/ In (WAttr a) w).
Proof.
  intros w a vt. rewrite exclude_is_negation_l, negb_true_iff, <- include_iff_l.
  destruct (include_ w a vt); split; intros H; try reflexivity; try discriminate.
  - now elim H.
Qed.

(** Only membership matters: order and repetition of [what] are irrelevant. *)
Lemma include_only_membership_l : forall w w' a vt,
  (forall x, In x w <-> In x w') -> include_ w a vt = include_ w' a vt.
Proof.
  intros w w' a vt H.
  destruct (include_ w a vt) eqn:E1; destruct (include_ w' a vt) eqn:E2; try reflexivity.
  - apply include_iff_l in E1. rewrite !H in E1. apply include_iff_l in E1. congruence.
  - apply include_iff_l in E2. rewrite <- !H in E2. apply include_iff_l in E2. congruence.
Qed.

Example filters_example :
  let ax := {| a_name := "x"; a_rest := 0 |} in
  let ay := {| a_name := "y"; a_rest := 0 |} in
  include_ [WType 1; WName "y"; WJunk] ax 2 = false /\
  include_ [WType 1; WName "y"; WJunk] ax 1 = true /\
  include_ [WType 1; WName "y"; WJunk] ay 2 = true /\
  include_ [WAttr ax] ax 2 = true /\
  include_ [WAttr ax] {| a_name := "x"; a_rest := 1 |} 2 = false /\
  exclude_ [WAttr ax] ay 2 = true.
Proof. repeat split. Qed.
