(** * C07 — proofs about the model of field collection and introspection. *)
From Coq Require Import List Bool String Ascii ZArith Lia Sorted Permutation.
Import ListNotations.
From Attrs Require Import Base Core.Attr C07.Model.
Open Scope string_scope.
Open Scope list_scope.

(** ** Generic list facts *)

Lemma find_app {A} (p : A -> bool) l1 l2 :
  find p (l1 ++ l2) = match find p l1 with Some x => Some x | None => find p l2 end.
Proof. induction l1 as [|a l1 IH]; cbn; [reflexivity|]. destruct (p a); auto. Qed.

Lemma find_map_commute {A} (p : A -> bool) (g : A -> A) l :
  (forall a, p (g a) = p a) -> find p (map g l) = option_map g (find p l).
Proof.
  intros Hg. induction l as [|a l IH]; cbn; [reflexivity|].
  rewrite Hg. destruct (p a); auto.
Qed.

Lemma find_none_iff {A} (p : A -> bool) l : find p l = None <-> forall x, In x l -> p x = false.
Proof.
  split.
  - intros H x Hx. eapply find_none; eauto.
  - induction l as [|a l IH]; cbn; intros H; [reflexivity|].
    rewrite (H a (or_introl eq_refl)). apply IH. intros x Hx. apply H. now right.
Qed.

Lemma rev_flat_map {A B} (f : A -> list B) l :
  rev (flat_map f l) = flat_map (fun x => rev (f x)) (rev l).
Proof.
  induction l as [|a l IH]; cbn; [reflexivity|].
  rewrite rev_app_distr, IH, flat_map_app. cbn. now rewrite app_nil_r.
Qed.

Lemma filter_rev {A} (p : A -> bool) l : filter p (rev l) = rev (filter p l).
Proof.
  induction l as [|a l IH]; cbn; [reflexivity|].
  rewrite filter_app, IH. cbn. destruct (p a); cbn; [reflexivity | now rewrite app_nil_r].
Qed.

Lemma NoDup_app_intro {A} (l1 l2 : list A) :
  NoDup l1 -> NoDup l2 -> (forall x, In x l1 -> ~ In x l2) -> NoDup (l1 ++ l2).
Proof.
  induction l1 as [|a l1 IH]; cbn; intros H1 H2 Hd; [assumption|].
  inversion H1; subst. constructor.
  - rewrite in_app_iff. intros [H|H]; [contradiction|]. apply (Hd a); auto.
  - apply IH; auto.
Qed.

Lemma NoDup_app_inv {A} (l1 l2 : list A) :
  NoDup (l1 ++ l2) -> NoDup l1 /\ NoDup l2 /\ (forall x, In x l1 -> ~ In x l2).
Proof.
  induction l1 as [|a l1 IH]; cbn; intros H.
  - repeat split; [constructor | assumption | intros x []].
  - inversion H as [|? ? Hn Hr]; subst. destruct (IH Hr) as (H1 & H2 & Hd).
    repeat split; auto.
    + constructor; auto. intros Hi. apply Hn. apply in_app_iff. now left.
    + intros x [->|Hx] Hx2; [apply Hn; apply in_app_iff; now right | eapply Hd; eauto].
Qed.

Lemma NoDup_rev_iff {A} (l : list A) : NoDup l -> NoDup (rev l).
Proof.
  induction l as [|a l IH]; cbn; intros H; [constructor|].
  inversion H; subst. apply NoDup_app_intro; auto.
  - constructor; [intros []| constructor].
  - intros x Hx [->|[]]. apply in_rev in Hx. contradiction.
Qed.

(** ** Names and the record updates *)

Definition named (n : string) (a : attribute) : bool := String.eqb (a_name a) n.

Lemma names_app l1 l2 : names (l1 ++ l2) = names l1 ++ names l2.
Proof. apply map_app. Qed.

Lemma names_rev l : names (rev l) = rev (names l).
Proof. apply map_rev. Qed.

Lemma name_resolve_alias a : a_name (resolve_alias a) = a_name a.
Proof.
  unfold resolve_alias. destruct (a_alias a) as [al|]; [destruct (String.eqb al "")|]; reflexivity.
Qed.

Lemma names_resolve_alias l : names (map resolve_alias l) = names l.
Proof. unfold names. rewrite map_map. apply map_ext. apply name_resolve_alias. Qed.

Lemma inherited_resolve_alias a : a_inherited (resolve_alias a) = a_inherited a.
Proof.
  unfold resolve_alias. destruct (a_alias a) as [al|]; [destruct (String.eqb al "")|]; reflexivity.
Qed.

Lemma names_evolve_kw_only kw l : names (evolve_kw_only kw l) = names l.
Proof. destruct kw; cbn; [|reflexivity]. unfold names. rewrite map_map. reflexivity. Qed.

Lemma names_set_inherited l b : names (map (fun a => set_inherited a b) l) = names l.
Proof. unfold names. rewrite map_map. reflexivity. Qed.

Lemma set_inherited_id a : a_inherited a = true -> set_inherited a true = a.
Proof. destruct a; cbn; intros ->; reflexivity. Qed.

Lemma set_inherited_idem a b : set_inherited (set_inherited a b) b = set_inherited a b.
Proof. reflexivity. Qed.

Lemma In_names a l : In a l -> In (a_name a) (names l).
Proof. intros H. apply in_map_iff. eauto. Qed.

Lemma mem_str_false s l : mem_str s l = false <-> ~ In s l.
Proof.
  rewrite <- mem_str_In. destruct (mem_str s l); split; intros H;
    try reflexivity; try discriminate; try (exfalso; apply H; reflexivity);
    try (intros E; discriminate).
Qed.

(** ** [dedup_first] / [keep_last] *)

Lemma dedup_first_ext l : forall s1 s2,
  (forall n, mem_str n s1 = mem_str n s2) -> dedup_first l s1 = dedup_first l s2.
Proof.
  induction l as [|a l IH]; cbn; intros s1 s2 H; [reflexivity|].
  rewrite (H (a_name a)). destruct (mem_str (a_name a) s2); [now apply IH|].
  f_equal. apply IH. intros n. cbn. now rewrite H.
Qed.

Lemma dedup_first_In l : forall seen a, In a (dedup_first l seen) -> In a l /\ ~ In (a_name a) seen.
Proof.
  induction l as [|x l IH]; cbn; intros seen a H; [contradiction|].
  destruct (mem_str (a_name x) seen) eqn:E.
  - destruct (IH _ _ H). auto.
  - destruct H as [->|H].
    + split; [now left | now apply mem_str_false].
    + destruct (IH _ _ H) as [H1 H2]. split; [now right|]. intros Hi. apply H2. now right.
Qed.

Lemma dedup_first_nodup l : forall seen, NoDup (names (dedup_first l seen)).
Proof.
  induction l as [|x l IH]; cbn; intros seen; [constructor|].
  destruct (mem_str (a_name x) seen); [apply IH|]. cbn. constructor; [|apply IH].
  intros Hi. apply in_map_iff in Hi as (b & Hb & Hin).
  apply dedup_first_In in Hin as [_ Hn]. apply Hn. left. now rewrite Hb.
Qed.

Lemma find_dedup_first n l : forall seen,
  find (named n) (dedup_first l seen) = if mem_str n seen then None else find (named n) l.
Proof.
  induction l as [|x l IH]; cbn; intros seen; [now destruct (mem_str n seen)|].
  destruct (mem_str (a_name x) seen) eqn:E.
  - rewrite IH. destruct (mem_str n seen) eqn:E2; [reflexivity|].
    unfold named at 2. destruct (String.eqb (a_name x) n) eqn:E3; [|reflexivity].
    apply String.eqb_eq in E3. congruence.
  - cbn. unfold named at 1 3. destruct (String.eqb (a_name x) n) eqn:E3.
    + apply String.eqb_eq in E3. subst n. now rewrite E.
    + rewrite IH. cbn. rewrite String.eqb_sym, E3. reflexivity.
Qed.

Lemma find_rev_nodup n l : NoDup (names l) -> find (named n) (rev l) = find (named n) l.
Proof.
  induction l as [|x l IH]; cbn; intros H; [reflexivity|].
  inversion H as [|? ? Hn Hr]; subst. rewrite find_app, (IH Hr). cbn.
  unfold named at 2 3. destruct (String.eqb (a_name x) n) eqn:E.
  - apply String.eqb_eq in E. subst n.
    assert (Hf : find (named (a_name x)) l = None).
    { apply find_none_iff. intros y Hy. unfold named. apply String.eqb_neq. intros Eq.
      apply Hn. rewrite <- Eq. now apply In_names. }
    now rewrite Hf.
  - now destruct (find (named n) l).
Qed.

Lemma keep_last_nodup l : NoDup (names (keep_last l)).
Proof. unfold keep_last. rewrite names_rev. apply NoDup_rev_iff. apply dedup_first_nodup. Qed.

Lemma keep_last_In l a : In a (keep_last l) -> In a l.
Proof.
  unfold keep_last. intros H. apply in_rev in H. apply dedup_first_In in H as [H _].
  now apply in_rev in H.
Qed.

(** The freshest definition wins: [keep_last] finds the last one of every name. *)
Lemma find_keep_last n l : find (named n) (keep_last l) = find (named n) (rev l).
Proof.
  unfold keep_last. rewrite find_rev_nodup by apply dedup_first_nodup.
  now rewrite find_dedup_first.
Qed.

(** ** [_collect_base_attrs]: once per name, never a taken name, all flagged inherited *)

Lemma from_base_In taken l a :
  In a (from_base taken l) -> a_inherited a = true /\ ~ In (a_name a) taken.
Proof.
  unfold from_base. intros H. apply in_map_iff in H as (b & <- & Hb).
  apply filter_In in Hb as [_ Hb]. apply negb_true_iff, orb_false_iff in Hb as [_ Hb].
  split; [reflexivity | now apply mem_str_false].
Qed.

Lemma collect_In t mro taken a :
  In a (collect_base_attrs t mro taken) -> a_inherited a = true /\ ~ In (a_name a) taken.
Proof.
  unfold collect_base_attrs. intros H. apply keep_last_In in H.
  apply in_flat_map in H as (b & _ & H). eapply from_base_In; eauto.
Qed.

Lemma collect_nodup t mro taken : NoDup (names (collect_base_attrs t mro taken)).
Proof. apply keep_last_nodup. Qed.

(** ** [mro_nearest_wins] *)

(** The fields a class defines itself (what it does not merely inherit). *)
Definition own_fields (t : table) (c : nat) : list attribute :=
  filter (fun a => negb (a_inherited a)) (own_dict_attrs t c).

Definition last_named (n : string) (l : list attribute) : option attribute :=
  find (named n) (rev l).

(** The definition of [n] in the first class of the MRO that defines [n] itself. *)
Fixpoint nearest_def (t : table) (mro : list nat) (n : string) : option attribute :=
  match mro with
  | [] => None
  | c :: r => match last_named n (own_fields t c) with
              | Some a => Some a
              | None => nearest_def t r n
              end
  end.

Lemma find_filter_taken n taken l :
  find (named n) (filter (fun a => negb (a_inherited a || mem_str (a_name a) taken)) l) =
  if mem_str n taken then None else find (named n) (filter (fun a => negb (a_inherited a)) l).
Proof.
  induction l as [|x l IH]; cbn; [now destruct (mem_str n taken)|].
  destruct (a_inherited x); cbn; [exact IH|].
  destruct (mem_str (a_name x) taken) eqn:E; cbn.
  - rewrite IH. destruct (mem_str n taken) eqn:E2; [reflexivity|].
    unfold named at 2. destruct (String.eqb (a_name x) n) eqn:E3; [|reflexivity].
    apply String.eqb_eq in E3. congruence.
  - unfold named at 1 3. destruct (String.eqb (a_name x) n) eqn:E3.
    + apply String.eqb_eq in E3. subst n. now rewrite E.
    + exact IH.
Qed.

Lemma find_from_base_rev n taken l :
  find (named n) (rev (from_base taken l)) =
  if mem_str n taken then None
  else option_map (fun a => set_inherited a true)
         (last_named n (filter (fun a => negb (a_inherited a)) l)).
Proof.
  unfold from_base, last_named. rewrite <- map_rev, <- !filter_rev.
  rewrite find_map_commute by reflexivity. rewrite find_filter_taken.
  now destruct (mem_str n taken).
Qed.

Lemma mro_nearest_wins_l t mro taken n :
  find (named n) (collect_base_attrs t mro taken) =
  if mem_str n taken then None
  else option_map (fun a => set_inherited a true) (nearest_def t mro n).
Proof.
  unfold collect_base_attrs. rewrite find_keep_last, rev_flat_map, rev_involutive.
  induction mro as [|c r IH]; cbn; [now destruct (mem_str n taken)|].
  rewrite find_app, find_from_base_rev, IH. fold (own_fields t c).
  destruct (mem_str n taken); [reflexivity|].
  now destruct (last_named n (own_fields t c)).
Qed.

(** ** The legacy collection in flat form *)

Lemma broken_inner_spec l : forall taken,
  broken_inner l taken =
  (map (fun a => set_inherited a true) (dedup_first l taken),
   rev (names (dedup_first l taken)) ++ taken).
Proof.
  induction l as [|x l IH]; cbn; intros taken; [reflexivity|].
  destruct (mem_str (a_name x) taken); [apply IH|].
  rewrite IH. cbn. now rewrite <- app_assoc.
Qed.

Lemma mem_str_app n l1 l2 : mem_str n (l1 ++ l2) = mem_str n l1 || mem_str n l2.
Proof. induction l1 as [|x l1 IH]; cbn; [reflexivity|]. now rewrite IH, orb_assoc. Qed.

Lemma mem_str_rev n l : mem_str n (rev l) = mem_str n l.
Proof.
  induction l as [|x l IH]; cbn; [reflexivity|].
  rewrite mem_str_app, IH. cbn. rewrite orb_false_r. apply orb_comm.
Qed.

Lemma dedup_first_app l1 : forall l2 s,
  dedup_first (l1 ++ l2) s =
  dedup_first l1 s ++ dedup_first l2 (rev (names (dedup_first l1 s)) ++ s).
Proof.
  induction l1 as [|x l1 IH]; cbn; intros l2 s; [reflexivity|].
  destruct (mem_str (a_name x) s); [apply IH|].
  cbn. f_equal. rewrite IH. f_equal. apply dedup_first_ext. intros n.
  unfold names. rewrite !mem_str_app. cbn. now rewrite orb_false_r, orb_assoc.
Qed.

Lemma legacy_flat t mro : forall taken,
  collect_base_attrs_broken t mro taken =
  map (fun a => set_inherited a true) (dedup_first (flat_map (getattr_list t) mro) taken).
Proof.
  induction mro as [|c r IH]; cbn; intros taken; [reflexivity|].
  rewrite broken_inner_spec, IH, dedup_first_app, map_app. reflexivity.
Qed.

Lemma legacy_In t mro taken a :
  In a (collect_base_attrs_broken t mro taken) -> a_inherited a = true /\ ~ In (a_name a) taken.
Proof.
  rewrite legacy_flat. intros H. apply in_map_iff in H as (b & <- & Hb).
  apply dedup_first_In in Hb as [_ Hb]. split; [reflexivity | exact Hb].
Qed.

Lemma legacy_nodup t mro taken : NoDup (names (collect_base_attrs_broken t mro taken)).
Proof. rewrite legacy_flat, names_set_inherited. apply dedup_first_nodup. Qed.

(** ** Both collections: [fields_nodup], [fields_inherited_then_own], [own_shadows_inherited] *)

Lemma base_In t mro by_mro taken a :
  In a (base_attrs_of t mro by_mro taken) -> a_inherited a = true /\ ~ In (a_name a) taken.
Proof. destruct by_mro; cbn; [apply collect_In | apply legacy_In]. Qed.

Lemma base_nodup t mro by_mro taken : NoDup (names (base_attrs_of t mro by_mro taken)).
Proof. destruct by_mro; cbn; [apply collect_nodup | apply legacy_nodup]. Qed.

Lemma own_shadows_inherited_l t mro by_mro own a :
  In a (base_attrs_of t mro by_mro (names own)) -> ~ In (a_name a) (names own).
Proof. intros H. now apply base_In in H. Qed.

Ltac destr_order :=
  match goal with |- context [if order_ok ?x then _ else _] => destruct (order_ok x) eqn:Horder end.

Lemma transform_no_ft_shape t mro by_mro kw own res :
  transform_attrs t mro by_mro kw None own = Ok res ->
  res = map resolve_alias (evolve_kw_only kw (base_attrs_of t mro by_mro (names own)))
        ++ map resolve_alias (evolve_kw_only kw own).
Proof.
  unfold transform_attrs, apply_ft. fold (names own). destr_order; [|discriminate].
  intros E; inversion E. now rewrite map_app.
Qed.

Lemma fields_nodup_l t mro by_mro kw own res :
  NoDup (names own) ->
  transform_attrs t mro by_mro kw None own = Ok res -> NoDup (names res).
Proof.
  intros Hown H. apply transform_no_ft_shape in H. subst res.
  rewrite names_app, !names_resolve_alias, !names_evolve_kw_only.
  apply NoDup_app_intro; [apply base_nodup | assumption |].
  intros n Hn. apply in_map_iff in Hn as (a & <- & Ha). now apply base_In in Ha.
Qed.

Lemma fields_nodup_ft_l t mro by_mro kw ft own res :
  NoDup (names (ft (evolve_kw_only kw (base_attrs_of t mro by_mro (names own))
                    ++ evolve_kw_only kw own))) ->
  transform_attrs t mro by_mro kw (Some ft) own = Ok res -> NoDup (names res).
Proof.
  unfold transform_attrs, apply_ft. fold (names own). intros Hn. destr_order; [|discriminate].
  intros E; inversion E. now rewrite names_resolve_alias.
Qed.

Lemma inherited_evolve_kw kw l b :
  Forall (fun a => a_inherited a = b) l ->
  Forall (fun a => a_inherited a = b) (map resolve_alias (evolve_kw_only kw l)).
Proof.
  intros H. apply Forall_forall. intros a Ha. apply in_map_iff in Ha as (x & <- & Hx).
  rewrite inherited_resolve_alias. destruct kw; cbn in Hx.
  - apply in_map_iff in Hx as (y & <- & Hy). cbn. eapply Forall_forall in H; eauto.
  - eapply Forall_forall in H; eauto.
Qed.

Lemma fields_inherited_then_own_l t mro by_mro kw own res :
  Forall (fun a => a_inherited a = false) own ->
  transform_attrs t mro by_mro kw None own = Ok res ->
  exists inh ow,
    res = inh ++ ow /\
    Forall (fun a => a_inherited a = true) inh /\
    Forall (fun a => a_inherited a = false) ow /\
    names ow = names own /\
    (forall n, In n (names inh) -> ~ In n (names own)).
Proof.
  intros Hown H. apply transform_no_ft_shape in H.
  eexists _, _. split; [exact H|]. repeat split.
  - apply inherited_evolve_kw. apply Forall_forall. intros a Ha. now apply base_In in Ha.
  - now apply inherited_evolve_kw.
  - now rewrite names_resolve_alias, names_evolve_kw_only.
  - rewrite names_resolve_alias, names_evolve_kw_only. intros n Hn.
    apply in_map_iff in Hn as (a & <- & Ha). now apply base_In in Ha.
Qed.

(** Own attributes come out of [from_counting_attr] with [inherited=False] and the
    names of [ca_list], in that order. *)
Lemma map_result_ok {A B} (f : A -> result B) l r :
  map_result f l = Ok r -> Forall2 (fun x y => f x = Ok y) l r.
Proof.
  revert r. induction l as [|x l IH]; cbn; intros r H.
  - inversion H. constructor.
  - destruct (f x) eqn:E; [|discriminate]. destruct (map_result f l); [|discriminate].
    inversion H; subst. constructor; auto.
Qed.

Lemma map_result_err {A B} (f : A -> result B) l e :
  map_result f l = Err e -> exists x, In x l /\ f x = Err e.
Proof.
  induction l as [|x l IH]; cbn; intros H; [discriminate|].
  destruct (f x) eqn:E.
  - destruct (map_result f l); [discriminate|]. inversion H; subst.
    destruct (IH eq_refl) as (y & Hy & Ey). exists y. auto.
  - inversion H; subst. exists x. auto.
Qed.

Lemma from_counting_attr_ok n ca ann a :
  from_counting_attr n ca ann = Ok a -> a_name a = n /\ a_inherited a = false.
Proof.
  unfold from_counting_attr. destruct ann as [ty|]; [destruct (a_type (ca_attr ca))|];
    intros H; inversion H; subst; cbn; auto.
Qed.

Lemma from_counting_attr_err n ca ann e : from_counting_attr n ca ann = Err e -> e = EValue.
Proof.
  unfold from_counting_attr. destruct ann as [ty|]; [destruct (a_type (ca_attr ca))|];
    intros H; inversion H; reflexivity.
Qed.

Lemma own_attrs_spec pre these auto body own :
  own_attrs pre these auto body = Ok own ->
  Forall (fun a => a_inherited a = false) own /\
  exists l, ca_list pre these auto (fst (namespace body)) (snd (namespace body)) = Ok l /\
            names own = map fst l.
Proof.
  unfold own_attrs. destruct (namespace body) as [cd anns]. cbn.
  destruct (ca_list pre these auto cd anns) as [l|e]; [|discriminate].
  intros H. apply map_result_ok in H. split.
  - induction H as [|x y l r Hxy _ IH]; constructor; auto.
    now apply from_counting_attr_ok in Hxy.
  - exists l. split; [reflexivity|].
    induction H as [|x y l r Hxy _ IH]; cbn; [reflexivity|].
    apply from_counting_attr_ok in Hxy as [-> _]. now f_equal.
Qed.

(** ** [own_definition_order] *)

Definition counter_le (x y : string * cattr) : Prop := (ca_counter (snd x) <= ca_counter (snd y))%Z.

Lemma sort_sorted_id l : Sorted counter_le l -> sort_by_counter l = l.
Proof.
  induction l as [|x l IH]; cbn; intros H; [reflexivity|].
  inversion H as [|? ? Hs Hh]; subst. unfold sort_by_counter in *. cbn. rewrite (IH Hs).
  destruct l as [|y r]; cbn; [reflexivity|].
  inversion Hh as [|? ? Hle]; subst. unfold counter_le in Hle.
  apply Z.leb_le in Hle. now rewrite Hle.
Qed.

(** For ANY strictly increasing counter assignment along the source order the sort
    returns the source order: the absolute value of the global counter is irrelevant. *)
Lemma own_definition_order_l l :
  StronglySorted (fun x y => (ca_counter (snd x) < ca_counter (snd y))%Z) l ->
  sort_by_counter l = l.
Proof.
  intros H. apply sort_sorted_id. apply StronglySorted_Sorted.
  induction H as [|x l Hs IH Hx]; constructor; auto.
  eapply Forall_impl; [|exact Hx]. intros y Hy. unfold counter_le. cbn in Hy. lia.
Qed.

Lemma insert_perm x l : Permutation (x :: l) (insert_by_counter x l).
Proof.
  induction l as [|y r IH]; cbn; [apply Permutation_refl|].
  destruct (Z.leb _ _); [apply Permutation_refl|].
  eapply Permutation_trans; [apply perm_swap|]. now apply perm_skip.
Qed.

Lemma sort_perm l : Permutation l (sort_by_counter l).
Proof.
  induction l as [|x l IH]; cbn; [constructor|].
  eapply Permutation_trans; [apply perm_skip, IH | apply insert_perm].
Qed.

Lemma insert_sorted x l : Sorted counter_le l -> Sorted counter_le (insert_by_counter x l).
Proof.
  induction l as [|y r IH]; cbn; intros H; [repeat constructor|].
  destruct (Z.leb _ _) eqn:E.
  - constructor; [assumption|]. constructor. now apply Z.leb_le in E.
  - inversion H as [|? ? Hs Hh]; subst. constructor; [now apply IH|].
    apply Z.leb_gt in E.
    destruct r as [|z r']; cbn.
    + constructor. unfold counter_le. lia.
    + destruct (Z.leb _ _); constructor.
      * unfold counter_le. lia.
      * now inversion Hh.
Qed.

Lemma sort_sorted l : Sorted counter_le (sort_by_counter l).
Proof.
  induction l as [|x l IH]; cbn; [constructor|]. now apply insert_sorted.
Qed.

(** ** [legacy_linear_agrees]: on a linear chain the legacy collection equals the
    MRO-correct one *)

Definition not_in (T : list string) (a : attribute) : bool := negb (mem_str (a_name a) T).
Definition inh (a : attribute) : attribute := set_inherited a true.

(** What [getattr(cls, "__attrs_attrs__", [])] finds when the lookup starts at the
    head of [mro]. *)
Definition gf (t : table) (mro : list nat) : list attribute :=
  match first_some (map (dict_attrs_opt t) mro) with Some l => l | None => [] end.

(** A linear chain [c1; c2; ...]: every class's own MRO tail is the rest of the
    list, and every decorated class of the chain holds
    [inherited-along-the-rest ++ own] (no transformer, no class-level kw_only:
    exactly what either collection, by induction, produced for it). *)
Inductive chain_ok (t : table) : list nat -> Prop :=
| chain_nil : chain_ok t []
| chain_plain c rest e :
    find_entry t c = Some e -> e_mro e = rest -> e_attrs e = None ->
    chain_ok t rest -> chain_ok t (c :: rest)
| chain_deco c rest e own :
    find_entry t c = Some e -> e_mro e = rest ->
    e_attrs e = Some (collect_base_attrs t rest (names own) ++ own) ->
    Forall (fun a => a_inherited a = false) own -> NoDup (names own) ->
    chain_ok t rest -> chain_ok t (c :: rest).

Lemma dedup_first_split l : forall s1 s2,
  dedup_first l (s1 ++ s2) = filter (not_in s2) (dedup_first l s1).
Proof.
  induction l as [|a l IH]; cbn; intros s1 s2; [reflexivity|].
  rewrite mem_str_app. destruct (mem_str (a_name a) s1) eqn:E1; cbn; [apply IH|].
  unfold not_in at 1. destruct (mem_str (a_name a) s2) eqn:E2; cbn.
  - rewrite <- (IH (a_name a :: s1) s2). apply dedup_first_ext. intros n. cbn.
    destruct (String.eqb n (a_name a)) eqn:E; cbn; [|reflexivity].
    apply String.eqb_eq in E. subst n. now rewrite mem_str_app, E2, orb_true_r.
  - f_equal. apply (IH (a_name a :: s1) s2).
Qed.

Lemma dedup_first_nodup_id l : forall seen,
  NoDup (names l) -> (forall a, In a l -> ~ In (a_name a) seen) -> dedup_first l seen = l.
Proof.
  induction l as [|a l IH]; cbn; intros seen Hn Hs; [reflexivity|].
  inversion Hn as [|? ? Hna Hnl]; subst.
  assert (E : mem_str (a_name a) seen = false) by (apply mem_str_false, Hs; now left).
  rewrite E. f_equal. apply IH; [assumption|].
  intros b Hb [Hi|Hi].
  - apply Hna. rewrite Hi. now apply In_names.
  - apply (Hs b); auto.
Qed.

Lemma dedup_first_all_seen l : forall s,
  (forall a, In a l -> mem_str (a_name a) s = true) -> dedup_first l s = [].
Proof.
  induction l as [|a l IH]; cbn; intros s H; [reflexivity|].
  rewrite (H a (or_introl eq_refl)). apply IH. intros b Hb. apply H. now right.
Qed.

Lemma mem_names_filter_not_in n T l :
  mem_str n (names (filter (not_in T) l)) = mem_str n (names l) && negb (mem_str n T).
Proof.
  unfold names. induction l as [|a l IH]; cbn; [reflexivity|].
  unfold not_in at 1. destruct (mem_str (a_name a) T) eqn:E; cbn; rewrite IH.
  - destruct (String.eqb n (a_name a)) eqn:E2; cbn; [|reflexivity].
    apply String.eqb_eq in E2. subst n. rewrite E. cbn. now rewrite andb_false_r.
  - destruct (String.eqb n (a_name a)) eqn:E2; cbn; [|reflexivity].
    apply String.eqb_eq in E2. subst n. now rewrite E.
Qed.

Lemma dedup_first_absorb L R T :
  NoDup (names L) -> (forall a, In a R -> In (a_name a) (names L)) ->
  dedup_first (L ++ R) T = filter (not_in T) L.
Proof.
  intros Hn HR. rewrite dedup_first_app.
  assert (E : dedup_first L T = filter (not_in T) L).
  { rewrite <- (dedup_first_nodup_id L [] Hn) at 2 by (intros a _ []).
    apply (dedup_first_split L [] T). }
  rewrite E, dedup_first_all_seen; [apply app_nil_r|].
  intros a Ha. rewrite mem_str_app, mem_str_rev, mem_names_filter_not_in.
  apply HR, mem_str_In in Ha. rewrite Ha. cbn. now destruct (mem_str (a_name a) T).
Qed.

Lemma keep_last_app_nodup X Y :
  NoDup (names Y) -> keep_last (X ++ Y) = filter (not_in (names Y)) (keep_last X) ++ Y.
Proof.
  intros Hn. unfold keep_last. rewrite rev_app_distr, dedup_first_app.
  assert (HY : NoDup (names (rev Y))) by (rewrite names_rev; now apply NoDup_rev_iff).
  rewrite (dedup_first_nodup_id (rev Y) [] HY) by (intros a _ []).
  rewrite rev_app_distr, rev_involutive. f_equal.
  rewrite app_nil_r, names_rev, rev_involutive.
  change (names Y) with ([] ++ names Y) at 1.
  rewrite (dedup_first_split (rev X) [] (names Y)). now rewrite filter_rev.
Qed.

Lemma filter2_ext {A} (p1 q1 p2 q2 : A -> bool) l :
  (forall a, p1 a && q1 a = p2 a && q2 a) -> filter p1 (filter q1 l) = filter p2 (filter q2 l).
Proof.
  intros H. induction l as [|a l IH]; cbn; [reflexivity|].
  specialize (H a). destruct (q1 a) eqn:E1, (q2 a) eqn:E2; cbn; rewrite ?IH;
    destruct (p1 a), (p2 a); cbn in *; try discriminate; reflexivity.
Qed.

Lemma filter_not_in_inh T l : filter (not_in T) (map inh l) = map inh (filter (not_in T) l).
Proof.
  induction l as [|a l IH]; cbn; [reflexivity|].
  change (not_in T (inh a)) with (not_in T a). destruct (not_in T a); cbn; now rewrite IH.
Qed.

Lemma map_inh_idem l : map inh (map inh l) = map inh l.
Proof. rewrite map_map. reflexivity. Qed.

Lemma from_base_own_part T B own :
  Forall (fun a => a_inherited a = true) B -> Forall (fun a => a_inherited a = false) own ->
  from_base T (B ++ own) = map inh (filter (not_in T) own).
Proof.
  intros HB Ho. unfold from_base. rewrite filter_app, map_app.
  assert (E1 : filter (fun a => negb (a_inherited a || mem_str (a_name a) T)) B = []).
  { induction HB as [|a B Ha _ IH]; cbn; [reflexivity|]. now rewrite Ha. }
  rewrite E1. cbn. f_equal.
  induction Ho as [|a own Ha _ IH]; cbn; [reflexivity|].
  rewrite Ha. unfold not_in at 1. cbn. destruct (negb _); now rewrite IH.
Qed.

Lemma own_dict_attrs_find t c e :
  find_entry t c = Some e ->
  own_dict_attrs t c = match e_attrs e with Some l => l | None => [] end /\
  dict_attrs_opt t c = e_attrs e.
Proof. intros H. unfold own_dict_attrs, dict_attrs_opt. now rewrite H. Qed.

Lemma collect_cons t c rest T :
  collect_base_attrs t (c :: rest) T =
  keep_last (flat_map (fun b => from_base T (own_dict_attrs t b)) (rev rest)
             ++ from_base T (own_dict_attrs t c)).
Proof. unfold collect_base_attrs. cbn. rewrite flat_map_app. cbn. now rewrite app_nil_r. Qed.

Lemma gf_cons t c rest :
  gf t (c :: rest) = match dict_attrs_opt t c with Some l => l | None => gf t rest end.
Proof. unfold gf. cbn. now destruct (dict_attrs_opt t c). Qed.

Lemma nodup_names_filter_inh T own :
  NoDup (names own) -> NoDup (names (map inh (filter (not_in T) own))).
Proof.
  unfold inh. rewrite names_set_inherited. intros Hn.
  induction own as [|a own IHo]; cbn; [constructor|].
  inversion Hn as [|? ? H1 H2]; subst. destruct (not_in T a); cbn; [|now apply IHo].
  constructor; [|now apply IHo]. intros Hin. apply H1.
  apply in_map_iff in Hin as (b & Hb & Hin). apply filter_In in Hin as [Hin _].
  rewrite <- Hb. now apply In_names.
Qed.

Lemma not_in_filtered T own a :
  not_in (names (map inh (filter (not_in T) own))) a =
  negb (mem_str (a_name a) (names own) && negb (mem_str (a_name a) T)).
Proof.
  unfold not_in at 1. unfold inh. now rewrite names_set_inherited, mem_names_filter_not_in.
Qed.

(** (1) the MRO-correct collection, seen through the nearest decorated class *)
Lemma chain_by_mro t mro : chain_ok t mro ->
  forall T, collect_base_attrs t mro T = map inh (filter (not_in T) (gf t mro)).
Proof.
  induction 1 as [|c rest e Hf Hm Ha Hc IH|c rest e own Hf Hm Ha Hi Hn Hc IH]; intros T.
  - reflexivity.
  - destruct (own_dict_attrs_find _ _ _ Hf) as [E1 E2]. rewrite Ha in E1, E2.
    rewrite collect_cons, gf_cons, E1, E2. unfold from_base at 2. cbn. rewrite app_nil_r.
    apply IH.
  - destruct (own_dict_attrs_find _ _ _ Hf) as [E1 E2]. rewrite Ha in E1, E2.
    assert (HB : Forall (fun a => a_inherited a = true) (collect_base_attrs t rest (names own))).
    { apply Forall_forall. intros a Hin. now apply collect_In in Hin. }
    rewrite collect_cons, gf_cons, E1, E2.
    rewrite (from_base_own_part T _ own HB Hi).
    rewrite keep_last_app_nodup by now apply nodup_names_filter_inh.
    fold (collect_base_attrs t rest T). rewrite (IH T), (IH (names own)).
    rewrite filter_app, map_app, !filter_not_in_inh, map_inh_idem. f_equal. f_equal.
    apply filter2_ext. intros a. rewrite not_in_filtered. unfold not_in.
    destruct (mem_str (a_name a) T), (mem_str (a_name a) (names own)); reflexivity.
Qed.

Lemma chain_gf_nodup t mro : chain_ok t mro -> NoDup (names (gf t mro)).
Proof.
  induction 1 as [|c rest e Hf Hm Ha Hc IH|c rest e own Hf Hm Ha Hi Hn Hc IH].
  - constructor.
  - destruct (own_dict_attrs_find _ _ _ Hf) as [_ E2]. rewrite Ha in E2.
    now rewrite gf_cons, E2.
  - destruct (own_dict_attrs_find _ _ _ Hf) as [_ E2]. rewrite Ha in E2.
    rewrite gf_cons, E2, names_app. apply NoDup_app_intro; auto.
    + apply collect_nodup.
    + intros n Hin. apply in_map_iff in Hin as (a & <- & Hin). now apply collect_In in Hin.
Qed.

Lemma chain_head_getattr t c rest e :
  find_entry t c = Some e -> e_mro e = rest -> getattr_list t c = gf t (c :: rest).
Proof. intros Hf Hm. unfold getattr_list, getattr_attrs, gf. now rewrite Hf, Hm. Qed.

Lemma gf_names_mono t c rest :
  chain_ok t (c :: rest) -> forall n, In n (names (gf t rest)) -> In n (names (gf t (c :: rest))).
Proof.
  intros H n Hn. inversion H as [|? ? e Hf Hm Ha Hc|? ? e own Hf Hm Ha Hi Hnd Hc]; subst.
  - destruct (own_dict_attrs_find _ _ _ Hf) as [_ E2]. rewrite Ha in E2.
    now rewrite gf_cons, E2.
  - destruct (own_dict_attrs_find _ _ _ Hf) as [_ E2]. rewrite Ha in E2.
    rewrite gf_cons, E2, names_app, in_app_iff.
    destruct (mem_str n (names own)) eqn:E; [right; now apply mem_str_In|left].
    rewrite (chain_by_mro _ _ Hc). unfold inh. rewrite names_set_inherited.
    apply mem_str_In. rewrite mem_names_filter_not_in, E. cbn. rewrite andb_true_r.
    now apply mem_str_In.
Qed.

Lemma chain_getattr_names t mro : chain_ok t mro ->
  forall c a, In c mro -> In a (getattr_list t c) -> In (a_name a) (names (gf t mro)).
Proof.
  induction 1 as [|c0 rest e Hf Hm Ha Hc IH|c0 rest e own Hf Hm Ha Hi Hn Hc IH];
    intros c a Hin Hg; [contradiction| |].
  - destruct Hin as [<-|Hin].
    + rewrite (chain_head_getattr _ _ _ _ Hf Hm) in Hg. now apply In_names.
    + apply gf_names_mono; [econstructor 2; eauto | eapply IH; eauto].
  - destruct Hin as [<-|Hin].
    + rewrite (chain_head_getattr _ _ _ _ Hf Hm) in Hg. now apply In_names.
    + apply gf_names_mono; [econstructor 3; eauto | eapply IH; eauto].
Qed.

(** (2) the legacy collection, seen the same way *)
Lemma chain_legacy t mro : chain_ok t mro ->
  forall T, collect_base_attrs_broken t mro T = map inh (filter (not_in T) (gf t mro)).
Proof.
  intros H T. rewrite legacy_flat. fold inh. f_equal.
  destruct mro as [|c rest]; [reflexivity|]. cbn.
  assert (Hg : getattr_list t c = gf t (c :: rest)).
  { inversion H; subst; eapply chain_head_getattr; eauto. }
  rewrite Hg. apply dedup_first_absorb; [now apply chain_gf_nodup|].
  intros a Ha. apply in_flat_map in Ha as (c' & Hc' & Ha).
  eapply chain_getattr_names; eauto. now right.
Qed.

Lemma legacy_linear_agrees_l t mro : chain_ok t mro ->
  forall T, collect_base_attrs_broken t mro T = collect_base_attrs t mro T.
Proof. intros H T. now rewrite chain_legacy, chain_by_mro. Qed.

(** ** [legacy_diamond_refuted] (issue #428, finding K7) *)

Definition fld (v : string) : attribute := ib (Some v) DValue true None false None.

(** [A: x]; [B(A): y]; [C(A): x]; [D(B, C)] — all legacy. *)
Definition diamond_classes (by_mro : bool) : list classdef :=
  let d := Some (De by_mro false None AutoFalse None) in
  [ Cl 0 [] [St "x" None (BVField (CA 1 (fld "A.x")))] d;
    Cl 1 [0] [St "y" None (BVField (CA 2 (fld "B.y")))] d;
    Cl 2 [0] [St "x" None (BVField (CA 3 (fld "C.x")))] d ].

Definition diamond_table (by_mro : bool) : table := snd (run_classes [] [] (diamond_classes by_mro)).

Lemma legacy_diamond_refuted_l :
  exists t mro n,
    find (named n) (collect_base_attrs_broken t mro []) <>
    option_map inh (nearest_def t mro n).
Proof.
  exists (diamond_table false), [1; 2; 0], "x". vm_compute. discriminate.
Qed.

(** The same hierarchy under [collect_by_mro=True] lists C's definition. *)
Example by_mro_diamond_ok :
  option_map a_validator (find (named "x") (collect_base_attrs (diamond_table true) [1; 2; 0] []))
  = Some (Some "C.x") /\
  option_map a_validator (find (named "x") (collect_base_attrs_broken (diamond_table false) [1; 2; 0] []))
  = Some (Some "A.x").
Proof. split; reflexivity. Qed.

(** Non-vacuity of [chain_ok]: a chain with a plain class in the middle, built by
    the model itself with mixed collection modes. *)
Definition chain_classes : list classdef :=
  [ Cl 0 [] [St "x" None (BVField (CA 1 (fld "A.x"))); St "y" None (BVField (CA 2 (fld "A.y")))]
       (Some (De false false None AutoFalse None));
    Cl 1 [0] [] None;
    Cl 2 [1; 0] [St "x" None (BVField (CA 3 (fld "C.x"))); St "z" None (BVField (CA 4 (fld "C.z")))]
       (Some (De true false None AutoFalse None)) ].
Definition chain_table : table := snd (run_classes [] [] chain_classes).

Example chain_ok_example : chain_ok chain_table [2; 1; 0].
Proof.
  eapply (chain_deco _ 2 [1; 0] _
            [resolve_alias (set_name (fld "C.x") "x"); resolve_alias (set_name (fld "C.z") "z")]);
    [reflexivity | reflexivity | reflexivity | repeat constructor | | ].
  - repeat constructor; cbn; intuition discriminate.
  - eapply chain_plain; [reflexivity | reflexivity | reflexivity |].
    eapply (chain_deco _ 0 [] _
              [resolve_alias (set_name (fld "A.x") "x"); resolve_alias (set_name (fld "A.y") "y")]);
      [reflexivity | reflexivity | reflexivity | repeat constructor | | constructor].
    repeat constructor; cbn; intuition discriminate.
Qed.

(** ** [introspection_agree] *)

Lemma last_index_from_app n l : forall a i acc,
  last_index_from n (l ++ [a]) i acc =
  if String.eqb (a_name a) n then Some (i + List.length l) else last_index_from n l i acc.
Proof.
  induction l as [|x l IH]; cbn; intros a i acc.
  - now rewrite Nat.add_0_r.
  - rewrite IH. now rewrite Nat.add_succ_r.
Qed.

Lemma index_of_name_snoc l a n :
  index_of_name (l ++ [a]) n =
  if String.eqb (a_name a) n then Some (List.length l) else index_of_name l n.
Proof. unfold index_of_name. now rewrite last_index_from_app. Qed.

Lemma index_of_name_lt l : forall n j, index_of_name l n = Some j -> j < List.length l.
Proof.
  induction l as [|a l IH] using rev_ind; intros n j H; [discriminate|].
  rewrite index_of_name_snoc in H. rewrite app_length. cbn.
  destruct (String.eqb (a_name a) n).
  - inversion H. lia.
  - apply IH in H. lia.
Qed.

(** Name access on the tuple and [fields_dict] lookup return the same object: the
    last field of that name — and that is index access at [index_of_name]. *)
Lemma name_access_is_index_access l : forall n,
  fields_dict_get l n = match index_of_name l n with Some j => nth_error l j | None => None end.
Proof.
  induction l as [|a l IH] using rev_ind; intros n; [reflexivity|].
  unfold fields_dict_get. rewrite rev_app_distr. cbn. rewrite index_of_name_snoc.
  destruct (String.eqb (a_name a) n).
  - now rewrite nth_error_app2, Nat.sub_diag by lia.
  - fold (fields_dict_get l n). rewrite IH. destruct (index_of_name l n) as [j|] eqn:E; [|reflexivity].
    apply index_of_name_lt in E. now rewrite nth_error_app1.
Qed.

Lemma index_of_name_nodup l : NoDup (names l) ->
  forall j a, nth_error l j = Some a -> index_of_name l (a_name a) = Some j.
Proof.
  induction l as [|x l IH] using rev_ind; intros Hn j a Hj; [destruct j; discriminate|].
  rewrite names_app in Hn. apply NoDup_app_inv in Hn as (Hl & _ & Hd).
  rewrite index_of_name_snoc.
  destruct (Nat.lt_ge_cases j (List.length l)) as [Hlt|Hge].
  - rewrite nth_error_app1 in Hj by assumption.
    destruct (String.eqb (a_name x) (a_name a)) eqn:E.
    + apply String.eqb_eq in E. exfalso. apply (Hd (a_name a)).
      * apply nth_error_In in Hj. now apply In_names.
      * cbn. now left.
    + now apply IH.
  - rewrite nth_error_app2 in Hj by assumption.
    destruct (j - List.length l) as [|k] eqn:Ek; cbn in Hj; [|destruct k; discriminate].
    inversion Hj; subst. rewrite String.eqb_refl. f_equal. lia.
Qed.

Lemma dedup_names_nodup_id l : forall seen,
  NoDup l -> (forall x, In x l -> ~ In x seen) -> dedup_names l seen = l.
Proof.
  induction l as [|x l IH]; cbn; intros seen Hn Hs; [reflexivity|].
  inversion Hn as [|? ? H1 H2]; subst.
  assert (E : mem_str x seen = false) by (apply mem_str_false, Hs; now left).
  rewrite E. f_equal. apply IH; [assumption|].
  intros y Hy [->|Hi]; [contradiction | apply (Hs y); auto].
Qed.

Lemma fields_dict_keys_nodup l : NoDup (names l) -> fields_dict_keys l = names l.
Proof. intros H. apply dedup_names_nodup_id; [assumption | intros x _ []]. Qed.

Lemma dedup_names_spec l : forall seen,
  NoDup (dedup_names l seen) /\
  (forall x, In x (dedup_names l seen) <-> In x l /\ ~ In x seen).
Proof.
  induction l as [|y l IH]; cbn; intros seen.
  - split; [constructor | intros x; tauto].
  - destruct (mem_str y seen) eqn:E.
    + destruct (IH seen) as [H1 H2]. split; [assumption|]. intros x. rewrite H2.
      apply mem_str_In in E. split; [tauto|]. intros [[->|H] Hn]; [contradiction | tauto].
    + apply mem_str_false in E. destruct (IH (y :: seen)) as [H1 H2]. split.
      * constructor; [|assumption]. rewrite H2. cbn. tauto.
      * intros x. cbn. rewrite H2. cbn. split.
        -- intros [->|[H Hn]]; [tauto|]. split; [tauto|]. tauto.
        -- intros [[->|H] Hn]; [tauto|]. destruct (string_dec y x) as [->|Hne]; [tauto|].
           right. split; [assumption|]. intros [Hc|Hc]; [contradiction | contradiction].
Qed.

Lemma partition_init_perm l :
  Permutation (init_positional l ++ init_kw_only l) (map alias_of (filter a_init l)).
Proof.
  unfold init_positional, init_kw_only, positional. rewrite <- map_app. apply Permutation_map.
  induction l as [|a l IH]; cbn; [constructor|].
  destruct (a_init a), (a_kw_only a); cbn.
  - eapply Permutation_trans; [apply Permutation_sym, Permutation_middle|]. now constructor.
  - now constructor.
  - exact IH.
  - exact IH.
Qed.

Lemma introspection_agree_l l :
  (* fields_dict: keys are the field names (once each, in tuple order) *)
  NoDup (fields_dict_keys l) /\
  (forall n, In n (fields_dict_keys l) <-> In n (names l)) /\
  (NoDup (names l) -> fields_dict_keys l = names l) /\
  (* name access = fields_dict lookup = index access at the name's (last) index *)
  (forall n, fields_dict_get l n =
             match index_of_name l n with Some j => nth_error l j | None => None end) /\
  (NoDup (names l) -> forall j a, nth_error l j = Some a -> index_of_name l (a_name a) = Some j) /\
  (* __match_args__ and the positional parameters are the same sub-sequence of the tuple *)
  combine (match_args l) (init_positional l) =
    map (fun a => (a_name a, alias_of a)) (filter positional l) /\
  List.length (match_args l) = List.length (init_positional l) /\
  (* the parameter list is the init fields, positional ones first *)
  Permutation (init_positional l ++ init_kw_only l) (map alias_of (filter a_init l)).
Proof.
  repeat split.
  - apply (dedup_names_spec (names l) []).
  - intros H. apply (dedup_names_spec (names l) []) in H. tauto.
  - intros H. apply (dedup_names_spec (names l) []). tauto.
  - apply fields_dict_keys_nodup.
  - apply name_access_is_index_access.
  - apply index_of_name_nodup.
  - unfold match_args, init_positional, names. generalize (filter positional l).
    intros l'. induction l' as [|a l' IH]; cbn; [reflexivity | now rewrite IH].
  - unfold match_args, init_positional, names. now rewrite !map_length.
  - apply partition_init_perm.
Qed.

(** [has] and [fields] of every class statement of a run. *)
Lemma has_after_decoration pre t k d l :
  k_deco k = Some d -> decorate pre t k d = Ok l ->
  fst (step_class pre t k) = COk (observe_ok l) /\ ob_has (observe_ok l) = true.
Proof. intros Hd Hr. unfold step_class. rewrite Hd, Hr. split; reflexivity. Qed.

(** ** [transformer_reflected] *)
Lemma transformer_reflected_l t mro by_mro kw ft own :
  let given := evolve_kw_only kw (base_attrs_of t mro by_mro (names own)) ++ evolve_kw_only kw own in
  transform_attrs t mro by_mro kw (Some ft) own =
  if order_ok (ft given) then Ok (map resolve_alias (ft given)) else Err EValue.
Proof. reflexivity. Qed.

Lemma transformer_names t mro by_mro kw ft own res :
  transform_attrs t mro by_mro kw (Some ft) own = Ok res ->
  names res = names (ft (evolve_kw_only kw (base_attrs_of t mro by_mro (names own))
                         ++ evolve_kw_only kw own)) /\
  List.length res = List.length (ft (evolve_kw_only kw (base_attrs_of t mro by_mro (names own))
                           ++ evolve_kw_only kw own)).
Proof.
  rewrite transformer_reflected_l. cbv zeta. destr_order; [|discriminate].
  intros E; inversion E. now rewrite names_resolve_alias, map_length.
Qed.

(** ** [alias_default_spec] *)
Lemma alias_default_spec_l a :
  (a_alias a = None \/ a_alias a = Some "") ->
  exists k al, a_alias (resolve_alias a) = Some al /\
               a_name a = (underscores k ++ al)%string /\
               (forall r, al <> String "_"%char r).
Proof.
  intros H. destruct (lstrip_spec_l (a_name a)) as (k & Hk & Hn).
  exists k, (lstrip_underscores (a_name a)). repeat split; auto.
  unfold resolve_alias. destruct H as [-> | ->]; reflexivity.
Qed.

Lemma alias_explicit_kept a al :
  a_alias a = Some al -> al <> "" -> resolve_alias a = a.
Proof.
  intros H Hne. unfold resolve_alias. rewrite H.
  destruct (String.eqb al "") eqn:E; [apply String.eqb_eq in E; contradiction | reflexivity].
Qed.

(** ** [define_inference] *)
Definition annotation_driven (pre : list string) (body : list stmt) : bool :=
  match unannotated pre (fst (namespace body)) (snd (namespace body)) with
  | [] => true | _ :: _ => false
  end.

Lemma transform_attrs_err t mro by_mro kw ft own e :
  transform_attrs t mro by_mro kw ft own = Err e -> e = EValue.
Proof.
  unfold transform_attrs. destr_order; intros H; inversion H. reflexivity.
Qed.

Lemma own_attrs_unannotated pre these auto body :
  own_attrs pre these auto body = Err EUnannotated <->
  these = None /\ auto = true /\ annotation_driven pre body = false.
Proof.
  unfold own_attrs, annotation_driven. destruct (namespace body) as [cd anns]. cbn [fst snd].
  assert (Hmr : forall l, map_result
            (fun e => from_counting_attr (fst e) (snd e) (dict_get anns (fst e))) l
            <> Err EUnannotated).
  { intros l E. apply map_result_err in E as (x & _ & E).
    apply from_counting_attr_err in E. discriminate. }
  destruct these as [l|]; unfold ca_list.
  - split; [intros E; now apply Hmr in E | intros [H _]; discriminate].
  - destruct auto.
    + unfold ca_list_auto. destruct (unannotated pre cd anns) eqn:Eu.
      * split; [intros E; now apply Hmr in E | intros (_ & _ & H); discriminate].
      * split; auto.
    + split; [intros E; now apply Hmr in E | intros (_ & H & _); discriminate].
Qed.

Lemma attrs_call_unannotated pre t k d auto :
  attrs_call pre t k d auto = Err EUnannotated <->
  d_these d = None /\ auto = true /\ annotation_driven pre (k_body k) = false.
Proof.
  rewrite <- own_attrs_unannotated. unfold attrs_call.
  destruct (own_attrs pre (d_these d) auto (k_body k)) as [own|e] eqn:E.
  - split; [|discriminate].
    destruct (transform_attrs _ _ _ _ _ _) eqn:E2.
    + destruct (nodupb _); discriminate.
    + apply transform_attrs_err in E2. subst. discriminate.
  - split; intros H; inversion H; reflexivity.
Qed.

(** define's guess is annotation-driven iff no unannotated [field()] is in the body. *)
Lemma define_inference_l pre t k d :
  d_auto d = AutoInfer ->
  decorate pre t k d =
  attrs_call pre t k d
    (match d_these d with Some _ => true | None => annotation_driven pre (k_body k) end).
Proof.
  intros Ha. unfold decorate. rewrite Ha.
  destruct (d_these d) as [l|] eqn:Et.
  - destruct (attrs_call pre t k d true) as [r|e] eqn:E; [reflexivity|].
    destruct e; try reflexivity.
    apply attrs_call_unannotated in E as (Ht & _). congruence.
  - destruct (annotation_driven pre (k_body k)) eqn:Ead.
    + destruct (attrs_call pre t k d true) as [r|e] eqn:E; [reflexivity|].
      destruct e; try reflexivity.
      apply attrs_call_unannotated in E as (_ & _ & Hd). congruence.
    + assert (H : attrs_call pre t k d true = Err EUnannotated)
        by (apply attrs_call_unannotated; auto).
      now rewrite H.
Qed.

Lemma annotation_driven_iff pre body :
  annotation_driven pre body = true <->
  forall n, In n (map fst (counting_attrs (fst (namespace body)))) ->
            In n (annot_names pre (snd (namespace body))).
Proof.
  unfold annotation_driven, unannotated.
  set (cas := map fst (counting_attrs (fst (namespace body)))).
  set (an := annot_names pre (snd (namespace body))).
  destruct (filter _ cas) eqn:E; split; intros H; try reflexivity; try discriminate.
  - intros n Hn. destruct (mem_str n an) eqn:Em; [now apply mem_str_In|].
    assert (Hin : In n (filter (fun n => negb (mem_str n an)) cas))
      by (apply filter_In; split; [assumption | now rewrite Em]).
    rewrite E in Hin. contradiction.
  - assert (Hin : In s (filter (fun n => negb (mem_str n an)) cas)) by (rewrite E; now left).
    apply filter_In in Hin as [H1 H2]. apply H, mem_str_In in H1. rewrite H1 in H2. discriminate.
Qed.

(** ** [mro_nearest_wins] on the finished tuple *)
Lemma find_named_map g l n :
  (forall a, a_name (g a) = a_name a) -> find (named n) (map g l) = option_map g (find (named n) l).
Proof. intros H. apply find_map_commute. intros a. unfold named. now rewrite H. Qed.

Lemma name_evolve_kw kw l n :
  find (named n) (evolve_kw_only kw l) =
  option_map (fun a => if kw then set_kw_only a true else a) (find (named n) l).
Proof.
  destruct kw; cbn.
  - now apply find_named_map.
  - now destruct (find (named n) l).
Qed.

Lemma mro_nearest_wins_result_l t mro kw own res :
  transform_attrs t mro true kw None own = Ok res ->
  forall n, ~ In n (names own) ->
    find (named n) res =
    option_map (fun a => resolve_alias (if kw then set_kw_only (inh a) true else inh a))
               (nearest_def t mro n).
Proof.
  intros H n Hn. apply transform_no_ft_shape in H. subst res. cbn [base_attrs_of].
  rewrite find_app, !(find_named_map resolve_alias) by apply name_resolve_alias.
  rewrite !name_evolve_kw, mro_nearest_wins_l.
  apply mem_str_false in Hn. rewrite Hn.
  assert (E : find (named n) own = None).
  { apply find_none_iff. intros x Hx. unfold named. apply String.eqb_neq. intros <-.
    apply mem_str_false in Hn. apply Hn. now apply In_names. }
  rewrite E. cbn. destruct (nearest_def t mro n); reflexivity.
Qed.

(** ** [own_definition_order] for whole class bodies, and [frontends_equal] *)

Lemma dict_set_fresh {V} (d : list (string * V)) k v :
  ~ In k (map fst d) -> dict_set d k v = d ++ [(k, v)].
Proof.
  induction d as [|[k' v'] d IH]; cbn; intros H; [reflexivity|].
  destruct (String.eqb k k') eqn:E.
  - apply String.eqb_eq in E. exfalso. apply H. now left.
  - f_equal. apply IH. intros Hi. apply H. now right.
Qed.

Lemma dict_get_app_fresh {V} (d1 d2 : list (string * V)) k :
  ~ In k (map fst d1) -> dict_get (d1 ++ d2) k = dict_get d2 k.
Proof.
  induction d1 as [|[k' v'] d1 IH]; cbn; intros H; [reflexivity|].
  destruct (String.eqb k k') eqn:E.
  - apply String.eqb_eq in E. exfalso. apply H. now left.
  - apply IH. intros Hi. apply H. now right.
Qed.

Lemma map_result_ext {A B} (f g : A -> result B) l :
  (forall x, f x = g x) -> map_result f l = map_result g l.
Proof. intros H. induction l as [|x l IH]; cbn; [reflexivity|]. now rewrite H, IH. Qed.

(** A logical specification: field names with their [attr.ib()] settings. *)
Definition body_ib (l : list (string * cattr)) : list stmt :=
  map (fun e => St (fst e) None (BVField (snd e))) l.

Definition cd_of (l : list (string * cattr)) : list (string * bval) :=
  map (fun e => (fst e, BVField (snd e))) l.

Lemma namespace_body_ib_gen l : forall cd0 anns,
  NoDup (map fst cd0 ++ map fst l) ->
  fold_left exec_stmt (body_ib l) (cd0, anns) = (cd0 ++ cd_of l, anns).
Proof.
  induction l as [|[n c] l IH]; cbn; intros cd0 anns H; [now rewrite app_nil_r|].
  apply NoDup_remove in H as [H1 H2].
  rewrite dict_set_fresh by (intros Hi; apply H2; apply in_app_iff; now left).
  rewrite IH.
  - now rewrite <- app_assoc.
  - rewrite map_app. cbn. rewrite <- app_assoc. cbn.
    apply NoDup_app_inv in H1 as (Ha & Hb & Hd).
    apply NoDup_app_intro; auto.
    + constructor; [|assumption]. intros Hi. apply H2. apply in_app_iff. now right.
    + intros x Hx [->|Hi]; [apply H2; apply in_app_iff; now left | eapply Hd; eauto].
Qed.

Lemma namespace_body_ib l : NoDup (map fst l) -> namespace (body_ib l) = (cd_of l, []).
Proof. intros H. unfold namespace. now rewrite namespace_body_ib_gen. Qed.

Lemma counting_attrs_cd_of l : counting_attrs (cd_of l) = l.
Proof. unfold cd_of. induction l as [|[n c] l IH]; cbn; [reflexivity | now rewrite IH]. Qed.

(** attr.ib()s in a class body, counters increasing along the source: the own
    fields are the source order, whatever the counter values. *)
Lemma counter_mode_source_order_l pre l :
  NoDup (map fst l) ->
  StronglySorted (fun x y => (ca_counter (snd x) < ca_counter (snd y))%Z) l ->
  ca_list pre None false (fst (namespace (body_ib l))) (snd (namespace (body_ib l))) = Ok l.
Proof.
  intros Hn Hs. rewrite namespace_body_ib by assumption. cbn [fst snd ca_list].
  now rewrite counting_attrs_cd_of, own_definition_order_l.
Qed.

(** The same specification through [these=]/[make_class] and through a class body. *)
Lemma frontends_these_vs_body_l pre auto l :
  NoDup (map fst l) ->
  StronglySorted (fun x y => (ca_counter (snd x) < ca_counter (snd y))%Z) l ->
  own_attrs pre None false (body_ib l) = own_attrs pre (Some l) auto [].
Proof.
  intros Hn Hs. unfold own_attrs. rewrite namespace_body_ib by assumption.
  cbn [fst snd ca_list namespace fold_left]. rewrite counting_attrs_cd_of, own_definition_order_l by assumption.
  apply map_result_ext. intros e. reflexivity.
Qed.

(** Annotated bodies: the specification carries the type; the body spells it as an
    annotation, [these=] as [type=]. *)
Definition typed_spec := list (string * cattr * string).

Definition with_type (c : cattr) (ty : string) : cattr :=
  CA (ca_counter c) (set_type (ca_attr c) (Some ty)).

Definition body_ann (l : typed_spec) : list stmt :=
  map (fun e => St (fst (fst e)) (Some (snd e)) (BVField (snd (fst e)))) l.
Definition these_of (l : typed_spec) : list (string * cattr) :=
  map (fun e => (fst (fst e), with_type (snd (fst e)) (snd e))) l.
Definition tnames (l : typed_spec) : list string := map (fun e => fst (fst e)) l.

Lemma namespace_body_ann_gen l : forall cd0 an0,
  NoDup (map fst cd0 ++ tnames l) -> map fst an0 = map fst cd0 ->
  fold_left exec_stmt (body_ann l) (cd0, an0) =
  (cd0 ++ map (fun e => (fst (fst e), BVField (snd (fst e)))) l,
   an0 ++ map (fun e => (fst (fst e), snd e)) l).
Proof.
  induction l as [|[[n c] ty] l IH]; cbn; intros cd0 an0 H Hk; [now rewrite !app_nil_r|].
  apply NoDup_remove in H as [H1 H2].
  assert (Hf : ~ In n (map fst cd0)) by (intros Hi; apply H2; apply in_app_iff; now left).
  rewrite dict_set_fresh by assumption. rewrite dict_set_fresh by (now rewrite Hk).
  rewrite IH.
  - now rewrite <- !app_assoc.
  - rewrite map_app. cbn. rewrite <- app_assoc. cbn.
    apply NoDup_app_inv in H1 as (Ha & Hb & Hd).
    apply NoDup_app_intro; auto.
    + constructor; [|assumption]. intros Hi. apply H2. apply in_app_iff. now right.
    + intros x Hx [->|Hi]; [contradiction | eapply Hd; eauto].
  - rewrite !map_app. cbn. now rewrite Hk.
Qed.

Lemma filter_all_members s : forall m, (forall x, In x m -> In x s) ->
  filter (fun n => negb (mem_str n s)) m = [].
Proof.
  induction m as [|x m IH]; cbn; intros H; [reflexivity|].
  assert (E : mem_str x s = true) by (apply mem_str_In, H; now left).
  rewrite E. cbn. apply IH. intros y Hy. apply H. now right.
Qed.

Lemma dict_get_typed_cd (l : typed_spec) n c ty :
  NoDup (tnames l) -> In (n, c, ty) l ->
  dict_get (map (fun e : string * cattr * string => (fst (fst e), BVField (snd (fst e)))) l) n
    = Some (BVField c) /\
  dict_get (map (fun e : string * cattr * string => (fst (fst e), snd e)) l) n = Some ty.
Proof.
  induction l as [|[[n' c'] ty'] l IH]; cbn; intros Hn Hin; [contradiction|].
  inversion Hn as [|? ? H1 H2]; subst.
  destruct Hin as [E|Hin].
  - inversion E; subst. now rewrite String.eqb_refl.
  - destruct (String.eqb n n') eqn:E.
    + apply String.eqb_eq in E. subst. exfalso. apply H1.
      unfold tnames. apply in_map_iff. exists (n', c, ty). auto.
    + now apply IH.
Qed.

Lemma frontends_these_vs_annotations_l pre auto (l : typed_spec) :
  NoDup (tnames l) ->
  Forall (fun e => is_class_var pre (snd e) = false /\ a_type (ca_attr (snd (fst e))) = None) l ->
  own_attrs pre None true (body_ann l) = own_attrs pre (Some (these_of l)) auto [].
Proof.
  intros Hn Hl. unfold own_attrs, namespace. rewrite namespace_body_ann_gen by (cbn; auto).
  cbn [app fold_left ca_list fst snd].
  set (cd := map (fun e : string * cattr * string => (fst (fst e), BVField (snd (fst e)))) l).
  set (an := map (fun e : string * cattr * string => (fst (fst e), snd e)) l).
  assert (Han : annot_names pre an = tnames l).
  { unfold annot_names, an, tnames. clear -Hl.
    induction Hl as [|[[n c] ty] l [H1 _] _ IH]; cbn; [reflexivity|].
    cbn in H1. rewrite H1. cbn. now rewrite IH. }
  assert (Hca : map fst (counting_attrs cd) = tnames l).
  { unfold cd, tnames. clear. induction l as [|[[n c] ty] l IH]; cbn; [reflexivity | now rewrite IH]. }
  unfold ca_list_auto, unannotated. rewrite Han, Hca.
  rewrite filter_all_members by auto.
  (* now both sides are a map_result over l *)
  assert (Hgen : forall l', (forall e, In e l' -> In e l) ->
     map_result (fun e => from_counting_attr (fst e) (snd e) (dict_get an (fst e)))
       (map (auto_entry cd) (tnames l')) =
     map_result (fun e => from_counting_attr (fst e) (snd e) (dict_get [] (fst e))) (these_of l')).
  { induction l' as [|[[n c] ty] l' IH]; intros Hsub; [reflexivity|].
    cbn [tnames map these_of map_result fst snd].
    destruct (dict_get_typed_cd l n c ty Hn (Hsub _ (or_introl eq_refl))) as [E1 E2].
    fold cd in E1. fold an in E2.
    assert (Hae : auto_entry cd n = (n, c)) by (unfold auto_entry; now rewrite E1).
    rewrite Hae. cbn [fst snd]. rewrite E2.
    assert (Hty : a_type (ca_attr c) = None).
    { eapply Forall_forall in Hl; [|apply (Hsub _ (or_introl eq_refl))]. apply Hl. }
    unfold from_counting_attr at 1 3. rewrite Hty. cbn [dict_get with_type ca_attr].
    fold (tnames l'). fold (these_of l').
    rewrite IH by (intros e He; apply Hsub; now right).
    reflexivity. }
  apply Hgen. auto.
Qed.

(** ** [_is_class_var]: the documented spellings, bare and quoted *)

Lemma prefix_app p s : String.prefix p (p ++ s)%string = true.
Proof.
  induction p as [|c p IH]; cbn; [now destruct s|].
  destruct (ascii_dec c c) as [_|Hne]; [exact IH | now contradiction Hne].
Qed.

Lemma last_char_snoc x c : last_char (x ++ String c "")%string = Some c.
Proof.
  induction x as [|a x IH]; cbn; [reflexivity|].
  destruct x as [|b x]; cbn in *; [reflexivity | exact IH].
Qed.

Lemma drop_last_snoc x c : drop_last (x ++ String c "")%string = x.
Proof.
  induction x as [|a x IH]; cbn; [reflexivity|].
  destruct x as [|b x]; cbn in *; [reflexivity | now rewrite IH].
Qed.

Lemma classvar_documented_l p s :
  In p documented_prefixes -> is_class_var documented_prefixes (p ++ s)%string = true.
Proof.
  intros Hp. unfold is_class_var. apply existsb_exists. exists p. split; [assumption|].
  assert (E : unquote (p ++ s)%string = (p ++ s)%string).
  { cbn in Hp. repeat (destruct Hp as [<-|Hp]; [reflexivity|]). contradiction. }
  rewrite E. apply prefix_app.
Qed.

Lemma classvar_documented_quoted_l p s q1 q2 :
  In p documented_prefixes -> is_quote q1 = true -> is_quote q2 = true ->
  is_class_var documented_prefixes (String q1 ((p ++ s) ++ String q2 ""))%string = true.
Proof.
  intros Hp H1 H2. unfold is_class_var. apply existsb_exists. exists p. split; [assumption|].
  assert (E : unquote (String q1 ((p ++ s) ++ String q2 ""))%string = (p ++ s)%string).
  { unfold unquote. cbn [first_char opt_is_quote]. rewrite H1.
    change (String q1 ((p ++ s) ++ String q2 ""))%string
      with ((String q1 (p ++ s)) ++ String q2 "")%string at 1.
    rewrite last_char_snoc. cbn [opt_is_quote andb str_tail]. rewrite H2.
    apply drop_last_snoc. }
  rewrite E. apply prefix_app.
Qed.

(** ** Own names are a dict's keys: duplicate-free without any hypothesis on bodies *)

Lemma dict_set_keys {V} (d : list (string * V)) k v :
  map fst (dict_set d k v) = if mem_str k (map fst d) then map fst d else map fst d ++ [k].
Proof.
  induction d as [|[k' v'] d IH]; cbn; [reflexivity|].
  destruct (String.eqb k k') eqn:E; cbn.
  - apply String.eqb_eq in E. now subst.
  - rewrite IH. now destruct (mem_str k (map fst d)).
Qed.

Lemma dict_set_nodup {V} (d : list (string * V)) k v :
  NoDup (map fst d) -> NoDup (map fst (dict_set d k v)).
Proof.
  intros H. rewrite dict_set_keys. destruct (mem_str k (map fst d)) eqn:E; [assumption|].
  apply mem_str_false in E. apply NoDup_app_intro; auto.
  - constructor; [intros [] | constructor].
  - intros x Hx [->|[]]. contradiction.
Qed.

Lemma namespace_nodup_gen body : forall cd anns,
  NoDup (map fst cd) -> NoDup (map fst anns) ->
  NoDup (map fst (fst (fold_left exec_stmt body (cd, anns)))) /\
  NoDup (map fst (snd (fold_left exec_stmt body (cd, anns)))).
Proof.
  induction body as [|s body IH]; cbn; intros cd anns H1 H2; [auto|].
  apply IH.
  - destruct (s_val s); auto using dict_set_nodup.
  - destruct (s_ann s); auto using dict_set_nodup.
Qed.

Lemma namespace_nodup body :
  NoDup (map fst (fst (namespace body))) /\ NoDup (map fst (snd (namespace body))).
Proof. apply namespace_nodup_gen; constructor. Qed.

Lemma counting_attrs_keys cd n : In n (map fst (counting_attrs cd)) -> In n (map fst cd).
Proof.
  induction cd as [|[k v] cd IH]; cbn; [auto|].
  destruct v; cbn; intros H; [destruct H; auto | auto | auto].
Qed.

Lemma counting_attrs_nodup cd : NoDup (map fst cd) -> NoDup (map fst (counting_attrs cd)).
Proof.
  induction cd as [|[k v] cd IH]; cbn; intros H; [constructor|].
  inversion H as [|? ? H1 H2]; subst.
  destruct v; cbn; auto. constructor; auto. intros Hi. apply H1. now apply counting_attrs_keys.
Qed.

Lemma nodup_map_filter {A B} (f : A -> B) p l : NoDup (map f l) -> NoDup (map f (filter p l)).
Proof.
  induction l as [|x l IH]; cbn; intros H; [constructor|].
  inversion H as [|? ? H1 H2]; subst. destruct (p x); cbn; auto.
  constructor; auto. intros Hi. apply H1. apply in_map_iff in Hi as (y & Hy & Hin).
  apply filter_In in Hin as [Hin _]. apply in_map_iff. eauto.
Qed.

Lemma ca_list_nodup pre these auto body l :
  (forall th, these = Some th -> NoDup (map fst th)) ->
  ca_list pre these auto (fst (namespace body)) (snd (namespace body)) = Ok l ->
  NoDup (map fst l).
Proof.
  intros Ht. destruct (namespace_nodup body) as [H1 H2].
  unfold ca_list. destruct these as [th|].
  - intros E; inversion E; subst. now apply Ht.
  - destruct auto.
    + unfold ca_list_auto. destruct (unannotated _ _ _); [|discriminate].
      intros E; inversion E; subst. rewrite map_map.
      rewrite (map_ext _ (fun n => n)), map_id.
      2:{ intros n; unfold auto_entry;
          destruct (dict_get (fst (namespace body)) n) as [[c|d|]|]; reflexivity. }
      unfold annot_names. now apply nodup_map_filter.
    + intros E; inversion E; subst.
      eapply Permutation_NoDup; [apply Permutation_map, sort_perm|].
      now apply counting_attrs_nodup.
Qed.

Lemma own_names_nodup_l pre these auto body own :
  (forall th, these = Some th -> NoDup (map fst th)) ->
  own_attrs pre these auto body = Ok own -> NoDup (names own).
Proof.
  intros Ht H. destruct (own_attrs_spec _ _ _ _ _ H) as (_ & l & Hl & Hn).
  rewrite Hn. eapply ca_list_nodup; eauto.
Qed.

(** Every field exactly once, for every class statement without a transformer. *)
Lemma decorate_fields_nodup_l pre t k d res :
  d_ft d = None ->
  (forall th, d_these d = Some th -> NoDup (map fst th)) ->
  decorate pre t k d = Ok res -> NoDup (names res).
Proof.
  intros Hft Ht.
  assert (Hcall : forall auto, attrs_call pre t k d auto = Ok res -> NoDup (names res)).
  { intros auto. unfold attrs_call.
    destruct (own_attrs pre (d_these d) auto (k_body k)) as [own|] eqn:Eo; [|discriminate].
    rewrite Hft.
    destruct (transform_attrs t (k_mro k) (d_by_mro d) (d_kw_only d) None own) as [l|] eqn:Et;
      [|discriminate].
    destruct (nodupb _); [|discriminate]. intros E; inversion E; subst.
    eapply fields_nodup_l; [|exact Et]. eapply own_names_nodup_l; eauto. }
  unfold decorate. destruct (d_auto d); eauto.
  destruct (attrs_call pre t k d true) as [l|e] eqn:E.
  - intros E2; inversion E2; subst. eauto.
  - destruct e; try discriminate. eauto.
Qed.

(** ** Non-vacuity examples *)

Example sort_example :
  sort_by_counter [("b", CA 41 (fld "b")); ("a", CA 7 (fld "a")); ("c", CA 1000 (fld "c"))]
  = [("a", CA 7 (fld "a")); ("b", CA 41 (fld "b")); ("c", CA 1000 (fld "c"))].
Proof. reflexivity. Qed.

Example source_order_example :
  let l := [("b", CA 7 (fld "b")); ("a", CA 41 (fld "a")); ("c", CA 1000 (fld "c"))] in
  NoDup (map fst l) /\
  StronglySorted (fun x y => (ca_counter (snd x) < ca_counter (snd y))%Z) l /\
  option_map names
    (match own_attrs [] None false (body_ib l) with Ok o => Some o | Err _ => None end)
  = Some ["b"; "a"; "c"].
Proof.
  cbv zeta. split; [|split; [|reflexivity]].
  - repeat constructor; cbn; intuition discriminate.
  - repeat constructor; cbn; lia.
Qed.

(** define: annotated-only, field()-only, mixed (annotated plain attribute + unannotated
    field()), ClassVar-annotated. *)
Definition dfn (body : list stmt) : classdef :=
  Cl 0 [] body (Some (De true false None AutoInfer None)).
Definition dfn_names (body : list stmt) : option (list string) :=
  match decorate documented_prefixes [] (dfn body) (De true false None AutoInfer None) with
  | Ok l => Some (names l) | Err _ => None end.

Example define_annotated_only :
  dfn_names [St "a" (Some "int") BVNone; St "b" (Some "int") (BVPlain DValue)] = Some ["a"; "b"].
Proof. reflexivity. Qed.
Example define_fields_only :
  dfn_names [St "a" None (BVField (CA 2 (fld "a"))); St "b" None (BVField (CA 1 (fld "b")))]
  = Some ["b"; "a"].
Proof. reflexivity. Qed.
Example define_mixed :
  dfn_names [St "a" (Some "int") (BVPlain DValue); St "b" None (BVField (CA 1 (fld "b")))]
  = Some ["b"].
Proof. reflexivity. Qed.
Example define_classvar :
  dfn_names [St "a" (Some "typing.ClassVar[int]") (BVPlain DValue);
             St "q" (Some "'ClassVar[int]'") (BVPlain DValue);
             St "b" (Some "int") (BVField (CA 1 (fld "b")))]
  = Some ["b"].
Proof. reflexivity. Qed.

Example alias_examples :
  map (fun n => a_alias (resolve_alias (set_name (fld "v") n))) ["a"; "_d"; "__e"; "_K2__e"]
  = [Some "a"; Some "d"; Some "e"; Some "K2__e"].
Proof. reflexivity. Qed.

Example order_check_example :
  let own := [set_name (ib None DValue true None false None) "a";
              set_name (ib None DNothing true None false None) "b"] in
  transform_attrs [] [] true false None own = Err EValue /\
  (exists r, transform_attrs [] [] true true None own = Ok r) /\
  (exists r, transform_attrs [] [] true false (Some (@rev attribute)) own = Ok r).
Proof. cbv zeta. repeat split; eexists; reflexivity. Qed.

(** The side condition of [legacy_linear_agrees] (decorated classes of the chain hold
    [inherited ++ own] unchanged, i.e. no class-level kw_only and no transformer) is
    necessary: [A: x]; [B(A), kw_only=True: y]; [C(B)] — the legacy collection copies
    B's keyword-only copy of x, the MRO-correct one goes back to A's definition. *)
Definition kw_chain : table :=
  snd (run_classes [] []
    [ Cl 0 [] [St "x" None (BVField (CA 1 (fld "A.x")))] (Some (De false false None AutoFalse None));
      Cl 1 [0] [St "y" None (BVField (CA 2 (fld "B.y")))] (Some (De false true None AutoFalse None)) ]).

Example legacy_chain_needs_side_condition :
  map a_kw_only (collect_base_attrs_broken kw_chain [1; 0] []) = [true; true] /\
  map a_kw_only (collect_base_attrs kw_chain [1; 0] []) = [false; true].
Proof. split; reflexivity. Qed.
