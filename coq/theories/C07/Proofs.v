(** * C07 — proofs (work in progress). *)
From Coq Require Import List Bool String Ascii ZArith Lia.
Import ListNotations.
From Attrs Require Import Base Core.Attr C07.Model.

Lemma names_resolve_alias l : names (map resolve_alias l) = names l.
Proof.
  unfold names. rewrite map_map. apply map_ext. intros a. unfold resolve_alias.
  destruct (a_alias a) as [al|]; [destruct (String.eqb al "")|]; reflexivity.
Qed.
