(** * C07 - tie by translation, unit [order]: the definition regenerated from the CURRENT source text
    ([Gen/C07_u_order.v]) coincides on every input with the model.  Proofs go by case analysis on the
    atomic tests of the loop-step functions and induction over the lists, never by comparing text;
    where two source shapes are equivalent (insert(0, a) vs append + reverse, generator filter vs
    `continue`) the proof tries both. *)
From Coq Require Import List Bool String.
Import ListNotations.
From Attrs Require Import Core.Attr C07.Model C07.Proofs C07.TieLib Gen.C07_u_order.
Open Scope string_scope.
Open Scope list_scope.

(** [None] (the ValueError) exactly when the model's [order_ok] fails.  The loop either walks a
    generator that filters the positional attributes or walks all of them and [continue]s. *)
Lemma tie_order_check : forall t l, is_some (t_order_check t l) = order_ok l.
Proof.
  intros t l. unfold t_order_check, order_ok. cbv zeta.
  match goal with |- is_some (match ?F with None => None | Some h => Some h end) = _ =>
    replace (is_some (match F with None => None | Some h => Some h end)) with (is_some F)
      by (destruct F; reflexivity) end.
  first
    [ apply (fold_order (t_order_check_L1_step t));
      [ intros hd a; unfold t_order_check_L1_step; destruct hd, (has_default a); reflexivity
      | intros a; unfold positional; destruct (a_init a), (a_kw_only a); reflexivity ]
    | apply (fold_order_unfiltered (t_order_check_L1_step t));
      intros hd a; unfold t_order_check_L1_step, positional;
      destruct hd, (has_default a), (a_init a), (a_kw_only a); reflexivity ].
Qed.
