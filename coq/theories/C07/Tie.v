(** * C07 — tie by translation: the field-collection code regenerated from the CURRENT source text
    ([Gen/C07_Collect.v], written by harness/translate_c07.py on every run) coincides on EVERY input
    with the functions of [C07/Model.v] that the property theorems are stated about.  A source change
    that alters one of these functions makes a lemma below fail to compile: a proof-obligation failure
    of ./check C07, which then searches for a concrete failing input with its correspondence.

    The proofs go through the per-loop step functions by case analysis on their atomic tests and by
    induction over the iterated lists: renamed locals, commuted [or]/[and] operands and reordered
    independent statements inside a loop body leave them intact. *)
From Coq Require Import List Bool String.
Import ListNotations.
From Attrs Require Import Core.Attr C07.Model C07.Proofs Gen.C07_Collect.
Open Scope string_scope.
Open Scope list_scope.

Lemma tie_fully_translated : c07_fully_translated = true.
Proof. reflexivity. Qed.

(** ** generic facts about folds over a state whose first component is an output list *)

Lemma fold_fst_app {B X} (f : list attribute * B -> X -> list attribute * B) (g : X -> list attribute) :
  (forall b m x, fst (f (b, m) x) = b ++ g x) ->
  forall l b m, fst (fold_left f l (b, m)) = b ++ flat_map g l.
Proof.
  intros H. induction l as [|x l IH]; cbn; intros b m; [now rewrite app_nil_r|].
  destruct (f (b, m) x) as [b' m'] eqn:E. rewrite IH.
  specialize (H b m x). rewrite E in H. cbn in H. subst. now rewrite app_assoc.
Qed.

Lemma from_base_flat tk l : flat_map (fun a => from_base tk [a]) l = from_base tk l.
Proof.
  induction l as [|a l IH]; [reflexivity|]. cbn [flat_map]. rewrite IH.
  unfold from_base. cbn. destruct (negb _); reflexivity.
Qed.

Lemma fold_dedup (f : list attribute * list string -> attribute -> list attribute * list string) :
  (forall fl s a, f (fl, s) a = if mem_str (a_name a) s then (fl, s) else (a :: fl, a_name a :: s)) ->
  forall l fl s, fst (fold_left f l (fl, s)) = rev (dedup_first l s) ++ fl.
Proof.
  intros H. induction l as [|a l IH]; cbn; intros fl s; [reflexivity|].
  rewrite H. destruct (mem_str (a_name a) s); rewrite IH; [reflexivity|].
  cbn. now rewrite <- app_assoc.
Qed.

(** ** [_collect_base_attrs] *)

Lemma collect_inner_step t tk c b m a :
  fst (t_collect_base_attrs_L1_1_step t tk c (b, m) a) = b ++ from_base tk [a].
Proof.
  unfold t_collect_base_attrs_L1_1_step, from_base. cbn.
  destruct (a_inherited a), (mem_str (a_name a) tk); cbn; rewrite ?app_nil_r; reflexivity.
Qed.

Lemma collect_outer_step t tk b m c :
  fst (t_collect_base_attrs_L1_step t tk (b, m) c) = b ++ from_base tk (own_dict_attrs t c).
Proof.
  unfold t_collect_base_attrs_L1_step.
  pose proof (fold_fst_app (t_collect_base_attrs_L1_1_step t tk c) (fun a => from_base tk [a])
                (fun b m a => collect_inner_step t tk c b m a) (own_dict_attrs t c) b m) as H.
  destruct (fold_left _ _ _) as [b' m']. cbn [fst] in *. now rewrite H, from_base_flat.
Qed.

Lemma collect_dedup_step t fl s a :
  t_collect_base_attrs_L2_step t (fl, s) a =
  if mem_str (a_name a) s then (fl, s) else (a :: fl, a_name a :: s).
Proof. unfold t_collect_base_attrs_L2_step. cbn. destruct (mem_str (a_name a) s); reflexivity. Qed.

(** The regenerated [_collect_base_attrs] returns exactly the model's list. *)
Lemma tie_collect_base_attrs : forall t mro taken,
  fst (t_collect_base_attrs t mro taken) = collect_base_attrs t mro taken.
Proof.
  intros t mro taken. unfold t_collect_base_attrs, collect_base_attrs, keep_last.
  pose proof (fold_fst_app (t_collect_base_attrs_L1_step t taken)
                (fun c => from_base taken (own_dict_attrs t c))
                (fun b m c => collect_outer_step t taken b m c) (rev mro) [] []) as H1.
  cbv zeta. destruct (fold_left (t_collect_base_attrs_L1_step t taken) _ _) as [ba bm]. cbn in H1. subst ba.
  pose proof (fold_dedup (t_collect_base_attrs_L2_step t) (collect_dedup_step t)
                (rev (flat_map (fun c => from_base taken (own_dict_attrs t c)) (rev mro))) [] []) as H2.
  destruct (fold_left (t_collect_base_attrs_L2_step t) _ _) as [fl s]. cbn in *.
  now rewrite H2, app_nil_r.
Qed.

(** ** [_collect_base_attrs_broken] *)

Lemma broken_inner_step t c tk b m a :
  exists m', t_collect_base_attrs_broken_L1_1_step t c (tk, b, m) a =
             (snd (broken_inner [a] tk), b ++ fst (broken_inner [a] tk), m').
Proof.
  unfold t_collect_base_attrs_broken_L1_1_step. cbn.
  destruct (mem_str (a_name a) tk); cbn; eexists; rewrite ?app_nil_r; reflexivity.
Qed.

Lemma fold_broken {M} (f : list string * list attribute * M -> attribute -> list string * list attribute * M) :
  (forall tk b m a, exists m', f (tk, b, m) a =
                               (snd (broken_inner [a] tk), b ++ fst (broken_inner [a] tk), m')) ->
  forall l tk b m, exists m', fold_left f l (tk, b, m) =
                              (snd (broken_inner l tk), b ++ fst (broken_inner l tk), m').
Proof.
  intros H. induction l as [|a l IH]; cbn; intros tk b m.
  - exists m. now rewrite app_nil_r.
  - destruct (H tk b m a) as [m1 E]. rewrite E. cbn.
    destruct (mem_str (a_name a) tk); cbn.
    + rewrite app_nil_r. apply IH.
    + destruct (IH (a_name a :: tk) (b ++ [set_inherited a true]) m1) as [m2 E2]. rewrite E2.
      destruct (broken_inner l (a_name a :: tk)) as [xs tk']. cbn. exists m2.
      now rewrite <- app_assoc.
Qed.

Lemma broken_outer_step t tk b m c :
  exists m', t_collect_base_attrs_broken_L1_step t (tk, b, m) c =
             (snd (broken_inner (getattr_list t c) tk),
              b ++ fst (broken_inner (getattr_list t c) tk), m').
Proof.
  unfold t_collect_base_attrs_broken_L1_step.
  destruct (fold_broken (t_collect_base_attrs_broken_L1_1_step t c)
              (fun tk b m a => broken_inner_step t c tk b m a) (getattr_list t c) tk b m) as [m' E].
  cbn in *. rewrite E. eexists. reflexivity.
Qed.

Lemma broken_outer_fold t : forall mro tk b m,
  exists tk' m', fold_left (t_collect_base_attrs_broken_L1_step t) mro (tk, b, m) =
                 (tk', b ++ collect_base_attrs_broken t mro tk, m').
Proof.
  induction mro as [|c r IH]; cbn [fold_left collect_base_attrs_broken]; intros tk b m.
  - exists tk, m. now rewrite app_nil_r.
  - destruct (broken_outer_step t tk b m c) as [m1 E]. rewrite E.
    destruct (broken_inner (getattr_list t c) tk) as [xs tk1]. cbn [fst snd].
    destruct (IH tk1 (b ++ xs) m1) as (tk2 & m2 & E2). rewrite E2.
    exists tk2, m2. now rewrite <- app_assoc.
Qed.

Lemma tie_collect_base_attrs_broken : forall t mro taken,
  fst (t_collect_base_attrs_broken t mro taken) = collect_base_attrs_broken t mro taken.
Proof.
  intros t mro taken. unfold t_collect_base_attrs_broken. cbv zeta.
  destruct (broken_outer_fold t mro taken [] []) as (tk' & m' & E). rewrite E. reflexivity.
Qed.

(** ** which own-field discovery path [_transform_attrs] takes ([these] given - also an EMPTY
    dict - beats [auto_attribs], which beats the counter sort) *)
Lemma tie_own_branch : forall pre these auto cd anns,
  ca_list pre these auto cd anns =
  match t_own_branch these auto with
  | BThese => Ok (match these with Some l => l | None => [] end)
  | BAuto => ca_list_auto pre cd anns
  | BCounter => Ok (sort_by_counter (counting_attrs cd))
  end /\
  (t_own_branch these auto = BThese -> these <> None).
Proof.
  intros pre these auto cd anns. unfold ca_list, t_own_branch.
  destruct these as [[|e l]|], auto; cbn; split; try reflexivity; try discriminate;
    intros H; try discriminate H.
Qed.

(** ** the mandatory-after-default check of [_transform_attrs] *)

Lemma order_step t hd a :
  t_order_check_L1_step t hd a =
  if hd && negb (has_default a) then None else Some (hd || has_default a).
Proof. unfold t_order_check_L1_step. destruct hd, (has_default a); reflexivity. Qed.

Definition is_some {A} (o : option A) : bool := match o with Some _ => true | None => false end.

Lemma fold_exc_none {S X} (f : S -> X -> option S) l :
  fold_left (fun s x => bind_exc s (fun y => f y x)) l None = None.
Proof. induction l as [|x l IH]; cbn; auto. Qed.

Lemma fold_order (step : bool -> attribute -> option bool) (P : attribute -> bool) :
  (forall hd a, step hd a = if hd && negb (has_default a) then None else Some (hd || has_default a)) ->
  (forall a, P a = positional a) ->
  forall l hd,
    is_some (fold_left (fun s x => bind_exc s (fun y => step y x)) (filter P l) (Some hd))
    = order_ok_from hd l.
Proof.
  intros Hs HP. induction l as [|a l IH]; cbn; intros hd; [reflexivity|].
  rewrite HP. destruct (positional a); [|apply IH]. cbn. rewrite Hs.
  destruct (hd && negb (has_default a)); [now rewrite fold_exc_none | apply IH].
Qed.

(** [None] (the ValueError) exactly when the model's [order_ok] fails. *)
Lemma tie_order_check : forall t l, is_some (t_order_check t l) = order_ok l.
Proof.
  intros t l. unfold t_order_check, order_ok. cbv zeta.
  match goal with |- is_some (match ?F with None => None | Some h => Some h end) = _ =>
    replace (is_some (match F with None => None | Some h => Some h end)) with (is_some F)
      by (destruct F; reflexivity) end.
  apply (fold_order (t_order_check_L1_step t)); [apply order_step|].
  intros a. unfold positional. destruct (a_init a), (a_kw_only a); reflexivity.
Qed.

(** ** [__match_args__] *)
Lemma tie_match_args : forall l, t_match_args l = match_args l.
Proof.
  intros l. unfold t_match_args, match_args, names.
  f_equal; try (apply filter_ext; intros a; unfold positional;
                destruct (a_init a), (a_kw_only a); reflexivity).
Qed.

(** ** the dict [fields_dict] returns *)

Lemma dict_get_set {V} (d : list (string * V)) k v n :
  dict_get (dict_set d k v) n = if String.eqb n k then Some v else dict_get d n.
Proof.
  induction d as [|[k' v'] d IH]; cbn.
  - reflexivity.
  - destruct (String.eqb k k') eqn:E; cbn.
    + apply String.eqb_eq in E. subst k'. now destruct (String.eqb n k).
    + rewrite IH. destruct (String.eqb n k') eqn:E2; [|reflexivity].
      apply String.eqb_eq in E2. subst k'. destruct (String.eqb n k) eqn:E3; [|reflexivity].
      apply String.eqb_eq in E3. subst. rewrite String.eqb_refl in E. discriminate.
Qed.

Lemma dedup_names_ext l : forall s1 s2,
  (forall n, mem_str n s1 = mem_str n s2) -> dedup_names l s1 = dedup_names l s2.
Proof.
  induction l as [|x l IH]; cbn; intros s1 s2 H; [reflexivity|].
  rewrite (H x). destruct (mem_str x s2); [now apply IH|].
  f_equal. apply IH. intros n. cbn. now rewrite H.
Qed.

Lemma fields_dict_fold_keys (l : list attribute) : forall d : list (string * attribute),
  map fst (fold_left (fun d_ a => dict_set d_ (a_name a) a) l d) =
  map fst d ++ dedup_names (names l) (map fst d).
Proof.
  induction l as [|a l IH]; cbn; intros d; [now rewrite app_nil_r|].
  rewrite IH, dict_set_keys. destruct (mem_str (a_name a) (map fst d)) eqn:E; [reflexivity|].
  rewrite <- app_assoc. cbn. f_equal. f_equal. apply dedup_names_ext. intros n.
  rewrite mem_str_app. cbn. rewrite orb_false_r. apply orb_comm.
Qed.

Lemma fields_dict_fold_get (l : list attribute) : forall (d : list (string * attribute)) n,
  dict_get (fold_left (fun d_ a => dict_set d_ (a_name a) a) l d) n =
  match fields_dict_get l n with Some a => Some a | None => dict_get d n end.
Proof.
  induction l as [|a l IH]; cbn; intros d n; [reflexivity|].
  rewrite IH. unfold fields_dict_get. cbn. rewrite find_app. cbn.
  destruct (find (fun a0 => String.eqb (a_name a0) n) (rev l)); [reflexivity|].
  rewrite dict_get_set, String.eqb_sym. now destruct (String.eqb (a_name a) n).
Qed.

Lemma tie_fields_dict : forall l,
  map fst (t_fields_dict l) = fields_dict_keys l /\
  (forall n, dict_get (t_fields_dict l) n = fields_dict_get l n).
Proof.
  intros l. unfold t_fields_dict, fields_dict_keys. split.
  - apply (fields_dict_fold_keys l []).
  - intros n. rewrite (fields_dict_fold_get l [] n). now destruct (fields_dict_get l n).
Qed.
