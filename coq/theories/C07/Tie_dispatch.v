(** * C07 - tie by translation, unit [dispatch]: the definition regenerated from the CURRENT source text
    ([Gen/C07_u_dispatch.v]) coincides on every input with the model.  Proofs go by case analysis on the
    atomic tests of the loop-step functions and induction over the lists, never by comparing text. *)
From Coq Require Import List Bool String.
Import ListNotations.
From Attrs Require Import Core.Attr C07.Model C07.Proofs C07.TieLib Gen.C07_u_collect Gen.C07_u_broken Gen.C07_u_dispatch C07.Tie_collect C07.Tie_broken.
Open Scope string_scope.
Open Scope list_scope.

(** [_transform_attrs] hands the own names to the collector its [collect_by_mro] flag selects. *)
Lemma tie_dispatch : forall t mro by_mro own,
  t_base_attrs_of t mro by_mro own = base_attrs_of t mro by_mro (names own).
Proof.
  intros t mro by_mro own. unfold t_base_attrs_of, base_attrs_of, names.
  destruct by_mro; cbn; now rewrite ?tie_collect_base_attrs, ?tie_collect_base_attrs_broken.
Qed.
