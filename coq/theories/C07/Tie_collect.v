(** * C07 - tie by translation, unit [collect]: the definition regenerated from the CURRENT source text
    ([Gen/C07_u_collect.v]) coincides on every input with the model.  Proofs go by case analysis on the
    atomic tests of the loop-step functions and induction over the lists, never by comparing text;
    where two source shapes are equivalent (insert(0, a) vs append + reverse, generator filter vs
    `continue`) the proof tries both. *)
From Coq Require Import List Bool String.
Import ListNotations.
From Attrs Require Import Core.Attr C07.Model C07.Proofs C07.TieLib Gen.C07_u_collect.
Open Scope string_scope.
Open Scope list_scope.

Lemma collect_inner_step t tk c b m a :
  fst (t_collect_base_attrs_L1_1_step t tk c (b, m) a) = b ++ from_base tk [a].
Proof.
  unfold t_collect_base_attrs_L1_1_step, from_base. cbn.
  destruct (a_inherited a), (mem_str (a_name a) tk); cbn; rewrite ?app_nil_r; reflexivity.
Qed.

Lemma collect_outer_step t tk b m c :
  fst (t_collect_base_attrs_L1_step t tk (b, m) c) = b ++ from_base tk (own_dict_attrs t c).
Proof.
  unfold t_collect_base_attrs_L1_step.
  pose proof (fold_fst_app (t_collect_base_attrs_L1_1_step t tk c) (fun a => from_base tk [a])
                (fun b m a => collect_inner_step t tk c b m a) (own_dict_attrs t c) b m) as H.
  destruct (fold_left _ _ _) as [b' m']. cbn [fst] in *. now rewrite H, from_base_flat.
Qed.

(** The regenerated [_collect_base_attrs] returns exactly the model's list. *)
Lemma tie_collect_base_attrs : forall t mro taken,
  fst (t_collect_base_attrs t mro taken) = collect_base_attrs t mro taken.
Proof.
  intros t mro taken. unfold t_collect_base_attrs, collect_base_attrs, keep_last.
  pose proof (fold_fst_app (t_collect_base_attrs_L1_step t taken)
                (fun c => from_base taken (own_dict_attrs t c))
                (fun b m c => collect_outer_step t taken b m c) (rev mro) [] []) as H1.
  cbv zeta. destruct (fold_left (t_collect_base_attrs_L1_step t taken) _ _) as [ba bm]. cbn in H1. subst ba.
  (* the keep-the-freshest loop: either it prepends ([insert(0, a)]) or it appends and the list is
     reversed afterwards *)
  first
    [ assert (Hs : forall fl s a, t_collect_base_attrs_L2_step t (fl, s) a =
                     if mem_str (a_name a) s then (fl, s) else (a :: fl, a_name a :: s))
        by (intros fl s a; unfold t_collect_base_attrs_L2_step; cbn;
            destruct (mem_str (a_name a) s); reflexivity);
      pose proof (fold_dedup (t_collect_base_attrs_L2_step t) Hs
                    (rev (flat_map (fun c => from_base taken (own_dict_attrs t c)) (rev mro))) [] []) as H2;
      destruct (fold_left (t_collect_base_attrs_L2_step t) _ _) as [fl s]; cbn in *;
      now rewrite H2, app_nil_r
    | assert (Hs : forall fl s a, t_collect_base_attrs_L2_step t (fl, s) a =
                     if mem_str (a_name a) s then (fl, s) else (fl ++ [a], a_name a :: s))
        by (intros fl s a; unfold t_collect_base_attrs_L2_step; cbn;
            destruct (mem_str (a_name a) s); reflexivity);
      pose proof (fold_dedup_app (t_collect_base_attrs_L2_step t) Hs
                    (rev (flat_map (fun c => from_base taken (own_dict_attrs t c)) (rev mro))) [] []) as H2;
      destruct (fold_left (t_collect_base_attrs_L2_step t) _ _) as [fl s]; cbn in *;
      now rewrite H2 ].
Qed.
