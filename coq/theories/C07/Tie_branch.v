(** * C07 - tie by translation, unit [branch]: the definition regenerated from the CURRENT source text
    ([Gen/C07_u_branch.v]) coincides on every input with the model.  Proofs go by case analysis on the
    atomic tests of the loop-step functions and induction over the lists, never by comparing text. *)
From Coq Require Import List Bool String.
Import ListNotations.
From Attrs Require Import Core.Attr C07.Model C07.Proofs C07.TieLib Gen.C07_u_branch.
Open Scope string_scope.
Open Scope list_scope.

(** ** which own-field discovery path [_transform_attrs] takes ([these] given - also an EMPTY
    dict - beats [auto_attribs], which beats the counter sort) *)
Lemma tie_own_branch : forall pre these auto cd anns,
  ca_list pre these auto cd anns =
  match t_own_branch these auto with
  | BThese => Ok (match these with Some l => l | None => [] end)
  | BAuto => ca_list_auto pre cd anns
  | BCounter => Ok (sort_by_counter (counting_attrs cd))
  end /\
  (t_own_branch these auto = BThese -> these <> None).
Proof.
  intros pre these auto cd anns. unfold ca_list, t_own_branch.
  destruct these as [[|e l]|], auto; cbn; split; try reflexivity; try discriminate;
    intros H; try discriminate H.
Qed.

