(** * C07 - tie by translation, unit [fields_dict]: the definition regenerated from the CURRENT source text
    ([Gen/C07_u_fields_dict.v]) coincides on every input with the model.  Proofs go by case analysis on the
    atomic tests of the loop-step functions and induction over the lists, never by comparing text. *)
From Coq Require Import List Bool String.
Import ListNotations.
From Attrs Require Import Core.Attr C07.Model C07.Proofs C07.TieLib Gen.C07_u_fields_dict.
Open Scope string_scope.
Open Scope list_scope.

(** ** the dict [fields_dict] returns *)
Lemma tie_fields_dict : forall l,
  map fst (t_fields_dict l) = fields_dict_keys l /\
  (forall n, dict_get (t_fields_dict l) n = fields_dict_get l n).
Proof.
  intros l. unfold t_fields_dict, fields_dict_keys. split.
  - apply (fields_dict_fold_keys l []).
  - intros n. rewrite (fields_dict_fold_get l [] n). now destruct (fields_dict_get l n).
Qed.
