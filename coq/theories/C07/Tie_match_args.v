(** * C07 - tie by translation, unit [match_args]: the definition regenerated from the CURRENT source text
    ([Gen/C07_u_match_args.v]) coincides on every input with the model.  Proofs go by case analysis on the
    atomic tests of the loop-step functions and induction over the lists, never by comparing text. *)
From Coq Require Import List Bool String.
Import ListNotations.
From Attrs Require Import Core.Attr C07.Model C07.Proofs C07.TieLib Gen.C07_u_match_args.
Open Scope string_scope.
Open Scope list_scope.

(** ** [__match_args__] *)
Lemma tie_match_args : forall l, t_match_args l = match_args l.
Proof.
  intros l. unfold t_match_args, match_args, names.
  f_equal; try (apply filter_ext; intros a; unfold positional;
                destruct (a_init a), (a_kw_only a); reflexivity).
Qed.

