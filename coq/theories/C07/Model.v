(** * C07 — field collection and introspection: executable model.

    Mirrors, function by function, [attr/_make.py]:
    [_is_class_var], [Attribute.from_counting_attr], the three own-field
    discovery paths of [_transform_attrs] ([these], [auto_attribs], counter sort),
    [_collect_base_attrs], [_collect_base_attrs_broken] (legacy, [getattr]
    resolved through the MRO), the class-level [kw_only] evolve, the
    field_transformer call, the mandatory-after-default check, alias resolution,
    [_make_attr_tuple_class] (name access), [fields], [fields_dict],
    [_funcs.has], [_ClassBuilder.add_match_args], the [args]/[kw_only_args]
    assembly of [_attrs_to_init_script], and [_next_gen.define]'s
    [auto_attribs=None] inference.

    Definitions only; proofs are in [C07/Proofs.v]. *)

From Coq Require Import List Bool String Ascii ZArith.
Import ListNotations.
From Attrs Require Import Base Core.Attr.
Open Scope string_scope.
Open Scope list_scope.

(** ** Results: class creation succeeds or raises one of these exception classes. *)
Inductive err :=
| EUnannotated      (* attr.exceptions.UnannotatedAttributeError *)
| EValue            (* ValueError *)
| ESyntax           (* SyntaxError: duplicate argument in the generated __init__ *)
| EOther.           (* anything else (never produced by the model) *)

Inductive result (A : Type) := Ok (x : A) | Err (e : err).
Arguments Ok {A} x.
Arguments Err {A} e.

Definition err_eqb (a b : err) : bool :=
  match a, b with
  | EUnannotated, EUnannotated | EValue, EValue | ESyntax, ESyntax | EOther, EOther => true
  | _, _ => false
  end.

(** ** Local record updates (Core.Attr has [set_inherited], [set_kw_only], [set_alias]). *)
Definition set_name (a : attribute) (n : string) : attribute :=
  {| a_name := n; a_default := a_default a; a_validator := a_validator a;
     a_repr := a_repr a; a_eq := a_eq a; a_eq_key := a_eq_key a; a_order := a_order a;
     a_order_key := a_order_key a; a_hash := a_hash a; a_init := a_init a; a_type := a_type a;
     a_converter := a_converter a; a_kw_only := a_kw_only a; a_inherited := a_inherited a;
     a_on_setattr := a_on_setattr a; a_alias := a_alias a |}.

Definition set_type (a : attribute) (t : option string) : attribute :=
  {| a_name := a_name a; a_default := a_default a; a_validator := a_validator a;
     a_repr := a_repr a; a_eq := a_eq a; a_eq_key := a_eq_key a; a_order := a_order a;
     a_order_key := a_order_key a; a_hash := a_hash a; a_init := a_init a; a_type := t;
     a_converter := a_converter a; a_kw_only := a_kw_only a; a_inherited := a_inherited a;
     a_on_setattr := a_on_setattr a; a_alias := a_alias a |}.

Definition set_init (a : attribute) (b : bool) : attribute :=
  {| a_name := a_name a; a_default := a_default a; a_validator := a_validator a;
     a_repr := a_repr a; a_eq := a_eq a; a_eq_key := a_eq_key a; a_order := a_order a;
     a_order_key := a_order_key a; a_hash := a_hash a; a_init := b; a_type := a_type a;
     a_converter := a_converter a; a_kw_only := a_kw_only a; a_inherited := a_inherited a;
     a_on_setattr := a_on_setattr a; a_alias := a_alias a |}.

(** ** [_is_class_var]: on [str(annot)]. *)
Definition is_quote (c : ascii) : bool := Ascii.eqb c "'"%char || Ascii.eqb c """"%char.

Definition first_char (s : string) : option ascii :=
  match s with String c _ => Some c | EmptyString => None end.

Fixpoint last_char (s : string) : option ascii :=
  match s with
  | EmptyString => None
  | String c EmptyString => Some c
  | String _ r => last_char r
  end.

Fixpoint drop_last (s : string) : string :=
  match s with
  | EmptyString => EmptyString
  | String c EmptyString => EmptyString
  | String c r => String c (drop_last r)
  end.

Definition str_tail (s : string) : string :=
  match s with String _ r => r | EmptyString => EmptyString end.

Definition opt_is_quote (o : option ascii) : bool :=
  match o with Some c => is_quote c | None => false end.

(** [if annot.startswith(("'", '"')) and annot.endswith(("'", '"')): annot = annot[1:-1]] *)
Definition unquote (s : string) : string :=
  if opt_is_quote (first_char s) && opt_is_quote (last_char s)
  then drop_last (str_tail s) else s.

(** [annot.startswith(_CLASSVAR_PREFIXES)]; the tuple is read from the source. *)
Definition is_class_var (prefixes : list string) (annot : string) : bool :=
  existsb (fun p => String.prefix p (unquote annot)) prefixes.

(** The spellings the documentation promises to recognise. *)
Definition documented_prefixes : list string :=
  ["typing.ClassVar"; "t.ClassVar"; "ClassVar"; "typing_extensions.ClassVar"].

(** ** [_CountingAttr]: the creation counter plus the settings handed to
    [attr.ib()] (kept in an [attribute] whose [a_name] is unused, [a_type] is the
    [type=] argument and [a_inherited] is irrelevant). *)
Record cattr := CA { ca_counter : Z; ca_attr : attribute }.

(** What [attr.ib()] without arguments produces (also: [Attribute(...)] with the
    documented required arguments). *)
Definition ib (v : option string) (d : default_kind) (init : bool) (ty : option string)
              (kw : bool) (al : option string) : attribute :=
  {| a_name := ""; a_default := d; a_validator := v; a_repr := true; a_eq := true;
     a_eq_key := None; a_order := true; a_order_key := None; a_hash := None; a_init := init;
     a_type := ty; a_converter := CNone; a_kw_only := kw; a_inherited := false;
     a_on_setattr := OsNone; a_alias := al |}.

(** [attrib(a)] for a plain class-body value [a] in the auto_attribs path. *)
Definition plain_cattr (d : default_kind) : cattr :=
  CA 0 (ib None d true None false None).

(** [Attribute.from_counting_attr(name, ca, type)] *)
Definition from_counting_attr (name : string) (ca : cattr) (ann : option string)
  : result attribute :=
  match ann, a_type (ca_attr ca) with
  | None, _ => Ok (set_inherited (set_name (ca_attr ca) name) false)
  | Some t, None => Ok (set_inherited (set_type (set_name (ca_attr ca) name) (Some t)) false)
  | Some _, Some _ => Err EValue
  end.

(** ** Class bodies.  One statement binds a name: [n: ann], [n: ann = v], [n = v]. *)
Inductive bval :=
| BVField (c : cattr)               (* an [attr.ib()] / [field()] object *)
| BVPlain (d : default_kind)        (* any other object; as a default it is [d] *)
| BVNone.                           (* annotation only *)

Record stmt := St { s_name : string; s_ann : option string; s_val : bval }.

(** Python dict: assignment keeps the position of an existing key. *)
Fixpoint dict_set {V : Type} (d : list (string * V)) (k : string) (v : V) : list (string * V) :=
  match d with
  | [] => [(k, v)]
  | (k', v') :: r => if String.eqb k k' then (k', v) :: r else (k', v') :: dict_set r k v
  end.

Fixpoint dict_get {V : Type} (d : list (string * V)) (k : string) : option V :=
  match d with
  | [] => None
  | (k', v) :: r => if String.eqb k k' then Some v else dict_get r k
  end.

Definition exec_stmt (ns : list (string * bval) * list (string * string)) (s : stmt) :=
  let '(cd, anns) := ns in
  (match s_val s with BVNone => cd | v => dict_set cd (s_name s) v end,
   match s_ann s with None => anns | Some t => dict_set anns (s_name s) t end).

(** [cls.__dict__] (restricted to the names bound by the statements) and
    [cls.__dict__["__annotations__"]]. *)
Definition namespace (body : list stmt) : list (string * bval) * list (string * string) :=
  fold_left exec_stmt body ([], []).

(** ** Own-field discovery. *)

(** [(name, attr) for name, attr in cd.items() if attr.__class__ is _CountingAttr] *)
Fixpoint counting_attrs (cd : list (string * bval)) : list (string * cattr) :=
  match cd with
  | [] => []
  | (n, BVField c) :: r => (n, c) :: counting_attrs r
  | _ :: r => counting_attrs r
  end.

(** [sorted(..., key=lambda e: e[1].counter)]: a stable sort. *)
Fixpoint insert_by_counter (x : string * cattr) (l : list (string * cattr)) :=
  match l with
  | [] => [x]
  | y :: r => if Z.leb (ca_counter (snd x)) (ca_counter (snd y)) then x :: y :: r
              else y :: insert_by_counter x r
  end.

Definition sort_by_counter (l : list (string * cattr)) : list (string * cattr) :=
  fold_right insert_by_counter [] l.

(** The [auto_attribs is True] branch. *)
Definition auto_entry (cd : list (string * bval)) (n : string) : string * cattr :=
  match dict_get cd n with
  | Some (BVField c) => (n, c)
  | Some (BVPlain d) => (n, plain_cattr d)
  | _ => (n, plain_cattr DNothing)
  end.

Definition annot_names (pre : list string) (anns : list (string * string)) : list string :=
  map fst (filter (fun e => negb (is_class_var pre (snd e))) anns).

Definition unannotated (pre : list string) (cd : list (string * bval))
                       (anns : list (string * string)) : list string :=
  filter (fun n => negb (mem_str n (annot_names pre anns))) (map fst (counting_attrs cd)).

Definition ca_list_auto (pre : list string) (cd : list (string * bval))
                        (anns : list (string * string)) : result (list (string * cattr)) :=
  match unannotated pre cd anns with
  | [] => Ok (map (auto_entry cd) (annot_names pre anns))
  | _ :: _ => Err EUnannotated
  end.

Fixpoint map_result {A B : Type} (f : A -> result B) (l : list A) : result (list B) :=
  match l with
  | [] => Ok []
  | x :: r => match f x with
              | Err e => Err e
              | Ok y => match map_result f r with Err e => Err e | Ok ys => Ok (y :: ys) end
              end
  end.

(** [ca_list] of [_transform_attrs]. *)
Definition ca_list (pre : list string) (these : option (list (string * cattr)))
                   (auto : bool) (cd : list (string * bval)) (anns : list (string * string))
  : result (list (string * cattr)) :=
  match these with
  | Some l => Ok l
  | None => if auto then ca_list_auto pre cd anns else Ok (sort_by_counter (counting_attrs cd))
  end.

(** [own_attrs = [fca(attr_name, ca, anns.get(attr_name)) for attr_name, ca in ca_list]] *)
Definition own_attrs (pre : list string) (these : option (list (string * cattr)))
                     (auto : bool) (body : list stmt) : result (list attribute) :=
  let '(cd, anns) := namespace body in
  match ca_list pre these auto cd anns with
  | Err e => Err e
  | Ok l => map_result (fun e => from_counting_attr (fst e) (snd e) (dict_get anns (fst e))) l
  end.

(** ** The class table: what earlier class statements left behind. *)
Record entry := En {
  e_id : nat;
  e_mro : list nat;                       (* cls.__mro__[1:-1] as class ids *)
  e_attrs : option (list attribute)       (* cls.__dict__.get("__attrs_attrs__") *)
}.
Definition table := list entry.

Fixpoint find_entry (t : table) (id : nat) : option entry :=
  match t with
  | [] => None
  | e :: r => if Nat.eqb (e_id e) id then Some e else find_entry r id
  end.

(** [base_cls.__dict__.get("__attrs_attrs__", [])] *)
Definition own_dict_attrs (t : table) (id : nat) : list attribute :=
  match find_entry t id with
  | Some e => match e_attrs e with Some l => l | None => [] end
  | None => []
  end.

Definition dict_attrs_opt (t : table) (id : nat) : option (list attribute) :=
  match find_entry t id with Some e => e_attrs e | None => None end.

Fixpoint first_some {A : Type} (l : list (option A)) : option A :=
  match l with [] => None | Some x :: _ => Some x | None :: r => first_some r end.

(** [getattr(cls, "__attrs_attrs__", None)]: attribute lookup walks [cls.__mro__]. *)
Definition getattr_attrs (t : table) (id : nat) : option (list attribute) :=
  match find_entry t id with
  | Some e => first_some (map (dict_attrs_opt t) (id :: e_mro e))
  | None => None
  end.

Definition getattr_list (t : table) (id : nat) : list attribute :=
  match getattr_attrs t id with Some l => l | None => [] end.

(** ** [_collect_base_attrs] *)
Fixpoint dedup_first (l : list attribute) (seen : list string) : list attribute :=
  match l with
  | [] => []
  | a :: r => if mem_str (a_name a) seen then dedup_first r seen
              else a :: dedup_first r (a_name a :: seen)
  end.

(** [for a in reversed(base_attrs): if a.name in seen: continue; filtered.insert(0, a); seen.add(a.name)] *)
Definition keep_last (l : list attribute) : list attribute := rev (dedup_first (rev l) []).

Definition from_base (taken : list string) (l : list attribute) : list attribute :=
  map (fun a => set_inherited a true)
      (filter (fun a => negb (a_inherited a || mem_str (a_name a) taken)) l).

Definition collect_base_attrs (t : table) (mro : list nat) (taken : list string) : list attribute :=
  keep_last (flat_map (fun b => from_base taken (own_dict_attrs t b)) (rev mro)).

(** ** [_collect_base_attrs_broken] (legacy): front to back, [getattr], inherited
    attributes of the bases included, [taken_attr_names] mutated on the way. *)
Fixpoint broken_inner (l : list attribute) (taken : list string) : list attribute * list string :=
  match l with
  | [] => ([], taken)
  | a :: r => if mem_str (a_name a) taken then broken_inner r taken
              else let '(xs, tk) := broken_inner r (a_name a :: taken) in
                   (set_inherited a true :: xs, tk)
  end.

Fixpoint collect_base_attrs_broken (t : table) (mro : list nat) (taken : list string)
  : list attribute :=
  match mro with
  | [] => []
  | b :: r => let '(xs, tk) := broken_inner (getattr_list t b) taken in
              xs ++ collect_base_attrs_broken t r tk
  end.

(** ** The rest of [_transform_attrs]. *)
Definition positional (a : attribute) : bool := a_init a && negb (a_kw_only a).

Fixpoint order_ok_from (had_default : bool) (l : list attribute) : bool :=
  match l with
  | [] => true
  | a :: r =>
      if positional a then
        if had_default && negb (has_default a) then false
        else order_ok_from (had_default || has_default a) r
      else order_ok_from had_default r
  end.
Definition order_ok (l : list attribute) : bool := order_ok_from false l.

Definition evolve_kw_only (kw : bool) (l : list attribute) : list attribute :=
  if kw then map (fun a => set_kw_only a true) l else l.

Definition base_attrs_of (t : table) (mro : list nat) (by_mro : bool) (taken : list string) :=
  if by_mro then collect_base_attrs t mro taken else collect_base_attrs_broken t mro taken.

Definition apply_ft (ft : option (list attribute -> list attribute)) (l : list attribute) :=
  match ft with Some f => f l | None => l end.

Definition transform_attrs (t : table) (mro : list nat) (by_mro kw_only : bool)
    (ft : option (list attribute -> list attribute)) (own : list attribute)
  : result (list attribute) :=
  let base := base_attrs_of t mro by_mro (map a_name own) in
  let attrs := apply_ft ft (evolve_kw_only kw_only base ++ evolve_kw_only kw_only own) in
  if order_ok attrs then Ok (map resolve_alias attrs) else Err EValue.

(** ** Introspection: all functions of the one tuple. *)
Definition names (l : list attribute) : list string := map a_name l.

Definition match_args (l : list attribute) : list string := names (filter positional l).

(** [args] and [kw_only_args] of [_attrs_to_init_script] (parameter names). *)
Definition init_positional (l : list attribute) : list string :=
  map alias_of (filter positional l).
Definition init_kw_only (l : list attribute) : list string :=
  map alias_of (filter (fun a => a_init a && a_kw_only a) l).

Fixpoint nodupb (l : list string) : bool :=
  match l with [] => true | x :: r => negb (mem_str x r) && nodupb r end.

(** [{a.name: a for a in attrs}]: keys in first-insertion order. *)
Fixpoint dedup_names (l : list string) (seen : list string) : list string :=
  match l with
  | [] => []
  | x :: r => if mem_str x seen then dedup_names r seen else x :: dedup_names r (x :: seen)
  end.
Definition fields_dict_keys (l : list attribute) : list string := dedup_names (names l) [].

(** [_make_attr_tuple_class]: [body[attr_name] = property(itemgetter(i))], later
    indices overwrite earlier ones. *)
Fixpoint last_index_from (n : string) (l : list attribute) (i : nat) (acc : option nat) : option nat :=
  match l with
  | [] => acc
  | a :: r => last_index_from n r (S i) (if String.eqb (a_name a) n then Some i else acc)
  end.
Definition index_of_name (l : list attribute) (n : string) : option nat :=
  last_index_from n l 0 None.

(** [fields_dict(cls)[n]]: the dict comprehension keeps the last value. *)
Definition fields_dict_get (l : list attribute) (n : string) : option attribute :=
  find (fun a => String.eqb (a_name a) n) (rev l).

(** ** Class definitions and the decorators. *)
Inductive auto_mode := AutoTrue | AutoFalse | AutoInfer.

Record deco := De {
  d_by_mro : bool;                                  (* collect_by_mro (define: True) *)
  d_kw_only : bool;
  d_these : option (list (string * cattr));         (* these= / make_class *)
  d_auto : auto_mode;                               (* define(auto_attribs=None) = AutoInfer *)
  d_ft : option (list attribute -> list attribute)  (* field_transformer(cls, ·) *)
}.

Record classdef := Cl {
  k_id : nat;
  k_mro : list nat;
  k_body : list stmt;
  k_deco : option deco        (* None: a plain class *)
}.

(** One call of [attr.s(...)(cls)] up to and including the compilation of the
    generated initializer. *)
Definition attrs_call (pre : list string) (t : table) (k : classdef) (d : deco) (auto : bool)
  : result (list attribute) :=
  match own_attrs pre (d_these d) auto (k_body k) with
  | Err e => Err e
  | Ok own =>
      match transform_attrs t (k_mro k) (d_by_mro d) (d_kw_only d) (d_ft d) own with
      | Err e => Err e
      | Ok l => if nodupb (init_positional l ++ init_kw_only l) then Ok l else Err ESyntax
      end
  end.

(** [define]'s [wrap]: [try: do_it(cls, True) except UnannotatedAttributeError: do_it(cls, False)] *)
Definition decorate (pre : list string) (t : table) (k : classdef) (d : deco)
  : result (list attribute) :=
  match d_auto d with
  | AutoTrue => attrs_call pre t k d true
  | AutoFalse => attrs_call pre t k d false
  | AutoInfer =>
      match attrs_call pre t k d true with
      | Err EUnannotated => attrs_call pre t k d false
      | r => r
      end
  end.

(** ** Observations. *)
Record oattr := O {
  o_name : string; o_inherited : bool; o_kw_only : bool; o_init : bool;
  o_default : default_kind; o_alias : option string; o_type : option string;
  o_vtag : option string
}.

Definition view (a : attribute) : oattr :=
  O (a_name a) (a_inherited a) (a_kw_only a) (a_init a) (a_default a) (a_alias a)
    (a_type a) (a_validator a).

Record cobs := Ob {
  ob_fields : list oattr;            (* fields(C) *)
  ob_match_args : list string;       (* C.__match_args__ *)
  ob_fd_keys : list string;          (* list(fields_dict(C)) *)
  ob_has : bool;                     (* has(C) *)
  ob_pos : list string;              (* positional-or-keyword parameters of __init__ *)
  ob_kwo : list string;              (* keyword-only parameters *)
  ob_byname : list (option nat)      (* per field i: the j with getattr(fields(C), name_i) is fields(C)[j] *)
}.

Inductive class_obs :=
| CErr (e : err)                                  (* the class statement raised *)
| COk (o : cobs)                                  (* decorated class *)
| CPlain (has : bool) (fs : option (list string)). (* plain class: has(), names of fields() if any *)

Definition observe_ok (l : list attribute) : cobs :=
  Ob (map view l) (match_args l) (fields_dict_keys l) true
     (init_positional l) (init_kw_only l)
     (map (fun a => index_of_name l (a_name a)) l).

(** One class statement: the observation and the table afterwards.  A class whose
    decorator raised leaves no entry (its name is never bound). *)
Definition step_class (pre : list string) (t : table) (k : classdef) : class_obs * table :=
  match k_deco k with
  | None =>
      let t' := t ++ [En (k_id k) (k_mro k) None] in
      let g := getattr_attrs t' (k_id k) in
      (CPlain (match g with Some _ => true | None => false end) (option_map names g), t')
  | Some d =>
      match decorate pre t k d with
      | Err e => (CErr e, t)
      | Ok l => (COk (observe_ok l), t ++ [En (k_id k) (k_mro k) (Some l)])
      end
  end.

Fixpoint run_classes (pre : list string) (t : table) (ks : list classdef) : list class_obs * table :=
  match ks with
  | [] => ([], t)
  | k :: r => let '(o, t') := step_class pre t k in
              let '(os, t'') := run_classes pre t' r in (o :: os, t'')
  end.

(** [fields(A) == fields(B)]: tuple equality of [Attribute]s, whose [__eq__]
    ignores [inherited] (all components the harness varies are in [view]). *)
Definition dk_eqb (a b : default_kind) : bool :=
  match a, b with
  | DNothing, DNothing | DValue, DValue => true
  | DFactory f s, DFactory g u => String.eqb f g && Bool.eqb s u
  | _, _ => false
  end.

Definition ostr_eqb := option_eqb String.eqb.

Definition oattr_eqb (a b : oattr) : bool :=
  String.eqb (o_name a) (o_name b) && Bool.eqb (o_inherited a) (o_inherited b) &&
  Bool.eqb (o_kw_only a) (o_kw_only b) && Bool.eqb (o_init a) (o_init b) &&
  dk_eqb (o_default a) (o_default b) && ostr_eqb (o_alias a) (o_alias b) &&
  ostr_eqb (o_type a) (o_type b) && ostr_eqb (o_vtag a) (o_vtag b).

Definition attr_eq_py (a b : attribute) : bool :=
  oattr_eqb (view (set_inherited a false)) (view (set_inherited b false)).

Definition tuples_equal (t : table) (i j : nat) : bool :=
  match dict_attrs_opt t i, dict_attrs_opt t j with
  | Some l1, Some l2 => list_eqb attr_eq_py l1 l2
  | _, _ => false
  end.

(** ** A small transformer language for the correspondence cases (the theorems
    quantify over arbitrary functions instead). *)
Inductive tf :=
| TId | TRev | TRot | TDropFirst | TDropLast
| TAdd (n : string) (a : attribute)     (* append a hand-made Attribute *)
| TKwOnly                               (* evolve(kw_only=True) on all *)
| TRename (sfx : string)                (* evolve(name=name+sfx) on all *)
| TDupNoInit                            (* append fs[0].evolve(init=False) *)
| TClearAlias.                          (* evolve(alias=None) on all *)

Definition ft_of (x : tf) (l : list attribute) : list attribute :=
  match x with
  | TId => l
  | TRev => rev l
  | TRot => match l with [] => [] | a :: r => r ++ [a] end
  | TDropFirst => match l with [] => [] | _ :: r => r end
  | TDropLast => removelast l
  | TAdd n a => l ++ [set_name a n]
  | TKwOnly => map (fun a => set_kw_only a true) l
  | TRename sfx => map (fun a => set_name a (a_name a ++ sfx)%string) l
  | TDupNoInit => match l with [] => [] | a :: _ => l ++ [set_init a false] end
  | TClearAlias => map (fun a => set_alias a None) l
  end.
