(** * C07 — correspondence: the check function evaluated by [coqc] on the class
    hierarchies the harness built with the real library. *)
From Coq Require Import List Bool String Ascii ZArith.
Import ListNotations.
From Attrs Require Import Base Core.Attr C07.Model.

Lemma option_eqb_spec {A} (eqb : A -> A -> bool)
  (H : forall x y, eqb x y = true <-> x = y) :
  forall a b, option_eqb eqb a b = true <-> a = b.
Proof.
  intros [x|] [y|]; cbn; try (split; [discriminate | intros E; inversion E]); try tauto.
  rewrite H. split; congruence.
Qed.

Lemma ostr_eqb_spec a b : ostr_eqb a b = true <-> a = b.
Proof. apply option_eqb_spec. apply String.eqb_eq. Qed.

Lemma dk_eqb_spec a b : dk_eqb a b = true <-> a = b.
Proof.
  destruct a, b; cbn; try (split; [discriminate | intros E; inversion E]); try tauto.
  rewrite andb_true_iff, String.eqb_eq, Bool.eqb_true_iff. split.
  - intros [-> ->]; reflexivity.
  - intros E; inversion E; auto.
Qed.

Lemma oattr_eqb_spec a b : oattr_eqb a b = true <-> a = b.
Proof.
  destruct a as [a1 a2 a3 a4 a5 a6 a7 a8], b as [b1 b2 b3 b4 b5 b6 b7 b8].
  unfold oattr_eqb; cbn.
  rewrite !andb_true_iff, String.eqb_eq, !Bool.eqb_true_iff, dk_eqb_spec, !ostr_eqb_spec.
  split.
  - intros [[[[[[[-> ->] ->] ->] ->] ->] ->] ->]. reflexivity.
  - intros E; inversion E; subst. repeat split.
Qed.

Definition strs_eqb := list_eqb String.eqb.
Lemma strs_eqb_spec a b : strs_eqb a b = true <-> a = b.
Proof. apply list_eqb_spec. apply String.eqb_eq. Qed.

Definition onat_eqb := option_eqb Nat.eqb.
Lemma onat_eqb_spec a b : onat_eqb a b = true <-> a = b.
Proof. apply option_eqb_spec. apply Nat.eqb_eq. Qed.

Definition cobs_eqb (a b : cobs) : bool :=
  list_eqb oattr_eqb (ob_fields a) (ob_fields b) &&
  strs_eqb (ob_match_args a) (ob_match_args b) &&
  strs_eqb (ob_fd_keys a) (ob_fd_keys b) &&
  Bool.eqb (ob_has a) (ob_has b) &&
  strs_eqb (ob_pos a) (ob_pos b) &&
  strs_eqb (ob_kwo a) (ob_kwo b) &&
  list_eqb onat_eqb (ob_byname a) (ob_byname b).

Lemma cobs_eqb_spec a b : cobs_eqb a b = true <-> a = b.
Proof.
  destruct a as [a1 a2 a3 a4 a5 a6 a7], b as [b1 b2 b3 b4 b5 b6 b7].
  unfold cobs_eqb; cbn.
  rewrite !andb_true_iff, !strs_eqb_spec, Bool.eqb_true_iff,
    (list_eqb_spec oattr_eqb oattr_eqb_spec), (list_eqb_spec onat_eqb onat_eqb_spec).
  split.
  - intros [[[[[[-> ->] ->] ->] ->] ->] ->]. reflexivity.
  - intros E; inversion E; subst. repeat split.
Qed.

Definition class_obs_eqb (a b : class_obs) : bool :=
  match a, b with
  | CErr e, CErr f => err_eqb e f
  | COk x, COk y => cobs_eqb x y
  | CPlain h x, CPlain g y => Bool.eqb h g && option_eqb strs_eqb x y
  | _, _ => false
  end.

Lemma class_obs_eqb_spec a b : class_obs_eqb a b = true <-> a = b.
Proof.
  destruct a as [e|x|h x], b as [f|y|g y]; cbn;
    try (split; [discriminate | intros E; inversion E]).
  - destruct e, f; cbn; split; try discriminate; try reflexivity; intros E; inversion E.
  - rewrite cobs_eqb_spec. split; congruence.
  - rewrite andb_true_iff, Bool.eqb_true_iff, (option_eqb_spec strs_eqb strs_eqb_spec).
    split; [intros [-> ->]; reflexivity | intros E; inversion E; auto].
Qed.

(** A case: the class statements in definition order, the pairs of classes
    declared through different front-ends from one logical specification, what the
    implementation showed per class statement, and [fields(A) == fields(B)] per pair. *)
Record case := Ca {
  c_classes : list classdef;
  c_equiv : list (nat * nat);
  c_seen : list class_obs;
  c_seen_eq : list bool
}.

Definition model_of (pre : list string) (c : case) : list class_obs * list bool :=
  let '(os, t) := run_classes pre [] (c_classes c) in
  (os, map (fun p => tuples_equal t (fst p) (snd p)) (c_equiv c)).

(** The source's [_CLASSVAR_PREFIXES] must contain the documented spellings. *)
Definition prefixes_ok (pre : list string) : bool :=
  forallb (fun p => mem_str p pre) documented_prefixes.

Definition check_case (pre : list string) (c : case) : bool :=
  prefixes_ok pre &&
  list_eqb class_obs_eqb (fst (model_of pre c)) (c_seen c) &&
  list_eqb Bool.eqb (snd (model_of pre c)) (c_seen_eq c).

Lemma check_case_sound pre c :
  check_case pre c = true <->
  (forall p, In p documented_prefixes -> In p pre) /\
  (c_seen c, c_seen_eq c) = model_of pre c.
Proof.
  unfold check_case, prefixes_ok.
  rewrite !andb_true_iff, forallb_forall,
    (list_eqb_spec class_obs_eqb class_obs_eqb_spec),
    (list_eqb_spec Bool.eqb Bool.eqb_true_iff).
  destruct (model_of pre c) as [os es]; cbn. split.
  - intros [[H1 H2] H3]. split; [|congruence].
    intros p Hp. apply mem_str_In. apply H1, Hp.
  - intros [H1 H2]. inversion H2; subst. repeat split; auto.
    intros p Hp. apply mem_str_In. apply H1, Hp.
Qed.
