(** * C07 - tie by translation, unit [broken]: the definition regenerated from the CURRENT source text
    ([Gen/C07_u_broken.v]) coincides on every input with the model.  Proofs go by case analysis on the
    atomic tests of the loop-step functions and induction over the lists, never by comparing text;
    where two source shapes are equivalent (insert(0, a) vs append + reverse, generator filter vs
    `continue`) the proof tries both. *)
From Coq Require Import List Bool String.
Import ListNotations.
From Attrs Require Import Core.Attr C07.Model C07.Proofs C07.TieLib Gen.C07_u_broken.
Open Scope string_scope.
Open Scope list_scope.

Lemma broken_inner_step t c b m tk a :
  exists m', t_collect_base_attrs_broken_L1_1_step t c (b, m, tk) a =
             (b ++ fst (broken_inner [a] tk), m', snd (broken_inner [a] tk)).
Proof.
  unfold t_collect_base_attrs_broken_L1_1_step. cbn.
  destruct (mem_str (a_name a) tk); cbn; eexists; rewrite ?app_nil_r; reflexivity.
Qed.

Lemma broken_outer_step t b m tk c :
  exists m', t_collect_base_attrs_broken_L1_step t (b, m, tk) c =
             (b ++ fst (broken_inner (getattr_list t c) tk), m',
              snd (broken_inner (getattr_list t c) tk)).
Proof.
  unfold t_collect_base_attrs_broken_L1_step.
  destruct (fold_broken (t_collect_base_attrs_broken_L1_1_step t c)
              (fun b m tk a => broken_inner_step t c b m tk a) (getattr_list t c) b m tk) as [m' E].
  cbn in *. rewrite E. eexists. reflexivity.
Qed.

Lemma broken_outer_fold t : forall mro b m tk,
  exists m' tk', fold_left (t_collect_base_attrs_broken_L1_step t) mro (b, m, tk) =
                 (b ++ collect_base_attrs_broken t mro tk, m', tk').
Proof.
  induction mro as [|c r IH]; cbn [fold_left collect_base_attrs_broken]; intros b m tk.
  - exists m, tk. now rewrite app_nil_r.
  - destruct (broken_outer_step t b m tk c) as [m1 E]. rewrite E.
    destruct (broken_inner (getattr_list t c) tk) as [xs tk1]. cbn [fst snd].
    destruct (IH (b ++ xs) m1 tk1) as (m2 & tk2 & E2). rewrite E2.
    exists m2, tk2. now rewrite <- app_assoc.
Qed.

Lemma tie_collect_base_attrs_broken : forall t mro taken,
  fst (t_collect_base_attrs_broken t mro taken) = collect_base_attrs_broken t mro taken.
Proof.
  intros t mro taken. unfold t_collect_base_attrs_broken. cbv zeta.
  destruct (broken_outer_fold t mro [] [] taken) as (m' & tk' & E). rewrite E. reflexivity.
Qed.
