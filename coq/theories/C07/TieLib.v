(** * C07 - tie by translation: facts shared by the per-unit lemma files [C07/Tie_<unit>.v]
    (generic folds over loop states; nothing here mentions a generated definition). *)
From Coq Require Import List Bool String.
Import ListNotations.
From Attrs Require Import Core.Attr C07.Model C07.Proofs.
Open Scope string_scope.
Open Scope list_scope.

(** ** generic facts about folds over a state whose first component is an output list *)

Lemma fold_fst_app {B X} (f : list attribute * B -> X -> list attribute * B) (g : X -> list attribute) :
  (forall b m x, fst (f (b, m) x) = b ++ g x) ->
  forall l b m, fst (fold_left f l (b, m)) = b ++ flat_map g l.
Proof.
  intros H. induction l as [|x l IH]; cbn; intros b m; [now rewrite app_nil_r|].
  destruct (f (b, m) x) as [b' m'] eqn:E. rewrite IH.
  specialize (H b m x). rewrite E in H. cbn in H. subst. now rewrite app_assoc.
Qed.

Lemma from_base_flat tk l : flat_map (fun a => from_base tk [a]) l = from_base tk l.
Proof.
  induction l as [|a l IH]; [reflexivity|]. cbn [flat_map]. rewrite IH.
  unfold from_base. cbn. destruct (negb _); reflexivity.
Qed.

Lemma fold_dedup (f : list attribute * list string -> attribute -> list attribute * list string) :
  (forall fl s a, f (fl, s) a = if mem_str (a_name a) s then (fl, s) else (a :: fl, a_name a :: s)) ->
  forall l fl s, fst (fold_left f l (fl, s)) = rev (dedup_first l s) ++ fl.
Proof.
  intros H. induction l as [|a l IH]; cbn; intros fl s; [reflexivity|].
  rewrite H. destruct (mem_str (a_name a) s); rewrite IH; [reflexivity|].
  cbn. now rewrite <- app_assoc.
Qed.

Lemma fold_dedup_app (f : list attribute * list string -> attribute -> list attribute * list string) :
  (forall fl s a, f (fl, s) a = if mem_str (a_name a) s then (fl, s) else (fl ++ [a], a_name a :: s)) ->
  forall l fl s, fst (fold_left f l (fl, s)) = fl ++ dedup_first l s.
Proof.
  intros H. induction l as [|a l IH]; cbn; intros fl s; [now rewrite app_nil_r|].
  rewrite H. destruct (mem_str (a_name a) s); rewrite IH; [reflexivity|].
  cbn. now rewrite <- app_assoc.
Qed.

Lemma fold_broken {M} (f : list attribute * M * list string -> attribute -> list attribute * M * list string) :
  (forall b m tk a, exists m', f (b, m, tk) a =
                               (b ++ fst (broken_inner [a] tk), m', snd (broken_inner [a] tk))) ->
  forall l b m tk, exists m', fold_left f l (b, m, tk) =
                              (b ++ fst (broken_inner l tk), m', snd (broken_inner l tk)).
Proof.
  intros H. induction l as [|a l IH]; cbn; intros b m tk.
  - exists m. now rewrite app_nil_r.
  - destruct (H b m tk a) as [m1 E]. rewrite E. cbn.
    destruct (mem_str (a_name a) tk); cbn.
    + rewrite app_nil_r. apply IH.
    + destruct (IH (b ++ [set_inherited a true]) m1 (a_name a :: tk)) as [m2 E2]. rewrite E2.
      destruct (broken_inner l (a_name a :: tk)) as [xs tk']. cbn. exists m2.
      now rewrite <- app_assoc.
Qed.

(** the state of a loop that may raise: [None] once an exception escaped (used by Gen/C07_u_order.v) *)
Definition bind_exc {S : Type} (s : option S) (k : S -> option S) : option S :=
  match s with Some x => k x | None => None end.

Definition is_some {A} (o : option A) : bool := match o with Some _ => true | None => false end.

Lemma fold_exc_none {S X} (f : S -> X -> option S) l :
  fold_left (fun s x => bind_exc s (fun y => f y x)) l None = None.
Proof. induction l as [|x l IH]; cbn; auto. Qed.

Lemma fold_order (step : bool -> attribute -> option bool) (P : attribute -> bool) :
  (forall hd a, step hd a = if hd && negb (has_default a) then None else Some (hd || has_default a)) ->
  (forall a, P a = positional a) ->
  forall l hd,
    is_some (fold_left (fun s x => bind_exc s (fun y => step y x)) (filter P l) (Some hd))
    = order_ok_from hd l.
Proof.
  intros Hs HP. induction l as [|a l IH]; cbn; intros hd; [reflexivity|].
  rewrite HP. destruct (positional a); [|apply IH]. cbn. rewrite Hs.
  destruct (hd && negb (has_default a)); [now rewrite fold_exc_none | apply IH].
Qed.



Lemma fold_order_unfiltered (step : bool -> attribute -> option bool) :
  (forall hd a, step hd a =
                if positional a then (if hd && negb (has_default a) then None else Some (hd || has_default a))
                else Some hd) ->
  forall l hd,
    is_some (fold_left (fun s x => bind_exc s (fun y => step y x)) l (Some hd)) = order_ok_from hd l.
Proof.
  intros Hs. induction l as [|a l IH]; cbn; intros hd; [reflexivity|].
  rewrite Hs. destruct (positional a); [|apply IH].
  destruct (hd && negb (has_default a)); [now rewrite fold_exc_none | apply IH].
Qed.

Lemma dict_get_set {V} (d : list (string * V)) k v n :
  dict_get (dict_set d k v) n = if String.eqb n k then Some v else dict_get d n.
Proof.
  induction d as [|[k' v'] d IH]; cbn.
  - reflexivity.
  - destruct (String.eqb k k') eqn:E; cbn.
    + apply String.eqb_eq in E. subst k'. now destruct (String.eqb n k).
    + rewrite IH. destruct (String.eqb n k') eqn:E2; [|reflexivity].
      apply String.eqb_eq in E2. subst k'. destruct (String.eqb n k) eqn:E3; [|reflexivity].
      apply String.eqb_eq in E3. subst. rewrite String.eqb_refl in E. discriminate.
Qed.

Lemma dedup_names_ext l : forall s1 s2,
  (forall n, mem_str n s1 = mem_str n s2) -> dedup_names l s1 = dedup_names l s2.
Proof.
  induction l as [|x l IH]; cbn; intros s1 s2 H; [reflexivity|].
  rewrite (H x). destruct (mem_str x s2); [now apply IH|].
  f_equal. apply IH. intros n. cbn. now rewrite H.
Qed.

Lemma fields_dict_fold_keys (l : list attribute) : forall d : list (string * attribute),
  map fst (fold_left (fun d_ a => dict_set d_ (a_name a) a) l d) =
  map fst d ++ dedup_names (names l) (map fst d).
Proof.
  induction l as [|a l IH]; cbn; intros d; [now rewrite app_nil_r|].
  rewrite IH, dict_set_keys. destruct (mem_str (a_name a) (map fst d)) eqn:E; [reflexivity|].
  rewrite <- app_assoc. cbn. f_equal. f_equal. apply dedup_names_ext. intros n.
  rewrite mem_str_app. cbn. rewrite orb_false_r. apply orb_comm.
Qed.

Lemma fields_dict_fold_get (l : list attribute) : forall (d : list (string * attribute)) n,
  dict_get (fold_left (fun d_ a => dict_set d_ (a_name a) a) l d) n =
  match fields_dict_get l n with Some a => Some a | None => dict_get d n end.
Proof.
  induction l as [|a l IH]; cbn; intros d n; [reflexivity|].
  rewrite IH. unfold fields_dict_get. cbn. rewrite find_app. cbn.
  destruct (find (fun a0 => String.eqb (a_name a0) n) (rev l)); [reflexivity|].
  rewrite dict_get_set, String.eqb_sym. now destruct (String.eqb (a_name a) n).
Qed.

