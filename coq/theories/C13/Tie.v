(** * C13 — tie by translation: the conversion code regenerated from the CURRENT source text
    ([Gen/C13_Funcs.v], written by harness/translate_c13.py on every run) coincides on EVERY input
    with the functions of [C13/Model.v] the property theorems are stated about.

    The translated definitions are open-recursive (the recursive calls are the parameters [rec_*],
    applied to exactly the arguments the source passes); the lemmas show that one unfolding of the
    source equals one unfolding of the model for ALL callees, and the [*_closed] corollaries that the
    model functions are a fixed point of the source's recursion equations.  A source change that
    alters a branch, a factory, a flag passed down, the order of filter and serializer, ... makes a
    lemma below fail: a proof-obligation failure of ./check C13. *)
From Coq Require Import List Bool Arith String.
Import ListNotations.
From Attrs Require Import C13.Model C13.TieBase Gen.C13_Funcs.
Open Scope string_scope.

Lemma tie_fully_translated : c13_fully_translated = true.
Proof. reflexivity. Qed.

(** ** The model side, in the vocabulary of the translation *)

(** model functions taking class objects *)
Definition rebuild_cls (E : env) (cf : pycls) (items : list val) : res val :=
  match cf with ClsSeq c => rebuild_collection E c items | _ => Err ETypeError end.
Definition asdict_cls (E : env) : T_asdict :=
  fun x recurse flt d retain ser =>
    match d with ClsDict k => asdict E recurse retain flt k ser x | _ => Err ETypeError end.
Definition anything_cls (E : env) : T_anything :=
  fun x is_key flt d retain ser =>
    match d with ClsDict k => asdict_anything E is_key retain flt k ser x | _ => Err ETypeError end.
Definition tf_cls (tf : tfk) : pycls :=
  match tf with TfTuple => ClsSeq (CfTuple TkT) | TfList => ClsSeq CfList | TfSub => ClsSeq (CfTuple TkS) end.
Definition astuple_cls (E : env) : T_astuple :=
  fun x recurse flt t retain =>
    match t with
    | ClsSeq (CfTuple TkT) => astuple E recurse retain flt TfTuple x
    | ClsSeq CfList => astuple E recurse retain flt TfList x
    | ClsSeq (CfTuple TkS) => astuple E recurse retain flt TfSub x
    | _ => Err ETypeError
    end.

(** One unfolding of [asdict_anything] with its recursive calls abstracted (the model function
    itself is a structural fixpoint; [asdict_anything_unfold] connects the two). *)
Definition anything_step (E : env) (rec_inst : val -> res val) (rec_any : bool -> val -> res val)
    (rebuild : ctor -> list val -> res val)
    (is_key retain : bool) (df : dkind) (ser : option ser_fn) (v : val) : res val :=
  match v with
  | VI _ _ => rec_inst v
  | VL xs | VT _ xs | VS xs | VF xs =>
      let cf := if retain then class_of_seq v else if is_key then CfTuple TkT else CfList in
      bind (seq_conv (rec_any is_key) xs) (rebuild cf)
  | VD _ kvs =>
      bind (pairs_conv E (rec_any true) (rec_any false) kvs) (fun ps => Ok (mk_dict df ps))
  | _ => ser_value ser None v
  end.

Lemma asdict_anything_unfold E k retain flt df ser v :
  asdict_anything E k retain flt df ser v =
  anything_step E (asdict E true retain flt df ser) (fun k' => asdict_anything E k' retain flt df ser)
    (rebuild_collection E) k retain df ser v.
Proof. destruct v; reflexivity. Qed.

Lemma astuple_unfold E recurse retain flt tf c vs :
  astuple E recurse retain flt tf (VI c vs) =
  bind (fields_loop (passes flt)
          (fun _ v => astuple_field E (fun flt' x => astuple E true retain flt' tf x) recurse retain flt v)
          (fields_of E c) vs)
       (fun items => Ok (apply_tf tf (map snd items))).
Proof. reflexivity. Qed.

(** ** Generic lemmas about the loop / comprehension combinators *)

Lemma seq_conv_ext_all {A B} (f g : A -> res B) : (forall x, f x = g x) ->
  forall xs, seq_conv f xs = seq_conv g xs.
Proof. intros H. induction xs as [|x r IH]; cbn; [reflexivity|]. now rewrite H, IH. Qed.

Lemma pairs_conv2_ext E (f : val -> val -> res (val * val)) (fk fv : val -> res val) :
  (forall (k v : val), f k v = bind (fk k) (fun a => bind (fv v) (fun b => Ok (a, b)))) ->
  forall kvs, pairs_conv2 E f kvs = pairs_conv E fk fv kvs.
Proof.
  intros H. induction kvs as [|[k v] r IH]; cbn; [reflexivity|].
  rewrite H, IH. unfold obind. destruct (fk k); cbn; [|reflexivity]. destruct (fv v); reflexivity.
Qed.

Definition skeys (l : list (string * val)) : list (val * val) := map (fun a => (VStr (fst a), snd a)) l.

(** the [rv[a.name] = ...] loop is [fields_loop] followed by the assignments *)
Lemma loop_fields_dict (body : tv -> field -> val -> res tv) (keep : field -> val -> res bool)
    (conv : field -> val -> res val) (df : dkind) :
  (forall d a v, body (TSame (VD df d)) a v =
     bind (keep a v) (fun b =>
       if b then bind (conv a v) (fun x => Ok (TSame (VD df (dict_set d (VStr (fst a)) x))))
       else Ok (TSame (VD df d)))) ->
  forall vs fs d0,
    loop_fields body fs vs (TSame (VD df d0)) =
    bind (fields_loop keep conv fs vs)
      (fun assigns => Ok (TSame (VD df (fold_left (fun d p => dict_set d (fst p) (snd p)) (skeys assigns) d0)))).
Proof.
  intros H. induction vs as [|v r IH]; intros fs d0; [destruct fs; reflexivity|].
  destruct fs as [|f fs']; [reflexivity|]. cbn [loop_fields fields_loop]. rewrite H. unfold obind.
  destruct (keep f v) as [[|]|]; cbn [bind]; [| |reflexivity].
  - destruct (conv f v) as [x|]; cbn [bind]; [|reflexivity].
    rewrite IH. destruct (fields_loop keep conv fs' r); reflexivity.
  - apply IH.
Qed.

(** the [rv.append(...)] loop *)
Lemma loop_fields_list (body : list val -> field -> val -> res (list val)) (keep : field -> val -> res bool)
    (conv : field -> val -> res val) :
  (forall l a v, body l a v =
     bind (keep a v) (fun b => if b then bind (conv a v) (fun x => Ok (l ++ [x])%list) else Ok l)) ->
  forall vs fs l0,
    loop_fields body fs vs l0 =
    bind (fields_loop keep conv fs vs) (fun items : list (string * val) => Ok (l0 ++ map snd items)%list).
Proof.
  intros H. induction vs as [|v r IH]; intros fs l0; [destruct fs; cbn; now rewrite app_nil_r|].
  destruct fs as [|f fs']; [cbn; now rewrite app_nil_r|]. cbn [loop_fields fields_loop]. rewrite H. unfold obind.
  destruct (keep f v) as [[|]|]; cbn [bind]; [| |reflexivity].
  - destruct (conv f v) as [x|]; cbn [bind]; [|reflexivity].
    rewrite IH. destruct (fields_loop keep conv fs' r); cbn; [|reflexivity].
    now rewrite <- app_assoc.
  - apply IH.
Qed.

Ltac destruct_inner :=
  match goal with
  | |- context [match ?x with _ => _ end] =>
      lazymatch x with
      | context [match _ with _ => _ end] => fail
      | _ => destruct x
      end
  end.
Ltac fin :=
  unfold obind, bind; cbn; try reflexivity;
  repeat (destruct_inner; cbn; try reflexivity).

(** ** [_rebuild_collection] (called with a list) *)
Lemma tie_rebuild_collection : forall E rA rN rR rT cf items,
  t_rebuild_collection E rA rN rR rT cf (IList items) = rebuild_cls E cf items.
Proof.
  intros E rA rN rR rT cf items. unfold t_rebuild_collection, rebuild_cls, rebuild_collection.
  destruct cf as [[|[|n|]| |]|k|]; cbn; try reflexivity. all: solve [fin].
Qed.

(* from here on the helper is only used through [tie_rebuild_collection] *)
Local Opaque t_rebuild_collection.

(** ** [_asdict_anything]: for ALL callees, the rebuilding helper included - it must be
    called with the finished list of converted members *)
Lemma tie_asdict_anything : forall E rA rN (rR : T_rebuild) rT v k flt df retain ser,
  t_asdict_anything E rA rN rR rT (TSame v) k flt (ClsDict df) retain ser =
  anything_step E (fun x => rA x true flt (ClsDict df) retain ser)
                  (fun k' x => rN x k' flt (ClsDict df) retain ser)
                  (fun c items => rR (ClsSeq c) (IList items)) k retain df ser v.
Proof.
  intros E rA rN rR rT v k flt df retain ser. unfold t_asdict_anything.
  destruct v as [t i | s | c fs | xs | t xs | xs | xs | dk kvs | w x | ];
    cbn [tv_has tv_isinstance existsb val_isinstance orb anything_step tv_out].
  all: try (unfold ser_value, ser_apply; destruct ser as [s0|]; solve [fin]).
  all: try solve [fin].
  all: try (destruct retain, k; solve [fin]).
  (* dict *)
  cbn. rewrite (pairs_conv2_ext E _ (fun x => rN x true flt (ClsDict df) retain ser)
                                    (fun x => rN x false flt (ClsDict df) retain ser)).
  - solve [fin].
  - intros a b. solve [fin].
Qed.

(** ** [asdict] *)
Lemma tie_asdict : forall E rA rN rR rT c vs recurse flt df retain ser,
  t_asdict E rA rN (t_rebuild_collection E rA rN rR rT) rT (TSame (VI c vs)) recurse flt (ClsDict df) retain ser =
  asdict_body E (fun x => rA x true flt (ClsDict df) retain ser)
                (fun k x => rN x k flt (ClsDict df) retain ser) recurse retain flt df ser c vs.
Proof.
  intros E rA rN rR rT c vs recurse flt df retain ser. unfold t_asdict, asdict_body.
  cbn [cls_call0 obind bind tv_fields tv_field_values].
  rewrite (loop_fields_dict _ (passes flt)
             (asdict_field E (fun x => rA x true flt (ClsDict df) retain ser)
                (fun k x => rN x k flt (ClsDict df) retain ser) recurse retain df ser c) df).
  - destruct (fields_loop _ _ _ _); reflexivity.
  - intros d a v. unfold asdict_field, passes, ser_apply.
    destruct flt as [p|]; cbn; [destruct (p a v) as [[|]|]; cbn; try reflexivity|].
    all: destruct ser as [s0|]; cbn; [destruct (s0 (Some (c, fst a)) v) as [[x|]|]; cbn; try reflexivity|].
    all: destruct recurse; cbn; try reflexivity.
    all: destruct v as [t i | s | c' fs | xs | t xs | xs | xs | dk kvs | w x | ]; cbn; try reflexivity.
    all: try solve [fin].
    all: try (destruct retain; cbn; unfold obind, bind;
              match goal with |- context [seq_conv ?f ?l] => destruct (seq_conv f l) end; cbn;
              rewrite ?tie_rebuild_collection; solve [fin]).
    all: match goal with |- context [pairs_conv ?e ?fk ?fv ?l] => rewrite (pairs_conv2_ext e _ fk fv) end;
         [solve [fin] | intros a0 b0; solve [fin]].
Qed.

(** ** [astuple] *)
Lemma tie_astuple : forall E rA rN rR rT c vs recurse flt tf retain,
  t_astuple E rA rN (t_rebuild_collection E rA rN rR rT) rT (TSame (VI c vs)) recurse flt (tf_cls tf) retain =
  bind (fields_loop (passes flt)
          (fun _ v => astuple_field E (fun flt' x => rT x true flt' (tf_cls tf) retain) recurse retain flt v)
          (fields_of E c) vs)
       (fun items => Ok (apply_tf tf (map snd items))).
Proof.
  intros E rA rN rR rT c vs recurse flt tf retain. unfold t_astuple.
  cbn [obind bind tv_fields tv_field_values].
  rewrite (loop_fields_list _ (passes flt)
             (fun _ v => astuple_field E (fun flt' x => rT x true flt' (tf_cls tf) retain) recurse retain flt v)).
  - destruct (fields_loop _ _ _ _) as [items|]; cbn; [|reflexivity]. destruct tf; reflexivity.
  - intros l a v. unfold astuple_field, passes.
    destruct flt as [p|]; cbn; [destruct (p a v) as [[|]|]; cbn; try reflexivity|].
    all: destruct recurse; cbn; try reflexivity.
    all: destruct v as [t i | s | c' fs | xs | t xs | xs | xs | dk kvs | w x | ]; cbn; try reflexivity.
    all: try solve [fin].
    all: try (match goal with |- context [seq_conv (astuple_member ?g) ?xs] =>
                rewrite (seq_conv_ext_all _ (astuple_member g))
                  by (intros j; destruct j; solve [fin])
              end;
              destruct retain; cbn; unfold obind, bind;
              match goal with |- context [seq_conv ?f ?l] => destruct (seq_conv f l) end; cbn;
              rewrite ?tie_rebuild_collection; solve [fin]).
    all: destruct retain; cbn.
    all: match goal with |- context [pairs_conv ?e ?fk ?fv ?l] => rewrite (pairs_conv2_ext e _ fk fv) end;
         [solve [fin] | intros a0 b0; destruct a0, b0; solve [fin]].
Qed.

(** ** next-gen wrappers and the defaults of the public signatures *)
Lemma tie_ng_asdict : forall E rN rR rT inst recurse flt ser,
  t_ng_asdict E (asdict_cls E) rN rR rT (TSame inst) recurse flt ser = ng_asdict E recurse flt ser inst.
Proof. reflexivity. Qed.

Lemma tie_ng_astuple : forall E rA rN rR inst recurse flt,
  t_ng_astuple E rA rN rR (astuple_cls E) (TSame inst) recurse flt = ng_astuple E recurse flt inst.
Proof. reflexivity. Qed.

Lemma tie_defaults :
  t_asdict_defaults = (true, None, ClsDict DkD, false, None) /\
  t_astuple_defaults = (true, None, ClsSeq (CfTuple TkT), false).
Proof. split; reflexivity. Qed.

(** ** The model functions are a fixed point of the source's recursion equations:
    running the translated source with the model functions (and the translated
    helper) as callees gives the model functions. *)
Theorem tie_asdict_anything_closed : forall E rA rN rR rT v k flt df retain ser,
  t_asdict_anything E (asdict_cls E) (anything_cls E) (t_rebuild_collection E rA rN rR rT) rT
    (TSame v) k flt (ClsDict df) retain ser
  = asdict_anything E k retain flt df ser v.
Proof.
  intros. rewrite tie_asdict_anything, asdict_anything_unfold. unfold anything_step.
  destruct v; try reflexivity; cbn; destruct (seq_conv _ _); cbn; try reflexivity;
    rewrite tie_rebuild_collection; reflexivity.
Qed.

Lemma fields_loop_ext' {B} keep (c1 c2 : field -> val -> res B) : forall vs fs,
  (forall f v, c1 f v = c2 f v) -> fields_loop keep c1 fs vs = fields_loop keep c2 fs vs.
Proof.
  intros vs fs H. revert fs. induction vs as [|v r IH]; intros fs; [reflexivity|].
  destruct fs as [|f fs']; [reflexivity|]. cbn. now rewrite H, IH.
Qed.

Theorem tie_asdict_closed : forall E rA rN rR rT c vs recurse flt df retain ser,
  t_asdict E (asdict_cls E) (anything_cls E) (t_rebuild_collection E rA rN rR rT) rT
    (TSame (VI c vs)) recurse flt (ClsDict df) retain ser
  = asdict E recurse retain flt df ser (VI c vs).
Proof.
  intros.
  transitivity (t_asdict E (asdict_cls E) (anything_cls E)
                  (t_rebuild_collection E (asdict_cls E) (anything_cls E) rR rT) rT
                  (TSame (VI c vs)) recurse flt (ClsDict df) retain ser).
  { reflexivity. }
  rewrite tie_asdict. unfold asdict, asdict_body.
  rewrite (fields_loop_ext' (passes flt) _
             (asdict_field E (asdict_anything E false retain flt df ser)
                (fun k => asdict_anything E k retain flt df ser) recurse retain df ser c)).
  - reflexivity.
  - intros f v. unfold asdict_field. destruct (ser_apply ser (Some (c, fst f)) v) as [[x|]|]; try reflexivity.
    destruct recurse; [|reflexivity]. destruct v; reflexivity.
Qed.

Theorem tie_astuple_closed : forall E rA rN rR c vs recurse flt tf retain,
  t_astuple E rA rN (t_rebuild_collection E rA rN rR (astuple_cls E)) (astuple_cls E)
    (TSame (VI c vs)) recurse flt (tf_cls tf) retain
  = astuple E recurse retain flt tf (VI c vs).
Proof. intros. rewrite tie_astuple, astuple_unfold. destruct tf; reflexivity. Qed.
