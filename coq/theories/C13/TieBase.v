(** * C13 — semantic helpers for the tie by translation.

    [harness/translate_c13.py] turns the source text of [asdict], [_asdict_anything],
    [_rebuild_collection], [astuple] (and the next-gen wrappers) into Gallina terms over
    the operations below; [C13/Tie.v] proves those terms equal to the model functions.
    Definitions only. *)
From Coq Require Import List Bool Arith String.
Import ListNotations.
From Attrs Require Import C13.Model.

(** A Python value as the code sees it: an input value, or the opaque result of a
    value_serializer call (neither attrs instance nor collection, see Model.v). *)
Inductive tv := TSame (v : val) | TOpaque (r : val).
Definition tv_out (t : tv) : val := match t with TSame v => v | TOpaque r => r end.

(** Class objects: sequence classes, dict classes, anything else. *)
Inductive pycls := ClsSeq (c : ctor) | ClsDict (k : dkind) | ClsOther.
(** The builtin classes the source names. *)
Inductive pyk := KTuple | KList | KSet | KFrozenset | KDict.

Definition cls_of_k (k : pyk) : pycls :=
  match k with
  | KTuple => ClsSeq (CfTuple TkT) | KList => ClsSeq CfList | KSet => ClsSeq CfSet
  | KFrozenset => ClsSeq CfFrozen | KDict => ClsDict DkD
  end.

Definition obind {A B : Type} (c : res A) (k : A -> res B) : res B := bind c k.

(** An iterable handed to a callee: a list, or a generator (its elements are
    computed when it is consumed; once consumed it is empty). *)
Inductive iter := IList (l : list val) | IGen (g : res (list val)).
Definition iter_consume (i : iter) : res (list val) := match i with IList l => Ok l | IGen g => g end.
Definition iter_after (i : iter) : iter := match i with IList l => IList l | IGen _ => IList [] end.

Definition is_some {A : Type} (o : option A) : bool := match o with Some _ => true | None => false end.

(** [has(x.__class__)] and [getattr(x.__class__, "__attrs_attrs__", None) is not None] *)
Definition tv_has (t : tv) : bool := match t with TSame (VI _ _) => true | _ => false end.
(** truthiness of [getattr(x.__class__, "__attrs_attrs__", None)]: a field-less class has [()] *)
Definition tv_attrs_truthy (E : env) (t : tv) : bool :=
  match t with
  | TSame (VI c _) => match fields_of E c with [] => false | _ => true end
  | _ => false
  end.

Definition val_isinstance (v : val) (k : pyk) : bool :=
  match v, k with
  | VT _ _, KTuple | VL _, KList | VS _, KSet | VF _, KFrozenset | VD _ _, KDict => true
  | _, _ => false
  end.
Definition tv_isinstance (t : tv) (ks : list pyk) : bool :=
  match t with TSame v => existsb (val_isinstance v) ks | TOpaque _ => false end.

(** [x.__class__] *)
Definition tv_class (t : tv) : pycls :=
  match t with
  | TSame (VL _) => ClsSeq CfList
  | TSame (VT k _) => ClsSeq (CfTuple k)
  | TSame (VS _) => ClsSeq CfSet
  | TSame (VF _) => ClsSeq CfFrozen
  | TSame (VD k _) => ClsDict k
  | _ => ClsOther
  end.

(** [for i in x] / [x.items()]; an error = not iterable that way *)
Definition tv_members (t : tv) : res (list val) :=
  match t with
  | TSame (VL xs) | TSame (VT _ xs) | TSame (VS xs) | TSame (VF xs) => Ok xs
  | _ => Err ETypeError
  end.
Definition tv_items (t : tv) : res (list (val * val)) :=
  match t with TSame (VD _ kvs) => Ok kvs | _ => Err ETypeError end.

Definition ctor_eqb (a b : ctor) : bool :=
  match a, b with
  | CfList, CfList | CfSet, CfSet | CfFrozen, CfFrozen => true
  | CfTuple x, CfTuple y => tkind_eqb x y
  | _, _ => false
  end.
(** [a is b] for class objects *)
Definition cls_is (a b : pycls) : bool :=
  match a, b with
  | ClsSeq x, ClsSeq y => ctor_eqb x y
  | ClsDict x, ClsDict y => dkind_eqb x y
  | _, _ => false
  end.
(** [issubclass(c, k)] *)
Definition cls_issub (c : pycls) (k : pyk) : bool :=
  match c, k with
  | ClsSeq (CfTuple _), KTuple | ClsSeq CfList, KList | ClsSeq CfSet, KSet
  | ClsSeq CfFrozen, KFrozenset | ClsDict _, KDict => true
  | _, _ => false
  end.
(** [hasattr(c, "_fields")] *)
Definition cls_has_fields (c : pycls) : bool :=
  match c with ClsSeq (CfTuple (TkN _)) => true | _ => false end.

(** [c()], [c(items)], [c( *items )], [c(pairs)] *)
Definition cls_call0 (c : pycls) : res val :=
  match c with
  | ClsDict k => Ok (VD k [])
  | ClsSeq CfList => Ok (VL [])
  | ClsSeq (CfTuple TkT) => Ok (VT TkT [])
  | ClsSeq (CfTuple TkS) => Ok (VT TkS [])
  | _ => Err ETypeError
  end.
(** the argument is consumed (a generator runs now), then the class is called *)
Definition cls_call1 (E : env) (c : pycls) (items : iter) : res val :=
  obind (iter_consume items) (fun l => match c with ClsSeq cf => call1 E cf l | _ => Err ETypeError end).
Definition cls_call_star (E : env) (c : pycls) (items : iter) : res val :=
  obind (iter_consume items) (fun l => match c with ClsSeq cf => call_star E cf l | _ => Err ETypeError end).

(** [((ek, ev) for kk, vv in pairs)] consumed by a dict class: pair by pair, the
    key is hashed when the pair is inserted *)
Definition pairs_conv2 (E : env) (f : val -> val -> res (val * val)) :=
  fix go (kvs : list (val * val)) : res (list (val * val)) :=
    match kvs with
    | [] => Ok []
    | (k, v) :: r =>
        obind (f k v) (fun p =>
        if hashable E (fst p) then obind (go r) (fun r' => Ok (p :: r')) else Err ETypeError)
    end.
Definition cls_call_pairs (E : env) (c : pycls) (src : res (list (val * val)))
    (f : val -> val -> res (val * val)) : res val :=
  match c with
  | ClsDict k => obind src (fun kvs => obind (pairs_conv2 E f kvs) (fun ps => Ok (mk_dict k ps)))
  | _ => Err ETypeError
  end.

(** [d[key] = x] *)
Definition tv_setitem (t : tv) (key x : val) : res tv :=
  match t with
  | TSame (VD k d) => Ok (TSame (VD k (dict_set d key x)))
  | _ => Err ETypeError
  end.

(** [value_serializer(inst, a, v)] / [value_serializer(None, None, v)]; calling [None] raises *)
Definition who_of (inst : tv) (a : field) : who :=
  match inst with TSame (VI c _) => Some (c, fst a) | _ => None end.
Definition ser_call (ser : option ser_fn) (w : who) (t : tv) : res tv :=
  match ser with
  | None => Err ETypeError
  | Some s =>
      match s w (tv_out t) with
      | Err e => Err e
      | Ok (Some r) => Ok (TOpaque r)
      | Ok None => Ok t
      end
  end.
(** [filter(a, v)] *)
Definition flt_call (flt : option filter_fn) (a : field) (t : tv) : res bool :=
  match flt with Some p => p a (tv_out t) | None => Err ETypeError end.

(** [fields(inst.__class__)] and the values [getattr(inst, a.name)] *)
Definition tv_fields (E : env) (inst : tv) : res (list field) :=
  match inst with TSame (VI c _) => Ok (fields_of E c) | _ => Err ETypeError end.
Definition tv_field_values (inst : tv) : list val :=
  match inst with TSame (VI _ vs) => vs | _ => [] end.

(** [for a in attrs: v = getattr(inst, a.name); body] threading one loop-carried variable *)
Definition loop_fields {S : Type} (body : S -> field -> val -> res S) :=
  fix go (fs : list field) (vs : list val) (s : S) {struct vs} : res S :=
    match vs, fs with
    | v :: vs', f :: fs' => obind (body s f v) (go fs' vs')
    | _, _ => Ok s
    end.

(** Signatures of the (open-recursive) callees. *)
Definition T_asdict := val -> bool -> option filter_fn -> pycls -> bool -> option ser_fn -> res val.
Definition T_anything := val -> bool -> option filter_fn -> pycls -> bool -> option ser_fn -> res val.
Definition T_rebuild := pycls -> iter -> res val.
Definition T_astuple := val -> bool -> option filter_fn -> pycls -> bool -> res val.
