(** * C13 — semantic helpers for the tie by translation.

    [harness/translate_c13.py] turns the source text of [asdict], [_asdict_anything],
    [_rebuild_collection], [astuple] (and the next-gen wrappers) into Gallina terms over
    the operations below; [C13/Tie.v] proves those terms equal to the model functions.
    Definitions only. *)
From Coq Require Import List Bool Arith String.
Import ListNotations.
From Attrs Require Import C13.Model.

(** A Python value as the code sees it: an input value, or the opaque result of a
    value_serializer call (neither attrs instance nor collection, see Model.v). *)
Inductive tv := TSame (v : val) | TOpaque (r : val).
Definition tv_out (t : tv) : val := match t with TSame v => v | TOpaque r => r end.

(** Class objects: sequence classes, dict classes, anything else. *)
Inductive pycls := ClsSeq (c : ctor) | ClsDict (k : dkind) | ClsOther.
(** The builtin classes the source names. *)
Inductive pyk := KTuple | KList | KSet | KFrozenset | KDict.

Definition cls_of_k (k : pyk) : pycls :=
  match k with
  | KTuple => ClsSeq (CfTuple TkT) | KList => ClsSeq CfList | KSet => ClsSeq CfSet
  | KFrozenset => ClsSeq CfFrozen | KDict => ClsDict DkD
  end.

Definition obind {A B : Type} (c : option A) (k : A -> option B) : option B :=
  match c with Some x => k x | None => None end.

Definition is_some {A : Type} (o : option A) : bool := match o with Some _ => true | None => false end.

(** [has(x.__class__)] and [getattr(x.__class__, "__attrs_attrs__", None) is not None] *)
Definition tv_has (t : tv) : bool := match t with TSame (VI _ _) => true | _ => false end.
(** truthiness of [getattr(x.__class__, "__attrs_attrs__", None)]: a field-less class has [()] *)
Definition tv_attrs_truthy (E : env) (t : tv) : bool :=
  match t with
  | TSame (VI c _) => match fields_of E c with [] => false | _ => true end
  | _ => false
  end.

Definition val_isinstance (v : val) (k : pyk) : bool :=
  match v, k with
  | VT _ _, KTuple | VL _, KList | VS _, KSet | VF _, KFrozenset | VD _ _, KDict => true
  | _, _ => false
  end.
Definition tv_isinstance (t : tv) (ks : list pyk) : bool :=
  match t with TSame v => existsb (val_isinstance v) ks | TOpaque _ => false end.

(** [x.__class__] *)
Definition tv_class (t : tv) : pycls :=
  match t with
  | TSame (VL _) => ClsSeq CfList
  | TSame (VT k _) => ClsSeq (CfTuple k)
  | TSame (VS _) => ClsSeq CfSet
  | TSame (VF _) => ClsSeq CfFrozen
  | TSame (VD k _) => ClsDict k
  | _ => ClsOther
  end.

(** [for i in x] / [x.items()]; [None] = not iterable that way *)
Definition tv_members (t : tv) : option (list val) :=
  match t with
  | TSame (VL xs) | TSame (VT _ xs) | TSame (VS xs) | TSame (VF xs) => Some xs
  | _ => None
  end.
Definition tv_items (t : tv) : option (list (val * val)) :=
  match t with TSame (VD _ kvs) => Some kvs | _ => None end.

Definition ctor_eqb (a b : ctor) : bool :=
  match a, b with
  | CfList, CfList | CfSet, CfSet | CfFrozen, CfFrozen => true
  | CfTuple x, CfTuple y => tkind_eqb x y
  | _, _ => false
  end.
(** [a is b] for class objects *)
Definition cls_is (a b : pycls) : bool :=
  match a, b with
  | ClsSeq x, ClsSeq y => ctor_eqb x y
  | ClsDict x, ClsDict y => dkind_eqb x y
  | _, _ => false
  end.
(** [issubclass(c, k)] *)
Definition cls_issub (c : pycls) (k : pyk) : bool :=
  match c, k with
  | ClsSeq (CfTuple _), KTuple | ClsSeq CfList, KList | ClsSeq CfSet, KSet
  | ClsSeq CfFrozen, KFrozenset | ClsDict _, KDict => true
  | _, _ => false
  end.
(** [hasattr(c, "_fields")] *)
Definition cls_has_fields (c : pycls) : bool :=
  match c with ClsSeq (CfTuple (TkN _)) => true | _ => false end.

(** [c()], [c(items)], [c( *items )], [c(pairs)] *)
Definition cls_call0 (c : pycls) : option val :=
  match c with
  | ClsDict k => Some (VD k [])
  | ClsSeq CfList => Some (VL [])
  | ClsSeq (CfTuple TkT) => Some (VT TkT [])
  | ClsSeq (CfTuple TkS) => Some (VT TkS [])
  | _ => None
  end.
Definition cls_call1 (E : env) (c : pycls) (items : list val) : option val :=
  match c with ClsSeq cf => call1 E cf items | _ => None end.
Definition cls_call_star (E : env) (c : pycls) (items : list val) : option val :=
  match c with ClsSeq cf => call_star E cf items | _ => None end.
Definition cls_call_pairs (E : env) (c : pycls) (ps : list (val * val)) : option val :=
  match c with ClsDict k => mk_dict E k ps | _ => None end.

(** [d[key] = x] *)
Definition tv_setitem (t : tv) (key x : val) : option tv :=
  match t with
  | TSame (VD k d) => Some (TSame (VD k (dict_set d key x)))
  | _ => None
  end.

(** [value_serializer(inst, a, v)] / [value_serializer(None, None, v)]; calling [None] raises *)
Definition who_of (inst : tv) (a : field) : who :=
  match inst with TSame (VI c _) => Some (c, fst a) | _ => None end.
Definition ser_call (ser : option ser_fn) (w : who) (t : tv) : option tv :=
  match ser with
  | None => None
  | Some s =>
      Some (match s w (tv_out t) with
            | Some r => TOpaque r
            | None => t
            end)
  end.
(** [filter(a, v)] *)
Definition flt_call (flt : option filter_fn) (a : field) (t : tv) : option bool :=
  match flt with Some p => Some (p a (tv_out t)) | None => None end.

(** [fields(inst.__class__)] and the values [getattr(inst, a.name)] *)
Definition tv_fields (E : env) (inst : tv) : option (list field) :=
  match inst with TSame (VI c _) => Some (fields_of E c) | _ => None end.
Definition tv_field_values (inst : tv) : list val :=
  match inst with TSame (VI _ vs) => vs | _ => [] end.

(** [for a in attrs: v = getattr(inst, a.name); body] threading one loop-carried variable *)
Definition loop_fields {S : Type} (body : S -> field -> val -> option S) :=
  fix go (fs : list field) (vs : list val) (s : S) {struct vs} : option S :=
    match vs, fs with
    | v :: vs', f :: fs' =>
        match body s f v with
        | Some s' => go fs' vs' s'
        | None => None
        end
    | _, _ => Some s
    end.

(** [((ek, ev) for kk, vv in pairs)] *)
Definition pairs_conv2 {A B : Type} (f : A -> A -> option (B * B)) :=
  fix go (kvs : list (A * A)) : option (list (B * B)) :=
    match kvs with
    | [] => Some []
    | (k, v) :: r =>
        match f k v, go r with
        | Some p, Some r' => Some (p :: r')
        | _, _ => None
        end
    end.

(** Signatures of the (open-recursive) callees. *)
Definition T_asdict := val -> bool -> option filter_fn -> pycls -> bool -> option ser_fn -> option val.
Definition T_anything := val -> bool -> option filter_fn -> pycls -> bool -> option ser_fn -> option val.
Definition T_rebuild := pycls -> list val -> option val.
Definition T_astuple := val -> bool -> option filter_fn -> pycls -> bool -> option val.
