(** * C13 — correspondence: the check function evaluated by [coqc] on the calls
    the harness made against the real [attr.asdict] / [attr.astuple] /
    [attrs.asdict] / [attrs.astuple]. *)
From Coq Require Import List Bool Arith Ascii String.
Import ListNotations.
From Attrs Require Import Base C13.Model.

(** ** Filters and serializers as data *)

(** [filters.include( *what )] / [exclude( *what )] after [_split_what]: exact
    classes, names, attribute-ids; a hand-written predicate given as a table over
    (field name, exact class of the value); a faulty predicate that raises [e] on
    the table's entries and otherwise behaves like [rest]. *)
Inductive filt :=
| FNo
| FInc (ts : list tytag) (ns : list string) (ids : list nat)
| FExc (ts : list tytag) (ns : list string) (ids : list nat)
| FPred (tbl : list (string * tytag)) (positive : bool)
| FRaise (tbl : list (string * tytag)) (e : exc) (rest : filt).

Definition what_match (ts : list tytag) (ns : list string) (ids : list nat)
    (f : field) (v : val) : bool :=
  existsb (tytag_eqb (type_of v)) ts          (* value.__class__ in cls *)
  || existsb (String.eqb (fst f)) ns          (* attribute.name in names *)
  || existsb (Nat.eqb (snd f)) ids.           (* attribute in attrs *)

Definition in_tbl (tbl : list (string * tytag)) (a : field) (v : val) : bool :=
  existsb (fun e => String.eqb (fst e) (fst a) && tytag_eqb (snd e) (type_of v)) tbl.

Fixpoint filter_of (f : filt) : option filter_fn :=
  match f with
  | FNo => None
  | FInc ts ns ids => Some (fun a v => Ok (what_match ts ns ids a v))
  | FExc ts ns ids => Some (fun a v => Ok (negb (what_match ts ns ids a v)))
  | FPred tbl positive => Some (fun a v => Ok (Bool.eqb positive (in_tbl tbl a v)))
  | FRaise tbl e rest =>
      Some (fun a v => if in_tbl tbl a v then Err e else passes (filter_of rest) a v)
  end.

(** Serializers used by the harness: none; one that wraps every value; one that
    wraps scalars and strings only and returns everything else unchanged; a faulty
    one that raises [e] for values of exact class [ty] and otherwise behaves like
    [base] (returning its argument when [base] is [SNo]). *)
Inductive sermode := SNo | SAll | SLeaf | SFail (ty : tytag) (e : exc) (base : sermode).

Fixpoint ser_of (m : sermode) : option ser_fn :=
  match m with
  | SNo => None
  | SAll => Some (fun w v => Ok (Some (VW w v)))
  | SLeaf => Some (fun w v => Ok (if is_leaf v then Some (VW w v) else None))
  | SFail ty e base =>
      Some (fun w v => if tytag_eqb (type_of v) ty then Err e else ser_apply (ser_of base) w v)
  end.

(** ** Comparison of an observed result with a predicted one: exact classes
    everywhere, insertion order of dicts, sets up to the order of members. *)
Definition who_eqb (a b : who) : bool :=
  match a, b with
  | None, None => true
  | Some (c, s), Some (c', s') => (c =? c') && String.eqb s s'
  | _, _ => false
  end.

Fixpoint val_eqb (a b : val) {struct a} : bool :=
  let seq := fix go (xs ys : list val) {struct xs} : bool :=
               match xs, ys with
               | [], [] => true
               | x :: xs', y :: ys' => val_eqb x y && go xs' ys'
               | _, _ => false
               end in
  let setlike := fun (xs ys : list val) =>
               (List.length xs =? List.length ys) && forallb (fun x => existsb (val_eqb x) ys) xs in
  match a, b with
  | VSc t i, VSc t' i' => (t =? t') && (i =? i')
  | VStr s, VStr s' => String.eqb s s'
  | VI c xs, VI c' ys => (c =? c') && seq xs ys
  | VL xs, VL ys => seq xs ys
  | VT k xs, VT k' ys => tkind_eqb k k' && seq xs ys
  | VS xs, VS ys => setlike xs ys
  | VF xs, VF ys => setlike xs ys
  | VD k kvs, VD k' kvs' =>
      dkind_eqb k k' &&
      (fix go (xs ys : list (val * val)) {struct xs} : bool :=
         match xs, ys with
         | [], [] => true
         | (k1, v1) :: xs', (k2, v2) :: ys' => val_eqb k1 k2 && val_eqb v1 v2 && go xs' ys'
         | _, _ => false
         end) kvs kvs'
  | VW w v, VW w' v' => who_eqb w w' && val_eqb v v'
  | _, _ => false                              (* VAlien equals nothing *)
  end.

Definition exc_eqb (a b : exc) : bool :=
  match a, b with
  | ETypeError, ETypeError => true
  | EUser x, EUser y => x =? y
  | _, _ => false
  end.

Definition res_eqb (a b : res val) : bool :=
  match a, b with
  | Ok x, Ok y => val_eqb x y
  | Err x, Err y => exc_eqb x y
  | _, _ => false
  end.

(** ** Cases *)
Inductive fn := FAsdict | FAstuple | FNgAsdict | FNgAstuple | FRound.
Record case := {
  c_classes : list (list field * bool);   (* per class: fields, hashable-by-value *)
  c_nts : list nat;                       (* arity of each namedtuple class *)
  c_fn : fn;
  c_recurse : bool;
  c_retain : bool;
  c_filter : filt;
  c_df : dkind;
  c_tf : tfk;
  c_ser : sermode;
  c_inst : val;
  c_seen : res val                        (* a value, or the class of the exception that came out *)
}.

Definition env_of (c : case) : env :=
  {| fields_of := fun k => fst (nth k (c_classes c) ([], false));
     cls_hashable := fun k => snd (nth k (c_classes c) ([], false));
     nt_arity := fun n => nth n (c_nts c) 0 |}.

Definition run_faithful (c : case) : res val :=
  let E := env_of c in
  let flt := filter_of (c_filter c) in
  let ser := ser_of (c_ser c) in
  match c_fn c with
  | FAsdict => asdict E (c_recurse c) (c_retain c) flt (c_df c) ser (c_inst c)
  | FAstuple => astuple E (c_recurse c) (c_retain c) flt (c_tf c) (c_inst c)
  | FNgAsdict => ng_asdict E (c_recurse c) flt ser (c_inst c)
  | FNgAstuple => ng_astuple E (c_recurse c) flt (c_inst c)
  | FRound => match c_inst c with VI k vs => roundtrip E k vs | _ => Err ETypeError end
  end.

Definition run_ideal (c : case) : res val :=
  let E := env_of c in
  let flt := filter_of (c_filter c) in
  let ser := ser_of (c_ser c) in
  match c_fn c with
  | FAsdict => asdict_spec E (c_recurse c) (c_retain c) flt (c_df c) ser (c_inst c)
  | FAstuple => astuple_spec E (c_recurse c) (c_retain c) flt (c_tf c) (c_inst c)
  | FNgAsdict => asdict_spec E (c_recurse c) true flt DkD ser (c_inst c)
  | FNgAstuple => astuple_spec E (c_recurse c) true flt TfTuple (c_inst c)
  | FRound => match c_inst c with VI k vs => roundtrip E k vs | _ => Err ETypeError end
  end.

Definition model_of (c : case) : res val * res val := (run_faithful c, run_ideal c).

(** The observation must equal the code-shaped model and the reference
    specification (the two are proved equal on well-formed inputs:
    [asdict_reference], [astuple_reference]). *)
Definition check_case (c : case) : bool :=
  res_eqb (run_faithful c) (c_seen c) && res_eqb (run_ideal c) (c_seen c).

(** Short constructor for case literals: the class/namedtuple tables are bound
    once in the header the harness generates. *)
Definition K := Build_case.
