(** * C13 — asdict / astuple: executable model.

    Mirrors [attr/_funcs.py] ([asdict], [_asdict_anything], [astuple], [has]),
    the [asdict]/[astuple] wrappers of [attr/_next_gen.py] and the filter
    closures of [attr/filters.py], over symbolic Python values.

    Definitions only; proofs are in [C13/Proofs.v]. *)

From Coq Require Import List Bool Arith Ascii String.
Import ListNotations.

(** ** Symbolic Python values *)

(** Exact tuple classes: [tuple], the namedtuple class number [n], a plain
    tuple subclass.  Exact dict classes: [dict], [OrderedDict], a dict subclass. *)
Inductive tkind := TkT | TkN (n : nat) | TkS.
Inductive dkind := DkD | DkO | DkS.

(** [who] of a serializer call: [(class of inst, field name)] or [None, None]. *)
Definition who := option (nat * string).

Inductive val :=
| VSc (ty id : nat)                    (* non-str scalar: type number, identity *)
| VStr (s : string)                    (* a Python str *)
| VI (c : nat) (fs : list val)         (* instance of attrs class [c], field values in field order *)
| VL (xs : list val)                   (* list *)
| VT (k : tkind) (xs : list val)       (* tuple / namedtuple / tuple subclass *)
| VS (xs : list val)                   (* set, members in iteration order *)
| VF (xs : list val)                   (* frozenset, members in iteration order *)
| VD (k : dkind) (kvs : list (val * val))  (* dict / OrderedDict / dict subclass, insertion order *)
| VW (w : who) (v : val)               (* opaque result of value_serializer(inst, a, v) *)
| VAlien.                              (* anything else (never produced by the model) *)

(** [value.__class__] *)
Inductive tytag :=
| TySc (ty : nat) | TyStr | TyI (c : nat) | TyL | TyT (k : tkind) | TyS | TyF
| TyD (k : dkind) | TyW | TyAlien.

Definition type_of (v : val) : tytag :=
  match v with
  | VSc ty _ => TySc ty | VStr _ => TyStr | VI c _ => TyI c | VL _ => TyL
  | VT k _ => TyT k | VS _ => TyS | VF _ => TyF | VD k _ => TyD k
  | VW _ _ => TyW | VAlien => TyAlien
  end.

Definition tkind_eqb (a b : tkind) : bool :=
  match a, b with
  | TkT, TkT | TkS, TkS => true
  | TkN n, TkN m => n =? m
  | _, _ => false
  end.

Definition dkind_eqb (a b : dkind) : bool :=
  match a, b with DkD, DkD | DkO, DkO | DkS, DkS => true | _, _ => false end.

Definition tytag_eqb (a b : tytag) : bool :=
  match a, b with
  | TySc x, TySc y => x =? y
  | TyStr, TyStr | TyL, TyL | TyS, TyS | TyF, TyF | TyW, TyW | TyAlien, TyAlien => true
  | TyI x, TyI y => x =? y
  | TyT x, TyT y => tkind_eqb x y
  | TyD x, TyD y => dkind_eqb x y
  | _, _ => false
  end.

(** The three groups the code distinguishes with [has] / [isinstance]. *)
Definition is_inst (v : val) : bool := match v with VI _ _ => true | _ => false end.
Definition is_seq (v : val) : bool :=
  match v with VL _ | VT _ _ | VS _ | VF _ => true | _ => false end.
Definition is_dict (v : val) : bool := match v with VD _ _ => true | _ => false end.
Definition is_leaf (v : val) : bool := negb (is_inst v || is_seq v || is_dict v).

(** ** Environment: the attrs classes and namedtuple classes in play.
    A field is [(name, attribute-id)]; two fields have the same attribute-id iff
    their [Attribute] objects compare equal (that is what [attribute in attrs]
    of [filters.include/exclude] tests). *)
Definition field := (string * nat)%type.

Record env := {
  fields_of : nat -> list field;     (* fields(cls) *)
  cls_hashable : nat -> bool;        (* instances hash by value (frozen / unsafe_hash); eq is by value *)
  nt_arity : nat -> nat              (* number of fields of namedtuple class n (no defaults) *)
}.

(** ** Outcomes: a value, or an exception that propagates.  [ETypeError] is the
    builtin [TypeError] (raised by hashing, by class calls with the wrong number
    of arguments, and possibly by user callables); [EUser n] any other exception
    class, raised only by user callables. *)
Inductive exc := ETypeError | EUser (n : nat).
Inductive res (A : Type) : Type := Ok (a : A) | Err (e : exc).
Arguments Ok {A} a.
Arguments Err {A} e.

Definition bind {A B : Type} (r : res A) (k : A -> res B) : res B :=
  match r with Ok a => k a | Err e => Err e end.

(** ** Python builtins on these values (oracle layer): hash-ability, [==] on
    hashable values, [set(...)], [d[k] = v], [dict(pairs)], [cf(items)]. *)

Section Builtins.
Variable E : env.

Fixpoint hashable (v : val) : bool :=
  match v with
  | VSc _ _ | VStr _ => true
  | VI c fs => cls_hashable E c && forallb hashable fs
  | VL _ | VS _ | VD _ _ => false
  | VT _ xs => forallb hashable xs
  | VF xs => forallb hashable xs
  | VW _ _ => true                     (* serializer results hash and compare by identity *)
  | VAlien => false
  end.

(** [a == b] for hashable values (identity-compared objects are never equal
    to another object). *)
Fixpoint py_eq (a b : val) {struct a} : bool :=
  match a, b with
  | VSc t i, VSc t' i' => (t =? t') && (i =? i')
  | VStr s, VStr s' => String.eqb s s'
  | VI c xs, VI c' ys =>
      (c =? c') &&
      (fix go (xs ys : list val) {struct xs} : bool :=
         match xs, ys with
         | [], [] => true
         | x :: xs', y :: ys' => py_eq x y && go xs' ys'
         | _, _ => false
         end) xs ys
  | VT _ xs, VT _ ys =>
      (fix go (xs ys : list val) {struct xs} : bool :=
         match xs, ys with
         | [], [] => true
         | x :: xs', y :: ys' => py_eq x y && go xs' ys'
         | _, _ => false
         end) xs ys
  | VF xs, VF ys =>
      (List.length xs =? List.length ys) && forallb (fun x => existsb (py_eq x) ys) xs
  | _, _ => false
  end.

Definition py_mem (x : val) (l : list val) : bool := existsb (fun y => py_eq y x) l.

(** Insertion of [items] into an initially empty set: first occurrence stays. *)
Fixpoint dedup_acc (acc items : list val) : list val :=
  match items with
  | [] => acc
  | x :: r => if py_mem x acc then dedup_acc acc r else dedup_acc (acc ++ [x]) r
  end.

Definition mk_set (items : list val) : res val :=
  if forallb hashable items then Ok (VS (dedup_acc [] items)) else Err ETypeError.
Definition mk_frozen (items : list val) : res val :=
  if forallb hashable items then Ok (VF (dedup_acc [] items)) else Err ETypeError.

(** [d[k] = v]: an equal key keeps its place and its key object. *)
Fixpoint dict_set (d : list (val * val)) (k v : val) : list (val * val) :=
  match d with
  | [] => [(k, v)]
  | (k', v') :: r => if py_eq k' k then (k', v) :: r else (k', v') :: dict_set r k v
  end.

Definition dict_of_pairs (ps : list (val * val)) : list (val * val) :=
  fold_left (fun d p => dict_set d (fst p) (snd p)) ps [].

(** [df(pairs)] for a dict class, once the pairs are there (see [pairs_conv] for
    the hashing of the keys, which happens pair by pair). *)
Definition mk_dict (df : dkind) (ps : list (val * val)) : val := VD df (dict_of_pairs ps).

(** Sequence classes as callables. *)
Inductive ctor := CfList | CfTuple (k : tkind) | CfSet | CfFrozen.

Definition class_of_seq (v : val) : ctor :=
  match v with
  | VT k _ => CfTuple k | VS _ => CfSet | VF _ => CfFrozen | _ => CfList
  end.

(** [cf(items)] with [items] a list object.  A namedtuple class called with one
    positional argument fails unless it has exactly one field, in which case that
    field receives the whole list (not reachable through [rebuild_collection],
    which calls namedtuple classes with [*items]). *)
Definition call1 (cf : ctor) (items : list val) : res val :=
  match cf with
  | CfList => Ok (VL items)
  | CfTuple (TkN n) => if nt_arity E n =? 1 then Ok (VT (TkN n) [VL items]) else Err ETypeError
  | CfTuple k => Ok (VT k items)
  | CfSet => mk_set items
  | CfFrozen => mk_frozen items
  end.

(** What [for x in v] yields for the collections of the model ([None]: treated as not iterable). *)
Definition iter_members (v : val) : option (list val) :=
  match v with
  | VL xs | VT _ xs | VS xs | VF xs => Some xs
  | VD _ kvs => Some (map fst kvs)
  | _ => None
  end.

(** [cf( *items )]: a namedtuple class takes its members; the builtin classes (and a plain tuple
    subclass) take at most one iterable (not reached by [rebuild_collection], which calls them
    with [cf(items)]). *)
Definition call_star (cf : ctor) (items : list val) : res val :=
  match cf with
  | CfTuple (TkN n) =>
      if List.length items =? nt_arity E n then Ok (VT (TkN n) items) else Err ETypeError
  | _ =>
      match items with
      | [] => call1 cf []
      | [x] => match iter_members x with Some ms => call1 cf ms | None => Err ETypeError end
      | _ => Err ETypeError
      end
  end.

Definition is_tuple_class (cf : ctor) : bool :=
  match cf with CfTuple _ => true | _ => false end.

(** [issubclass(cf, tuple) and hasattr(cf, "_fields")] *)
Definition is_namedtuple_class (cf : ctor) : bool :=
  match cf with CfTuple (TkN _) => true | _ => false end.

(** [_funcs._rebuild_collection(cf, items)] on a list [items]:
    namedtuple classes get [cf( *items )]; otherwise
    [try: cf(items) / except TypeError: if not issubclass(cf, tuple): raise / cf( *items )] *)
Definition rebuild_collection (cf : ctor) (items : list val) : res val :=
  if is_namedtuple_class cf then call_star cf items
  else
    match call1 cf items with
    | Ok r => Ok r
    | Err ETypeError => if is_tuple_class cf then call_star cf items else Err ETypeError
    | Err e => Err e
    end.

(** [((fk k, fv v) for k, v in d.items())] consumed by a dict class: the pairs are
    produced and inserted one after the other, so the key of a pair is hashed
    (TypeError when unhashable) before the next pair is converted. *)
Definition pairs_conv (fk fv : val -> res val) :=
  fix go (kvs : list (val * val)) : res (list (val * val)) :=
    match kvs with
    | [] => Ok []
    | kv :: r =>
        match kv with
        | (k, v) =>
            bind (fk k) (fun a =>
            bind (fv v) (fun b =>
            if hashable a then bind (go r) (fun r' => Ok ((a, b) :: r')) else Err ETypeError))
        end
    end.

End Builtins.

(** ** Comprehensions: elements are converted left to right, the first exception wins. *)

Definition seq_conv {A B : Type} (f : A -> res B) :=
  fix go (xs : list A) : res (list B) :=
    match xs with
    | [] => Ok []
    | x :: r => bind (f x) (fun a => bind (go r) (fun r' => Ok (a :: r')))
    end.

(** [for a in fields(cls): v = getattr(inst, a.name); if not keep: continue; ... conv ...]
    — the list of [(a.name, converted value)] in field order. *)
Definition fields_loop {B : Type} (keep : field -> val -> res bool) (conv : field -> val -> res B) :=
  fix go (fs : list field) (vs : list val) {struct vs} : res (list (string * B)) :=
    match vs, fs with
    | v :: vs', f :: fs' =>
        bind (keep f v) (fun b =>
        if b then bind (conv f v) (fun x => bind (go fs' vs') (fun r => Ok ((fst f, x) :: r)))
        else go fs' vs')
    | _, _ => Ok []
    end.

(** ** User callables.
    A filter is any function of the field and the value; it may raise.  A
    value_serializer either returns its argument ([Ok None]), replaces it by a
    value that is neither an attrs instance nor a collection ([Ok (Some r)], treated
    as opaque), or raises. *)
Definition filter_fn := field -> val -> res bool.
Definition ser_fn := who -> val -> res (option val).

Definition passes (flt : option filter_fn) (f : field) (v : val) : res bool :=
  match flt with None => Ok true | Some p => p f v end.

Definition ser_apply (ser : option ser_fn) (w : who) (v : val) : res (option val) :=
  match ser with None => Ok None | Some s => s w v end.

Definition ser_value (ser : option ser_fn) (w : who) (v : val) : res val :=
  match ser_apply ser w v with
  | Ok (Some r) => Ok r
  | Ok None => Ok v
  | Err e => Err e
  end.

Section Funcs.
Variable E : env.

(** ** [attr._funcs.asdict].

    The loop body after the filter test, with the two kinds of recursive calls
    abstracted ([rec_inst v] = [asdict(v, recurse=True, ...same...)],
    [rec_any is_key v] = [_asdict_anything(v, is_key, ...same...)]). *)
Definition asdict_field
    (rec_inst : val -> res val) (rec_any : bool -> val -> res val)
    (recurse retain : bool) (df : dkind) (ser : option ser_fn)
    (c : nat) (f : field) (v : val) : res val :=
  match ser_apply ser (Some (c, fst f)) v with      (* v = value_serializer(inst, a, v) *)
  | Err e => Err e
  | Ok (Some r) => Ok r                             (* opaque: falls to [rv[a.name] = v] *)
  | Ok None =>
      if recurse then
        match v with
        | VI _ _ => rec_inst v                                   (* has(v.__class__) *)
        | VL xs | VT _ xs | VS xs | VF xs =>                     (* isinstance(v, (tuple, list, set, frozenset)) *)
            let cf := if retain then class_of_seq v else CfList in
            bind (seq_conv (rec_any false) xs) (rebuild_collection E cf)
        | VD _ kvs =>                                            (* isinstance(v, dict) *)
            bind (pairs_conv E (rec_any true) (rec_any false) kvs) (fun ps => Ok (mk_dict df ps))
        | _ => Ok v
        end
      else Ok v
  end.

(** [rv = dict_factory()] followed by the assignments [rv[name] = value]. *)
Definition record (df : dkind) (assigns : list (string * val)) : val :=
  VD df (dict_of_pairs (map (fun a => (VStr (fst a), snd a)) assigns)).

Definition asdict_body
    (rec_inst : val -> res val) (rec_any : bool -> val -> res val)
    (recurse retain : bool) (flt : option filter_fn) (df : dkind) (ser : option ser_fn)
    (c : nat) (vs : list val) : res val :=
  bind (fields_loop (passes flt)                   (* if filter is not None and not filter(a, v): continue *)
          (asdict_field rec_inst rec_any recurse retain df ser c)
          (fields_of E c) vs)
       (fun assigns => Ok (record df assigns)).

(** ** [attr._funcs._asdict_anything] *)
Fixpoint asdict_anything (is_key retain : bool) (flt : option filter_fn) (df : dkind)
    (ser : option ser_fn) (v : val) {struct v} : res val :=
  match v with
  | VI c vs =>                                      (* rv = asdict(val, recurse=True, ...) *)
      asdict_body (asdict_anything false retain flt df ser)
                  (fun k => asdict_anything k retain flt df ser)
                  true retain flt df ser c vs
  | VL xs | VT _ xs | VS xs | VF xs =>
      let cf := if retain then class_of_seq v
                else if is_key then CfTuple TkT else CfList in
      (* members of a key stay keys: [is_key=is_key]; the members are converted
         into a list first, then the collection is rebuilt *)
      bind (seq_conv (asdict_anything is_key retain flt df ser) xs) (rebuild_collection E cf)
  | VD _ kvs =>
      bind (pairs_conv E (asdict_anything true retain flt df ser)
                         (asdict_anything false retain flt df ser) kvs)
           (fun ps => Ok (mk_dict df ps))
  | _ => ser_value ser None v                       (* rv = val; value_serializer(None, None, rv) *)
  end.

(** [asdict(inst, recurse, filter, dict_factory, retain_collection_types, value_serializer)].
    On an instance, [_asdict_anything] is by definition this function with
    [recurse=True] (lemma [asdict_anything_inst] in Proofs.v), which is how the
    nested call [asdict(v, recurse=True, ...)] is tied.  ([Err ETypeError] on a
    non-instance stands for NotAnAttrsClassError; never exercised.) *)
Definition asdict (recurse retain : bool) (flt : option filter_fn) (df : dkind)
    (ser : option ser_fn) (inst : val) : res val :=
  match inst with
  | VI c vs =>
      asdict_body (asdict_anything false retain flt df ser)
                  (fun k => asdict_anything k retain flt df ser)
                  recurse retain flt df ser c vs
  | _ => Err ETypeError
  end.

(** ** [attr._funcs.astuple] *)
Inductive tfk := TfTuple | TfList | TfSub.

(** [rv if tuple_factory is list else tuple_factory(rv)] *)
Definition apply_tf (tf : tfk) (rv : list val) : val :=
  match tf with TfTuple => VT TkT rv | TfList => VL rv | TfSub => VT TkS rv end.

(** [astuple(j, ...) if has(j.__class__) else j] *)
Definition astuple_member (rec : val -> res val) (j : val) : res val :=
  match j with VI _ _ => rec j | _ => Ok j end.

(** The loop body after the filter test; [rec flt v] = [astuple(v, recurse=True,
    filter=flt, ...same...)].  The calls in the dict branch pass neither
    [filter] nor [recurse] (so: [None] and the default [True]). *)
Definition astuple_field (rec : option filter_fn -> val -> res val)
    (recurse retain : bool) (flt : option filter_fn) (v : val) : res val :=
  if recurse then
    match v with
    | VI _ _ => rec flt v
    | VL xs | VT _ xs | VS xs | VF xs =>
        let cf := if retain then class_of_seq v else CfList in
        bind (seq_conv (astuple_member (rec flt)) xs) (rebuild_collection E cf)
    | VD k kvs =>
        let df := if retain then k else DkD in
        bind (pairs_conv E (astuple_member (rec None)) (astuple_member (rec None)) kvs)
             (fun ps => Ok (mk_dict df ps))
    | _ => Ok v
    end
  else Ok v.

Fixpoint astuple_rec (retain : bool) (tf : tfk) (recurse : bool) (flt : option filter_fn)
    (inst : val) {struct inst} : res val :=
  match inst with
  | VI c vs =>
      bind (fields_loop (passes flt)
              (fun _ v => astuple_field (astuple_rec retain tf true) recurse retain flt v)
              (fields_of E c) vs)
           (fun items => Ok (apply_tf tf (map snd items)))
  | _ => Err ETypeError
  end.

Definition astuple (recurse retain : bool) (flt : option filter_fn) (tf : tfk)
    (inst : val) : res val :=
  astuple_rec retain tf recurse flt inst.

(** ** [attr._next_gen.asdict / astuple] *)
Definition ng_asdict (recurse : bool) (flt : option filter_fn) (ser : option ser_fn) (inst : val) :=
  asdict recurse true flt DkD ser inst.
Definition ng_astuple (recurse : bool) (flt : option filter_fn) (inst : val) :=
  astuple recurse true flt TfTuple inst.

(** ** Reference specification (independent of the code's shape).

    One generic conversion indexed by the position of the value: a field value,
    a member of a collection / a dict value, or (inside) a dict key.  Namedtuples
    are rebuilt field by field; collections inside a key become tuples at every
    depth; conversions happen left to right and the first exception is the outcome. *)
Inductive pos := PField | PMember | PKey.

Definition all_ok {A : Type} : list (res A) -> res (list A) :=
  fix go l := match l with
              | [] => Ok []
              | Ok a :: r => match go r with Ok r' => Ok (a :: r') | Err e => Err e end
              | Err e :: _ => Err e
              end.

Definition rebuild_spec (retain : bool) (p : pos) (v : val) (items : list val) : res val :=
  if retain then
    match v with
    | VT k _ => Ok (VT k items)
    | VS _ => mk_set E items
    | VF _ => mk_frozen E items
    | _ => Ok (VL items)
    end
  else match p with PKey => Ok (VT TkT items) | _ => Ok (VL items) end.

Definition inner_pos (p : pos) : pos := match p with PKey => PKey | _ => PMember end.

(** a converted (key, value) pair: the key must be hashable *)
Definition pair_spec (a b : res val) : res (val * val) :=
  match a with
  | Err e => Err e
  | Ok a' => match b with
             | Err e => Err e
             | Ok b' => if hashable E a' then Ok (a', b') else Err ETypeError
             end
  end.

Fixpoint conv_spec (retain : bool) (flt : option filter_fn) (df : dkind) (ser : option ser_fn)
    (p : pos) (v : val) {struct v} : res val :=
  match v with
  | VI c vs =>
      match fields_loop (passes flt)
              (fun f x => match ser_apply ser (Some (c, fst f)) x with
                          | Err e => Err e
                          | Ok (Some r) => Ok r
                          | Ok None => conv_spec retain flt df ser PField x
                          end)
              (fields_of E c) vs with
      | Ok items => Ok (VD df (map (fun a => (VStr (fst a), snd a)) items))
      | Err e => Err e
      end
  | VL xs | VT _ xs | VS xs | VF xs =>
      match all_ok (map (conv_spec retain flt df ser (inner_pos p)) xs) with
      | Ok items => rebuild_spec retain p v items
      | Err e => Err e
      end
  | VD _ kvs =>
      match all_ok (map (fun kv => match kv with
                                   | (k, x) => pair_spec (conv_spec retain flt df ser PKey k)
                                                         (conv_spec retain flt df ser PMember x)
                                   end) kvs) with
      | Ok ps => Ok (mk_dict df ps)
      | Err e => Err e
      end
  | _ => match p with PField => Ok v | _ => ser_value ser None v end
  end.

(** What [asdict] should return. *)
Definition asdict_spec (recurse retain : bool) (flt : option filter_fn) (df : dkind)
    (ser : option ser_fn) (inst : val) : res val :=
  match inst with
  | VI c vs =>
      if recurse then conv_spec retain flt df ser PMember inst
      else
        match fields_loop (passes flt) (fun f x => ser_value ser (Some (c, fst f)) x)
                (fields_of E c) vs with
        | Ok items => Ok (VD df (map (fun a => (VStr (fst a), snd a)) items))
        | Err e => Err e
        end
  | _ => Err ETypeError
  end.

(** What [astuple] should return: the filter-passing field values in field
    order, each converted one level deep (a nested instance by its own astuple;
    direct members of a collection / keys and values of a dict likewise when they
    are instances, otherwise left alone). *)
Fixpoint astuple_spec (recurse retain : bool) (flt : option filter_fn) (tf : tfk)
    (inst : val) {struct inst} : res val :=
  match inst with
  | VI c vs =>
      match
        fields_loop (passes flt)
           (fun f v =>
              if negb recurse then Ok v else
              match v with
              | VI _ _ => astuple_spec true retain flt tf v
              | VL xs | VT _ xs | VS xs | VF xs =>
                  match all_ok (map (fun j => match j with
                                              | VI _ _ => astuple_spec true retain flt tf j
                                              | _ => Ok j
                                              end) xs) with
                  | Ok items => rebuild_spec retain PMember v items
                  | Err e => Err e
                  end
              | VD k kvs =>
                  match all_ok (map (fun kv =>
                           match kv with
                           | (a, b) =>
                               pair_spec
                                 (match a with VI _ _ => astuple_spec true retain None tf a | _ => Ok a end)
                                 (match b with VI _ _ => astuple_spec true retain None tf b | _ => Ok b end)
                           end) kvs) with
                  | Ok ps => Ok (mk_dict (if retain then k else DkD) ps)
                  | Err e => Err e
                  end
              | _ => Ok v
              end)
           (fields_of E c) vs
      with
      | Ok items => Ok (apply_tf tf (map snd items))
      | Err e => Err e
      end
  | _ => Err ETypeError
  end.

(** ** Construction [C( **kwargs )] for classes without defaults, converters or
    validators: every keyword is assigned to the field whose init alias
    ([name.lstrip("_")]) it is; missing or unexpected keywords are a TypeError. *)
Fixpoint lstrip_us (s : string) : string :=
  match s with
  | String c r => if Ascii.eqb c "_"%char then lstrip_us r else s
  | EmptyString => s
  end.

Fixpoint lookup_kw (k : string) (kws : list (val * val)) : option val :=
  match kws with
  | [] => None
  | (VStr s, v) :: r => if String.eqb s k then Some v else lookup_kw k r
  | _ :: r => lookup_kw k r
  end.

Definition kw_expected (c : nat) (kv : val * val) : bool :=
  match fst kv with
  | VStr s => existsb (fun f => String.eqb (lstrip_us (fst f)) s) (fields_of E c)
  | _ => false
  end.

Definition all_some {A : Type} : list (option A) -> option (list A) :=
  fix go l := match l with
              | [] => Some []
              | Some a :: r => option_map (cons a) (go r)
              | None :: _ => None
              end.

Definition construct (c : nat) (kws : list (val * val)) : res val :=
  if forallb (kw_expected c) kws then
    match all_some (map (fun f => lookup_kw (lstrip_us (fst f)) kws) (fields_of E c)) with
    | Some vs => Ok (VI c vs)
    | None => Err ETypeError
    end
  else Err ETypeError.

Definition roundtrip (c : nat) (vs : list val) : res val :=
  match asdict true false None DkD None (VI c vs) with
  | Ok (VD _ items) => construct c items
  | Ok _ => Err ETypeError
  | Err e => Err e
  end.

End Funcs.
