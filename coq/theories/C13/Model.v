(** * C13 — asdict / astuple: executable model.

    Mirrors [attr/_funcs.py] ([asdict], [_asdict_anything], [astuple], [has]),
    the [asdict]/[astuple] wrappers of [attr/_next_gen.py] and the filter
    closures of [attr/filters.py], over symbolic Python values.

    Definitions only; proofs are in [C13/Proofs.v]. *)

From Coq Require Import List Bool Arith Ascii String.
Import ListNotations.

(** ** Symbolic Python values *)

(** Exact tuple classes: [tuple], the namedtuple class number [n], a plain
    tuple subclass.  Exact dict classes: [dict], [OrderedDict], a dict subclass. *)
Inductive tkind := TkT | TkN (n : nat) | TkS.
Inductive dkind := DkD | DkO | DkS.

(** [who] of a serializer call: [(class of inst, field name)] or [None, None]. *)
Definition who := option (nat * string).

Inductive val :=
| VSc (ty id : nat)                    (* non-str scalar: type number, identity *)
| VStr (s : string)                    (* a Python str *)
| VI (c : nat) (fs : list val)         (* instance of attrs class [c], field values in field order *)
| VL (xs : list val)                   (* list *)
| VT (k : tkind) (xs : list val)       (* tuple / namedtuple / tuple subclass *)
| VS (xs : list val)                   (* set, members in iteration order *)
| VF (xs : list val)                   (* frozenset, members in iteration order *)
| VD (k : dkind) (kvs : list (val * val))  (* dict / OrderedDict / dict subclass, insertion order *)
| VW (w : who) (v : val)               (* opaque result of value_serializer(inst, a, v) *)
| VAlien.                              (* anything else (never produced by the model) *)

(** [value.__class__] *)
Inductive tytag :=
| TySc (ty : nat) | TyStr | TyI (c : nat) | TyL | TyT (k : tkind) | TyS | TyF
| TyD (k : dkind) | TyW | TyAlien.

Definition type_of (v : val) : tytag :=
  match v with
  | VSc ty _ => TySc ty | VStr _ => TyStr | VI c _ => TyI c | VL _ => TyL
  | VT k _ => TyT k | VS _ => TyS | VF _ => TyF | VD k _ => TyD k
  | VW _ _ => TyW | VAlien => TyAlien
  end.

Definition tkind_eqb (a b : tkind) : bool :=
  match a, b with
  | TkT, TkT | TkS, TkS => true
  | TkN n, TkN m => n =? m
  | _, _ => false
  end.

Definition dkind_eqb (a b : dkind) : bool :=
  match a, b with DkD, DkD | DkO, DkO | DkS, DkS => true | _, _ => false end.

Definition tytag_eqb (a b : tytag) : bool :=
  match a, b with
  | TySc x, TySc y => x =? y
  | TyStr, TyStr | TyL, TyL | TyS, TyS | TyF, TyF | TyW, TyW | TyAlien, TyAlien => true
  | TyI x, TyI y => x =? y
  | TyT x, TyT y => tkind_eqb x y
  | TyD x, TyD y => dkind_eqb x y
  | _, _ => false
  end.

(** The three groups the code distinguishes with [has] / [isinstance]. *)
Definition is_inst (v : val) : bool := match v with VI _ _ => true | _ => false end.
Definition is_seq (v : val) : bool :=
  match v with VL _ | VT _ _ | VS _ | VF _ => true | _ => false end.
Definition is_dict (v : val) : bool := match v with VD _ _ => true | _ => false end.
Definition is_leaf (v : val) : bool := negb (is_inst v || is_seq v || is_dict v).

(** ** Environment: the attrs classes and namedtuple classes in play.
    A field is [(name, attribute-id)]; two fields have the same attribute-id iff
    their [Attribute] objects compare equal (that is what [attribute in attrs]
    of [filters.include/exclude] tests). *)
Definition field := (string * nat)%type.

Record env := {
  fields_of : nat -> list field;     (* fields(cls) *)
  cls_hashable : nat -> bool;        (* instances hash by value (frozen / unsafe_hash); eq is by value *)
  nt_arity : nat -> nat              (* number of fields of namedtuple class n (no defaults) *)
}.

(** ** Python builtins on these values (oracle layer): hash-ability, [==] on
    hashable values, [set(...)], [d[k] = v], [dict(pairs)], [cf(items)]. *)

Section Builtins.
Variable E : env.

Fixpoint hashable (v : val) : bool :=
  match v with
  | VSc _ _ | VStr _ => true
  | VI c fs => cls_hashable E c && forallb hashable fs
  | VL _ | VS _ | VD _ _ => false
  | VT _ xs => forallb hashable xs
  | VF xs => forallb hashable xs
  | VW _ _ => true                     (* serializer results hash and compare by identity *)
  | VAlien => false
  end.

(** [a == b] for hashable values (identity-compared objects are never equal
    to another object). *)
Fixpoint py_eq (a b : val) {struct a} : bool :=
  match a, b with
  | VSc t i, VSc t' i' => (t =? t') && (i =? i')
  | VStr s, VStr s' => String.eqb s s'
  | VI c xs, VI c' ys =>
      (c =? c') &&
      (fix go (xs ys : list val) {struct xs} : bool :=
         match xs, ys with
         | [], [] => true
         | x :: xs', y :: ys' => py_eq x y && go xs' ys'
         | _, _ => false
         end) xs ys
  | VT _ xs, VT _ ys =>
      (fix go (xs ys : list val) {struct xs} : bool :=
         match xs, ys with
         | [], [] => true
         | x :: xs', y :: ys' => py_eq x y && go xs' ys'
         | _, _ => false
         end) xs ys
  | VF xs, VF ys =>
      (List.length xs =? List.length ys) && forallb (fun x => existsb (py_eq x) ys) xs
  | _, _ => false
  end.

Definition py_mem (x : val) (l : list val) : bool := existsb (fun y => py_eq y x) l.

(** Insertion of [items] into an initially empty set: first occurrence stays. *)
Fixpoint dedup_acc (acc items : list val) : list val :=
  match items with
  | [] => acc
  | x :: r => if py_mem x acc then dedup_acc acc r else dedup_acc (acc ++ [x]) r
  end.

Definition mk_set (items : list val) : option val :=
  if forallb hashable items then Some (VS (dedup_acc [] items)) else None.
Definition mk_frozen (items : list val) : option val :=
  if forallb hashable items then Some (VF (dedup_acc [] items)) else None.

(** [d[k] = v]: an equal key keeps its place and its key object. *)
Fixpoint dict_set (d : list (val * val)) (k v : val) : list (val * val) :=
  match d with
  | [] => [(k, v)]
  | (k', v') :: r => if py_eq k' k then (k', v) :: r else (k', v') :: dict_set r k v
  end.

Definition dict_of_pairs (ps : list (val * val)) : list (val * val) :=
  fold_left (fun d p => dict_set d (fst p) (snd p)) ps [].

(** [df(pairs)] for a dict class; [None] = TypeError (unhashable key). *)
Definition mk_dict (df : dkind) (ps : list (val * val)) : option val :=
  if forallb (fun p => hashable (fst p)) ps then Some (VD df (dict_of_pairs ps)) else None.

(** Sequence classes as callables. *)
Inductive ctor := CfList | CfTuple (k : tkind) | CfSet | CfFrozen.

Definition class_of_seq (v : val) : ctor :=
  match v with
  | VT k _ => CfTuple k | VS _ => CfSet | VF _ => CfFrozen | _ => CfList
  end.

(** [cf(items)] with [items] a list object; [None] = TypeError.  A namedtuple
    class called with one positional argument fails unless it has exactly one
    field, in which case that field receives the whole list (not reachable
    through [rebuild_collection], which calls namedtuple classes with [*items]). *)
Definition call1 (cf : ctor) (items : list val) : option val :=
  match cf with
  | CfList => Some (VL items)
  | CfTuple (TkN n) => if nt_arity E n =? 1 then Some (VT (TkN n) [VL items]) else None
  | CfTuple k => Some (VT k items)
  | CfSet => mk_set items
  | CfFrozen => mk_frozen items
  end.

(** What [for x in v] yields for the collections of the model ([None]: treated as not iterable). *)
Definition iter_members (v : val) : option (list val) :=
  match v with
  | VL xs | VT _ xs | VS xs | VF xs => Some xs
  | VD _ kvs => Some (map fst kvs)
  | _ => None
  end.

(** [cf( *items )]: a namedtuple class takes its members; the builtin classes (and a plain tuple
    subclass) take at most one iterable (not reached by [rebuild_collection], which calls them
    with [cf(items)]). *)
Definition call_star (cf : ctor) (items : list val) : option val :=
  match cf with
  | CfTuple (TkN n) => if List.length items =? nt_arity E n then Some (VT (TkN n) items) else None
  | _ =>
      match items with
      | [] => call1 cf []
      | [x] => match iter_members x with Some ms => call1 cf ms | None => None end
      | _ => None
      end
  end.

Definition is_tuple_class (cf : ctor) : bool :=
  match cf with CfTuple _ => true | _ => false end.

(** [issubclass(cf, tuple) and hasattr(cf, "_fields")] *)
Definition is_namedtuple_class (cf : ctor) : bool :=
  match cf with CfTuple (TkN _) => true | _ => false end.

(** [_funcs._rebuild_collection(cf, items)]:
    namedtuple classes get [cf( *items )]; otherwise
    [try: cf(items) / except TypeError: if not issubclass(cf, tuple): raise / cf( *items )] *)
Definition rebuild_collection (cf : ctor) (items : list val) : option val :=
  if is_namedtuple_class cf then call_star cf items
  else
    match call1 cf items with
    | Some r => Some r
    | None => if is_tuple_class cf then call_star cf items else None
    end.

End Builtins.

(** ** Comprehensions ([None] = an element raised). *)

Definition seq_conv {A B : Type} (f : A -> option B) :=
  fix go (xs : list A) : option (list B) :=
    match xs with
    | [] => Some []
    | x :: r => match f x, go r with
                | Some a, Some r' => Some (a :: r')
                | _, _ => None
                end
    end.

Definition pairs_conv {A B : Type} (fk fv : A -> option B) :=
  fix go (kvs : list (A * A)) : option (list (B * B)) :=
    match kvs with
    | [] => Some []
    | kv :: r =>
        match kv with
        | (k, v) => match fk k, fv v, go r with
                    | Some a, Some b, Some r' => Some ((a, b) :: r')
                    | _, _, _ => None
                    end
        end
    end.

(** [for a in fields(cls): v = getattr(inst, a.name); if not keep: continue; ... conv ...]
    — the list of [(a.name, converted value)] in field order. *)
Definition fields_loop {B : Type} (keep : field -> val -> bool) (conv : field -> val -> option B) :=
  fix go (fs : list field) (vs : list val) {struct vs} : option (list (string * B)) :=
    match vs, fs with
    | v :: vs', f :: fs' =>
        if keep f v then
          match conv f v, go fs' vs' with
          | Some x, Some r => Some ((fst f, x) :: r)
          | _, _ => None
          end
        else go fs' vs'
    | _, _ => Some []
    end.

(** ** User callables.
    A filter is any function of the field and the value.  A value_serializer
    either returns its argument ([None]) or replaces it by a value that is
    neither an attrs instance nor a collection ([Some r], treated as opaque). *)
Definition filter_fn := field -> val -> bool.
Definition ser_fn := who -> val -> option val.

Definition passes (flt : option filter_fn) (f : field) (v : val) : bool :=
  match flt with None => true | Some p => p f v end.

Definition ser_apply (ser : option ser_fn) (w : who) (v : val) : option val :=
  match ser with None => None | Some s => s w v end.

Definition ser_value (ser : option ser_fn) (w : who) (v : val) : val :=
  match ser_apply ser w v with Some r => r | None => v end.

Section Funcs.
Variable E : env.

(** ** [attr._funcs.asdict].

    The loop body after the filter test, with the two kinds of recursive calls
    abstracted ([rec_inst v] = [asdict(v, recurse=True, ...same...)],
    [rec_any is_key v] = [_asdict_anything(v, is_key, ...same...)]). *)
Definition asdict_field
    (rec_inst : val -> option val) (rec_any : bool -> val -> option val)
    (recurse retain : bool) (df : dkind) (ser : option ser_fn)
    (c : nat) (f : field) (v : val) : option val :=
  match ser_apply ser (Some (c, fst f)) v with      (* v = value_serializer(inst, a, v) *)
  | Some r => Some r                                (* opaque: falls to [rv[a.name] = v] *)
  | None =>
      if recurse then
        match v with
        | VI _ _ => rec_inst v                                   (* has(v.__class__) *)
        | VL xs | VT _ xs | VS xs | VF xs =>                     (* isinstance(v, (tuple, list, set, frozenset)) *)
            let cf := if retain then class_of_seq v else CfList in
            match seq_conv (rec_any false) xs with
            | Some items => rebuild_collection E cf items
            | None => None
            end
        | VD _ kvs =>                                            (* isinstance(v, dict) *)
            match pairs_conv (rec_any true) (rec_any false) kvs with
            | Some ps => mk_dict E df ps
            | None => None
            end
        | _ => Some v
        end
      else Some v
  end.

(** [rv = dict_factory()] followed by the assignments [rv[name] = value]. *)
Definition record (df : dkind) (assigns : list (string * val)) : val :=
  VD df (dict_of_pairs (map (fun a => (VStr (fst a), snd a)) assigns)).

Definition asdict_body
    (rec_inst : val -> option val) (rec_any : bool -> val -> option val)
    (recurse retain : bool) (flt : option filter_fn) (df : dkind) (ser : option ser_fn)
    (c : nat) (vs : list val) : option val :=
  match
    fields_loop (passes flt)                       (* if filter is not None and not filter(a, v): continue *)
      (asdict_field rec_inst rec_any recurse retain df ser c)
      (fields_of E c) vs
  with
  | Some assigns => Some (record df assigns)
  | None => None
  end.

(** ** [attr._funcs._asdict_anything] *)
Fixpoint asdict_anything (is_key retain : bool) (flt : option filter_fn) (df : dkind)
    (ser : option ser_fn) (v : val) {struct v} : option val :=
  match v with
  | VI c vs =>                                      (* rv = asdict(val, recurse=True, ...) *)
      asdict_body (asdict_anything false retain flt df ser)
                  (fun k => asdict_anything k retain flt df ser)
                  true retain flt df ser c vs
  | VL xs | VT _ xs | VS xs | VF xs =>
      let cf := if retain then class_of_seq v
                else if is_key then CfTuple TkT else CfList in
      (* members of a key stay keys: [is_key=is_key] *)
      match seq_conv (asdict_anything is_key retain flt df ser) xs with
      | Some items => rebuild_collection E cf items
      | None => None
      end
  | VD _ kvs =>
      match pairs_conv (asdict_anything true retain flt df ser)
                       (asdict_anything false retain flt df ser) kvs with
      | Some ps => mk_dict E df ps
      | None => None
      end
  | _ => Some (ser_value ser None v)                (* rv = val; value_serializer(None, None, rv) *)
  end.

(** [asdict(inst, recurse, filter, dict_factory, retain_collection_types, value_serializer)].
    On an instance, [_asdict_anything] is by definition this function with
    [recurse=True] (lemma [asdict_anything_inst] in Proofs.v), which is how the
    nested call [asdict(v, recurse=True, ...)] is tied. *)
Definition asdict (recurse retain : bool) (flt : option filter_fn) (df : dkind)
    (ser : option ser_fn) (inst : val) : option val :=
  match inst with
  | VI c vs =>
      asdict_body (asdict_anything false retain flt df ser)
                  (fun k => asdict_anything k retain flt df ser)
                  recurse retain flt df ser c vs
  | _ => None
  end.

(** ** [attr._funcs.astuple] *)
Inductive tfk := TfTuple | TfList | TfSub.

(** [rv if tuple_factory is list else tuple_factory(rv)] *)
Definition apply_tf (tf : tfk) (rv : list val) : val :=
  match tf with TfTuple => VT TkT rv | TfList => VL rv | TfSub => VT TkS rv end.

(** [astuple(j, ...) if has(j.__class__) else j] *)
Definition astuple_member (rec : val -> option val) (j : val) : option val :=
  match j with VI _ _ => rec j | _ => Some j end.

(** The loop body after the filter test; [rec flt v] = [astuple(v, recurse=True,
    filter=flt, ...same...)].  The calls in the dict branch pass neither
    [filter] nor [recurse] (so: [None] and the default [True]). *)
Definition astuple_field (rec : option filter_fn -> val -> option val)
    (recurse retain : bool) (flt : option filter_fn) (v : val) : option val :=
  if recurse then
    match v with
    | VI _ _ => rec flt v
    | VL xs | VT _ xs | VS xs | VF xs =>
        let cf := if retain then class_of_seq v else CfList in
        match seq_conv (astuple_member (rec flt)) xs with
        | Some items => rebuild_collection E cf items
        | None => None
        end
    | VD k kvs =>
        let df := if retain then k else DkD in
        match pairs_conv (astuple_member (rec None)) (astuple_member (rec None)) kvs with
        | Some ps => mk_dict E df ps
        | None => None
        end
    | _ => Some v
    end
  else Some v.

Fixpoint astuple_rec (retain : bool) (tf : tfk) (recurse : bool) (flt : option filter_fn)
    (inst : val) {struct inst} : option val :=
  match inst with
  | VI c vs =>
      match
        fields_loop (passes flt)
          (fun _ v => astuple_field (astuple_rec retain tf true) recurse retain flt v)
          (fields_of E c) vs
      with
      | Some items => Some (apply_tf tf (map snd items))
      | None => None
      end
  | _ => None
  end.

Definition astuple (recurse retain : bool) (flt : option filter_fn) (tf : tfk)
    (inst : val) : option val :=
  astuple_rec retain tf recurse flt inst.

(** ** [attr._next_gen.asdict / astuple] *)
Definition ng_asdict (recurse : bool) (flt : option filter_fn) (ser : option ser_fn) (inst : val) :=
  asdict recurse true flt DkD ser inst.
Definition ng_astuple (recurse : bool) (flt : option filter_fn) (inst : val) :=
  astuple recurse true flt TfTuple inst.

(** ** Reference specification (independent of the code's shape).

    One generic conversion indexed by the position of the value: a field value,
    a member of a collection / a dict value, or (inside) a dict key.  Namedtuples
    are rebuilt field by field; collections inside a key become tuples at every
    depth. *)
Inductive pos := PField | PMember | PKey.

Definition all_some {A : Type} : list (option A) -> option (list A) :=
  fix go l := match l with
              | [] => Some []
              | Some a :: r => option_map (cons a) (go r)
              | None :: _ => None
              end.

Definition rebuild_spec (retain : bool) (p : pos) (v : val) (items : list val) : option val :=
  if retain then
    match v with
    | VT k _ => Some (VT k items)
    | VS _ => mk_set E items
    | VF _ => mk_frozen E items
    | _ => Some (VL items)
    end
  else match p with PKey => Some (VT TkT items) | _ => Some (VL items) end.

Definition inner_pos (p : pos) : pos := match p with PKey => PKey | _ => PMember end.

Fixpoint conv_spec (retain : bool) (flt : option filter_fn) (df : dkind) (ser : option ser_fn)
    (p : pos) (v : val) {struct v} : option val :=
  match v with
  | VI c vs =>
      option_map (fun items => VD df (map (fun a => (VStr (fst a), snd a)) items))
        (fields_loop (passes flt)
           (fun f x => match ser_apply ser (Some (c, fst f)) x with
                       | Some r => Some r
                       | None => conv_spec retain flt df ser PField x
                       end)
           (fields_of E c) vs)
  | VL xs | VT _ xs | VS xs | VF xs =>
      match all_some (map (conv_spec retain flt df ser (inner_pos p)) xs) with
      | Some items => rebuild_spec retain p v items
      | None => None
      end
  | VD _ kvs =>
      match all_some (map (fun kv => match kv with
                                     | (k, x) =>
                                         match conv_spec retain flt df ser PKey k,
                                               conv_spec retain flt df ser PMember x with
                                         | Some a, Some b => Some (a, b)
                                         | _, _ => None
                                         end
                                     end) kvs) with
      | Some ps => mk_dict E df ps
      | None => None
      end
  | _ => Some (match p with PField => v | _ => ser_value ser None v end)
  end.

(** What [asdict] should return. *)
Definition asdict_spec (recurse retain : bool) (flt : option filter_fn) (df : dkind)
    (ser : option ser_fn) (inst : val) : option val :=
  match inst with
  | VI c vs =>
      if recurse then conv_spec retain flt df ser PMember inst
      else
        option_map (fun items => VD df (map (fun a => (VStr (fst a), snd a)) items))
          (fields_loop (passes flt) (fun f x => Some (ser_value ser (Some (c, fst f)) x))
             (fields_of E c) vs)
  | _ => None
  end.

(** What [astuple] should return: the filter-passing field values in field
    order, each converted one level deep (a nested instance by its own astuple;
    direct members of a collection / keys and values of a dict likewise when they
    are instances, otherwise left alone). *)
Fixpoint astuple_spec (recurse retain : bool) (flt : option filter_fn) (tf : tfk)
    (inst : val) {struct inst} : option val :=
  match inst with
  | VI c vs =>
      option_map (fun items => apply_tf tf (map snd items))
        (fields_loop (passes flt)
           (fun f v =>
              if negb recurse then Some v else
              match v with
              | VI _ _ => astuple_spec true retain flt tf v
              | VL xs | VT _ xs | VS xs | VF xs =>
                  match all_some (map (fun j => match j with
                                                | VI _ _ => astuple_spec true retain flt tf j
                                                | _ => Some j
                                                end) xs) with
                  | Some items => rebuild_spec retain PMember v items
                  | None => None
                  end
              | VD k kvs =>
                  match all_some (map (fun kv =>
                           match kv with
                           | (a, b) =>
                               match (match a with VI _ _ => astuple_spec true retain None tf a | _ => Some a end),
                                     (match b with VI _ _ => astuple_spec true retain None tf b | _ => Some b end) with
                               | Some a', Some b' => Some (a', b')
                               | _, _ => None
                               end
                           end) kvs) with
                  | Some ps => mk_dict E (if retain then k else DkD) ps
                  | None => None
                  end
              | _ => Some v
              end)
           (fields_of E c) vs)
  | _ => None
  end.

(** ** Construction [C( **kwargs )] for classes without defaults, converters or
    validators: every keyword is assigned to the field whose init alias
    ([name.lstrip("_")]) it is; missing or unexpected keywords are a TypeError. *)
Fixpoint lstrip_us (s : string) : string :=
  match s with
  | String c r => if Ascii.eqb c "_"%char then lstrip_us r else s
  | EmptyString => s
  end.

Fixpoint lookup_kw (k : string) (kws : list (val * val)) : option val :=
  match kws with
  | [] => None
  | (VStr s, v) :: r => if String.eqb s k then Some v else lookup_kw k r
  | _ :: r => lookup_kw k r
  end.

Definition kw_expected (c : nat) (kv : val * val) : bool :=
  match fst kv with
  | VStr s => existsb (fun f => String.eqb (lstrip_us (fst f)) s) (fields_of E c)
  | _ => false
  end.

Definition construct (c : nat) (kws : list (val * val)) : option val :=
  if forallb (kw_expected c) kws then
    option_map (VI c)
      (all_some (map (fun f => lookup_kw (lstrip_us (fst f)) kws) (fields_of E c)))
  else None.

Definition roundtrip (c : nat) (vs : list val) : option val :=
  match asdict true false None DkD None (VI c vs) with
  | Some (VD _ items) => construct c items
  | _ => None
  end.

End Funcs.
