(** * C13 — proofs about the asdict / astuple model. *)

From Coq Require Import List Bool Arith Ascii String Lia.
Import ListNotations.
From Attrs Require Import C13.Model.

(** ** A nested induction principle for [val]. *)
Fixpoint val_ind' (P : val -> Prop)
  (Hsc : forall t i, P (VSc t i)) (Hstr : forall s, P (VStr s))
  (Hi : forall c fs, Forall P fs -> P (VI c fs))
  (Hl : forall xs, Forall P xs -> P (VL xs))
  (Ht : forall k xs, Forall P xs -> P (VT k xs))
  (Hs : forall xs, Forall P xs -> P (VS xs))
  (Hf : forall xs, Forall P xs -> P (VF xs))
  (Hd : forall k kvs, Forall (fun kv => P (fst kv) /\ P (snd kv)) kvs -> P (VD k kvs))
  (Hw : forall w v, P v -> P (VW w v))
  (Ha : P VAlien) (v : val) {struct v} : P v :=
  let rec := val_ind' P Hsc Hstr Hi Hl Ht Hs Hf Hd Hw Ha in
  let all := fix go (xs : list val) : Forall P xs :=
               match xs with
               | [] => Forall_nil P
               | x :: r => Forall_cons x (rec x) (go r)
               end in
  match v with
  | VSc t i => Hsc t i
  | VStr s => Hstr s
  | VI c fs => Hi c fs (all fs)
  | VL xs => Hl xs (all xs)
  | VT k xs => Ht k xs (all xs)
  | VS xs => Hs xs (all xs)
  | VF xs => Hf xs (all xs)
  | VD k kvs =>
      Hd k kvs ((fix go (l : list (val * val)) : Forall (fun kv => P (fst kv) /\ P (snd kv)) l :=
                   match l with
                   | [] => Forall_nil _
                   | kv :: r =>
                       Forall_cons kv
                         (match kv as p return P (fst p) /\ P (snd p) with
                          | (a, b) => conj (rec a) (rec b)
                          end) (go r)
                   end) kvs)
  | VW w x => Hw w x (rec x)
  | VAlien => Ha
  end.

(** ** Comprehension lemmas *)

Lemma seq_conv_all_ok {A B} (f : A -> res B) : forall xs,
  seq_conv f xs = all_ok (map f xs).
Proof.
  induction xs as [|x r IH]; cbn; [reflexivity|].
  rewrite IH. destruct (f x); cbn; [|reflexivity]. destruct (all_ok (map f r)); reflexivity.
Qed.

Lemma pairs_conv_all_ok E (fk fv : val -> res val) : forall kvs,
  pairs_conv E fk fv kvs =
  all_ok (map (fun kv => match kv with (k, x) => pair_spec E (fk k) (fv x) end) kvs).
Proof.
  induction kvs as [|[k x] r IH]; cbn; [reflexivity|].
  rewrite IH. unfold pair_spec. destruct (fk k); cbn; [|reflexivity]. destruct (fv x); cbn; [|reflexivity].
  destruct (hashable E a); [|reflexivity]. destruct (all_ok _); reflexivity.
Qed.

Lemma seq_conv_ext {A B} (f g : A -> res B) : forall xs,
  Forall (fun x => f x = g x) xs -> seq_conv f xs = seq_conv g xs.
Proof.
  induction xs as [|x r IH]; intros H; cbn; [reflexivity|].
  inversion H as [|? ? Hx Hr]; subst. rewrite Hx, (IH Hr). reflexivity.
Qed.

Lemma pairs_conv_ext E (fk gk fv gv : val -> res val) : forall kvs,
  Forall (fun kv => fk (fst kv) = gk (fst kv) /\ fv (snd kv) = gv (snd kv)) kvs ->
  pairs_conv E fk fv kvs = pairs_conv E gk gv kvs.
Proof.
  induction kvs as [|[k x] r IH]; intros H; cbn; [reflexivity|].
  inversion H as [|? ? [Hk Hx] Hr]; subst. cbn in Hk, Hx. rewrite Hk, Hx, (IH Hr). reflexivity.
Qed.

Lemma seq_conv_length {A B} (f : A -> res B) : forall xs items,
  seq_conv f xs = Ok items -> List.length items = List.length xs.
Proof.
  induction xs as [|x r IH]; cbn; intros items H.
  - inversion H; reflexivity.
  - destruct (f x); [|discriminate]. cbn in H. destruct (seq_conv f r) eqn:E; [|discriminate].
    inversion H; subst; cbn. f_equal. now apply IH.
Qed.

Lemma seq_conv_Forall2 {A B} (f : A -> res B) : forall xs items,
  seq_conv f xs = Ok items -> Forall2 (fun x y => f x = Ok y) xs items.
Proof.
  induction xs as [|x r IH]; cbn; intros items H.
  - inversion H; constructor.
  - destruct (f x) eqn:Ex; [|discriminate]. cbn in H. destruct (seq_conv f r) eqn:E; [|discriminate].
    inversion H; subst. constructor; [assumption | now apply IH].
Qed.

Lemma fields_loop_ext {B} keep (c1 c2 : field -> val -> res B) : forall vs fs,
  Forall (fun v => forall f, c1 f v = c2 f v) vs ->
  fields_loop keep c1 fs vs = fields_loop keep c2 fs vs.
Proof.
  induction vs as [|v r IH]; intros fs H; [reflexivity|].
  inversion H as [|? ? Hv Hr]; subst. destruct fs as [|f fs']; [reflexivity|].
  cbn. rewrite (Hv f), (IH fs' Hr). reflexivity.
Qed.

(** The names assigned by the loop are exactly the names of the filter-passing
    fields, in field order. *)
Definition keeps (keep : field -> val -> res bool) (f : field) (v : val) : bool :=
  match keep f v with Ok true => true | _ => false end.

Definition kept (keep : field -> val -> res bool) (fs : list field) (vs : list val) :=
  filter (fun fv => keeps keep (fst fv) (snd fv)) (combine fs vs).

Lemma fields_loop_names {B} keep (conv : field -> val -> res B) : forall vs fs out,
  fields_loop keep conv fs vs = Ok out ->
  map fst out = map (fun fv => fst (fst fv)) (kept keep fs vs).
Proof.
  unfold kept, keeps. induction vs as [|v r IH]; intros fs out H.
  - destruct fs; cbn in H; inversion H; reflexivity.
  - destruct fs as [|f fs']; cbn in H; [inversion H; reflexivity|].
    cbn. destruct (keep f v) as [[|]|]; cbn in H; [| |discriminate].
    + destruct (conv f v); [|discriminate]. cbn in H.
      destruct (fields_loop keep conv fs' r) eqn:E; [|discriminate].
      inversion H; subst; cbn. f_equal. now apply IH.
    + now apply IH.
Qed.

Lemma fields_loop_id keep : forall vs fs out,
  fields_loop keep (fun _ v => Ok v) fs vs = Ok out ->
  out = map (fun fv => (fst (fst fv), snd fv)) (kept keep fs vs).
Proof.
  unfold kept, keeps. induction vs as [|v r IH]; intros fs out H.
  - destruct fs; cbn in H; inversion H; reflexivity.
  - destruct fs as [|f fs']; cbn in H; [inversion H; reflexivity|].
    cbn. destruct (keep f v) as [[|]|]; cbn in H; [| |discriminate].
    + destruct (fields_loop keep _ fs' r) eqn:E; [|discriminate].
      inversion H; subst; cbn. f_equal. now apply IH.
    + now apply IH.
Qed.

Lemma kept_names_sub keep : forall vs fs n,
  In n (map (fun fv : field * val => fst (fst fv)) (kept keep fs vs)) -> In n (map fst fs).
Proof.
  unfold kept. induction vs as [|v r IH]; intros fs n H.
  - destruct fs; cbn in H; destruct H.
  - destruct fs as [|f fs']; [destruct H|]. cbn in H. destruct (keeps keep f v).
    + cbn in H. destruct H as [<-|H]; [now left | right; eapply IH; eauto].
    + right; eapply IH; eauto.
Qed.

Lemma kept_names_nodup keep : forall vs fs,
  NoDup (map fst fs) -> NoDup (map (fun fv : field * val => fst (fst fv)) (kept keep fs vs)).
Proof.
  unfold kept. induction vs as [|v r IH]; intros fs H.
  - destruct fs; constructor.
  - destruct fs as [|f fs']; [constructor|]. cbn in H. inversion H as [|? ? Hn Hr]; subst.
    cbn. destruct (keeps keep f v).
    + cbn. constructor; [|now apply IH]. intros Hin. apply Hn. eapply kept_names_sub; eauto.
    + now apply IH.
Qed.

(** ** [rv[name] = value] with distinct names just appends. *)

Definition strkeys (l : list (string * val)) : list (val * val) :=
  map (fun a => (VStr (fst a), snd a)) l.

Lemma dict_set_fresh : forall d n v,
  ~ In n (map fst d) ->
  dict_set (strkeys d) (VStr n) v = strkeys (d ++ [(n, v)]).
Proof.
  induction d as [|[m x] r IH]; intros n v H; cbn; [reflexivity|].
  cbn in H. destruct (String.eqb m n) eqn:E.
  - apply String.eqb_eq in E. exfalso; apply H; now left.
  - f_equal. apply IH. intros Hin; apply H; now right.
Qed.

Lemma fold_dict_set_nodup : forall ps acc,
  NoDup (map fst (acc ++ ps)) ->
  fold_left (fun d p => dict_set d (fst p) (snd p)) (strkeys ps) (strkeys acc) = strkeys (acc ++ ps).
Proof.
  induction ps as [|[n v] r IH]; intros acc H; cbn.
  - now rewrite app_nil_r.
  - rewrite dict_set_fresh.
    + replace (acc ++ (n, v) :: r) with ((acc ++ [(n, v)]) ++ r) by (now rewrite <- app_assoc).
      apply IH. now rewrite <- app_assoc.
    + rewrite map_app in H. cbn in H. apply NoDup_remove_2 in H.
      intros Hin; apply H. apply in_or_app; now left.
Qed.

Lemma dict_of_pairs_nodup : forall ps,
  NoDup (map fst ps) -> dict_of_pairs (strkeys ps) = strkeys ps.
Proof. intros ps H. unfold dict_of_pairs. apply (fold_dict_set_nodup ps [] H). Qed.

Lemma record_nodup df ps : NoDup (map fst ps) -> record df ps = VD df (strkeys ps).
Proof. intros H. unfold record. fold (strkeys ps). now rewrite dict_of_pairs_nodup. Qed.

Lemma fields_loop_out_nodup {B} keep (conv : field -> val -> res B) fs vs out :
  NoDup (map fst fs) -> fields_loop keep conv fs vs = Ok out -> NoDup (map fst out).
Proof.
  intros Hn H. rewrite (fields_loop_names _ _ _ _ _ H). now apply kept_names_nodup.
Qed.

(** ** The code-shaped model equals the reference specification. *)

Section Reference.
Variable E : env.
Hypothesis names_distinct : forall c, NoDup (map fst (fields_of E c)).

(** Well-formed inputs: every namedtuple instance has as many members as its
    class has fields (true of every namedtuple Python can construct). *)
Fixpoint wf (v : val) : bool :=
  match v with
  | VI _ fs => forallb wf fs
  | VL xs | VS xs | VF xs => forallb wf xs
  | VT k xs =>
      (match k with TkN n => List.length xs =? nt_arity E n | _ => true end) && forallb wf xs
  | VD _ kvs => forallb (fun kv => match kv with (a, b) => wf a && wf b end) kvs
  | _ => true
  end.

Variables (retain : bool) (flt : option filter_fn) (df : dkind) (ser : option ser_fn).

Definition pos_of (k : bool) : pos := if k then PKey else PMember.

Definition field_spec (c : nat) (f : field) (x : val) : res val :=
  match ser_apply ser (Some (c, fst f)) x with
  | Err e => Err e
  | Ok (Some r) => Ok r
  | Ok None => conv_spec E retain flt df ser PField x
  end.

Notation any k := (asdict_anything E k retain flt df ser).
Notation fld := (asdict_field E (any false) (fun k => any k) true retain df ser).

Lemma rebuild_agree (k : bool) (v : val) (xs items : list val) :
  (v = VL xs \/ (exists t, v = VT t xs) \/ v = VS xs \/ v = VF xs) ->
  wf v = true -> List.length items = List.length xs ->
  rebuild_collection E (if retain then class_of_seq v else if k then CfTuple TkT else CfList) items
  = rebuild_spec E retain (pos_of k) v items.
Proof.
  intros Hv Hwf Hlen. unfold rebuild_spec.
  destruct retain.
  - destruct Hv as [-> | [[t ->] | [-> | ->]]]; cbn.
    + reflexivity.
    + destruct t as [|n|]; cbn; try reflexivity.
      cbn in Hwf. apply andb_true_iff in Hwf as [Hn _]. rewrite Hlen, Hn. reflexivity.
    + unfold rebuild_collection; cbn. unfold mk_set. destruct (forallb _ items); reflexivity.
    + unfold rebuild_collection; cbn. unfold mk_frozen. destruct (forallb _ items); reflexivity.
  - destruct k; reflexivity.
Qed.

Lemma rebuild_agree_field (v : val) (xs items : list val) :
  (v = VL xs \/ (exists t, v = VT t xs) \/ v = VS xs \/ v = VF xs) ->
  wf v = true -> List.length items = List.length xs ->
  rebuild_collection E (if retain then class_of_seq v else CfList) items
  = rebuild_spec E retain PField v items.
Proof.
  intros Hv Hwf Hlen. pose proof (rebuild_agree false v xs items Hv Hwf Hlen) as H.
  cbn [pos_of] in H. etransitivity; [exact H|].
  unfold rebuild_spec. destruct retain; reflexivity.
Qed.

Definition agrees (v : val) : Prop :=
  wf v = true ->
  (forall k, any k v = conv_spec E retain flt df ser (pos_of k) v) /\
  (forall c f, fld c f v = field_spec c f v).

Lemma forallb_Forall {A} (p : A -> bool) l : forallb p l = true -> Forall (fun x => p x = true) l.
Proof. intros H. apply Forall_forall. now apply forallb_forall. Qed.

Lemma members_agree (xs : list val) (k : bool) :
  Forall agrees xs -> forallb wf xs = true ->
  seq_conv (any k) xs = all_ok (map (conv_spec E retain flt df ser (pos_of k)) xs).
Proof.
  intros HF Hwf. rewrite <- seq_conv_all_ok. apply seq_conv_ext.
  apply forallb_Forall in Hwf. revert Hwf. induction HF as [|x r Hx _ IH]; intros Hwf; constructor.
  - inversion Hwf; subst. now apply Hx.
  - inversion Hwf; subst. now apply IH.
Qed.

Lemma seq_case (v : val) (xs : list val) :
  (v = VL xs \/ (exists t, v = VT t xs) \/ v = VS xs \/ v = VF xs) ->
  Forall agrees xs -> wf v = true -> forallb wf xs = true ->
  (forall k,
     bind (seq_conv (any k) xs)
          (rebuild_collection E (if retain then class_of_seq v
                                 else if k then CfTuple TkT else CfList)) =
     match all_ok (map (conv_spec E retain flt df ser (inner_pos (pos_of k))) xs) with
     | Ok items => rebuild_spec E retain (pos_of k) v items
     | Err e => Err e
     end) /\
  (bind (seq_conv (any false) xs)
        (rebuild_collection E (if retain then class_of_seq v else CfList)) =
   match all_ok (map (conv_spec E retain flt df ser PMember) xs) with
   | Ok items => rebuild_spec E retain PField v items
   | Err e => Err e
   end).
Proof.
  intros Hv HF Hwf Hxs. split.
  - intros k. replace (inner_pos (pos_of k)) with (pos_of k) by (destruct k; reflexivity).
    rewrite <- (members_agree xs k HF Hxs).
    destruct (seq_conv (any k) xs) as [items|] eqn:Es; [|reflexivity]. cbn [bind].
    apply rebuild_agree with (xs := xs); auto. eapply seq_conv_length; eauto.
  - pose proof (members_agree xs false HF Hxs) as Hm. cbn [pos_of] in Hm. rewrite <- Hm.
    destruct (seq_conv (any false) xs) as [items|] eqn:Es; [|reflexivity]. cbn [bind].
    apply rebuild_agree_field with (xs := xs); auto. eapply seq_conv_length; eauto.
Qed.

Lemma wf_seq_members v xs :
  (v = VL xs \/ (exists t, v = VT t xs) \/ v = VS xs \/ v = VF xs) ->
  wf v = true -> forallb wf xs = true.
Proof.
  intros [-> | [[t ->] | [-> | ->]]] H; cbn in H; auto.
  apply andb_true_iff in H as [_ H]; exact H.
Qed.

Lemma leaf_field_case c f v :
  (forall rec_inst rec_any, asdict_field E rec_inst rec_any true retain df ser c f v =
     match ser_apply ser (Some (c, fst f)) v with
     | Err e => Err e | Ok (Some r) => Ok r | Ok None => Ok v end) ->
  conv_spec E retain flt df ser PField v = Ok v ->
  fld c f v = field_spec c f v.
Proof.
  intros H1 H2. unfold field_spec. rewrite H1, H2. reflexivity.
Qed.

Theorem anything_agrees : forall v, agrees v.
Proof.
  induction v as [t i | s | c fs IH | xs IH | t xs IH | xs IH | xs IH | dk kvs IH | w x IH | ]
    using val_ind'; intros Hwf.
  - (* scalar *) split; [intros [|]; reflexivity | intros; apply leaf_field_case; reflexivity].
  - split; [intros [|]; reflexivity | intros; apply leaf_field_case; reflexivity].
  - (* instance *)
    assert (Hany : forall k, any k (VI c fs) = conv_spec E retain flt df ser (pos_of k) (VI c fs)).
    { intros k. cbn [asdict_anything conv_spec]. unfold asdict_body.
      change (fun (f : field) (x : val) =>
                match ser_apply ser (Some (c, fst f)) x with
                | Err e => Err e
                | Ok (Some r) => Ok r
                | Ok None => conv_spec E retain flt df ser PField x
                end) with (field_spec c).
      rewrite (fields_loop_ext (passes flt) (fld c) (field_spec c)).
      - destruct (fields_loop (passes flt) (field_spec c) (fields_of E c) fs) as [assigns|] eqn:El;
          [|reflexivity].
        cbn [bind]. f_equal. apply record_nodup.
        eapply fields_loop_out_nodup; [apply names_distinct | exact El].
      - cbn in Hwf. apply forallb_Forall in Hwf. clear -IH Hwf.
        induction IH as [|x r Hx _ IHr]; constructor.
        + inversion Hwf; subst. intros f. now apply Hx.
        + inversion Hwf; subst. now apply IHr. }
    split; [exact Hany|].
    intros c0 f. unfold asdict_field, field_spec.
    destruct (ser_apply ser (Some (c0, fst f)) (VI c fs)) as [[r|]|]; try reflexivity.
    rewrite (Hany false). reflexivity.
  - (* list *)
    pose proof (wf_seq_members (VL xs) xs (or_introl eq_refl) Hwf) as Hxs.
    destruct (seq_case (VL xs) xs (or_introl eq_refl) IH Hwf Hxs) as [H1 H2].
    split; [intros k; exact (H1 k)|].
    intros c f. unfold asdict_field, field_spec.
    destruct (ser_apply ser (Some (c, fst f)) (VL xs)) as [[r|]|]; [reflexivity | exact H2 | reflexivity].
  - (* tuple *)
    assert (Hv : VT t xs = VL xs \/ (exists t0, VT t xs = VT t0 xs) \/ VT t xs = VS xs \/ VT t xs = VF xs)
      by (right; left; eexists; reflexivity).
    pose proof (wf_seq_members _ xs Hv Hwf) as Hxs.
    destruct (seq_case _ xs Hv IH Hwf Hxs) as [H1 H2].
    split; [intros k; exact (H1 k)|].
    intros c f. unfold asdict_field, field_spec.
    destruct (ser_apply ser (Some (c, fst f)) (VT t xs)) as [[r|]|]; [reflexivity | exact H2 | reflexivity].
  - (* set *)
    assert (Hv : VS xs = VL xs \/ (exists t0, VS xs = VT t0 xs) \/ VS xs = VS xs \/ VS xs = VF xs)
      by (right; right; left; reflexivity).
    pose proof (wf_seq_members _ xs Hv Hwf) as Hxs.
    destruct (seq_case _ xs Hv IH Hwf Hxs) as [H1 H2].
    split; [intros k; exact (H1 k)|].
    intros c f. unfold asdict_field, field_spec.
    destruct (ser_apply ser (Some (c, fst f)) (VS xs)) as [[r|]|]; [reflexivity | exact H2 | reflexivity].
  - (* frozenset *)
    assert (Hv : VF xs = VL xs \/ (exists t0, VF xs = VT t0 xs) \/ VF xs = VS xs \/ VF xs = VF xs)
      by (right; right; right; reflexivity).
    pose proof (wf_seq_members _ xs Hv Hwf) as Hxs.
    destruct (seq_case _ xs Hv IH Hwf Hxs) as [H1 H2].
    split; [intros k; exact (H1 k)|].
    intros c f. unfold asdict_field, field_spec.
    destruct (ser_apply ser (Some (c, fst f)) (VF xs)) as [[r|]|]; [reflexivity | exact H2 | reflexivity].
  - (* dict *)
    assert (Hd : pairs_conv E (any true) (any false) kvs =
                 all_ok (map (fun kv => match kv with
                    | (k, x) => pair_spec E (conv_spec E retain flt df ser PKey k)
                                            (conv_spec E retain flt df ser PMember x)
                    end) kvs)).
    { rewrite <- pairs_conv_all_ok. apply pairs_conv_ext.
      cbn in Hwf. apply forallb_Forall in Hwf. clear -IH Hwf.
      induction IH as [|[a b] r [Ha Hb] _ IHr]; constructor.
      - inversion Hwf as [|? ? Hab _]; subst. apply andb_true_iff in Hab as [Wa Wb]. cbn.
        split; [apply (proj1 (Ha Wa) true) | apply (proj1 (Hb Wb) false)].
      - inversion Hwf; subst. now apply IHr. }
    split.
    + intros k. cbn [asdict_anything conv_spec]. rewrite Hd. destruct (all_ok _); reflexivity.
    + intros c f. unfold asdict_field, field_spec.
      destruct (ser_apply ser (Some (c, fst f)) (VD dk kvs)) as [[r|]|]; try reflexivity.
      cbn [conv_spec]. rewrite Hd. destruct (all_ok _); reflexivity.
  - (* serializer result *)
    split; [intros [|]; reflexivity | intros; apply leaf_field_case; reflexivity].
  - split; [intros [|]; reflexivity | intros; apply leaf_field_case; reflexivity].
Qed.

End Reference.

(** ** Theorems about [asdict] *)

Section Theorems.
Variable E : env.

(** [_asdict_anything] on an instance is [asdict] with [recurse=True]. *)
Lemma asdict_anything_inst k retain flt df ser c vs :
  asdict_anything E k retain flt df ser (VI c vs) = asdict E true retain flt df ser (VI c vs).
Proof. reflexivity. Qed.

Lemma asdict_field_norecurse rec_inst rec_any retain df ser c f v :
  asdict_field E rec_inst rec_any false retain df ser c f v = ser_value ser (Some (c, fst f)) v.
Proof. unfold asdict_field, ser_value. destruct (ser_apply ser (Some (c, fst f)) v) as [[r|]|]; reflexivity. Qed.

Theorem asdict_reference_l :
  (forall c, NoDup (map fst (fields_of E c))) ->
  forall recurse retain flt df ser inst, wf E inst = true ->
  asdict E recurse retain flt df ser inst = asdict_spec E recurse retain flt df ser inst.
Proof.
  intros Hnd recurse retain flt df ser inst Hwf.
  destruct inst as [ | | c fs | | | | | | | ]; try reflexivity.
  destruct recurse.
  - change (asdict E true retain flt df ser (VI c fs))
      with (asdict_anything E false retain flt df ser (VI c fs)).
    exact (proj1 (anything_agrees E Hnd retain flt df ser (VI c fs) Hwf) false).
  - unfold asdict, asdict_spec, asdict_body.
    rewrite (fields_loop_ext (passes flt) _ (fun f x => ser_value ser (Some (c, fst f)) x)).
    + destruct (fields_loop _ _ _ _) as [assigns|] eqn:El; [|reflexivity].
      cbn [bind]. f_equal. apply record_nodup.
      eapply fields_loop_out_nodup; [apply Hnd | exact El].
    + apply Forall_forall. intros v _ f. apply asdict_field_norecurse.
Qed.

(** Keys: the filter-passing field names, in field order. *)
Theorem asdict_keys_l : forall recurse retain flt df ser c vs r,
  NoDup (map fst (fields_of E c)) ->
  asdict E recurse retain flt df ser (VI c vs) = Ok r ->
  exists items, r = VD df items /\
    map fst items = map (fun fv => VStr (fst (fst fv))) (kept (passes flt) (fields_of E c) vs).
Proof.
  intros recurse retain flt df ser c vs r Hnd H. unfold asdict, asdict_body in H.
  destruct (fields_loop _ _ _ _) as [assigns|] eqn:El; [|discriminate].
  inversion H; subst; clear H.
  rewrite record_nodup by (eapply fields_loop_out_nodup; eauto).
  exists (strkeys assigns). split; [reflexivity|].
  unfold strkeys. rewrite map_map. cbn.
  rewrite <- (map_map fst VStr), (fields_loop_names _ _ _ _ _ El), map_map. reflexivity.
Qed.

(** Result classes of rebuilt collections. *)
Definition ctor_type (cf : ctor) : tytag :=
  match cf with CfList => TyL | CfTuple k => TyT k | CfSet => TyS | CfFrozen => TyF end.

Lemma rebuild_type cf items r :
  rebuild_collection E cf items = Ok r -> type_of r = ctor_type cf.
Proof.
  unfold rebuild_collection. destruct cf as [|[|n|]| |]; cbn; intros H.
  - inversion H; reflexivity.
  - inversion H; reflexivity.
  - destruct (List.length items =? nt_arity E n); inversion H; reflexivity.
  - inversion H; reflexivity.
  - unfold mk_set in H. destruct (forallb (hashable E) items); [|discriminate].
    inversion H; reflexivity.
  - unfold mk_frozen in H. destruct (forallb (hashable E) items); [|discriminate].
    inversion H; reflexivity.
Qed.

Lemma class_of_seq_type v : is_seq v = true -> ctor_type (class_of_seq v) = type_of v.
Proof. destruct v; try discriminate; reflexivity. Qed.

(** With [retain_collection_types] every list / tuple / namedtuple / set /
    frozenset, at whatever depth it is converted, keeps its exact class ... *)
Theorem retain_types_l : forall k flt df ser v r,
  is_seq v = true -> asdict_anything E k true flt df ser v = Ok r -> type_of r = type_of v.
Proof.
  intros k flt df ser v r Hs H. rewrite <- (class_of_seq_type v Hs).
  destruct v; try discriminate; cbn [asdict_anything] in H;
    (destruct (seq_conv _ _); [|discriminate]); exact (rebuild_type _ _ _ H).
Qed.

(** ... without it, it becomes a list, unless it is (inside) a dict key, where it
    becomes a tuple. *)
Theorem nonretain_types_l : forall k flt df ser v r,
  is_seq v = true -> asdict_anything E k false flt df ser v = Ok r ->
  type_of r = if k then TyT TkT else TyL.
Proof.
  intros k flt df ser v r Hs H.
  destruct v; try discriminate; cbn [asdict_anything] in H;
    (destruct (seq_conv _ _); [|discriminate]); apply rebuild_type in H; destruct k; exact H.
Qed.

(** Members of a collection-valued key are converted as keys themselves. *)
Theorem key_members_are_keys_l : forall flt df ser v xs r,
  (v = VL xs \/ (exists t, v = VT t xs) \/ v = VS xs \/ v = VF xs) ->
  asdict_anything E true false flt df ser v = Ok r ->
  exists items, r = VT TkT items /\
    Forall2 (fun x y => asdict_anything E true false flt df ser x = Ok y) xs items.
Proof.
  intros flt df ser v xs r Hv H.
  assert (H' : bind (seq_conv (asdict_anything E true false flt df ser) xs)
                    (fun items => Ok (VT TkT items)) = Ok r).
  { destruct Hv as [-> | [[t ->] | [-> | ->]]]; exact H. }
  destruct (seq_conv _ xs) as [items|] eqn:Es; [|discriminate].
  inversion H'; subst. exists items. split; [reflexivity|]. now apply seq_conv_Forall2.
Qed.

(** Field-level collections (the branch inside [asdict] itself). *)
Theorem field_collection_types_l : forall rec_inst rec_any retain df ser c f v r,
  is_seq v = true -> ser_apply ser (Some (c, fst f)) v = Ok None ->
  asdict_field E rec_inst rec_any true retain df ser c f v = Ok r ->
  type_of r = if retain then type_of v else TyL.
Proof.
  intros rec_inst rec_any retain df ser c f v r Hs Hser H. unfold asdict_field in H. rewrite Hser in H.
  destruct v; try discriminate;
    (destruct (seq_conv _ _); [|discriminate]); apply rebuild_type in H;
    destruct retain; exact H.
Qed.

(** Dicts and nested instances come out of [dict_factory]. *)
Theorem dict_factory_used_l : forall k retain flt df ser v r,
  (is_dict v || is_inst v) = true ->
  asdict_anything E k retain flt df ser v = Ok r -> type_of r = TyD df.
Proof.
  intros k retain flt df ser v r Hd H. destruct v; try discriminate; cbn [asdict_anything] in H.
  - unfold asdict_body in H. destruct (fields_loop _ _ _ _); inversion H; reflexivity.
  - destruct (pairs_conv _ _ _ _); inversion H; reflexivity.
Qed.

(** Where the serializer is applied: to every filter-passing field value before
    the recursion decision (a replaced value is stored as is, an unchanged leaf is
    not serialized a second time), and to every leaf inside collections. *)
Theorem serializer_positions_l :
  (forall rec_inst rec_any recurse retain df ser c f v r,
     ser_apply ser (Some (c, fst f)) v = Ok (Some r) ->
     asdict_field E rec_inst rec_any recurse retain df ser c f v = Ok r) /\
  (forall rec_inst rec_any recurse retain df ser c f v,
     ser_apply ser (Some (c, fst f)) v = Ok None -> is_leaf v = true ->
     asdict_field E rec_inst rec_any recurse retain df ser c f v = Ok v) /\
  (forall k retain flt df ser v,
     is_leaf v = true -> asdict_anything E k retain flt df ser v = ser_value ser None v).
Proof.
  split; [|split].
  - intros. unfold asdict_field. rewrite H. reflexivity.
  - intros rec_inst rec_any recurse retain df ser c f v Hs Hl. unfold asdict_field. rewrite Hs.
    destruct recurse; [|reflexivity]. destruct v; try discriminate; reflexivity.
  - intros k retain flt df ser v Hl. destruct v; try discriminate; reflexivity.
Qed.

(** [recurse=False]: the values are returned untouched. *)
Theorem recurse_false_identity_l : forall retain flt df c vs r,
  NoDup (map fst (fields_of E c)) ->
  asdict E false retain flt df None (VI c vs) = Ok r ->
  r = VD df (map (fun fv => (VStr (fst (fst fv)), snd fv)) (kept (passes flt) (fields_of E c) vs)).
Proof.
  intros retain flt df c vs r Hnd H. unfold asdict, asdict_body in H.
  rewrite (fields_loop_ext (passes flt) _ (fun _ v => Ok v)) in H
    by (apply Forall_forall; intros v _ f; reflexivity).
  destruct (fields_loop _ _ _ _) as [out|] eqn:El; [|discriminate].
  inversion H; subst; clear H. rewrite (fields_loop_id _ _ _ _ El). rewrite record_nodup.
  - unfold strkeys. rewrite map_map. reflexivity.
  - rewrite map_map. cbn. now apply kept_names_nodup.
Qed.

(** A filter that does not raise never makes [asdict recurse=False] fail. *)
Theorem recurse_false_total_l : forall retain df c vs,
  exists r, asdict E false retain None df None (VI c vs) = Ok r.
Proof.
  intros retain df c vs. unfold asdict, asdict_body.
  rewrite (fields_loop_ext (passes None) _ (fun _ v => Ok v))
    by (apply Forall_forall; intros v _ f; reflexivity).
  assert (H : forall vs fs, exists out, fields_loop (passes None) (fun (_ : field) (v : val) => Ok v) fs vs = Ok out).
  { induction vs0 as [|v r IH]; intros fs; [destruct fs; eexists; reflexivity|].
    destruct fs as [|f fs']; [eexists; reflexivity|]. cbn. destruct (IH fs') as [out Ho].
    rewrite Ho. eexists; reflexivity. }
  destruct (H vs (fields_of E c)) as [out Ho]. rewrite Ho. eexists; reflexivity.
Qed.

End Theorems.

(** ** [astuple] *)

Section Astuple.
Variable E : env.
Variables (retain : bool) (tf : tfk).

Definition astuple_field_spec (recurse : bool) (flt : option filter_fn) (v : val) : res val :=
  if negb recurse then Ok v else
  match v with
  | VI _ _ => astuple_spec E true retain flt tf v
  | VL xs | VT _ xs | VS xs | VF xs =>
      match all_ok (map (fun j => match j with
                                  | VI _ _ => astuple_spec E true retain flt tf j
                                  | _ => Ok j
                                  end) xs) with
      | Ok items => rebuild_spec E retain PMember v items
      | Err e => Err e
      end
  | VD k kvs =>
      match all_ok (map (fun kv =>
               match kv with
               | (a, b) =>
                   pair_spec E
                     (match a with VI _ _ => astuple_spec E true retain None tf a | _ => Ok a end)
                     (match b with VI _ _ => astuple_spec E true retain None tf b | _ => Ok b end)
               end) kvs) with
      | Ok ps => Ok (mk_dict (if retain then k else DkD) ps)
      | Err e => Err e
      end
  | _ => Ok v
  end.

Lemma astuple_spec_unfold recurse flt c vs :
  astuple_spec E recurse retain flt tf (VI c vs) =
  match fields_loop (passes flt) (fun _ v => astuple_field_spec recurse flt v) (fields_of E c) vs with
  | Ok items => Ok (apply_tf tf (map snd items))
  | Err e => Err e
  end.
Proof. reflexivity. Qed.

Notation rec := (astuple_rec E retain tf true).

Lemma astuple_rec_unfold recurse flt c vs :
  astuple_rec E retain tf recurse flt (VI c vs) =
  bind (fields_loop (passes flt) (fun _ v => astuple_field E rec recurse retain flt v) (fields_of E c) vs)
       (fun items => Ok (apply_tf tf (map snd items))).
Proof. reflexivity. Qed.

Definition t_agrees (v : val) : Prop :=
  wf E v = true ->
  (forall flt, rec flt v = astuple_spec E true retain flt tf v) /\
  (forall recurse flt, astuple_field E rec recurse retain flt v = astuple_field_spec recurse flt v).

Lemma member_agrees flt x :
  t_agrees x -> wf E x = true ->
  astuple_member (rec flt) x =
  match x with VI _ _ => astuple_spec E true retain flt tf x | _ => Ok x end.
Proof.
  intros Hx Hwf. destruct x; try reflexivity. cbn [astuple_member]. exact (proj1 (Hx Hwf) flt).
Qed.

Lemma t_seq_case (v : val) (xs : list val) :
  (v = VL xs \/ (exists t, v = VT t xs) \/ v = VS xs \/ v = VF xs) ->
  Forall t_agrees xs -> t_agrees v.
Proof.
  intros Hv HF Hwf. split.
  - intros flt. destruct Hv as [-> | [[t ->] | [-> | ->]]]; reflexivity.
  - intros recurse flt.
    assert (Hgoal :
      (if recurse then
         bind (seq_conv (astuple_member (rec flt)) xs)
              (rebuild_collection E (if retain then class_of_seq v else CfList))
       else Ok v) =
      (if negb recurse then Ok v else
       match all_ok (map (fun j => match j with
                                   | VI _ _ => astuple_spec E true retain flt tf j
                                   | _ => Ok j
                                   end) xs) with
       | Ok items => rebuild_spec E retain PMember v items
       | Err e => Err e
       end)).
    { destruct recurse; [|reflexivity]. cbn [negb].
      pose proof (wf_seq_members E v xs Hv Hwf) as Hxs.
      rewrite <- seq_conv_all_ok.
      rewrite (seq_conv_ext (astuple_member (rec flt))
                 (fun j => match j with VI _ _ => astuple_spec E true retain flt tf j | _ => Ok j end)).
      - destruct (seq_conv _ xs) as [items|] eqn:Es; [|reflexivity]. cbn [bind].
        pose proof (rebuild_agree E retain false v xs items Hv Hwf (seq_conv_length _ _ _ Es)) as H.
        exact H.
      - apply forallb_Forall in Hxs. clear -HF Hxs.
        induction HF as [|x r Hx _ IH]; constructor.
        + inversion Hxs; subst. now apply member_agrees.
        + inversion Hxs; subst. now apply IH. }
    destruct Hv as [-> | [[t ->] | [-> | ->]]]; exact Hgoal.
Qed.

Theorem astuple_agrees : forall v, t_agrees v.
Proof.
  induction v as [t i | s | c fs IH | xs IH | t xs IH | xs IH | xs IH | dk kvs IH | w x IH | ]
    using val_ind'.
  - intros _. split; [reflexivity | intros [|] flt; reflexivity].
  - intros _. split; [reflexivity | intros [|] flt; reflexivity].
  - (* instance *)
    intros Hwf.
    assert (Hall : forall recurse flt,
               astuple_rec E retain tf recurse flt (VI c fs) = astuple_spec E recurse retain flt tf (VI c fs)).
    { intros recurse flt. rewrite astuple_rec_unfold, astuple_spec_unfold.
      rewrite (fields_loop_ext (passes flt) _ (fun _ v => astuple_field_spec recurse flt v)).
      - destruct (fields_loop _ _ _ _); reflexivity.
      - cbn in Hwf. apply forallb_Forall in Hwf. clear -IH Hwf.
        induction IH as [|x r Hx _ IHr]; constructor.
        + inversion Hwf; subst. intros _. now apply Hx.
        + inversion Hwf; subst. now apply IHr. }
    split; [intros flt; apply Hall|].
    intros [|] flt; [|reflexivity]. cbn [astuple_field astuple_field_spec negb]. apply Hall.
  - apply (t_seq_case (VL xs) xs); auto.
  - apply (t_seq_case (VT t xs) xs); auto. right; left; eexists; reflexivity.
  - apply (t_seq_case (VS xs) xs); auto.
  - apply (t_seq_case (VF xs) xs); auto.
  - (* dict *)
    intros Hwf. split; [reflexivity|].
    intros [|] flt; [|reflexivity]. cbn [astuple_field astuple_field_spec negb].
    rewrite pairs_conv_all_ok.
    assert (Hm : map (fun kv : val * val => let (k, x) := kv in
                        pair_spec E (astuple_member (rec None) k) (astuple_member (rec None) x)) kvs =
                 map (fun kv : val * val => let (a, b) := kv in
                        pair_spec E
                          (match a with VI _ _ => astuple_spec E true retain None tf a | _ => Ok a end)
                          (match b with VI _ _ => astuple_spec E true retain None tf b | _ => Ok b end)) kvs).
    { cbn in Hwf. apply forallb_Forall in Hwf. clear -IH Hwf.
      induction IH as [|[a b] r [Ha Hb] _ IHr]; [reflexivity|].
      inversion Hwf as [|? ? Hab Hr]; subst. apply andb_true_iff in Hab as [Wa Wb].
      cbn [map]. cbn in Ha, Hb. rewrite (member_agrees None a Ha Wa), (member_agrees None b Hb Wb).
      f_equal. now apply IHr. }
    rewrite Hm. destruct (all_ok _); reflexivity.
  - intros _. split; [reflexivity | intros [|] flt; reflexivity].
  - intros _. split; [reflexivity | intros [|] flt; reflexivity].
Qed.

End Astuple.

Section Theorems2.
Variable E : env.

Theorem astuple_reference_l : forall recurse retain flt tf inst,
  wf E inst = true ->
  astuple E recurse retain flt tf inst = astuple_spec E recurse retain flt tf inst.
Proof.
  intros recurse retain flt tf inst Hwf. unfold astuple.
  destruct inst as [ | | c fs | | | | | | | ]; try reflexivity.
  rewrite astuple_rec_unfold, astuple_spec_unfold.
  rewrite (fields_loop_ext (passes flt) _ (fun _ v => astuple_field_spec E retain tf recurse flt v)).
  - destruct (fields_loop _ _ _ _); reflexivity.
  - cbn in Hwf. apply forallb_Forall in Hwf.
    induction Hwf as [|x r Hx _ IH]; [constructor|]. constructor; [|exact IH].
    intros _. exact (proj2 (astuple_agrees E retain tf x Hx) recurse flt).
Qed.

(** [astuple] yields positionally the values [asdict] yields by name
    (shallow conversion, no serializer). *)
Theorem astuple_corresponds_l : forall retain flt df tf c vs r,
  NoDup (map fst (fields_of E c)) ->
  asdict E false retain flt df None (VI c vs) = Ok r ->
  exists items,
    asdict E false retain flt df None (VI c vs) = Ok (VD df items) /\
    astuple E false retain flt tf (VI c vs) = Ok (apply_tf tf (map snd items)).
Proof.
  intros retain flt df tf c vs r Hnd H.
  pose proof (recurse_false_identity_l E retain flt df c vs r Hnd H) as Hr. subst r.
  eexists. split; [exact H|].
  unfold astuple. rewrite astuple_rec_unfold.
  rewrite (fields_loop_ext (passes flt) _ (fun _ v => Ok v))
    by (apply Forall_forall; intros v _ f; reflexivity).
  unfold asdict, asdict_body in H.
  rewrite (fields_loop_ext (passes flt) _ (fun _ v => Ok v)) in H
    by (apply Forall_forall; intros v _ f; reflexivity).
  destruct (fields_loop _ _ _ _) as [out|] eqn:El; [|discriminate].
  cbn [bind]. rewrite (fields_loop_id _ _ _ _ El). rewrite !map_map. reflexivity.
Qed.

(** ** Round trip [C( **asdict(x) )] for flat classes with public names. *)

Lemma lookup_kw_skip : forall pre n rest,
  ~ In n (map fst pre) ->
  lookup_kw n (strkeys pre ++ rest) = lookup_kw n rest.
Proof.
  induction pre as [|[m x] r IH]; intros n rest H; cbn; [reflexivity|].
  cbn in H. destruct (String.eqb m n) eqn:Eq.
  - apply String.eqb_eq in Eq. exfalso; apply H; now left.
  - apply IH. intros Hin; apply H; now right.
Qed.

Lemma all_some_cons {A} (a : A) l : all_some (Some a :: l) = option_map (cons a) (all_some l).
Proof. reflexivity. Qed.

Lemma lookup_all : forall (ns : list string) (vs : list val) pre,
  List.length vs = List.length ns -> NoDup (map fst pre ++ ns) ->
  all_some (map (fun n => lookup_kw n (strkeys pre ++ strkeys (combine ns vs))) ns) = Some vs.
Proof.
  induction ns as [|n ns IH]; intros vs pre Hlen Hnd.
  - destruct vs; [reflexivity | discriminate].
  - destruct vs as [|v vs]; [discriminate|]. cbn [combine map].
    assert (Hhd : lookup_kw n (strkeys pre ++ strkeys ((n, v) :: combine ns vs)) = Some v).
    { rewrite lookup_kw_skip.
      - cbn. rewrite String.eqb_refl. reflexivity.
      - apply NoDup_remove_2 in Hnd. intros Hin; apply Hnd. apply in_or_app; now left. }
    assert (Htl : map (fun n0 => lookup_kw n0 (strkeys pre ++ strkeys ((n, v) :: combine ns vs))) ns
                = map (fun n0 => lookup_kw n0 (strkeys (pre ++ [(n, v)]) ++ strkeys (combine ns vs))) ns).
    { apply map_ext. intros n0. f_equal. unfold strkeys. rewrite map_app. cbn.
      rewrite <- app_assoc. reflexivity. }
    rewrite Hhd, Htl, all_some_cons, IH; [reflexivity | now inversion Hlen |].
    rewrite map_app. cbn. rewrite <- app_assoc. exact Hnd.
Qed.

Lemma fields_loop_all : forall (fs : list field) (vs : list val),
  fields_loop (passes None) (fun (_ : field) (v : val) => Ok v) fs vs =
  Ok (map (fun fv : field * val => (fst (fst fv), snd fv)) (combine fs vs)).
Proof.
  intros fs vs. revert fs. induction vs as [|v r IH]; intros fs; [destruct fs; reflexivity|].
  destruct fs as [|f fs']; [reflexivity|]. cbn. rewrite IH. reflexivity.
Qed.

Lemma combine_names : forall (fs : list field) (vs : list val),
  map (fun fv : field * val => (fst (fst fv), snd fv)) (combine fs vs) = combine (map fst fs) vs.
Proof.
  induction fs as [|f fs IH]; intros vs; [reflexivity|]. destruct vs; [reflexivity|].
  cbn. now rewrite IH.
Qed.

Lemma lookup_fields (D : list (val * val)) : forall fs : list field,
  (forall f, In f fs -> lstrip_us (fst f) = fst f) ->
  map (fun f : field => lookup_kw (lstrip_us (fst f)) D) fs =
  map (fun n => lookup_kw n D) (map fst fs).
Proof.
  induction fs as [|f r IH]; intros H; [reflexivity|]. cbn.
  rewrite (H f (or_introl eq_refl)). f_equal. apply IH. intros g Hg. apply H. now right.
Qed.

Theorem asdict_roundtrip_l : forall c vs,
  NoDup (map fst (fields_of E c)) ->
  (forall f, In f (fields_of E c) -> lstrip_us (fst f) = fst f) ->
  List.length vs = List.length (fields_of E c) ->
  Forall (fun v => is_leaf v = true) vs ->
  roundtrip E c vs = Ok (VI c vs).
Proof.
  intros c vs Hnd Hpub Hlen Hleaf. unfold roundtrip, asdict, asdict_body.
  rewrite (fields_loop_ext (passes None) _ (fun _ v => Ok v)).
  2:{ clear -Hleaf. induction Hleaf as [|v r Hv _ IH]; [constructor|]. constructor; [|exact IH].
      intros f. unfold asdict_field. cbn [ser_apply].
      destruct v; try discriminate; reflexivity. }
  rewrite (fields_loop_all (fields_of E c) vs). cbn [bind]. rewrite combine_names.
  set (ns := map fst (fields_of E c)).
  assert (Hcn : map fst (combine ns vs) = ns).
  { unfold ns. assert (Hl2 : List.length vs = List.length (map fst (fields_of E c))) by (rewrite map_length; exact Hlen). clear -Hl2. revert vs Hl2.
    induction (map fst (fields_of E c)) as [|n r IH]; intros vs Hlen; [reflexivity|].
    destruct vs; [discriminate|]. cbn. f_equal. apply IH. now inversion Hlen. }
  rewrite record_nodup by (rewrite Hcn; exact Hnd).
  unfold construct.
  assert (Hexp : forallb (kw_expected E c) (strkeys (combine ns vs)) = true).
  { apply forallb_forall. intros [k v] Hin. unfold strkeys in Hin. apply in_map_iff in Hin.
    destruct Hin as [[n x] [Heq Hin]]. cbn in Heq. inversion Heq. subst k v. clear Heq.
    unfold kw_expected; cbn [fst]. apply existsb_exists.
    assert (Hn : In n ns) by (rewrite <- Hcn; apply in_map_iff; exists (n, x); auto).
    unfold ns in Hn. apply in_map_iff in Hn. destruct Hn as [f [Hf Hinf]].
    exists f. split; [exact Hinf|]. rewrite (Hpub f Hinf), Hf. apply String.eqb_refl. }
  assert (Hall : all_some (map (fun f : field => lookup_kw (lstrip_us (fst f)) (strkeys (combine ns vs)))
                               (fields_of E c)) = Some vs).
  { etransitivity; [apply f_equal; apply (lookup_fields (strkeys (combine ns vs)) (fields_of E c) Hpub)|].
    apply (lookup_all ns vs []); [unfold ns; now rewrite map_length | exact Hnd]. }
  cbn beta iota. unfold construct. rewrite Hexp.
  match goal with |- context [all_some ?l] => replace (all_some l) with (Some vs) by (symmetry; exact Hall) end.
  reflexivity.
Qed.

End Theorems2.


(** ** No attrs instance survives the conversion, at any depth (instances the
    serializer hid inside an opaque value excepted). *)

Fixpoint inst_free (v : val) : bool :=
  match v with
  | VI _ _ => false
  | VL xs | VT _ xs | VS xs | VF xs => forallb inst_free xs
  | VD _ kvs => forallb (fun kv => match kv with (a, b) => inst_free a && inst_free b end) kvs
  | _ => true
  end.

Section NoInstance.
Variable E : env.
Variables (retain : bool) (flt : option filter_fn) (df : dkind) (ser : option ser_fn).
Hypothesis ser_opaque : forall w v r, ser_apply ser w v = Ok (Some r) -> inst_free r = true.

Definition pairs_free (d : list (val * val)) : Prop :=
  Forall (fun kv => inst_free (fst kv) = true /\ inst_free (snd kv) = true) d.

Lemma pairs_free_forallb d : pairs_free d ->
  forallb (fun kv => match kv with (a, b) => inst_free a && inst_free b end) d = true.
Proof.
  intros H. apply forallb_forall. intros [a b] Hin.
  pose proof (proj1 (Forall_forall _ _) H (a, b) Hin) as [Ha Hb]. cbn in Ha, Hb. now rewrite Ha, Hb.
Qed.

Lemma dict_set_free : forall d k v,
  pairs_free d -> inst_free k = true -> inst_free v = true -> pairs_free (dict_set d k v).
Proof.
  induction d as [|[k' v'] r IH]; intros k v Hd Hk Hv; cbn.
  - constructor; [split; assumption | constructor].
  - inversion Hd as [|? ? [Hk' Hv'] Hr]; subst. cbn in Hk', Hv'. destruct (py_eq k' k).
    + constructor; [split; assumption | assumption].
    + constructor; [split; assumption | now apply IH].
Qed.

Lemma dict_of_pairs_free ps : pairs_free ps -> pairs_free (dict_of_pairs ps).
Proof.
  unfold dict_of_pairs. intros H.
  assert (G : forall acc, pairs_free acc ->
              pairs_free (fold_left (fun d p => dict_set d (fst p) (snd p)) ps acc)).
  { induction H as [|[k v] r [Hk Hv] _ IH]; intros acc Ha; cbn; [assumption|].
    apply IH. now apply dict_set_free. }
  apply G. constructor.
Qed.

Lemma mk_dict_free dk ps : pairs_free ps -> inst_free (mk_dict dk ps) = true.
Proof.
  intros H. unfold mk_dict. cbn. apply pairs_free_forallb. now apply dict_of_pairs_free.
Qed.

Lemma dedup_acc_in : forall items acc x,
  In x (dedup_acc acc items) -> In x acc \/ In x items.
Proof.
  induction items as [|y r IH]; intros acc x H; cbn in H; [now left|].
  destruct (py_mem y acc).
  - destruct (IH _ _ H); [now left | right; now right].
  - destruct (IH _ _ H) as [Hin|Hin]; [|right; now right].
    apply in_app_or in Hin. destruct Hin as [Hin|[<-|[]]]; [now left | right; now left].
Qed.

Lemma dedup_free items : forallb inst_free items = true -> forallb inst_free (dedup_acc [] items) = true.
Proof.
  intros H. apply forallb_forall. intros x Hin.
  destruct (dedup_acc_in _ _ _ Hin) as [[]|Hi]. exact (proj1 (forallb_forall _ _) H x Hi).
Qed.

Lemma rebuild_free cf items r :
  forallb inst_free items = true -> rebuild_collection E cf items = Ok r -> inst_free r = true.
Proof.
  intros Hi. unfold rebuild_collection. destruct cf as [|[|n|]| |]; cbn; intros H.
  - inversion H; subst; exact Hi.
  - inversion H; subst; exact Hi.
  - destruct (List.length items =? nt_arity E n); inversion H; subst; exact Hi.
  - inversion H; subst; exact Hi.
  - unfold mk_set in H. destruct (forallb (hashable E) items); [|discriminate].
    inversion H; subst. cbn. now apply dedup_free.
  - unfold mk_frozen in H. destruct (forallb (hashable E) items); [|discriminate].
    inversion H; subst. cbn. now apply dedup_free.
Qed.

Lemma seq_conv_free (f : val -> res val) : forall xs items,
  Forall (fun x => forall r, f x = Ok r -> inst_free r = true) xs ->
  seq_conv f xs = Ok items -> forallb inst_free items = true.
Proof.
  induction xs as [|x r IH]; intros items HF H; cbn in H.
  - inversion H; reflexivity.
  - inversion HF as [|? ? Hx Hr]; subst.
    destruct (f x) eqn:Ex; [|discriminate]. cbn in H. destruct (seq_conv f r) eqn:Es; [|discriminate].
    inversion H; subst. cbn. rewrite (Hx _ eq_refl), (IH _ Hr eq_refl). reflexivity.
Qed.

Lemma pairs_conv_free (fk fv : val -> res val) : forall kvs ps,
  Forall (fun kv => (forall r, fk (fst kv) = Ok r -> inst_free r = true) /\
                    (forall r, fv (snd kv) = Ok r -> inst_free r = true)) kvs ->
  pairs_conv E fk fv kvs = Ok ps -> pairs_free ps.
Proof.
  induction kvs as [|[k x] r IH]; intros ps HF H; cbn in H.
  - inversion H; constructor.
  - inversion HF as [|? ? [Hk Hx] Hr]; subst. cbn in Hk, Hx.
    destruct (fk k) eqn:Ek; [|discriminate]. cbn in H. destruct (fv x) eqn:Ex; [|discriminate]. cbn in H.
    destruct (hashable E a); [|discriminate].
    destruct (pairs_conv E fk fv r) eqn:Es; [|discriminate].
    inversion H; subst. constructor; [split; cbn; eauto | eapply IH; eauto].
Qed.

Lemma fields_loop_free {B} keep (conv : field -> val -> res B) (Q : B -> Prop) : forall vs fs out,
  Forall (fun v => forall f r, conv f v = Ok r -> Q r) vs ->
  fields_loop keep conv fs vs = Ok out -> Forall (fun nv => Q (snd nv)) out.
Proof.
  induction vs as [|v r IH]; intros fs out HF H.
  - destruct fs; cbn in H; inversion H; constructor.
  - destruct fs as [|f fs']; cbn in H; [inversion H; constructor|].
    inversion HF as [|? ? Hv Hr]; subst. destruct (keep f v) as [[|]|]; cbn in H; [| |discriminate].
    + destruct (conv f v) eqn:Ec; [|discriminate]. cbn in H.
      destruct (fields_loop keep conv fs' r) eqn:El; [|discriminate].
      inversion H; subst. constructor; [cbn; eauto | eapply IH; eauto].
    + eapply IH; eauto.
Qed.

Notation any k := (asdict_anything E k retain flt df ser).
Notation fld := (asdict_field E (any false) (fun k => any k) true retain df ser).

Definition frees (v : val) : Prop :=
  (forall k r, any k v = Ok r -> inst_free r = true) /\
  (forall c f r, fld c f v = Ok r -> inst_free r = true).

Lemma frees_leaf v : is_leaf v = true -> frees v.
Proof.
  intros Hl. split.
  - intros k r H. assert (H' : ser_value ser None v = Ok r)
      by (destruct v; try discriminate; exact H).
    unfold ser_value in H'. destruct (ser_apply ser None v) as [[x|]|] eqn:Es; try discriminate.
    + inversion H'; subst. eapply ser_opaque; eauto.
    + inversion H'; subst. destruct r; try discriminate; reflexivity.
  - intros c f r H. unfold asdict_field in H.
    destruct (ser_apply ser (Some (c, fst f)) v) as [[x|]|] eqn:Es; try discriminate.
    + inversion H; subst. eapply ser_opaque; eauto.
    + assert (H' : Ok v = Ok r) by (destruct v; try discriminate; exact H).
      inversion H'; subst. destruct r; try discriminate; reflexivity.
Qed.

Lemma frees_seq (v : val) (xs : list val) :
  (v = VL xs \/ (exists t, v = VT t xs) \/ v = VS xs \/ v = VF xs) ->
  Forall frees xs -> frees v.
Proof.
  intros Hv HF.
  assert (Hmem : forall k, Forall (fun x => forall r, any k x = Ok r -> inst_free r = true) xs).
  { intros k. clear Hv. induction HF as [|x r [Hx _] _ IH]; [constructor|]. constructor; [apply Hx | exact IH]. }
  split.
  - intros k r H.
    assert (H' : bind (seq_conv (any k) xs)
                      (rebuild_collection E (if retain then class_of_seq v
                                             else if k then CfTuple TkT else CfList)) = Ok r)
      by (destruct Hv as [-> | [[t ->] | [-> | ->]]]; exact H).
    destruct (seq_conv (any k) xs) as [items|] eqn:Es; [|discriminate].
    eapply rebuild_free; [|exact H']. eapply seq_conv_free; [apply Hmem | exact Es].
  - intros c f r H. unfold asdict_field in H.
    destruct (ser_apply ser (Some (c, fst f)) v) as [[x|]|] eqn:Es; try discriminate.
    { inversion H; subst. eapply ser_opaque; eauto. }
    assert (H' : bind (seq_conv (any false) xs)
                      (rebuild_collection E (if retain then class_of_seq v else CfList)) = Ok r)
      by (destruct Hv as [-> | [[t ->] | [-> | ->]]]; exact H).
    destruct (seq_conv (any false) xs) as [items|] eqn:Ec; [|discriminate].
    eapply rebuild_free; [|exact H']. eapply seq_conv_free; [apply Hmem | exact Ec].
Qed.

Theorem anything_frees : forall v, frees v.
Proof.
  induction v as [t i | s | c fs IH | xs IH | t xs IH | xs IH | xs IH | dk kvs IH | w x IH | ]
    using val_ind'; try (apply frees_leaf; reflexivity).
  - (* instance *)
    assert (Hany : forall k r, any k (VI c fs) = Ok r -> inst_free r = true).
    { intros k r H. cbn [asdict_anything] in H. unfold asdict_body in H.
      destruct (fields_loop _ _ _ _) as [assigns|] eqn:El; [|discriminate]. cbn [bind] in H.
      inversion H; subst. unfold record. cbn [inst_free]. apply pairs_free_forallb.
      apply dict_of_pairs_free.
      assert (Hout : Forall (fun nv : string * val => inst_free (snd nv) = true) assigns).
      { eapply (fields_loop_free (passes flt) (fld c) (fun r => inst_free r = true)); [|exact El].
        clear -IH. induction IH as [|x r [_ Hx] _ IHr]; [constructor|]. constructor; [apply Hx | exact IHr]. }
      clear -Hout. induction Hout as [|[n x] r Hx _ IHr]; [constructor|]. constructor; [split; [reflexivity | exact Hx] | exact IHr]. }
    split; [exact Hany|].
    intros c0 f r H. unfold asdict_field in H.
    destruct (ser_apply ser (Some (c0, fst f)) (VI c fs)) as [[x|]|] eqn:Es; try discriminate.
    + inversion H; subst. eapply ser_opaque; eauto.
    + eapply Hany; eauto.
  - apply (frees_seq (VL xs) xs); auto.
  - apply (frees_seq (VT t xs) xs); auto. right; left; eexists; reflexivity.
  - apply (frees_seq (VS xs) xs); auto.
  - apply (frees_seq (VF xs) xs); auto.
  - (* dict *)
    assert (Hd : forall r, bind (pairs_conv E (any true) (any false) kvs)
                                (fun ps => Ok (mk_dict df ps)) = Ok r ->
                           inst_free r = true).
    { intros r H. destruct (pairs_conv _ _ _ kvs) as [ps|] eqn:Ep; [|discriminate].
      inversion H; subst. apply mk_dict_free. eapply pairs_conv_free; [|exact Ep].
      clear -IH. induction IH as [|[a b] r [[Ha _] [Hb _]] _ IHr]; [constructor|]. constructor; [|exact IHr].
      split; cbn; [apply Ha | apply Hb]. }
    split.
    + intros k r H. apply Hd. exact H.
    + intros c f r H. unfold asdict_field in H.
      destruct (ser_apply ser (Some (c, fst f)) (VD dk kvs)) as [[x|]|] eqn:Es; try discriminate.
      * inversion H; subst. eapply ser_opaque; eauto.
      * apply Hd. exact H.
Qed.

End NoInstance.

Theorem no_instance_left_l : forall E retain flt df ser,
  (forall w v r, ser_apply ser w v = Ok (Some r) -> inst_free r = true) ->
  forall inst r, asdict E true retain flt df ser inst = Ok r -> inst_free r = true.
Proof.
  intros E retain flt df ser Hs inst r H. destruct inst; try discriminate.
  exact (proj1 (anything_frees E retain flt df ser Hs (VI c fs)) false r H).
Qed.


(** ** Exceptions propagate unchanged; there is no partial result.

    An exception raised by the filter, by the serializer, or while hashing a
    converted member / key is the outcome of the whole call, whatever the class
    of the enclosing collections (a tuple rebuilt through [_rebuild_collection]
    included), at any depth: each lemma is stated for arbitrary values, so it
    applies again to the enclosing level. *)

Lemma seq_conv_first_error {A B} (f : A -> res B) : forall pre x post e,
  Forall (fun p => exists r, f p = Ok r) pre -> f x = Err e ->
  seq_conv f (pre ++ x :: post) = Err e.
Proof.
  induction pre as [|p r IH]; intros x post e HF Hx; cbn.
  - rewrite Hx. reflexivity.
  - inversion HF as [|? ? [y Hy] Hr]; subst. rewrite Hy. cbn. rewrite (IH x post e Hr Hx). reflexivity.
Qed.

Lemma fields_loop_first_error {B} keep (conv : field -> val -> res B) : forall fs1 vs1 f v fs2 vs2 e,
  Forall2 (fun f0 v0 => keep f0 v0 = Ok false \/ (keep f0 v0 = Ok true /\ exists x, conv f0 v0 = Ok x)) fs1 vs1 ->
  (keep f v = Err e \/ (keep f v = Ok true /\ conv f v = Err e)) ->
  fields_loop keep conv (fs1 ++ f :: fs2) (vs1 ++ v :: vs2) = Err e.
Proof.
  intros fs1 vs1 f v fs2 vs2 e HF Hx. induction HF as [|f0 v0 fr vr H0 _ IH]; cbn.
  - destruct Hx as [Hk | [Hk Hc]]; rewrite Hk; cbn; [reflexivity|]. rewrite Hc. reflexivity.
  - destruct H0 as [Hk | [Hk [x Hc]]]; rewrite Hk; cbn.
    + exact IH.
    + rewrite Hc. cbn. rewrite IH. reflexivity.
Qed.

Section Errors.
Variable E : env.
Variables (retain : bool) (flt : option filter_fn) (df : dkind) (ser : option ser_fn).
Notation any k := (asdict_anything E k retain flt df ser).

(** the serializer raising on a field value *)
Theorem serializer_error_propagates_l : forall rec_inst rec_any recurse c f v e,
  ser_apply ser (Some (c, fst f)) v = Err e ->
  asdict_field E rec_inst rec_any recurse retain df ser c f v = Err e.
Proof. intros. unfold asdict_field. rewrite H. reflexivity. Qed.

(** the serializer raising on a leaf inside a collection *)
Theorem leaf_error_propagates_l : forall k v e,
  is_leaf v = true -> ser_apply ser None v = Err e -> any k v = Err e.
Proof.
  intros k v e Hl Hs. assert (H : any k v = ser_value ser None v) by (destruct v; try discriminate; reflexivity).
  rewrite H. unfold ser_value. rewrite Hs. reflexivity.
Qed.

(** a member whose conversion raises: the collection raises the same exception,
    whatever it would have been rebuilt as *)
Theorem member_error_propagates_l : forall k v pre x post e,
  (v = VL (pre ++ x :: post) \/ (exists t, v = VT t (pre ++ x :: post)) \/
   v = VS (pre ++ x :: post) \/ v = VF (pre ++ x :: post)) ->
  Forall (fun p => exists r, any k p = Ok r) pre -> any k x = Err e ->
  any k v = Err e.
Proof.
  intros k v pre x post e Hv HF Hx.
  destruct Hv as [-> | [[t ->] | [-> | ->]]]; cbn [asdict_anything];
    rewrite (seq_conv_first_error _ pre x post e HF Hx); reflexivity.
Qed.

(** ... and a result exists only if every member was converted *)
Theorem result_needs_all_members_l : forall k v xs r,
  (v = VL xs \/ (exists t, v = VT t xs) \/ v = VS xs \/ v = VF xs) ->
  any k v = Ok r -> Forall (fun x => exists y, any k x = Ok y) xs.
Proof.
  intros k v xs r Hv H.
  assert (H' : exists items, seq_conv (any k) xs = Ok items).
  { destruct Hv as [-> | [[t ->] | [-> | ->]]]; cbn [asdict_anything] in H;
      (destruct (seq_conv (any k) xs) as [items|]; [eexists; reflexivity | discriminate]). }
  destruct H' as [items Hi]. apply seq_conv_Forall2 in Hi.
  clear Hv H. induction Hi as [|x y xs' ys' Hxy _ IH]; [constructor|]. constructor; [eexists; exact Hxy | exact IH].
Qed.

(** a dict: an exception from converting a key or a value, or an unhashable
    converted key, is the outcome *)
Theorem dict_error_propagates_l : forall k dk kk x post e,
  (any true kk = Err e \/
   (exists a, any true kk = Ok a /\ any false x = Err e) \/
   (exists a b, any true kk = Ok a /\ any false x = Ok b /\ hashable E a = false /\ e = ETypeError)) ->
  any k (VD dk ((kk, x) :: post)) = Err e.
Proof.
  intros k dk kk x post e H. cbn [asdict_anything pairs_conv].
  destruct H as [H | [[a [Ha Hx]] | [a [b [Ha [Hb [Hh ->]]]]]]].
  - rewrite H. reflexivity.
  - rewrite Ha. cbn. rewrite Hx. reflexivity.
  - rewrite Ha. cbn. rewrite Hb. cbn. rewrite Hh. reflexivity.
Qed.

(** the field loop of [asdict]: the filter or the conversion of the first failing
    field decides *)
Theorem field_error_propagates_l : forall recurse c fs1 vs1 f v fs2 vs2 e,
  fields_of E c = fs1 ++ f :: fs2 ->
  Forall2 (fun f0 v0 => passes flt f0 v0 = Ok false \/
             (passes flt f0 v0 = Ok true /\
              exists x, asdict_field E (any false) (fun k => any k) recurse retain df ser c f0 v0 = Ok x))
          fs1 vs1 ->
  (passes flt f v = Err e \/
   (passes flt f v = Ok true /\
    asdict_field E (any false) (fun k => any k) recurse retain df ser c f v = Err e)) ->
  asdict E recurse retain flt df ser (VI c (vs1 ++ v :: vs2)) = Err e.
Proof.
  intros recurse c fs1 vs1 f v fs2 vs2 e Hf HF Hx. unfold asdict, asdict_body. rewrite Hf.
  rewrite (fields_loop_first_error _ _ fs1 vs1 f v fs2 vs2 e HF Hx). reflexivity.
Qed.

(** the same loop in [astuple] *)
Theorem astuple_filter_error_propagates_l : forall recurse tf c f v fs2 vs2 e,
  fields_of E c = f :: fs2 -> passes flt f v = Err e ->
  astuple E recurse retain flt tf (VI c (v :: vs2)) = Err e.
Proof.
  intros recurse tf c f v fs2 vs2 e Hf Hx. unfold astuple. cbn [astuple_rec]. rewrite Hf.
  cbn [fields_loop]. rewrite Hx. reflexivity.
Qed.

End Errors.

(** ** Non-vacuity: a concrete environment and nested value on which the
    premises of the theorems hold and the functions really convert. *)
Module Ex.
Open Scope string_scope.

Definition exE : env :=
  {| fields_of := fun c => match c with 0 => [("x", 0); ("_y", 1)] | 1 => [("a", 2)] | _ => [] end;
     cls_hashable := fun c => Nat.eqb c 2;
     nt_arity := fun n => match n with 0 => 2 | _ => 1 end |}.

(** [C0(x=[C1(1), NT(2, C1("s"))], _y=OrderedDict({(1, frozenset({2})): C1({3})}))] *)
Definition exV : val :=
  VI 0 [VL [VI 1 [VSc 0 1]; VT (TkN 0) [VSc 0 2; VI 1 [VStr "s"]]];
        VD DkO [(VT TkT [VSc 0 1; VF [VSc 0 2]], VI 1 [VS [VSc 0 3]])]].

Example ex_names_distinct : forall c, NoDup (map fst (fields_of exE c)).
Proof.
  intros [|[|c]]; cbn.
  - constructor; [cbn; intros [H|[]]; discriminate | constructor; [intros [] | constructor]].
  - constructor; [intros [] | constructor].
  - constructor.
Qed.

Example ex_wf : wf exE exV = true.
Proof. reflexivity. Qed.

Example ex_asdict :
  asdict exE true false None DkD None exV =
  Ok (VD DkD
          [(VStr "x", VL [VD DkD [(VStr "a", VSc 0 1)];
                          VL [VSc 0 2; VD DkD [(VStr "a", VStr "s")]]]);
           (VStr "_y", VD DkD [(VT TkT [VSc 0 1; VT TkT [VSc 0 2]],
                                VD DkD [(VStr "a", VL [VSc 0 3])])])]).
Proof. reflexivity. Qed.

Example ex_asdict_retain :
  asdict exE true true None DkS None exV =
  Ok (VD DkS
          [(VStr "x", VL [VD DkS [(VStr "a", VSc 0 1)];
                          VT (TkN 0) [VSc 0 2; VD DkS [(VStr "a", VStr "s")]]]);
           (VStr "_y", VD DkS [(VT TkT [VSc 0 1; VF [VSc 0 2]],
                                VD DkS [(VStr "a", VS [VSc 0 3])])])]).
Proof. reflexivity. Qed.

Example ex_astuple :
  astuple exE true true None TfTuple exV =
  Ok (VT TkT [VL [VT TkT [VSc 0 1]; VT (TkN 0) [VSc 0 2; VI 1 [VStr "s"]]];
                VD DkO [(VT TkT [VSc 0 1; VF [VSc 0 2]], VT TkT [VS [VSc 0 3]])]]).
Proof. reflexivity. Qed.

(** filter drops [x]; the serializer wraps leaves only (inside the key too). *)
Example ex_filter_serializer :
  asdict exE true false (Some (fun f _ => Ok (negb (String.eqb (fst f) "x")))) DkD
         (Some (fun w v => Ok (if is_leaf v then Some (VW w v) else None))) exV =
  Ok (VD DkD
          [(VStr "_y", VD DkD [(VT TkT [VW None (VSc 0 1); VT TkT [VW None (VSc 0 2)]],
                                VD DkD [(VStr "a", VL [VW None (VSc 0 3)])])])]).
Proof. reflexivity. Qed.

(** Outside the property's domain: an instance inside a set becomes an
    unhashable dict — TypeError. *)
Example ex_instance_in_set_raises :
  asdict exE true true None DkD None (VI 1 [VS [VI 2 []]]) = Err ETypeError.
Proof. reflexivity. Qed.

Example ex_roundtrip : roundtrip exE 1 [VSc 0 7] = Ok (VI 1 [VSc 0 7]).
Proof. reflexivity. Qed.

(** The "public names" premise of the round trip is needed: the key of a
    private field is its name, the init argument its alias. *)
Example ex_roundtrip_private_name : roundtrip exE 0 [VSc 0 7; VSc 0 8] = Err ETypeError.
Proof. reflexivity. Qed.

(** A serializer that rejects one leaf (scalar 9) with a user exception, two levels
    down inside a tuple inside a list, with retain_collection_types: the exception
    is the outcome (no empty tuple, no partial mapping). *)
Example ex_nested_error_propagates :
  asdict exE true true None DkD
         (Some (fun _ v => match v with VSc 0 9 => Err (EUser 7) | _ => Ok None end))
         (VI 1 [VL [VT TkT [VSc 0 1; VSc 0 9; VSc 0 3]]]) = Err (EUser 7).
Proof. reflexivity. Qed.

(** The same with a TypeError from hashing: a frozenset of instances inside a
    nested tuple. *)
Example ex_nested_typeerror_propagates :
  asdict exE true true None DkD None (VI 1 [VL [VT TkT [VSc 0 1; VF [VI 2 []]; VSc 0 3]]]) = Err ETypeError.
Proof. reflexivity. Qed.

(** A filter raising on a field of an instance inside a key tuple. *)
Example ex_filter_error_propagates :
  asdict exE true false (Some (fun f v => match v with VSc 2 _ => Err (EUser 1) | _ => Ok true end)) DkD None
         (VI 1 [VD DkD [(VT TkT [VSc 0 1; VI 1 [VSc 2 0]], VSc 0 0)]]) = Err (EUser 1).
Proof. reflexivity. Qed.

End Ex.

(** ** The comparison used by the correspondence check ([C13/Corr.v]). *)
From Attrs Require Import Base C13.Corr.

Fixpoint set_free (v : val) : bool :=
  match v with
  | VS _ | VF _ | VAlien => false
  | VI _ xs | VL xs | VT _ xs => forallb set_free xs
  | VD _ kvs => forallb (fun kv => match kv with (a, b) => set_free a && set_free b end) kvs
  | VW _ x => set_free x
  | _ => true
  end.

Definition seq_eqb := fix go (xs ys : list val) {struct xs} : bool :=
  match xs, ys with
  | [], [] => true
  | x :: xs', y :: ys' => val_eqb x y && go xs' ys'
  | _, _ => false
  end.

Lemma seq_eqb_eq : forall xs ys,
  Forall (fun x => set_free x = true -> forall y, val_eqb x y = true -> x = y) xs ->
  forallb set_free xs = true -> seq_eqb xs ys = true -> xs = ys.
Proof.
  induction xs as [|x r IH]; intros ys HF Hs H; destruct ys as [|y ys]; try discriminate; [reflexivity|].
  cbn in H, Hs. apply andb_true_iff in H as [H1 H2]. apply andb_true_iff in Hs as [S1 S2].
  inversion HF as [|? ? Hx Hr]; subst. f_equal; [now apply Hx | now apply IH].
Qed.

Lemma tkind_eqb_eq a b : tkind_eqb a b = true -> a = b.
Proof. destruct a, b; cbn; try discriminate; try reflexivity. intros H. apply Nat.eqb_eq in H. now subst. Qed.
Lemma dkind_eqb_eq a b : dkind_eqb a b = true -> a = b.
Proof. destruct a, b; cbn; try discriminate; reflexivity. Qed.

(** On results without sets the comparison is plain equality (with sets it is
    equality up to the order of members). *)
Theorem val_eqb_exact_l : forall a, set_free a = true -> forall b, val_eqb a b = true -> a = b.
Proof.
  induction a as [t i | s | c fs IH | xs IH | t xs IH | xs IH | xs IH | dk kvs IH | w x IH | ]
    using val_ind'; intros Hs b H; destruct b; try discriminate.
  - cbn in H. apply andb_true_iff in H as [H1 H2].
    apply Nat.eqb_eq in H1, H2. now subst.
  - cbn in H. apply String.eqb_eq in H. now subst.
  - cbn in H. apply andb_true_iff in H as [H1 H2]. apply Nat.eqb_eq in H1. subst.
    f_equal. apply seq_eqb_eq; auto.
  - cbn in H. f_equal. apply seq_eqb_eq; auto.
  - cbn in H. apply andb_true_iff in H as [H1 H2]. apply tkind_eqb_eq in H1. subst.
    f_equal. apply seq_eqb_eq; auto.
  - cbn in H. apply andb_true_iff in H as [H1 H2]. apply dkind_eqb_eq in H1. subst. f_equal.
    cbn in Hs. clear -IH Hs H2. revert kvs0 H2.
    induction IH as [|[a b] r [Ha Hb] _ IHr]; intros [|[a' b'] r'] H2; try discriminate; [reflexivity|].
    cbn in Hs. apply andb_true_iff in Hs as [Hab Hr]. apply andb_true_iff in Hab as [Sa Sb].
    apply andb_true_iff in H2 as [H2 H3]. apply andb_true_iff in H2 as [Ea Eb].
    cbn in Ha, Hb. rewrite (Ha Sa _ Ea), (Hb Sb _ Eb). f_equal. now apply IHr.
  - cbn in H. apply andb_true_iff in H as [H1 H2]. f_equal.
    + destruct w as [[c s]|], w0 as [[c' s']|]; cbn in H1; try discriminate; [|reflexivity].
      apply andb_true_iff in H1 as [A B]. apply Nat.eqb_eq in A. apply String.eqb_eq in B. now subst.
    + now apply IH.
Qed.

Theorem check_case_exact_l : forall c r,
  check_case c = true -> run_faithful c = Ok r -> set_free r = true ->
  c_seen c = Ok r /\ run_ideal c = Ok r.
Proof.
  intros c r H Hf Hs. unfold check_case in H. apply andb_true_iff in H as [H1 H2].
  rewrite Hf in H1. unfold res_eqb in H1.
  destruct (c_seen c) as [s|] eqn:Es; [|discriminate].
  apply (val_eqb_exact_l r Hs) in H1. subst s. split; [reflexivity|].
  unfold res_eqb in H2. destruct (run_ideal c) as [i|]; [|discriminate].
  (* val_eqb i r with r set-free: compare structurally from the other side *)
  assert (Hsym : forall a, set_free a = true -> forall b, val_eqb b a = true -> b = a).
  { clear. induction a as [t i | s | c fs IH | xs IH | t xs IH | xs IH | xs IH | dk kvs IH | w x IH | ]
      using val_ind'; intros Hs b H; destruct b; try discriminate.
    - cbn in H. apply andb_true_iff in H as [H1 H2]. apply Nat.eqb_eq in H1, H2. now subst.
    - cbn in H. apply String.eqb_eq in H. now subst.
    - cbn in H. apply andb_true_iff in H as [H1 H2]. apply Nat.eqb_eq in H1. subst. f_equal.
      cbn in Hs. clear -IH Hs H2. revert fs0 H2.
      induction IH as [|x r Hx _ IHr]; intros [|y ys] H2; try discriminate; [reflexivity|].
      cbn in Hs, H2. apply andb_true_iff in Hs as [S1 S2]. apply andb_true_iff in H2 as [E1 E2].
      f_equal; [now apply Hx | now apply IHr].
    - cbn in H. f_equal. cbn in Hs. clear -IH Hs H. revert xs0 H.
      induction IH as [|x r Hx _ IHr]; intros [|y ys] H2; try discriminate; [reflexivity|].
      cbn in Hs, H2. apply andb_true_iff in Hs as [S1 S2]. apply andb_true_iff in H2 as [E1 E2].
      f_equal; [now apply Hx | now apply IHr].
    - cbn in H. apply andb_true_iff in H as [H1 H2]. apply tkind_eqb_eq in H1. subst. f_equal.
      cbn in Hs. clear -IH Hs H2. revert xs0 H2.
      induction IH as [|x r Hx _ IHr]; intros [|y ys] H2; try discriminate; [reflexivity|].
      cbn in Hs, H2. apply andb_true_iff in Hs as [S1 S2]. apply andb_true_iff in H2 as [E1 E2].
      f_equal; [now apply Hx | now apply IHr].
    - cbn in H. apply andb_true_iff in H as [H1 H2]. apply dkind_eqb_eq in H1. subst. f_equal.
      cbn in Hs. clear -IH Hs H2. revert kvs0 H2.
      induction IH as [|[a b] r [Ha Hb] _ IHr]; intros [|[a' b'] r'] H2; try discriminate; [reflexivity|].
      cbn in Hs. apply andb_true_iff in Hs as [Hab Hr]. apply andb_true_iff in Hab as [Sa Sb].
      apply andb_true_iff in H2 as [H2 H3]. apply andb_true_iff in H2 as [Ea Eb].
      cbn in Ha, Hb. rewrite (Ha Sa _ Ea), (Hb Sb _ Eb). f_equal. now apply IHr.
    - cbn in H. apply andb_true_iff in H as [H1 H2]. f_equal.
      + destruct w as [[c s]|], w0 as [[c' s']|]; cbn in H1; try discriminate; [|reflexivity].
        apply andb_true_iff in H1 as [A B]. apply Nat.eqb_eq in A. apply String.eqb_eq in B. now subst.
      + now apply IH. }
  f_equal. now apply Hsym.
Qed.

Lemma exc_eqb_eq a b : exc_eqb a b = true -> a = b.
Proof. destruct a, b; cbn; try discriminate; try reflexivity. intros H. apply Nat.eqb_eq in H. now subst. Qed.

(** ... and when the model says an exception comes out, a passing case means the
    implementation raised exactly that exception class. *)
Theorem check_case_error_exact_l : forall c e,
  check_case c = true -> run_faithful c = Err e -> c_seen c = Err e /\ run_ideal c = Err e.
Proof.
  intros c e H Hf. unfold check_case in H. apply andb_true_iff in H as [H1 H2].
  rewrite Hf in H1. unfold res_eqb in H1. destruct (c_seen c) as [s|e'] eqn:Es; [discriminate|].
  apply exc_eqb_eq in H1. subst e'. split; [reflexivity|].
  unfold res_eqb in H2. destruct (run_ideal c) as [i|e']; [discriminate|].
  apply exc_eqb_eq in H2. now subst.
Qed.
