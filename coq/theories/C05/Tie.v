(** * C05 — tie by translation: the frozen-class code regenerated from the CURRENT source text
    ([Gen/C05_tie.v], written by harness/translate_c05.py on every run) coincides on EVERY input with
    the functions of [C05/Model.v] (and [Core/Init.v]'s [choose_setter]) the property theorems are
    stated about.  A source change that alters one of these functions makes a lemma below fail to
    compile: a proof-obligation failure of ./check C05, which then searches for a concrete failing
    input with its correspondence. *)
From Coq Require Import List Bool String.
Import ListNotations.
From Attrs Require Import Core.Attr Core.Init C05.Model Gen.C05_tie.
Open Scope string_scope.

Lemma tie_fully_translated : c05_fully_translated = true.
Proof. reflexivity. Qed.

(** ** [_frozen_setattrs] / [_frozen_delattrs] *)

Definition strs_eqb (a b : list string) : bool :=
  (fix go (a b : list string) : bool :=
     match a, b with
     | [], [] => true
     | x :: a', y :: b' => String.eqb x y && go a' b'
     | _, _ => false
     end) a b.

Definition tev_eqb (a b : tev) : bool :=
  match a, b with
  | TCall f xs, TCall g ys => String.eqb f g && strs_eqb xs ys
  | TReturn, TReturn => true
  | TRaise e, TRaise e' => String.eqb e e'
  | _, _ => false
  end.

Fixpoint tevs_eqb (a b : list tev) : bool :=
  match a, b with
  | [], [] => true
  | x :: a', y :: b' => tev_eqb x y && tevs_eqb a' b'
  | _, _ => false
  end.

(** What such an event list means for the instance: raising FrozenInstanceError changes nothing;
    handing the very arguments to the builtin base's method (and then returning, explicitly or by
    falling off the end) is the generic behaviour; anything else is not what the model describes. *)
Definition interp_set (c : icls) (s : istate) (n : string) (v : val) (evs : list tev) : istate * outcome :=
  if tevs_eqb evs [TRaise "FrozenInstanceError"] then (s, RFrozen)
  else if tevs_eqb evs [TCall "BaseException.__setattr__" ["self"; "name"; "value"]; TReturn]
       || tevs_eqb evs [TCall "BaseException.__setattr__" ["self"; "name"; "value"]]
  then generic_setattr c s n v
  else (s, RUnmodelled).

Definition interp_del (c : icls) (s : istate) (n : string) (evs : list tev) : istate * outcome :=
  if tevs_eqb evs [TRaise "FrozenInstanceError"] then (s, RFrozen)
  else if tevs_eqb evs [TCall "BaseException.__delattr__" ["self"; "name"]; TReturn]
       || tevs_eqb evs [TCall "BaseException.__delattr__" ["self"; "name"]]
  then generic_delattr c s n
  else (s, RUnmodelled).

(** Case analysis on every string comparison with a literal that occurs in the goal: the two sides
    are then closed terms. *)
Ltac split_literals n :=
  cbn [mem_str];
  repeat match goal with
         | |- context [String.eqb n ?l] => destruct (String.eqb n l)
         end.

Lemma tie_frozen_setattrs : forall c s n v,
  interp_set c s n v (t_frozen_setattrs (ic_exc c) n) = frozen_setattrs c s n v.
Proof.
  intros c s n v. unfold interp_set, frozen_setattrs, t_frozen_setattrs, SET_OK.
  destruct (ic_exc c); split_literals n; reflexivity.
Qed.

Lemma tie_frozen_delattrs : forall c s n,
  interp_del c s n (t_frozen_delattrs (ic_exc c) n) = frozen_delattrs c s n.
Proof.
  intros c s n. unfold interp_del, frozen_delattrs, t_frozen_delattrs, DEL_OK.
  destruct (ic_exc c); split_literals n; reflexivity.
Qed.

(** ** [_has_frozen_base_class] and the decisions of [attrs().wrap] *)

Lemma tie_has_frozen_base_class : forall sa, t_has_frozen_base_class sa = sa_is_frozen sa.
Proof. intros []; reflexivity. Qed.

(** The pieces [define_class] is made of, by name. *)
Definition m_is_frozen (frozen_arg : bool) (cls_setattr : sa_kind) : bool :=
  frozen_arg || sa_is_frozen cls_setattr.
Definition m_has_own_setattr (auto_detect user_sa : bool) : bool := auto_detect && user_sa.
Definition m_freeze_rejected (has_own_setattr is_frozen : bool) : bool := has_own_setattr && is_frozen.
Definition m_builder_init (is_frozen : bool) (own_sa : option sa_kind) (own_da : option da_kind)
  : option sa_kind * option da_kind * bool :=
  (if is_frozen then Some SaFrozen else own_sa, if is_frozen then Some DaFrozen else own_da, is_frozen).
(** [None]: ValueError *)
Definition m_add_setattr (hooked : list string) (has_custom : bool) (sa1 : option sa_kind) (wrote1 : bool)
  : option (option sa_kind * option bool * bool) :=
  if negb (is_nil hooked) && has_custom then None
  else Some (if is_nil hooked then sa1 else Some (SaHooked hooked),
             if is_nil hooked then None else Some true,
             wrote1 || negb (is_nil hooked)).

Lemma tie_is_frozen : forall frozen sa, t_is_frozen frozen sa = m_is_frozen frozen sa.
Proof. intros [] []; reflexivity. Qed.

Lemma tie_has_own_setattr : forall auto_detect (own : string -> bool),
  t_has_own_setattr auto_detect own = m_has_own_setattr auto_detect (own "__setattr__").
Proof. intros [] own; unfold t_has_own_setattr, m_has_own_setattr; destruct (own "__setattr__"); reflexivity. Qed.

Lemma tie_freeze_rejected : forall h f,
  t_freeze_rejected h f = if m_freeze_rejected h f then Some "ValueError" else None.
Proof. intros [] []; reflexivity. Qed.

(** The builder is handed [is_frozen] (not the bare argument) and [has_own_setattr]; [add_setattr] is
    called exactly when the frozen ARGUMENT is false. *)
Lemma tie_builder_args : forall frozen is_frozen has_own,
  t_builder_frozen_arg frozen is_frozen has_own = is_frozen /\
  t_builder_custom_arg frozen is_frozen has_own = has_own /\
  t_calls_add_setattr frozen is_frozen has_own = negb frozen.
Proof. intros [] [] []; repeat split; reflexivity. Qed.

(** ** [_ClassBuilder.__init__]: the frozen block *)

Fixpoint lookup_str (k : string) (l : list (string * string)) : option string :=
  match l with
  | [] => None
  | (k', v) :: r => if String.eqb k k' then Some v else lookup_str k r
  end.

(** the last write wins *)
Definition entry (k : string) (l : list (string * string)) : option string := lookup_str k (rev l).

Definition sa_of_entries (l : list (string * string)) (hooked : list string) (own : option sa_kind) : option sa_kind :=
  match entry "__setattr__" l with
  | Some v => Some (if String.eqb v "_frozen_setattrs" then SaFrozen
                    else if String.eqb v "<closure __setattr__>" then SaHooked hooked else SaUser)
  | None => own
  end.
Definition da_of_entries (l : list (string * string)) (own : option da_kind) : option da_kind :=
  match entry "__delattr__" l with
  | Some v => Some (if String.eqb v "_frozen_delattrs" then DaFrozen else DaUser)
  | None => own
  end.
Definition flag_of_entries (l : list (string * string)) : option bool :=
  match entry "__attrs_own_setattr__" l with
  | Some v => Some (String.eqb v "True")
  | None => None
  end.

(** ... whatever [cls.__setattr__] resolves to at that moment (the pair is written again in every
    frozen class, also when it would be inherited: that is what keeps the reset rules away). *)
Lemma tie_builder_init : forall is_frozen cls_setattr own_sa own_da,
  (sa_of_entries (fst (t_builder_init is_frozen cls_setattr)) [] own_sa,
   da_of_entries (fst (t_builder_init is_frozen cls_setattr)) own_da,
   snd (t_builder_init is_frozen cls_setattr)) = m_builder_init is_frozen own_sa own_da /\
  flag_of_entries (fst (t_builder_init is_frozen cls_setattr)) = None.
Proof. intros [] [] own_sa own_da; split; reflexivity. Qed.

(** ** [add_setattr] after the loop that collects the hooked fields *)

Definition interp_add (r : tadd) (hooked : list string) (sa1 : option sa_kind) (wrote1 : bool)
  : option (option sa_kind * option bool * bool) :=
  match r with
  | TUnchanged => Some (sa1, None, wrote1)
  | TRaises _ => None
  | TWrites l w => Some (sa_of_entries l hooked sa1, flag_of_entries l, wrote1 || w)
  end.

Lemma tie_add_setattr : forall hooked has_custom sa1 wrote1,
  interp_add (t_add_setattr (negb (is_nil hooked)) has_custom) hooked sa1 wrote1 =
  m_add_setattr hooked has_custom sa1 wrote1.
Proof.
  intros hooked has_custom sa1 wrote1. unfold m_add_setattr.
  destruct hooked as [|h r]; destruct has_custom; cbn; try reflexivity;
    rewrite ?orb_false_r; reflexivity.
Qed.

(** ** The model's [define_class] is these pieces put together *)

Definition define_class_named (t : table) (d : cdef) : option klass :=
  if negb (bases_exist t d) then None else
  let own_sa0 := if f_user_sa d then Some SaUser else None in
  let own_da0 := if f_user_da d then Some DaUser else None in
  let exc := f_root_exc d || existsb (class_exc t) (f_bases d) in
  match f_attrs d with
  | None =>
      Some {| c_attrs := false; c_frozen_arg := false;
              c_user_sa := f_user_sa d; c_user_da := f_user_da d;
              c_bases := f_bases d; c_mro := f_mro d; c_exc := exc;
              c_sa := own_sa0; c_da := own_da0; c_flag := None;
              c_spec := match first_some c_spec t (f_mro d) with
                        | Some k => Some (with_has_dict k (k_has_dict k || f_adds_dict d))
                        | None => None
                        end |}
  | Some a =>
      let frozen_arg := eff_frozen_arg a in
      match builder_on_setattr t d a with
      | None => None
      | Some o =>
          let is_frozen := m_is_frozen frozen_arg (resolve_sa t own_sa0 (f_mro d)) in
          let has_own_setattr := m_has_own_setattr (d_auto_detect a) (f_user_sa d) in
          if m_freeze_rejected has_own_setattr is_frozen then None
          else
            let k := with_frozen_os (d_spec a) is_frozen o in
            let '(sa1, da1, wrote1) := m_builder_init is_frozen own_sa0 own_da0 in
            let hooked := if negb frozen_arg then sa_attr_names k else [] in
            match m_add_setattr hooked has_own_setattr sa1 wrote1 with
            | None => None
            | Some (sa2, flag2, wrote) =>
                match make_init_script k with
                | GenValueError => None
                | GenOk _ =>
                    let inherited_own :=
                      if k_slots k then existsb (class_own_flag t) (f_bases d)
                      else resolve_flag t None (f_mro d) in
                    let sa3 := if wrote then sa2
                               else if inherited_own && negb has_own_setattr then Some SaObject else sa2 in
                    let flag3 := if wrote then flag2
                                 else if k_slots k then Some false
                                 else if inherited_own then Some false else None in
                    Some {| c_attrs := true; c_frozen_arg := frozen_arg;
                            c_user_sa := f_user_sa d; c_user_da := f_user_da d;
                            c_bases := f_bases d; c_mro := f_mro d; c_exc := exc;
                            c_sa := sa3; c_da := da1; c_flag := flag3; c_spec := Some k |}
                end
            end
      end
  end.

Lemma define_class_is_named : forall t d, define_class t d = define_class_named t d.
Proof.
  intros t d. unfold define_class, define_class_named.
  destruct (negb (bases_exist t d)); [reflexivity|].
  destruct (f_attrs d) as [a|]; [|reflexivity].
  destruct (builder_on_setattr t d a) as [o|]; [|reflexivity].
  unfold m_is_frozen, m_has_own_setattr, m_freeze_rejected, m_builder_init, m_add_setattr.
  destruct (eff_frozen_arg a); cbn [negb orb];
    destruct (sa_is_frozen (resolve_sa t (if f_user_sa d then Some SaUser else None) (f_mro d))); cbn [orb andb];
    destruct (d_auto_detect a && f_user_sa d); cbn [andb is_nil negb orb]; try reflexivity;
    try (destruct (sa_attr_names _); cbn [is_nil negb andb orb]; try reflexivity;
         destruct (make_init_script _); reflexivity);
    destruct (make_init_script _); reflexivity.
Qed.

(** ** The store form of a field in the generated initializer: [_determine_setters] *)

Definition has_conv (a : attribute) : bool :=
  match conv_call_of a with NoConv => false | ConvCall _ _ _ => true end.

Lemma tie_choose_setter : forall k a hs,
  fst (t_determine_setters (k_frozen k) (k_slots k) (has_conv a) hs (is_slot_attr k (a_name a)))
  = choose_setter k a hs.
Proof.
  intros k a hs. unfold choose_setter, has_conv.
  destruct (k_frozen k), (k_slots k), (conv_call_of a), hs, (is_slot_attr k (a_name a)); reflexivity.
Qed.

(** [_inst_dict = self.__dict__] is emitted exactly for frozen dict classes ([SBindInstDict]). *)
Lemma tie_inst_dict_line : forall frozen slots wc hs sl,
  snd (t_determine_setters frozen slots wc hs sl) = frozen && negb slots.
Proof. intros [] [] [] [] []; reflexivity. Qed.

(** A frozen class never gets a store through the class [__setattr__]. *)
Lemma tie_frozen_never_plain : forall slots wc hs sl,
  fst (t_determine_setters true slots wc hs sl) <> SetPlain.
Proof. intros [] [] [] []; discriminate. Qed.

(** ** [define().wrap]: default hooks, and the scan of [cls.__bases__] for a frozen [__setattr__]
    (through attribute lookup on the base, not the base's own [__dict__]) *)

Definition own_sa (t : table) (id : nat) : option sa_kind :=
  match nth_error t id with Some c => c_sa c | None => None end.

Lemma existsb_map_ {A B} (f : B -> bool) (g : A -> B) : forall l, existsb f (map g l) = existsb (fun x => f (g x)) l.
Proof. induction l as [|x r IH]; [reflexivity|]. cbn. now rewrite IH. Qed.

Lemma tie_define_on_setattr : forall t bases frozen user,
  t_define_on_setattr frozen user (map (fun b => (class_sa t b, own_sa t b)) bases)
  = define_on_setattr t bases frozen user.
Proof.
  intros t bases frozen user. unfold t_define_on_setattr, define_on_setattr.
  rewrite !existsb_map_. cbn [fst snd].
  destruct (existsb (fun b => sa_is_frozen (class_sa t b)) bases); destruct frozen; destruct user; reflexivity.
Qed.
