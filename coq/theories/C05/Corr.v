(** * C05 — correspondence: the check function [coqc] evaluates on what the harness
    observed on real class hierarchies and real instances. *)
From Coq Require Import List Bool String Arith.
Import ListNotations.
From Attrs Require Import Base Core.Attr Core.Init Core.InitCorr C05.Model.
Open Scope string_scope.
Open Scope list_scope.

(** Resolved kinds are compared up to the hooked names (those are C06's subject). *)
Definition sa_eqb (a b : sa_kind) : bool :=
  match a, b with
  | SaFrozen, SaFrozen | SaObject, SaObject | SaUser, SaUser | SaHooked _, SaHooked _ => true
  | _, _ => false
  end.

Definition da_eqb (a b : da_kind) : bool :=
  match a, b with
  | DaFrozen, DaFrozen | DaObject, DaObject | DaUser, DaUser => true
  | _, _ => false
  end.

Definition outcome_eqb (a b : outcome) : bool :=
  match a, b with
  | ROk, ROk | RFrozen, RFrozen | RAttrError, RAttrError | RTypeError, RTypeError => true
  | _, _ => false                         (* RUnmodelled never equals anything *)
  end.

(** The observable state of an instance. *)
Record ostate := {
  os_fields : list (string * option val);   (* every field: value or unset *)
  os_dict : list (string * val);            (* vars(o) without fields / hash cache ([] without __dict__) *)
  os_cache : option val;                    (* the hash-cache attribute if the class caches *)
  os_args : option (list val);              (* BaseException.args *)
  os_members : list val                     (* __cause__, __context__, __traceback__, __suppress_context__ *)
}.

Definition dict_eqb (m o : list (string * val)) : bool :=
  Nat.eqb (List.length m) (List.length o) &&
  forallb (fun p => match lookup (fst p) m with Some v => val_eqb v (snd p) | None => false end) o.

Definition ostate_eqb (a b : ostate) : bool :=
  snap_eqb (os_fields a) (os_fields b) && dict_eqb (os_dict a) (os_dict b) &&
  oval_eqb (os_cache a) (os_cache b) && option_eqb vals_eqb (os_args a) (os_args b) &&
  vals_eqb (os_members a) (os_members b).

(** What the model state looks like through the same window. *)
Definition view (c : icls) (s : istate) : ostate :=
  let k := ic_spec c in
  {| os_fields := snapshot k (st_inst s);
     os_dict := if k_has_dict k
                then filter (fun p => negb (mem_str (fst p) (HASH_CACHE :: map a_name (k_attrs k))))
                            (i_dict (st_inst s))
                else [];
     os_cache := if k_cache_hash k
                 then match read k (st_inst s) HASH_CACHE with Ok v => Some v | Raise _ => None end
                 else None;
     os_args := if ic_exc c then i_args (st_inst s) else None;
     os_members := if ic_exc c then [st_cause s; st_context s; st_tb s; st_suppress s] else [] |}.

(** One observed step: the outcome and the state after it ([None]: the harness saw
    exactly the state it saw before the step). *)
Definition sobs := (outcome * option ostate)%type.

Record case := {
  cs_defs : list (cdef * option (sa_kind * da_kind));
      (* class statements in order; what the real class resolves __setattr__ / __delattr__
         to, or None when the definition raised ValueError *)
  cs_target : option nat;                   (* the class instances are made of *)
  cs_env : list string;
  cs_call : call;
  cs_init : option observed;                (* what the real initializer did (Core/InitCorr); given in
                                               one case per instance, the others only use state0 *)
  cs_state0 : option ostate;                (* the fresh instance *)
  cs_alpha : list op;                       (* the operations the histories are made of *)
  cs_runs : list (list (nat * sobs))        (* histories (indices into cs_alpha), each from a fresh instance *)
}.

(** Short names for the common observations (keeps the case files small). *)
Definition F : sobs := (RFrozen, None).
Definition A : sobs := (RAttrError, None).
Definition T : sobs := (RTypeError, None).
Definition K : sobs := (ROk, None).
Definition nth_op (alpha : list op) (i : nat) : op := nth i alpha (ODel "").
Definition ops_of (alpha : list op) (r : list (nat * sobs)) : list (op * sobs) :=
  map (fun p => (nth_op alpha (fst p), snd p)) r.

Fixpoint check_defs (t : table) (ds : list (cdef * option (sa_kind * da_kind))) : bool * table :=
  match ds with
  | [] => (true, t)
  | (d, ob) :: r =>
      match define_class t d, ob with
      | Some c, Some (sa, da) =>
          let t' := t ++ [c] in
          let id := List.length t in
          let ok := sa_eqb (class_sa t' id) sa && da_eqb (class_da t' id) da in
          let '(okr, tf) := check_defs t' r in
          (ok && okr, tf)
      | None, None => check_defs t r
      | Some c, None => (false, t ++ [c])
      | None, Some _ => (false, t)
      end
  end.

Fixpoint check_run (c : icls) (s : istate) (prev : ostate) (l : list (op * sobs)) : bool :=
  match l with
  | [] => true
  | (o, (out, ost)) :: r =>
      let '(s', mout) := step c s o in
      let cur := match ost with Some x => x | None => prev end in
      outcome_eqb mout out && ostate_eqb (view c s') cur && check_run c s' cur r
  end.

Definition check_case (c : case) : bool :=
  let '(ok, t) := check_defs [] (cs_defs c) in
  ok &&
  match cs_target c with
  | None => is_nil (cs_runs c)
  | Some id =>
      match icls_of t id (cs_env c) with
      | None => false
      | Some ic =>
          match cs_init c with
          | Some ob => observed_eqb (model_call (ic_spec ic) (cs_call c)) ob
          | None => true
          end &&
          match run_init (ic_spec ic) (fault_of (c_fault (cs_call c))) (c_validators_on (cs_call c))
                         (c_pos (cs_call c)) (c_kw (cs_call c)), cs_state0 c with
          | InitDone i _, Some s0 =>
              ostate_eqb (view ic (fresh_istate i)) s0 &&
              forallb (fun r => check_run ic (fresh_istate i) s0 (ops_of (cs_alpha c) r)) (cs_runs c)
          | InitDone _ _, None => false
          | _, Some _ => false
          | _, None => is_nil (cs_runs c)
          end
      end
  end.

(** What the model predicts, for replay files. *)
Fixpoint model_defs (t : table) (ds : list (cdef * option (sa_kind * da_kind)))
  : list (option (sa_kind * da_kind)) * table :=
  match ds with
  | [] => ([], t)
  | (d, _) :: r =>
      match define_class t d with
      | Some c =>
          let t' := t ++ [c] in
          let '(l, tf) := model_defs t' r in
          (Some (class_sa t' (List.length t), class_da t' (List.length t)) :: l, tf)
      | None => let '(l, tf) := model_defs t r in (None :: l, tf)
      end
  end.

Definition model_of (c : case) :=
  let '(kinds, t) := model_defs [] (map (fun p => (fst p, snd p)) (cs_defs c)) in
  (kinds,
   match cs_target c with
   | None => None
   | Some id =>
       match icls_of t id (cs_env c) with
       | None => None
       | Some ic =>
           Some (model_call (ic_spec ic) (cs_call c),
                 match run_init (ic_spec ic) (fault_of (c_fault (cs_call c))) (c_validators_on (cs_call c))
                                (c_pos (cs_call c)) (c_kw (cs_call c)) with
                 | InitDone i _ =>
                     Some (view ic (fresh_istate i),
                           map (fun r => map (fun p => (fst p, view ic (snd p)))
                                             (run ic (fresh_istate i) (map fst (ops_of (cs_alpha c) r))))
                               (cs_runs c))
                 | _ => None
                 end)
       end
   end).

(** Soundness of the comparison on what matters: an accepted run has, step by step,
    the model's outcome. *)
Lemma outcome_eqb_eq a b : outcome_eqb a b = true -> a = b.
Proof. destruct a, b; cbn; congruence. Qed.

Lemma check_run_outcomes c : forall l s prev,
  check_run c s prev l = true ->
  map fst (run c s (map fst l)) = map (fun p => fst (snd p)) l.
Proof.
  induction l as [|[o [out ost]] r IH]; intros s prev H; [reflexivity|].
  cbn in H. cbn [map run fst]. destruct (step c s o) as [s' mout] eqn:E.
  apply andb_true_iff in H as [H H3]. apply andb_true_iff in H as [H1 H2].
  apply outcome_eqb_eq in H1. cbn [map fst snd]. rewrite H1. f_equal. eapply IH; eauto.
Qed.
