(** * C05 — frozen instances cannot be mutated; frozenness is inherited.

    Executable model of

    - [_frozen_setattrs], [_frozen_delattrs] ([attr/_make.py]);
    - the decisions that put (or do not put) them into a class [__dict__]:
      [attrs().wrap] ([is_frozen = frozen or _has_frozen_base_class(cls)],
      [has_own_setattr], the ["Can't freeze a class with a custom __setattr__"]
      check, [if not frozen: builder.add_setattr()]), [_ClassBuilder.__init__]
      (writes the pair, [_wrote_own_setattr]), [add_setattr]
      ([__attrs_own_setattr__]), the reset rule of [_patch_original_class] (walks
      the MRO through [getattr]) and of [_create_slots_class] (looks at the
      immediate bases only), [define().wrap] of [attr/_next_gen.py] (default
      hooks, scan of [cls.__bases__] for a frozen [__setattr__]);
    - Python's attribute resolution along the MRO for [__setattr__],
      [__delattr__], [__attrs_own_setattr__];
    - setting / deleting / augmented assignment on an instance through the resolved
      methods, over the two-layer instances of [Core/Init.v] extended by the
      [BaseException] bookkeeping attributes.

    The field tuple, the initializer and its rejection rule ("Frozen classes can't
    use on_setattr") come from the shared [Core/Init.v] model.

    Definitions only; proofs are in [C05/Proofs.v]. *)

From Coq Require Import List Bool String Arith.
Import ListNotations.
From Attrs Require Import Core.Attr Core.Init.
Open Scope string_scope.
Open Scope list_scope.

(** ** Class dictionaries *)

(** What a class [__dict__] can hold under ["__setattr__"]. *)
Inductive sa_kind :=
| SaFrozen                          (* _frozen_setattrs *)
| SaHooked (names : list string)    (* the closure written by add_setattr; hooked field names *)
| SaObject                          (* object.__setattr__, written by the reset rule (or nothing anywhere) *)
| SaUser.                           (* written by the user in the class body *)

(** ... and under ["__delattr__"]. *)
Inductive da_kind := DaFrozen | DaObject | DaUser.

Definition sa_is_frozen (s : sa_kind) : bool := match s with SaFrozen => true | _ => false end.
Definition da_is_frozen (s : da_kind) : bool := match s with DaFrozen => true | _ => false end.

Record klass := {
  c_attrs : bool;                   (* built by attr.s / define / attrs.frozen *)
  c_frozen_arg : bool;              (* ... with frozen=True *)
  c_user_sa : bool;                 (* the class body itself defines __setattr__ *)
  c_user_da : bool;                 (* the class body itself defines __delattr__ *)
  c_bases : list nat;               (* cls.__bases__ (ids; object / builtin exceptions left out) *)
  c_mro : list nat;                 (* cls.__mro__[1:] (ids; object / builtin exceptions left out) *)
  c_exc : bool;                     (* issubclass(cls, BaseException) *)
  c_sa : option sa_kind;            (* cls.__dict__.get("__setattr__") *)
  c_da : option da_kind;            (* cls.__dict__.get("__delattr__") *)
  c_flag : option bool;             (* cls.__dict__.get("__attrs_own_setattr__") *)
  c_spec : option cls_spec          (* layout + initializer instances of the class are built with *)
}.

(** Classes are numbered in definition order: the id is the index in the table. *)
Definition table := list klass.

(** [getattr(cls, name)] for a name found in class dictionaries only: the first class
    of the MRO whose [__dict__] has it. *)
Fixpoint first_some {A : Type} (f : klass -> option A) (t : table) (ids : list nat) : option A :=
  match ids with
  | [] => None
  | i :: r =>
      match nth_error t i with
      | Some c => match f c with Some x => Some x | None => first_some f t r end
      | None => first_some f t r
      end
  end.

(** [cls.__setattr__] for a class with own entry [own] and MRO tail [mro]
    ([object.__setattr__] — for exceptions [BaseException.__setattr__], the same
    generic behaviour — when nobody defines one). *)
Definition resolve_sa (t : table) (own : option sa_kind) (mro : list nat) : sa_kind :=
  match own with
  | Some s => s
  | None => match first_some c_sa t mro with Some s => s | None => SaObject end
  end.

Definition resolve_da (t : table) (own : option da_kind) (mro : list nat) : da_kind :=
  match own with
  | Some s => s
  | None => match first_some c_da t mro with Some s => s | None => DaObject end
  end.

(** [getattr(cls, "__attrs_own_setattr__", False)] *)
Definition resolve_flag (t : table) (own : option bool) (mro : list nat) : bool :=
  match own with
  | Some b => b
  | None => match first_some c_flag t mro with Some b => b | None => false end
  end.

Definition klass_sa (t : table) (c : klass) : sa_kind := resolve_sa t (c_sa c) (c_mro c).
Definition klass_da (t : table) (c : klass) : da_kind := resolve_da t (c_da c) (c_mro c).

Definition class_sa (t : table) (id : nat) : sa_kind :=
  match nth_error t id with Some c => klass_sa t c | None => SaObject end.
Definition class_da (t : table) (id : nat) : da_kind :=
  match nth_error t id with Some c => klass_da t c | None => DaObject end.
Definition class_exc (t : table) (id : nat) : bool :=
  match nth_error t id with Some c => c_exc c | None => false end.
Definition class_own_flag (t : table) (id : nat) : bool :=
  match nth_error t id with Some c => match c_flag c with Some b => b | None => false end | None => false end.

(** ** Class definitions *)

Inductive api :=
| ApiAttrS            (* attr.s / attr.attrs / attr.make_class *)
| ApiDefine           (* attrs.define / attrs.mutable *)
| ApiFrozen.          (* attrs.frozen = partial(define, frozen=True, on_setattr=None) *)

Record adef := {
  d_api : api;
  d_frozen : bool;                  (* the frozen= argument *)
  d_auto_detect : bool;
  d_on_setattr : cls_on_setattr;    (* the on_setattr= argument as the user wrote it (never COsDefault) *)
  d_spec : cls_spec                 (* fields, slots, cache_hash, ...; k_frozen / k_on_setattr are
                                       recomputed by the model *)
}.

Record cdef := {
  f_attrs : option adef;            (* None: an undecorated class *)
  f_bases : list nat;
  f_mro : list nat;
  f_user_sa : bool;
  f_user_da : bool;
  f_root_exc : bool;                (* a builtin exception class is among the bases *)
  f_adds_dict : bool                (* undecorated class without __slots__: instances get a __dict__ *)
}.

Definition with_frozen_os (k : cls_spec) (fz : bool) (o : cls_on_setattr) : cls_spec :=
  {| k_attrs := k_attrs k; k_frozen := fz; k_slots := k_slots k; k_cache_hash := k_cache_hash k;
     k_is_exc := k_is_exc k; k_pre_init := k_pre_init k; k_pre_init_has_args := k_pre_init_has_args k;
     k_post_init := k_post_init k; k_on_setattr := o; k_mro_slots := k_mro_slots k;
     k_has_dict := k_has_dict k |}.

Definition with_has_dict (k : cls_spec) (hd : bool) : cls_spec :=
  {| k_attrs := k_attrs k; k_frozen := k_frozen k; k_slots := k_slots k; k_cache_hash := k_cache_hash k;
     k_is_exc := k_is_exc k; k_pre_init := k_pre_init k; k_pre_init_has_args := k_pre_init_has_args k;
     k_post_init := k_post_init k; k_on_setattr := k_on_setattr k; k_mro_slots := k_mro_slots k;
     k_has_dict := hd |}.

Definition eff_frozen_arg (a : adef) : bool :=
  match d_api a with ApiFrozen => true | _ => d_frozen a end.

Definition os_is_COsNone (o : cls_on_setattr) : bool := match o with COsNone => true | _ => false end.

(** [define().wrap]: the on_setattr handed to [attrs()].  [None] = ValueError
    ("Frozen classes can't use on_setattr (frozen-ness was inherited)"). *)
Definition define_on_setattr (t : table) (bases : list nat) (frozen_arg : bool) (user : cls_on_setattr)
  : option cls_on_setattr :=
  let had := has_cls_on_setattr user in                       (* not in (None, NO_OP) *)
  let o := if negb frozen_arg && os_is_COsNone user then COsDefault else user in
  if existsb (fun b => sa_is_frozen (class_sa t b)) bases     (* base_cls.__setattr__ is _frozen_setattrs *)
  then (if had then None else Some COsNoOp)
  else Some o.

Definition builder_on_setattr (t : table) (d : cdef) (a : adef) : option cls_on_setattr :=
  match d_api a with
  | ApiAttrS => Some (d_on_setattr a)
  | ApiDefine | ApiFrozen => define_on_setattr t (f_bases d) (eff_frozen_arg a) (d_on_setattr a)
  end.

Definition is_nil {A : Type} (l : list A) : bool := match l with [] => true | _ => false end.

(** Field names [add_setattr] would hook ([sa_attrs]). *)
Definition sa_attr_names (k : cls_spec) : list string :=
  map a_name (filter (in_sa_attrs (effective_cls_on_setattr k)) (k_attrs k)).

(** A class statement can only name classes that exist already. *)
Definition bases_exist (t : table) (d : cdef) : bool :=
  forallb (fun j => Nat.ltb j (List.length t)) (f_mro d) &&
  forallb (fun j => Nat.ltb j (List.length t)) (f_bases d).

(** One class statement (+ decorator).  [None]: the definition raises (ValueError from
    attrs; NameError for a base that does not exist yet). *)
Definition define_class (t : table) (d : cdef) : option klass :=
  if negb (bases_exist t d) then None else
  let own_sa0 := if f_user_sa d then Some SaUser else None in
  let own_da0 := if f_user_da d then Some DaUser else None in
  let exc := f_root_exc d || existsb (class_exc t) (f_bases d) in
  match f_attrs d with
  | None =>
      Some {| c_attrs := false; c_frozen_arg := false;
              c_user_sa := f_user_sa d; c_user_da := f_user_da d;
              c_bases := f_bases d; c_mro := f_mro d; c_exc := exc;
              c_sa := own_sa0; c_da := own_da0; c_flag := None;
              c_spec := match first_some c_spec t (f_mro d) with
                        | Some k => Some (with_has_dict k (k_has_dict k || f_adds_dict d))
                        | None => None
                        end |}
  | Some a =>
      let frozen_arg := eff_frozen_arg a in
      match builder_on_setattr t d a with
      | None => None
      | Some o =>
          (* attrs().wrap *)
          let is_frozen := frozen_arg || sa_is_frozen (resolve_sa t own_sa0 (f_mro d)) in
          let has_own_setattr := d_auto_detect a && f_user_sa d in
          if has_own_setattr && is_frozen then None            (* Can't freeze a class with a custom __setattr__ *)
          else
            let k := with_frozen_os (d_spec a) is_frozen o in
            (* if not frozen: builder.add_setattr() *)
            let hooked := if frozen_arg then [] else sa_attr_names k in
            if negb (is_nil hooked) && has_own_setattr then None (* Can't combine custom __setattr__ with hooks *)
            else
              (* add_init / add_attrs_init *)
              match make_init_script k with
              | GenValueError => None
              | GenOk _ =>
                  (* _ClassBuilder.__init__ *)
                  let sa1 := if is_frozen then Some SaFrozen else own_sa0 in
                  let da1 := if is_frozen then Some DaFrozen else own_da0 in
                  (* add_setattr *)
                  let sa2 := if is_nil hooked then sa1 else Some (SaHooked hooked) in
                  let flag2 := if is_nil hooked then None else Some true in
                  let wrote := is_frozen || negb (is_nil hooked) in
                  (* build_class: the reset rule *)
                  let inherited_own :=
                    if k_slots k then existsb (class_own_flag t) (f_bases d)   (* immediate bases' __dict__ *)
                    else resolve_flag t None (f_mro d) in                      (* getattr through the MRO *)
                  let sa3 := if wrote then sa2
                             else if inherited_own && negb has_own_setattr then Some SaObject else sa2 in
                  let flag3 := if wrote then flag2
                               else if k_slots k then Some false
                               else if inherited_own then Some false else None in
                  Some {| c_attrs := true; c_frozen_arg := frozen_arg;
                          c_user_sa := f_user_sa d; c_user_da := f_user_da d;
                          c_bases := f_bases d; c_mro := f_mro d; c_exc := exc;
                          c_sa := sa3; c_da := da1; c_flag := flag3; c_spec := Some k |}
              end
      end
  end.

(** A program: class statements in order.  A rejected definition leaves no class. *)
Fixpoint build (t : table) (ds : list cdef) : table :=
  match ds with
  | [] => t
  | d :: r => match define_class t d with
              | Some c => build (t ++ [c]) r
              | None => build t r
              end
  end.

(** ** Instances *)

(** The names [_frozen_setattrs] / [_frozen_delattrs] let through on exceptions
    (checked against the source text: [Gen/C05_consts.v]). *)
Definition SET_OK : list string :=
  ["__cause__"; "__context__"; "__traceback__"; "__suppress_context__"; "__notes__"].
Definition DEL_OK : list string := ["__notes__"].

Inductive op :=
| OSet (n : string) (v : val)       (* setattr(o, n, v) / o.n = v *)
| ODel (n : string)                 (* delattr(o, n) / del o.n *)
| OAug (n : string) (v : val).      (* o.n += v : read, add, set *)

Definition op_name (o : op) : string :=
  match o with OSet n _ | ODel n | OAug n _ => n end.

Inductive outcome :=
| ROk
| RFrozen                           (* FrozenInstanceError *)
| RAttrError                        (* an AttributeError that is not a FrozenError *)
| RTypeError
| RUnmodelled.                      (* a hook would run: C06's subject, never generated here *)

(** The instance plus the [BaseException] members kept outside [__dict__]. *)
Record istate := {
  st_inst : inst;
  st_cause : val;
  st_context : val;
  st_tb : val;
  st_suppress : val
}.

Definition fresh_istate (i : inst) : istate :=
  {| st_inst := i; st_cause := VNone; st_context := VNone; st_tb := VNone; st_suppress := VBool false |}.

Definition with_inst (s : istate) (i : inst) : istate :=
  {| st_inst := i; st_cause := st_cause s; st_context := st_context s; st_tb := st_tb s;
     st_suppress := st_suppress s |}.

(** What the interpreter needs to know about the class of the instance. *)
Record icls := {
  ic_spec : cls_spec;
  ic_exc : bool;
  ic_sa : sa_kind;                  (* type(o).__setattr__ *)
  ic_da : da_kind;                  (* type(o).__delattr__ *)
  ic_env : list string              (* other names readable through the type (__class__, __doc__, ...) *)
}.

Fixpoint remove_key (n : string) (l : alist) : alist :=
  match l with
  | [] => []
  | (m, v) :: r => if String.eqb n m then remove_key n r else (m, v) :: remove_key n r
  end.

(** [object.__delattr__(self, n)] *)
Definition obj_delattr (k : cls_spec) (i : inst) (n : string) : res inst :=
  if is_slot k n then
    match lookup n (i_slots i) with
    | Some _ => Ok {| i_slots := remove_key n (i_slots i); i_dict := i_dict i; i_args := i_args i |}
    | None => Raise EAttributeError
    end
  else if k_has_dict k then
    match lookup n (i_dict i) with
    | Some _ => Ok {| i_slots := i_slots i; i_dict := remove_key n (i_dict i); i_args := i_args i |}
    | None => Raise EAttributeError
    end
  else Raise EAttributeError.

(** An exception object or None (what [__cause__], [__context__], [__traceback__] accept). *)
Definition exc_or_none (v : val) : bool := match v with VNone | VTok _ => true | _ => false end.
Definition is_vbool (v : val) : bool := match v with VBool _ => true | _ => false end.

(** The generic [__setattr__] of the instance's builtin base: [object.__setattr__], or
    [BaseException.__setattr__] with its four typed members. *)
Definition generic_setattr (c : icls) (s : istate) (n : string) (v : val) : istate * outcome :=
  if ic_exc c && String.eqb n "__cause__" then
    if exc_or_none v then
      ({| st_inst := st_inst s; st_cause := v; st_context := st_context s; st_tb := st_tb s;
          st_suppress := VBool true |}, ROk)
    else (s, RTypeError)
  else if ic_exc c && String.eqb n "__context__" then
    if exc_or_none v then
      ({| st_inst := st_inst s; st_cause := st_cause s; st_context := v; st_tb := st_tb s;
          st_suppress := st_suppress s |}, ROk)
    else (s, RTypeError)
  else if ic_exc c && String.eqb n "__traceback__" then
    if exc_or_none v then
      ({| st_inst := st_inst s; st_cause := st_cause s; st_context := st_context s; st_tb := v;
          st_suppress := st_suppress s |}, ROk)
    else (s, RTypeError)
  else if ic_exc c && String.eqb n "__suppress_context__" then
    if is_vbool v then
      ({| st_inst := st_inst s; st_cause := st_cause s; st_context := st_context s; st_tb := st_tb s;
          st_suppress := v |}, ROk)
    else (s, RTypeError)
  else
    match obj_setattr (ic_spec c) (st_inst s) n v with
    | Ok i => (with_inst s i, ROk)
    | Raise _ => (s, RAttrError)
    end.

Definition TYPED_MEMBERS : list string :=
  ["__cause__"; "__context__"; "__traceback__"; "__suppress_context__"].

Definition generic_delattr (c : icls) (s : istate) (n : string) : istate * outcome :=
  if ic_exc c && mem_str n TYPED_MEMBERS then (s, RTypeError)      (* "may not be deleted" *)
  else
    match obj_delattr (ic_spec c) (st_inst s) n with
    | Ok i => (with_inst s i, ROk)
    | Raise _ => (s, RAttrError)
    end.

(** [_frozen_setattrs] *)
Definition frozen_setattrs (c : icls) (s : istate) (n : string) (v : val) : istate * outcome :=
  if ic_exc c && mem_str n SET_OK                  (* isinstance(self, BaseException) and name in (...) *)
  then generic_setattr c s n v                     (* BaseException.__setattr__(self, name, value) *)
  else (s, RFrozen).                               (* raise FrozenInstanceError *)

(** [_frozen_delattrs] *)
Definition frozen_delattrs (c : icls) (s : istate) (n : string) : istate * outcome :=
  if ic_exc c && mem_str n DEL_OK
  then generic_delattr c s n
  else (s, RFrozen).

(** [setattr(o, n, v)]: dispatch on [type(o).__setattr__]. *)
Definition do_set (c : icls) (s : istate) (n : string) (v : val) : istate * outcome :=
  match ic_sa c with
  | SaFrozen => frozen_setattrs c s n v
  | SaObject | SaUser => generic_setattr c s n v   (* the harness' user methods delegate to object's *)
  | SaHooked names => if mem_str n names then (s, RUnmodelled) else generic_setattr c s n v
  end.

Definition do_del (c : icls) (s : istate) (n : string) : istate * outcome :=
  match ic_da c with
  | DaFrozen => frozen_delattrs c s n
  | DaObject | DaUser => generic_delattr c s n
  end.

(** [getattr(o, n)] as far as augmented assignment needs it. *)
Definition read_attr (c : icls) (s : istate) (n : string) : option val :=
  if ic_exc c && String.eqb n "__cause__" then Some (st_cause s)
  else if ic_exc c && String.eqb n "__context__" then Some (st_context s)
  else if ic_exc c && String.eqb n "__traceback__" then Some (st_tb s)
  else if ic_exc c && String.eqb n "__suppress_context__" then Some (st_suppress s)
  else
    match read (ic_spec c) (st_inst s) n with
    | Ok v => Some v
    | Raise _ => if mem_str n (ic_env c) then Some (VApp "<type-level>" []) else None
    end.

Definition step (c : icls) (s : istate) (o : op) : istate * outcome :=
  match o with
  | OSet n v => do_set c s n v
  | ODel n => do_del c s n
  | OAug n v =>
      match read_attr c s n with
      | None => (s, RAttrError)                           (* the read fails before any store *)
      | Some r => do_set c s n (VApp "add" [r; v])
      end
  end.

(** A history: the outcome of every operation and the state after it. *)
Fixpoint run (c : icls) (s : istate) (ops : list op) : list (outcome * istate) :=
  match ops with
  | [] => []
  | o :: r => let '(s', out) := step c s o in (out, s') :: run c s' r
  end.

Fixpoint final (c : icls) (s : istate) (ops : list op) : istate :=
  match ops with
  | [] => s
  | o :: r => final c (fst (step c s o)) r
  end.

(** The class of the instances of class [id] of a table. *)
Definition icls_of (t : table) (id : nat) (env : list string) : option icls :=
  match nth_error t id with
  | Some c =>
      match c_spec c with
      | Some k => Some {| ic_spec := k; ic_exc := c_exc c; ic_sa := klass_sa t c; ic_da := klass_da t c;
                          ic_env := env |}
      | None => None
      end
  | None => None
  end.
