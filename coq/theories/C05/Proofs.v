(** * C05 — proofs. *)
From Coq Require Import List Bool String Arith Lia.
Import ListNotations.
From Attrs Require Import Core.Attr Core.Init Core.InitProofs C05.Model.
Open Scope string_scope.
Open Scope list_scope.

(** ** 1. Operations on an instance whose class resolves to the frozen pair *)

Definition frozen_pair (c : icls) : Prop := ic_sa c = SaFrozen /\ ic_da c = DaFrozen.

(** The only operations [_frozen_setattrs] / [_frozen_delattrs] let through: the
    bookkeeping names, on exception instances. *)
Definition let_through (c : icls) (o : op) : bool :=
  ic_exc c && match o with
              | OSet n _ | OAug n _ => mem_str n SET_OK
              | ODel n => mem_str n DEL_OK
              end.

(** What a refused operation raises: FrozenInstanceError — except that an augmented
    assignment to a name that cannot even be read fails in the read (AttributeError). *)
Definition refusal (c : icls) (s : istate) (o : op) : outcome :=
  match o with
  | OAug n _ => match read_attr c s n with None => RAttrError | Some _ => RFrozen end
  | _ => RFrozen
  end.

Lemma frozen_step_l c s o :
  frozen_pair c -> let_through c o = false -> step c s o = (s, refusal c s o).
Proof.
  intros [Hs Hd] Hl. unfold let_through in Hl. destruct o as [n v|n|n v]; cbn.
  - unfold do_set. rewrite Hs. unfold frozen_setattrs. now rewrite Hl.
  - unfold do_del. rewrite Hd. unfold frozen_delattrs. now rewrite Hl.
  - destruct (read_attr c s n); [|reflexivity].
    unfold do_set. rewrite Hs. unfold frozen_setattrs. now rewrite Hl.
Qed.

Lemma refusal_raises c s o : refusal c s o <> ROk.
Proof. destruct o as [n v|n|n v]; cbn; try discriminate. destruct (read_attr c s n); discriminate. Qed.

Lemma frozen_histories_l c : forall ops s,
  frozen_pair c -> (forall o, In o ops -> let_through c o = false) ->
  final c s ops = s /\
  run c s ops = map (fun o => (refusal c s o, s)) ops.
Proof.
  induction ops as [|o r IH]; intros s Hf Hall; [split; reflexivity|].
  cbn [final run map]. rewrite (frozen_step_l c s o Hf (Hall o (or_introl eq_refl))). cbn [fst].
  destruct (IH s Hf (fun o' Ho => Hall o' (or_intror Ho))) as [E1 E2].
  split; [exact E1 | now rewrite E2].
Qed.

(** Nothing gets through on an instance that is not an exception. *)
Lemma let_through_plain c o : ic_exc c = false -> let_through c o = false.
Proof. intros H. unfold let_through. now rewrite H. Qed.

(** ** 2. Exceptions: exactly the bookkeeping names get through *)

Lemma frozen_exc_set_l c s n v :
  frozen_pair c -> ic_exc c = true ->
  (In n SET_OK -> do_set c s n v = generic_setattr c s n v) /\
  (~ In n SET_OK -> do_set c s n v = (s, RFrozen)).
Proof.
  intros [Hs _] He. unfold do_set. rewrite Hs. unfold frozen_setattrs. rewrite He. cbn [andb]. split; intros H.
  - apply mem_str_In in H. now rewrite H.
  - destruct (mem_str n SET_OK) eqn:E; [apply mem_str_In in E; contradiction | reflexivity].
Qed.

Lemma frozen_exc_del_l c s n :
  frozen_pair c -> ic_exc c = true ->
  (In n DEL_OK -> do_del c s n = generic_delattr c s n) /\
  (~ In n DEL_OK -> do_del c s n = (s, RFrozen)).
Proof.
  intros [_ Hd] He. unfold do_del. rewrite Hd. unfold frozen_delattrs. rewrite He. cbn [andb]. split; intros H.
  - apply mem_str_In in H. now rewrite H.
  - destruct (mem_str n DEL_OK) eqn:E; [apply mem_str_In in E; contradiction | reflexivity].
Qed.

(** What the let-through assignments do (raise X from Y, with_traceback, add_note, ...). *)
Lemma exc_set_cause c s v :
  frozen_pair c -> ic_exc c = true -> exc_or_none v = true ->
  do_set c s "__cause__" v =
  ({| st_inst := st_inst s; st_cause := v; st_context := st_context s; st_tb := st_tb s;
      st_suppress := VBool true |}, ROk).
Proof.
  intros Hf He Hv. destruct (frozen_exc_set_l c s "__cause__" v Hf He) as [H _].
  rewrite H by (cbn; auto). unfold generic_setattr. rewrite He. cbn. now rewrite Hv.
Qed.

Lemma exc_set_context c s v :
  frozen_pair c -> ic_exc c = true -> exc_or_none v = true ->
  do_set c s "__context__" v =
  ({| st_inst := st_inst s; st_cause := st_cause s; st_context := v; st_tb := st_tb s;
      st_suppress := st_suppress s |}, ROk).
Proof.
  intros Hf He Hv. destruct (frozen_exc_set_l c s "__context__" v Hf He) as [H _].
  rewrite H by (cbn; auto). unfold generic_setattr. rewrite He. cbn. now rewrite Hv.
Qed.

Lemma exc_set_traceback c s v :
  frozen_pair c -> ic_exc c = true -> exc_or_none v = true ->
  do_set c s "__traceback__" v =
  ({| st_inst := st_inst s; st_cause := st_cause s; st_context := st_context s; st_tb := v;
      st_suppress := st_suppress s |}, ROk).
Proof.
  intros Hf He Hv. destruct (frozen_exc_set_l c s "__traceback__" v Hf He) as [H _].
  rewrite H by (cbn; auto). unfold generic_setattr. rewrite He. cbn. now rewrite Hv.
Qed.

Lemma exc_set_notes c s v :
  frozen_pair c -> ic_exc c = true -> k_has_dict (ic_spec c) = true -> is_slot (ic_spec c) "__notes__" = false ->
  exists i', do_set c s "__notes__" v = (with_inst s i', ROk) /\
             read (ic_spec c) i' "__notes__" = Ok v /\
             (forall m, m <> "__notes__" -> read (ic_spec c) i' m = read (ic_spec c) (st_inst s) m) /\
             i_args i' = i_args (st_inst s).
Proof.
  intros Hf He Hd Hsl. destruct (frozen_exc_set_l c s "__notes__" v Hf He) as [H _].
  rewrite H by (cbn; auto 6). unfold generic_setattr. rewrite He. cbn [andb String.eqb Ascii.eqb Bool.eqb].
  destruct (obj_setattr_ok (ic_spec c) (st_inst s) "__notes__" v (or_intror Hd)) as (i' & E & R1 & R2 & R3).
  exists i'. cbn. rewrite E. auto.
Qed.

Lemma exc_del_notes c s v :
  frozen_pair c -> ic_exc c = true -> k_has_dict (ic_spec c) = true -> is_slot (ic_spec c) "__notes__" = false ->
  lookup "__notes__" (i_dict (st_inst s)) = Some v ->
  snd (do_del c s "__notes__") = ROk.
Proof.
  intros Hf He Hd Hsl Hl. destruct (frozen_exc_del_l c s "__notes__" Hf He) as [H _].
  rewrite H by (cbn; auto). unfold generic_delattr. rewrite He. cbn [andb mem_str TYPED_MEMBERS String.eqb Ascii.eqb Bool.eqb orb].
  unfold obj_delattr. now rewrite Hsl, Hd, Hl.
Qed.

(** Reads of other names are not disturbed by a store / a deletion. *)
Lemma lookup_remove_other m n l : m <> n -> lookup m (remove_key n l) = lookup m l.
Proof.
  intros Hne. induction l as [|[p w] r IH]; [reflexivity|]. cbn.
  destruct (String.eqb n p) eqn:E.
  - apply String.eqb_eq in E; subst p.
    destruct (String.eqb m n) eqn:E2; [apply String.eqb_eq in E2; contradiction | exact IH].
  - cbn. destruct (String.eqb m p); [reflexivity | exact IH].
Qed.

Lemma obj_setattr_other k i n v i' m :
  obj_setattr k i n v = Ok i' -> m <> n -> read k i' m = read k i m /\ i_args i' = i_args i.
Proof.
  unfold obj_setattr. intros H Hne. destruct (is_slot k n).
  - inversion H; subst; clear H. split; [|reflexivity]. unfold read; cbn.
    destruct (is_slot k m); [now rewrite lookup_update_other | reflexivity].
  - destruct (k_has_dict k); [|discriminate]. inversion H; subst; clear H. split; [|reflexivity].
    unfold read; cbn. destruct (is_slot k m); [reflexivity | now rewrite lookup_update_other].
Qed.

Lemma obj_delattr_other k i n i' m :
  obj_delattr k i n = Ok i' -> m <> n -> read k i' m = read k i m /\ i_args i' = i_args i.
Proof.
  unfold obj_delattr. intros H Hne. destruct (is_slot k n).
  - destruct (lookup n (i_slots i)); [|discriminate]. inversion H; subst; clear H. split; [|reflexivity].
    unfold read; cbn. destruct (is_slot k m); [now rewrite lookup_remove_other | reflexivity].
  - destruct (k_has_dict k); [|discriminate].
    destruct (lookup n (i_dict i)); [|discriminate]. inversion H; subst; clear H. split; [|reflexivity].
    unfold read; cbn. destruct (is_slot k m); [reflexivity | now rewrite lookup_remove_other].
Qed.

Lemma generic_setattr_other c s n v m :
  m <> n ->
  read (ic_spec c) (st_inst (fst (generic_setattr c s n v))) m = read (ic_spec c) (st_inst s) m /\
  i_args (st_inst (fst (generic_setattr c s n v))) = i_args (st_inst s).
Proof.
  intros Hne. unfold generic_setattr.
  repeat match goal with
         | |- context [if ?b then _ else _] => destruct b; cbn [fst st_inst]; try (split; reflexivity)
         end.
  destruct (obj_setattr (ic_spec c) (st_inst s) n v) as [i'|e] eqn:E; cbn [fst st_inst with_inst];
    [|split; reflexivity].
  eapply obj_setattr_other; eauto.
Qed.

Lemma generic_delattr_other c s n m :
  m <> n ->
  read (ic_spec c) (st_inst (fst (generic_delattr c s n))) m = read (ic_spec c) (st_inst s) m /\
  i_args (st_inst (fst (generic_delattr c s n))) = i_args (st_inst s).
Proof.
  intros Hne. unfold generic_delattr.
  destruct (ic_exc c && mem_str n TYPED_MEMBERS); cbn [fst]; [split; reflexivity|].
  destruct (obj_delattr (ic_spec c) (st_inst s) n) as [i'|e] eqn:E; cbn [fst st_inst with_inst];
    [|split; reflexivity].
  eapply obj_delattr_other; eauto.
Qed.

(** On a frozen class — exception or not — no operation whatsoever changes what a
    name outside the bookkeeping set reads as, nor [args]. *)
Lemma frozen_step_fields c s o m :
  frozen_pair c -> ~ In m SET_OK ->
  read (ic_spec c) (st_inst (fst (step c s o))) m = read (ic_spec c) (st_inst s) m /\
  i_args (st_inst (fst (step c s o))) = i_args (st_inst s).
Proof.
  intros [Hs Hd] Hm.
  assert (Hset : forall n v,
    read (ic_spec c) (st_inst (fst (do_set c s n v))) m = read (ic_spec c) (st_inst s) m /\
    i_args (st_inst (fst (do_set c s n v))) = i_args (st_inst s)).
  { intros n v. unfold do_set. rewrite Hs. unfold frozen_setattrs.
    destruct (ic_exc c && mem_str n SET_OK) eqn:E; [|split; reflexivity].
    apply andb_true_iff in E as [_ E]. apply mem_str_In in E.
    apply generic_setattr_other. intros ->. contradiction. }
  destruct o as [n v|n|n v]; cbn [step].
  - apply Hset.
  - unfold do_del. rewrite Hd. unfold frozen_delattrs.
    destruct (ic_exc c && mem_str n DEL_OK) eqn:E; [|split; reflexivity].
    apply andb_true_iff in E as [_ E]. apply mem_str_In in E.
    apply generic_delattr_other. intros ->. apply Hm. destruct E as [<-|[]]. cbn. auto 6.
  - destruct (read_attr c s n); [apply Hset | split; reflexivity].
Qed.

Lemma frozen_fields_stable_l c : forall ops s m,
  frozen_pair c -> ~ In m SET_OK ->
  read (ic_spec c) (st_inst (final c s ops)) m = read (ic_spec c) (st_inst s) m /\
  i_args (st_inst (final c s ops)) = i_args (st_inst s).
Proof.
  induction ops as [|o r IH]; intros s m Hf Hm; [split; reflexivity|].
  cbn [final]. destruct (IH (fst (step c s o)) m Hf Hm) as [E1 E2].
  destruct (frozen_step_fields c s o m Hf Hm) as [F1 F2].
  split; congruence.
Qed.

(** ** 3. The initializer of a frozen class *)

Fixpoint stmt_plain (c : stmt) : bool :=
  match c with
  | SStore SetPlain _ _ _ => true
  | SHashCacheInit SetPlain => true
  | SIfNotNothing _ t e => stmt_plain t || stmt_plain e
  | _ => false
  end.

Definition no_plain_store (b : list stmt) : bool := forallb (fun c => negb (stmt_plain c)) b.

Lemma choose_setter_frozen k a hs : k_frozen k = true -> choose_setter k a hs <> SetPlain.
Proof.
  intros Fz. unfold choose_setter. rewrite Fz. destruct (k_slots k); [discriminate|].
  destruct (conv_call_of a); [destruct (is_slot_attr k (a_name a)); discriminate|].
  destruct (hs || is_slot_attr k (a_name a)); discriminate.
Qed.

Lemma field_script_no_plain k hc a :
  k_frozen k = true -> no_plain_store (fst (field_script k hc a)) = true.
Proof.
  intros Fz. unfold field_script.
  pose proof (choose_setter_frozen k a (field_has_on_setattr hc a) Fz) as Hc.
  destruct (choose_setter k a (field_has_on_setattr hc a)) eqn:E; try congruence;
    destruct (negb (a_init a)); destruct (a_default a); reflexivity.
Qed.

Lemma frozen_init_no_plain_l k sc :
  k_frozen k = true -> make_init_script k = GenOk sc -> no_plain_store (body sc) = true.
Proof.
  intros Fz G. unfold make_init_script in G. rewrite Fz in G. cbn [andb] in G.
  destruct (has_cls_on_setattr (effective_cls_on_setattr k)); [discriminate|].
  destruct (existsb _ (k_attrs k)); [discriminate|].
  inversion G; subst; clear G. cbn [body]. unfold no_plain_store. rewrite !forallb_app.
  repeat (apply andb_true_iff; split).
  - destruct (k_pre_init k); reflexivity.
  - destruct (needs_cached_setattr k false); reflexivity.
  - destruct (negb (k_slots k)); reflexivity.
  - induction (filtered_attrs k) as [|a r IH]; [reflexivity|]. cbn [flat_map]. rewrite forallb_app, IH, andb_true_r.
    apply (field_script_no_plain k false a Fz).
  - destruct (validated k); reflexivity.
  - destruct (k_post_init k); reflexivity.
  - destruct (k_cache_hash k); [|reflexivity]. unfold hash_cache_setter. rewrite Fz.
    destruct (k_slots k || is_slot_attr k HASH_CACHE); reflexivity.
  - destruct (k_is_exc k); reflexivity.
Qed.

(** Hooks are rejected on frozen classes — whatever the field's [init] and default (F7). *)
Lemma frozen_rejects_hooks_l k :
  k_frozen k = true ->
  (has_cls_on_setattr (k_on_setattr k) = true \/
   exists a, In a (k_attrs k) /\ a_on_setattr a <> OsNone) ->
  make_init_script k = GenValueError.
Proof.
  intros Fz H. unfold make_init_script, effective_cls_on_setattr. rewrite Fz. cbn [andb].
  destruct (has_cls_on_setattr (k_on_setattr k)) eqn:Hc; [reflexivity|].
  destruct H as [H|(a & Hin & Hos)]; [discriminate|].
  assert (E : existsb (fun a0 => negb (os_is_none (a_on_setattr a0))) (k_attrs k) = true).
  { apply existsb_exists. exists a. split; [exact Hin|]. destruct (a_on_setattr a); try reflexivity. congruence. }
  now rewrite E.
Qed.

(** ... so [add_setattr] has nothing to hook in an accepted frozen class. *)
Lemma frozen_accepted_unhooked k sc :
  k_frozen k = true -> make_init_script k = GenOk sc -> sa_attr_names k = [].
Proof.
  intros Fz G. unfold sa_attr_names.
  assert (Hall : forall a, In a (k_attrs k) -> in_sa_attrs (effective_cls_on_setattr k) a = false).
  { intros a Hin. destruct (in_sa_attrs (effective_cls_on_setattr k) a) eqn:E; [|reflexivity]. exfalso.
    assert (make_init_script k = GenValueError); [|congruence].
    apply frozen_rejects_hooks_l; [exact Fz|].
    unfold in_sa_attrs in E. unfold effective_cls_on_setattr in E. rewrite Fz in E.
    destruct (a_on_setattr a) eqn:Eo.
    - left. exact E.
    - discriminate.
    - right. exists a. split; [exact Hin | congruence]. }
  induction (k_attrs k) as [|a r IH]; [reflexivity|]. cbn [filter].
  rewrite (Hall a (or_introl eq_refl)). apply IH. intros b Hb. apply Hall. now right.
Qed.

(** ** 4. Class tables: frozenness is inherited *)

Definition frozen_cls (t : table) (id : nat) : Prop :=
  class_sa t id = SaFrozen /\ class_da t id = DaFrozen.

(** Every class only refers to earlier ones. *)
Definition wf_table (t : table) : Prop :=
  forall id c, nth_error t id = Some c ->
    Forall (fun j => j < id) (c_mro c) /\ Forall (fun j => j < id) (c_bases c).

Lemma first_some_ext {A} (f : klass -> option A) t ext : forall ids,
  Forall (fun j => j < List.length t) ids -> first_some f (t ++ ext) ids = first_some f t ids.
Proof.
  induction ids as [|i r IH]; intros H; [reflexivity|]. inversion H as [|? ? Hi Hr]; subst.
  cbn. rewrite (nth_error_app1 t ext Hi). rewrite (IH Hr). reflexivity.
Qed.

Lemma Forall_lt_weaken n m (l : list nat) : n <= m -> Forall (fun j => j < n) l -> Forall (fun j => j < m) l.
Proof. intros Hle H. eapply Forall_impl; [|exact H]. cbn. intros; lia. Qed.

Lemma forallb_ltb n (l : list nat) : forallb (fun j => Nat.ltb j n) l = true -> Forall (fun j => j < n) l.
Proof.
  intros H. apply Forall_forall. intros j Hj. rewrite forallb_forall in H. specialize (H j Hj).
  now apply Nat.ltb_lt.
Qed.

(** What [define_class] guarantees about the record it returns. *)
Record entry_ok (t : table) (c : klass) : Prop := {
  eo_direct : c_attrs c = true -> c_frozen_arg c = true ->
              c_sa c = Some SaFrozen /\ c_da c = Some DaFrozen;
  eo_inherit : c_attrs c = true -> c_user_sa c = false ->
               resolve_sa t None (c_mro c) = SaFrozen ->
               c_sa c = Some SaFrozen /\ c_da c = Some DaFrozen;
  eo_plain : c_attrs c = false ->
             c_sa c = (if c_user_sa c then Some SaUser else None) /\
             c_da c = (if c_user_da c then Some DaUser else None);
  eo_spec : c_attrs c = true ->
            exists k, c_spec c = Some k /\ k_frozen k = sa_is_frozen (klass_sa t c) /\
                      exists sc, make_init_script k = GenOk sc
}.

Lemma define_class_ok t d c :
  define_class t d = Some c ->
  entry_ok t c /\ Forall (fun j => j < List.length t) (c_mro c) /\ Forall (fun j => j < List.length t) (c_bases c).
Proof.
  unfold define_class. destruct (bases_exist t d) eqn:Hb; [|discriminate]. cbn [negb].
  apply andb_true_iff in Hb as [Hb1 Hb2]. apply forallb_ltb in Hb1. apply forallb_ltb in Hb2.
  destruct (f_attrs d) as [a|] eqn:Ea.
  - (* attrs *)
    destruct (builder_on_setattr t d a) as [o|]; [|discriminate].
    set (own_sa0 := if f_user_sa d then Some SaUser else None).
    set (is_frozen := eff_frozen_arg a || sa_is_frozen (resolve_sa t own_sa0 (f_mro d))).
    destruct (d_auto_detect a && f_user_sa d && is_frozen) eqn:E1; [discriminate|].
    set (k := with_frozen_os (d_spec a) is_frozen o).
    set (hooked := if eff_frozen_arg a then [] else sa_attr_names k).
    destruct (negb (is_nil hooked) && (d_auto_detect a && f_user_sa d)) eqn:E2; [discriminate|].
    destruct (make_init_script k) as [sc|] eqn:G; [|discriminate].
    assert (Kf : k_frozen k = is_frozen) by reflexivity.
    assert (Hh : is_frozen = true -> hooked = []).
    { intros Hf. unfold hooked. destruct (eff_frozen_arg a); [reflexivity|].
      eapply frozen_accepted_unhooked; [rewrite Kf; exact Hf | exact G]. }
    assert (Hfa : eff_frozen_arg a = true -> is_frozen = true) by (intros Hx; unfold is_frozen; now rewrite Hx).
    assert (Hin : f_user_sa d = false -> resolve_sa t None (f_mro d) = SaFrozen -> is_frozen = true).
    { intros Hus Hres. unfold is_frozen, own_sa0. rewrite Hus, Hres. apply orb_true_r. }
    assert (Hnf : is_frozen = false -> sa_is_frozen (resolve_sa t own_sa0 (f_mro d)) = false).
    { unfold is_frozen. intros Hx. now apply orb_false_iff in Hx as [_ Hx]. }
    clearbody hooked. clearbody is_frozen.
    intros H. inversion H; subst c; clear H. cbn [c_mro c_bases]. split; [|split; assumption].
    destruct is_frozen.
    + (* frozen: the pair is written and nothing overrides it *)
      rewrite (Hh eq_refl). cbn [orb is_nil negb].
      constructor; cbn [c_attrs c_frozen_arg c_user_sa c_user_da c_sa c_da c_mro c_spec]; try discriminate.
      * intros _ _. split; reflexivity.
      * intros _ _ _. split; reflexivity.
      * intros _. exists k. split; [reflexivity|]. split; [|exists sc; exact G]. rewrite Kf. reflexivity.
    + constructor; cbn [c_attrs c_frozen_arg c_user_sa c_user_da c_sa c_da c_mro c_spec]; try discriminate.
      * intros _ Hx. specialize (Hfa Hx). discriminate.
      * intros _ Hus Hres. specialize (Hin Hus Hres). discriminate.
      * intros _. exists k. split; [reflexivity|]. split; [|exists sc; exact G]. rewrite Kf.
        specialize (Hnf eq_refl). unfold klass_sa. cbn [c_sa c_mro orb].
        destruct (is_nil hooked); cbn [negb].
        -- match goal with |- context [if ?b then Some SaObject else _] => destruct b end;
             [reflexivity|]. symmetry. exact Hnf.
        -- reflexivity.
  - (* undecorated *)
    intros H. inversion H; subst c; clear H. cbn [c_mro c_bases]. split; [|split; assumption].
    constructor; cbn [c_attrs c_frozen_arg c_user_sa c_user_da c_sa c_da]; try discriminate.
    intros _. split; reflexivity.
Qed.

Lemma resolve_sa_ext t ext own mro :
  Forall (fun j => j < List.length t) mro -> resolve_sa (t ++ ext) own mro = resolve_sa t own mro.
Proof. intros H. unfold resolve_sa. now rewrite (first_some_ext c_sa t ext mro H). Qed.

Lemma resolve_da_ext t ext own mro :
  Forall (fun j => j < List.length t) mro -> resolve_da (t ++ ext) own mro = resolve_da t own mro.
Proof. intros H. unfold resolve_da. now rewrite (first_some_ext c_da t ext mro H). Qed.

Lemma entry_ok_ext t ext c :
  Forall (fun j => j < List.length t) (c_mro c) -> entry_ok t c -> entry_ok (t ++ ext) c.
Proof.
  intros Hm [H1 H2 H3 H4]. constructor; auto.
  - intros Ha Hu Hr. rewrite (resolve_sa_ext t ext None (c_mro c) Hm) in Hr. auto.
  - intros Ha. destruct (H4 Ha) as (k & Hk & Hf & Hsc). exists k. split; [exact Hk|]. split; [|exact Hsc].
    unfold klass_sa. now rewrite (resolve_sa_ext t ext (c_sa c) (c_mro c) Hm).
Qed.

Definition inv (t : table) : Prop :=
  wf_table t /\ forall id c, nth_error t id = Some c -> entry_ok t c.

Lemma inv_nil : inv [].
Proof. split; intros id c H; destruct id; discriminate. Qed.

Lemma inv_step t d c : inv t -> define_class t d = Some c -> inv (t ++ [c]).
Proof.
  intros [W E] Hd. destruct (define_class_ok t d c Hd) as (Eo & Hm & Hb).
  split.
  - intros id c' Hn. destruct (Nat.lt_ge_cases id (List.length t)) as [Hlt|Hge].
    + rewrite (nth_error_app1 t [c] Hlt) in Hn. exact (W id c' Hn).
    + rewrite (nth_error_app2 t [c] Hge) in Hn.
      destruct (id - List.length t) as [|n] eqn:En; [|destruct n; discriminate].
      cbn in Hn. inversion Hn; subst c'. assert (id = List.length t) by lia. subst id. split; assumption.
  - intros id c' Hn. destruct (Nat.lt_ge_cases id (List.length t)) as [Hlt|Hge].
    + rewrite (nth_error_app1 t [c] Hlt) in Hn.
      apply entry_ok_ext; [|exact (E id c' Hn)].
      destruct (W id c' Hn) as [Hm' _]. eapply Forall_lt_weaken; [|exact Hm']. lia.
    + rewrite (nth_error_app2 t [c] Hge) in Hn.
      destruct (id - List.length t) as [|n] eqn:En; [|destruct n; discriminate].
      cbn in Hn. inversion Hn; subst c'. now apply entry_ok_ext.
Qed.

Lemma inv_build : forall ds t, inv t -> inv (build t ds).
Proof.
  induction ds as [|d r IH]; intros t I; [exact I|]. cbn.
  destruct (define_class t d) as [c|] eqn:E; [apply IH; eapply inv_step; eauto | now apply IH].
Qed.

(** A class whose dictionary has neither method: attribute lookup walks past it. *)
Definition transparent (t : table) (j : nat) : Prop :=
  match nth_error t j with Some cj => c_sa cj = None /\ c_da cj = None | None => True end.

Lemma first_some_skip {A} (f : klass -> option A) t : forall pre rest,
  Forall (fun j => match nth_error t j with Some cj => f cj = None | None => True end) pre ->
  first_some f t (pre ++ rest) = first_some f t rest.
Proof.
  induction pre as [|j r IH]; intros rest H; [reflexivity|]. inversion H as [|? ? Hj Hr]; subst.
  cbn. destruct (nth_error t j) as [cj|]; [rewrite Hj|]; apply IH; assumption.
Qed.

(** The ancestry the property talks about: frozen directly, or below a frozen class
    with nothing in between (and not the class itself) defining either method. *)
Inductive lineage (t : table) : nat -> Prop :=
| L_direct id c :
    nth_error t id = Some c -> c_attrs c = true -> c_frozen_arg c = true -> lineage t id
| L_below id c pre b cb :
    nth_error t id = Some c -> c_user_sa c = false -> c_user_da c = false ->
    c_mro c = pre ++ b :: c_mro cb -> nth_error t b = Some cb ->
    Forall (transparent t) pre -> lineage t b -> lineage t id.

Lemma lineage_frozen t : inv t -> forall id, lineage t id -> frozen_cls t id.
Proof.
  intros [W E] id L. induction L as [id c Hn Ha Hf | id c pre b cb Hn Hus Hud Hmro Hnb Hpre L IH].
  - destruct (eo_direct t c (E id c Hn) Ha Hf) as [Hs Hd].
    unfold frozen_cls, class_sa, class_da. rewrite Hn. unfold klass_sa, klass_da, resolve_sa, resolve_da.
    now rewrite Hs, Hd.
  - destruct IH as [Is Id]. unfold class_sa, class_da in Is, Id. rewrite Hnb in Is, Id.
    assert (Rs : resolve_sa t None (c_mro c) = SaFrozen).
    { rewrite Hmro. unfold resolve_sa. rewrite first_some_skip.
      - cbn. rewrite Hnb. unfold klass_sa, resolve_sa in Is. destruct (c_sa cb); [exact Is|].
        exact Is.
      - eapply Forall_impl; [|exact Hpre]. intros j Hj. unfold transparent in Hj.
        destruct (nth_error t j); [tauto | exact I]. }
    assert (Rd : resolve_da t None (c_mro c) = DaFrozen).
    { rewrite Hmro. unfold resolve_da. rewrite first_some_skip.
      - cbn. rewrite Hnb. unfold klass_da, resolve_da in Id. destruct (c_da cb); exact Id.
      - eapply Forall_impl; [|exact Hpre]. intros j Hj. unfold transparent in Hj.
        destruct (nth_error t j); [tauto | exact I]. }
    unfold frozen_cls, class_sa, class_da. rewrite Hn. unfold klass_sa, klass_da.
    destruct (c_attrs c) eqn:Ha.
    + destruct (eo_inherit t c (E id c Hn) Ha Hus Rs) as [Hs Hd].
      unfold resolve_sa, resolve_da. now rewrite Hs, Hd.
    + destruct (eo_plain t c (E id c Hn) Ha) as [Hs Hd]. rewrite Hus in Hs. rewrite Hud in Hd.
      rewrite Hs, Hd. split; assumption.
Qed.

Theorem frozen_inherited_l ds id : lineage (build [] ds) id -> frozen_cls (build [] ds) id.
Proof. apply lineage_frozen. apply inv_build. exact inv_nil. Qed.

(** For attrs classes the initializer is generated in frozen mode exactly when the class
    resolves to the frozen [__setattr__]. *)
Theorem frozen_flag_agrees_l ds id c :
  nth_error (build [] ds) id = Some c -> c_attrs c = true ->
  exists k sc, c_spec c = Some k /\ make_init_script k = GenOk sc /\
               k_frozen k = sa_is_frozen (class_sa (build [] ds) id).
Proof.
  intros Hn Ha. destruct (inv_build ds [] inv_nil) as [_ E].
  destruct (eo_spec _ c (E id c Hn) Ha) as (k & Hk & Hf & sc & Hsc).
  exists k, sc. unfold class_sa. rewrite Hn. auto.
Qed.

(** ** 5. Construction of frozen instances (corollary of the shared initializer theorem) *)

Theorem frozen_constructs_l k sc von pos kw en :
  wf k -> k_frozen k = true -> make_init_script k = GenOk sc -> bind_call sc pos kw = Bound en ->
  no_plain_store (body sc) = true /\
  exists i,
    run_init k no_fault von pos kw = InitDone i (expected_trace k von en) /\
    (forall a, In a (k_attrs k) -> participates a = true -> read k i (a_name a) = Ok (spec_value a en)) /\
    (forall a, In a (k_attrs k) -> participates a = false -> read k i (a_name a) = Raise EAttributeError) /\
    (k_cache_hash k = true -> read k i HASH_CACHE = Ok VNone) /\
    i_args i = expected_args k en.
Proof.
  intros W Fz G B. split; [exact (frozen_init_no_plain_l k sc Fz G)|].
  destruct (run_init_nofault k sc von pos kw en W G B) as (i & R & A1 & A2 & _ & A4 & A5).
  exists i. auto.
Qed.

(** ** 6. End to end: lineage -> frozen pair on the instances *)

Lemma icls_of_frozen t id env ic :
  frozen_cls t id -> icls_of t id env = Some ic -> frozen_pair ic.
Proof.
  unfold frozen_cls, class_sa, class_da, icls_of. destruct (nth_error t id) as [c|]; [|discriminate].
  destruct (c_spec c); [|discriminate]. intros [Hs Hd] H. inversion H; subst. split; assumption.
Qed.

Theorem frozen_end_to_end_l ds id env ic ops s :
  lineage (build [] ds) id -> icls_of (build [] ds) id env = Some ic ->
  (forall o, In o ops -> let_through ic o = false) ->
  final ic s ops = s /\ run ic s ops = map (fun o => (refusal ic s o, s)) ops.
Proof.
  intros L Hi Hall. apply frozen_histories_l; [|exact Hall].
  eapply icls_of_frozen; [apply frozen_inherited_l; exact L | exact Hi].
Qed.

(** ** 7. Witnesses *)

Definition fld (n : string) (init : bool) (d : default_kind) (o : on_setattr) : attribute :=
  {| a_name := n; a_default := d; a_validator := None; a_repr := true; a_eq := true; a_eq_key := None;
     a_order := true; a_order_key := None; a_hash := None; a_init := init; a_type := None;
     a_converter := CNone; a_kw_only := false; a_inherited := false; a_on_setattr := o; a_alias := Some n |}.

Definition spec_of (attrs : list attribute) (slots : bool) : cls_spec :=
  {| k_attrs := attrs; k_frozen := false; k_slots := slots; k_cache_hash := false; k_is_exc := false;
     k_pre_init := false; k_pre_init_has_args := false; k_post_init := false; k_on_setattr := COsNone;
     k_mro_slots := []; k_has_dict := negb slots |}.

Definition attrs_def (ap : api) (fz : bool) (o : cls_on_setattr) (k : cls_spec) (bases mro : list nat) : cdef :=
  {| f_attrs := Some {| d_api := ap; d_frozen := fz; d_auto_detect := match ap with ApiAttrS => false | _ => true end;
                        d_on_setattr := o; d_spec := k |};
     f_bases := bases; f_mro := mro; f_user_sa := false; f_user_da := false; f_root_exc := false;
     f_adds_dict := false |}.

Definition plain_def (bases mro : list nat) : cdef :=
  {| f_attrs := None; f_bases := bases; f_mro := mro; f_user_sa := false; f_user_da := false;
     f_root_exc := false; f_adds_dict := true |}.

(** frozen root, undecorated class, define subclass (slotted), undecorated leaf. *)
Definition ex_chain : list cdef :=
  [ attrs_def ApiAttrS true COsNone (spec_of [fld "x" true DNothing OsNone] false) [] [];
    plain_def [0] [0];
    attrs_def ApiDefine false COsNone (spec_of [fld "x" true DNothing OsNone; fld "y" true DValue OsNone] true) [1] [1; 0];
    plain_def [2] [2; 1; 0] ].

Example ex_chain_lineage : lineage (build [] ex_chain) 3.
Proof.
  assert (L0 : lineage (build [] ex_chain) 0).
  { eapply L_direct; [vm_compute; reflexivity | reflexivity | reflexivity]. }
  assert (L1 : lineage (build [] ex_chain) 1).
  { eapply (L_below _ 1 _ [] 0); [vm_compute; reflexivity | | | | vm_compute; reflexivity | | ];
      [reflexivity | reflexivity | reflexivity | constructor | exact L0]. }
  assert (L2 : lineage (build [] ex_chain) 2).
  { eapply (L_below _ 2 _ [] 1); [vm_compute; reflexivity | | | | vm_compute; reflexivity | | ];
      [reflexivity | reflexivity | reflexivity | constructor | exact L1]. }
  eapply (L_below _ 3 _ [] 2); [vm_compute; reflexivity | | | | vm_compute; reflexivity | | ];
    [reflexivity | reflexivity | reflexivity | constructor | exact L2].
Qed.

Example ex_chain_frozen : frozen_cls (build [] ex_chain) 3.
Proof. apply frozen_inherited_l. exact ex_chain_lineage. Qed.

(** A mixin without either method in front of the frozen class: still frozen. *)
Definition ex_mixin : list cdef :=
  [ attrs_def ApiFrozen false COsNone (spec_of [fld "x" true DNothing OsNone] false) [] [];
    plain_def [] [];
    plain_def [1; 0] [1; 0] ].

Example ex_mixin_lineage : lineage (build [] ex_mixin) 2.
Proof.
  eapply (L_below _ 2 _ [1] 0); [vm_compute; reflexivity | | | | vm_compute; reflexivity | | ];
    [reflexivity | reflexivity | reflexivity | | ].
  - constructor; [|constructor]. vm_compute. split; reflexivity.
  - eapply L_direct; [vm_compute; reflexivity | reflexivity | reflexivity].
Qed.

(** The guard is needed: a hooked (mutable) attrs class in front of the frozen one in the
    MRO wins the lookup of [__setattr__] — the subclass of a frozen class is then mutable
    (its [__delattr__] still is the frozen one).  Undecorated and attr.s subclass. *)
Definition ex_mi (leaf : cdef) : list cdef :=
  [ attrs_def ApiAttrS true COsNone (spec_of [fld "y" true DValue OsNone] false) [] [];
    attrs_def ApiAttrS false (COsSingle (HUser "h")) (spec_of [fld "x" true DValue OsNone] false) [] [];
    leaf ].

Lemma frozen_inherited_mi_refuted_l :
  exists ds id b c,
    nth_error (build [] ds) id = Some c /\ In b (c_bases c) /\ frozen_cls (build [] ds) b /\
    c_user_sa c = false /\ c_user_da c = false /\
    class_sa (build [] ds) id <> SaFrozen /\ class_da (build [] ds) id = DaFrozen.
Proof.
  exists (ex_mi (plain_def [1; 0] [1; 0])), 2, 0.
  eexists. split; [vm_compute; reflexivity|]. cbn [c_bases c_user_sa c_user_da].
  split; [right; left; reflexivity|]. split; [split; vm_compute; reflexivity|].
  split; [reflexivity|]. split; [reflexivity|]. split; [vm_compute; discriminate | vm_compute; reflexivity].
Qed.

Example ex_mi_attrs_leaf :
  let t := build [] (ex_mi (attrs_def ApiAttrS false COsNone
                               (spec_of [fld "y" true DValue OsNone; fld "x" true DValue OsNone] false) [1; 0] [1; 0])) in
  class_sa t 2 = SaObject /\ class_da t 2 = DaFrozen.
Proof. vm_compute. split; reflexivity. Qed.

(** F7: a hooked field is rejected on a frozen class even when it is [init=False] without
    default (it never reaches the initializer), also when frozenness is inherited. *)
Example ex_f7_rejected :
  define_class (build [] [attrs_def ApiAttrS true COsNone (spec_of [fld "x" true DValue OsNone] false) [] []])
    (attrs_def ApiAttrS false COsNone
       (spec_of [fld "x" true DValue OsNone; fld "y" false DNothing (OsPipe [HUser "h"])] false) [0] [0]) = None.
Proof. vm_compute. reflexivity. Qed.

(** Non-vacuity of the step theorems. *)
Definition ex_icls (exc : bool) : icls :=
  {| ic_spec := with_frozen_os (spec_of [fld "x" true DNothing OsNone] false) true COsNone;
     ic_exc := exc; ic_sa := SaFrozen; ic_da := DaFrozen; ic_env := ["__class__"] |}.
Definition ex_state : istate :=
  fresh_istate {| i_slots := []; i_dict := [("x", VTok 1)]; i_args := None |}.

Example ex_history :
  map fst (run (ex_icls false) ex_state
             [OSet "x" (VTok 2); ODel "x"; OAug "x" (VTok 3); OAug "nope" (VTok 3); OSet "__cause__" VNone;
              OAug "__class__" (VTok 4)])
  = [RFrozen; RFrozen; RFrozen; RAttrError; RFrozen; RFrozen].
Proof. vm_compute. reflexivity. Qed.

Example ex_exception_history :
  let r := run (ex_icls true) ex_state
             [OSet "__cause__" (VTok 7); OSet "__notes__" (VTok 8); OSet "x" (VTok 2); ODel "__notes__";
              ODel "__notes__"; ODel "__cause__"; OSet "args" VNone] in
  map fst r = [ROk; ROk; RFrozen; ROk; RAttrError; RFrozen; RFrozen].
Proof. vm_compute. reflexivity. Qed.

Example ex_constructs :
  let k := with_frozen_os (spec_of [fld "x" true DNothing OsNone; fld "y" true DValue OsNone] false) true COsNone in
  exists sc en, make_init_script k = GenOk sc /\ bind_call sc [VTok 1] [] = Bound en.
Proof. vm_compute. eexists; eexists; split; reflexivity. Qed.
