(** * Shared definitions for the correspondence checks. *)
From Coq Require Import List Bool Arith.
Import ListNotations.

(** Indices (from [i]) of the cases on which the check function answers [false]. *)
Fixpoint mismatches {A : Type} (chk : A -> bool) (i : nat) (l : list A) : list nat :=
  match l with
  | [] => []
  | x :: r => if chk x then mismatches chk (S i) r else i :: mismatches chk (S i) r
  end.

Lemma mismatches_nil_all {A} (chk : A -> bool) : forall l i,
  mismatches chk i l = [] -> forall x, In x l -> chk x = true.
Proof.
  induction l as [|y r IH]; intros i H x Hin; [destruct Hin|].
  cbn in H. destruct (chk y) eqn:E; [|discriminate].
  destruct Hin as [->|Hin]; [assumption | eapply IH; eauto].
Qed.

Fixpoint list_eqb {A : Type} (eqb : A -> A -> bool) (a b : list A) : bool :=
  match a, b with
  | [], [] => true
  | x :: a', y :: b' => eqb x y && list_eqb eqb a' b'
  | _, _ => false
  end.

Lemma list_eqb_spec {A} (eqb : A -> A -> bool)
  (Heq : forall x y, eqb x y = true <-> x = y) :
  forall a b, list_eqb eqb a b = true <-> a = b.
Proof.
  induction a as [|x a IH]; destruct b as [|y b]; cbn; split; intros H;
    try reflexivity; try discriminate.
  - apply andb_true_iff in H as [H1 H2]. apply Heq in H1. apply IH in H2. congruence.
  - inversion H; subst. apply andb_true_iff. split; [now apply Heq | now apply IH].
Qed.

Definition option_eqb {A : Type} (eqb : A -> A -> bool) (a b : option A) : bool :=
  match a, b with
  | None, None => true
  | Some x, Some y => eqb x y
  | _, _ => false
  end.
