(** * C13 — asdict / astuple structural conversion.

    Property theorems only; each is closed by [exact] of a lemma from
    [C13/Proofs.v] and followed by [Print Assumptions]. *)
From Coq Require Import List Bool String.
Import ListNotations.
From Attrs Require Import Base C13.Model C13.Corr C13.Proofs.

(** The code-shaped model ([asdict] / [_asdict_anything] with their duplicated
    branches, [_rebuild_collection]'s call conventions, [rv[name] = ...]) equals the
    reference specification (one generic conversion by position) on values of any
    depth, for every filter, serializer, dict_factory and both flags. *)
Theorem asdict_reference : forall E,
  (forall c, NoDup (map fst (fields_of E c))) ->
  forall recurse retain flt df ser inst, wf E inst = true ->
  asdict E recurse retain flt df ser inst = asdict_spec E recurse retain flt df ser inst.
Proof. exact asdict_reference_l. Qed.
Print Assumptions asdict_reference.

(** Keys = the filter-passing field names, in field order. *)
Theorem asdict_keys : forall E recurse retain flt df ser c vs r,
  NoDup (map fst (fields_of E c)) ->
  asdict E recurse retain flt df ser (VI c vs) = Ok r ->
  exists items, r = VD df items /\
    map fst items = map (fun fv => VStr (fst (fst fv))) (kept (passes flt) (fields_of E c) vs).
Proof. exact asdict_keys_l. Qed.
Print Assumptions asdict_keys.

(** No attrs instance is left anywhere in the result, at any depth (a
    serializer may hide one inside the opaque value it returns). *)
Theorem no_instance_left : forall E retain flt df ser,
  (forall w v r, ser_apply ser w v = Ok (Some r) -> inst_free r = true) ->
  forall inst r, asdict E true retain flt df ser inst = Ok r -> inst_free r = true.
Proof. exact no_instance_left_l. Qed.
Print Assumptions no_instance_left.

(** retain_collection_types: every converted collection keeps its exact class. *)
Theorem retain_types : forall E k flt df ser v r,
  is_seq v = true -> asdict_anything E k true flt df ser v = Ok r -> type_of r = type_of v.
Proof. exact retain_types_l. Qed.
Print Assumptions retain_types.

(** Otherwise collections become lists; in a dict key they become tuples ... *)
Theorem nonretain_types : forall E k flt df ser v r,
  is_seq v = true -> asdict_anything E k false flt df ser v = Ok r ->
  type_of r = if k then TyT TkT else TyL.
Proof. exact nonretain_types_l. Qed.
Print Assumptions nonretain_types.

(** ... and so do, recursively, the collections inside such a key. *)
Theorem key_collections_become_tuples : forall E flt df ser v xs r,
  (v = VL xs \/ (exists t, v = VT t xs) \/ v = VS xs \/ v = VF xs) ->
  asdict_anything E true false flt df ser v = Ok r ->
  exists items, r = VT TkT items /\
    Forall2 (fun x y => asdict_anything E true false flt df ser x = Ok y) xs items.
Proof. exact key_members_are_keys_l. Qed.
Print Assumptions key_collections_become_tuples.

(** Field-level collections (converted by [asdict] itself). *)
Theorem field_collection_types : forall E rec_inst rec_any retain df ser c f v r,
  is_seq v = true -> ser_apply ser (Some (c, fst f)) v = Ok None ->
  asdict_field E rec_inst rec_any true retain df ser c f v = Ok r ->
  type_of r = if retain then type_of v else TyL.
Proof. exact field_collection_types_l. Qed.
Print Assumptions field_collection_types.

(** Dicts and nested instances come out of dict_factory. *)
Theorem dict_factory_used : forall E k retain flt df ser v r,
  (is_dict v || is_inst v) = true ->
  asdict_anything E k retain flt df ser v = Ok r -> type_of r = TyD df.
Proof. exact dict_factory_used_l. Qed.
Print Assumptions dict_factory_used.

(** The positions at which value_serializer is applied. *)
Theorem serializer_positions : forall E,
  (forall rec_inst rec_any recurse retain df ser c f v r,
     ser_apply ser (Some (c, fst f)) v = Ok (Some r) ->
     asdict_field E rec_inst rec_any recurse retain df ser c f v = Ok r) /\
  (forall rec_inst rec_any recurse retain df ser c f v,
     ser_apply ser (Some (c, fst f)) v = Ok None -> is_leaf v = true ->
     asdict_field E rec_inst rec_any recurse retain df ser c f v = Ok v) /\
  (forall k retain flt df ser v,
     is_leaf v = true -> asdict_anything E k retain flt df ser v = ser_value ser None v).
Proof. exact serializer_positions_l. Qed.
Print Assumptions serializer_positions.

(** recurse=False: the values are returned untouched (whenever the filter does not raise;
    without a filter the call cannot fail: [recurse_false_total]). *)
Theorem recurse_false_identity : forall E retain flt df c vs r,
  NoDup (map fst (fields_of E c)) ->
  asdict E false retain flt df None (VI c vs) = Ok r ->
  r = VD df (map (fun fv => (VStr (fst (fst fv)), snd fv)) (kept (passes flt) (fields_of E c) vs)).
Proof. exact recurse_false_identity_l. Qed.
Print Assumptions recurse_false_identity.

(** astuple equals its reference: field values positionally, one level deep. *)
Theorem astuple_reference : forall E recurse retain flt tf inst,
  wf E inst = true ->
  astuple E recurse retain flt tf inst = astuple_spec E recurse retain flt tf inst.
Proof. exact astuple_reference_l. Qed.
Print Assumptions astuple_reference.

(** astuple yields positionally what asdict yields by name. *)
Theorem astuple_corresponds : forall E retain flt df tf c vs r,
  NoDup (map fst (fields_of E c)) ->
  asdict E false retain flt df None (VI c vs) = Ok r ->
  exists items,
    asdict E false retain flt df None (VI c vs) = Ok (VD df items) /\
    astuple E false retain flt tf (VI c vs) = Ok (apply_tf tf (map snd items)).
Proof. exact astuple_corresponds_l. Qed.
Print Assumptions astuple_corresponds.

(** Flat class, public names: C( **asdict(x) ) reconstructs x. *)
Theorem asdict_roundtrip : forall E c vs,
  NoDup (map fst (fields_of E c)) ->
  (forall f, In f (fields_of E c) -> lstrip_us (fst f) = fst f) ->
  List.length vs = List.length (fields_of E c) ->
  Forall (fun v => is_leaf v = true) vs ->
  roundtrip E c vs = Ok (VI c vs).
Proof. exact asdict_roundtrip_l. Qed.
Print Assumptions asdict_roundtrip.

(** What a passing correspondence case means: on results without sets the
    observed value IS the model's value and the reference's value (with sets:
    equal up to the order of members). *)
Theorem check_case_exact : forall c r,
  check_case c = true -> run_faithful c = Ok r -> set_free r = true ->
  c_seen c = Ok r /\ run_ideal c = Ok r.
Proof. exact check_case_exact_l. Qed.
Print Assumptions check_case_exact.

Theorem recurse_false_total : forall E retain df c vs,
  exists r, asdict E false retain None df None (VI c vs) = Ok r.
Proof. exact recurse_false_total_l. Qed.
Print Assumptions recurse_false_total.

(** ** Exceptions propagate unchanged, there is no partial result.
    An exception raised by the value_serializer, by the filter, or while hashing a
    converted member / key is the outcome of the enclosing conversion, whatever the
    enclosing collection is rebuilt as; applied level by level this reaches the
    top-level call from any depth. *)
Theorem serializer_error_propagates : forall E retain df ser rec_inst rec_any recurse c f v e,
  ser_apply ser (Some (c, fst f)) v = Err e ->
  asdict_field E rec_inst rec_any recurse retain df ser c f v = Err e.
Proof. exact serializer_error_propagates_l. Qed.
Print Assumptions serializer_error_propagates.

Theorem leaf_error_propagates : forall E retain flt df ser k v e,
  is_leaf v = true -> ser_apply ser None v = Err e ->
  asdict_anything E k retain flt df ser v = Err e.
Proof. exact leaf_error_propagates_l. Qed.
Print Assumptions leaf_error_propagates.

Theorem member_error_propagates : forall E retain flt df ser k v pre x post e,
  (v = VL (pre ++ x :: post) \/ (exists t, v = VT t (pre ++ x :: post)) \/
   v = VS (pre ++ x :: post) \/ v = VF (pre ++ x :: post)) ->
  Forall (fun p => exists r, asdict_anything E k retain flt df ser p = Ok r) pre ->
  asdict_anything E k retain flt df ser x = Err e ->
  asdict_anything E k retain flt df ser v = Err e.
Proof. exact member_error_propagates_l. Qed.
Print Assumptions member_error_propagates.

Theorem result_needs_all_members : forall E retain flt df ser k v xs r,
  (v = VL xs \/ (exists t, v = VT t xs) \/ v = VS xs \/ v = VF xs) ->
  asdict_anything E k retain flt df ser v = Ok r ->
  Forall (fun x => exists y, asdict_anything E k retain flt df ser x = Ok y) xs.
Proof. exact result_needs_all_members_l. Qed.
Print Assumptions result_needs_all_members.

Theorem dict_error_propagates : forall E retain flt df ser k dk kk x post e,
  (asdict_anything E true retain flt df ser kk = Err e \/
   (exists a, asdict_anything E true retain flt df ser kk = Ok a /\
              asdict_anything E false retain flt df ser x = Err e) \/
   (exists a b, asdict_anything E true retain flt df ser kk = Ok a /\
                asdict_anything E false retain flt df ser x = Ok b /\
                hashable E a = false /\ e = ETypeError)) ->
  asdict_anything E k retain flt df ser (VD dk ((kk, x) :: post)) = Err e.
Proof. exact dict_error_propagates_l. Qed.
Print Assumptions dict_error_propagates.

Theorem field_error_propagates : forall E retain flt df ser recurse c fs1 vs1 f v fs2 vs2 e,
  fields_of E c = fs1 ++ f :: fs2 ->
  Forall2 (fun f0 v0 => passes flt f0 v0 = Ok false \/
             (passes flt f0 v0 = Ok true /\
              exists x, asdict_field E (asdict_anything E false retain flt df ser)
                          (fun k => asdict_anything E k retain flt df ser) recurse retain df ser c f0 v0 = Ok x))
          fs1 vs1 ->
  (passes flt f v = Err e \/
   (passes flt f v = Ok true /\
    asdict_field E (asdict_anything E false retain flt df ser)
      (fun k => asdict_anything E k retain flt df ser) recurse retain df ser c f v = Err e)) ->
  asdict E recurse retain flt df ser (VI c (vs1 ++ v :: vs2)) = Err e.
Proof. exact field_error_propagates_l. Qed.
Print Assumptions field_error_propagates.

Theorem check_case_error_exact : forall c e,
  check_case c = true -> run_faithful c = Err e -> c_seen c = Err e /\ run_ideal c = Err e.
Proof. exact check_case_error_exact_l. Qed.
Print Assumptions check_case_error_exact.
