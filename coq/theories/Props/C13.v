(** * C13 — asdict / astuple structural conversion.

    Property theorems only; each is closed by [exact] of a lemma from
    [C13/Proofs.v] and followed by [Print Assumptions]. *)
From Coq Require Import List Bool String.
Import ListNotations.
From Attrs Require Import Base C13.Model C13.Corr C13.Proofs.

(** The code-shaped model ([asdict] / [_asdict_anything] with their duplicated
    branches, [_rebuild_collection]'s call conventions, [rv[name] = ...]) equals the
    reference specification (one generic conversion by position) on values of any
    depth, for every filter, serializer, dict_factory and both flags. *)
Theorem asdict_reference : forall E,
  (forall c, NoDup (map fst (fields_of E c))) ->
  forall recurse retain flt df ser inst, wf E inst = true ->
  asdict E recurse retain flt df ser inst = asdict_spec E recurse retain flt df ser inst.
Proof. exact asdict_reference_l. Qed.
Print Assumptions asdict_reference.

(** Keys = the filter-passing field names, in field order. *)
Theorem asdict_keys : forall E recurse retain flt df ser c vs r,
  NoDup (map fst (fields_of E c)) ->
  asdict E recurse retain flt df ser (VI c vs) = Some r ->
  exists items, r = VD df items /\
    map fst items = map (fun fv => VStr (fst (fst fv))) (kept (passes flt) (fields_of E c) vs).
Proof. exact asdict_keys_l. Qed.
Print Assumptions asdict_keys.

(** No attrs instance is left anywhere in the result, at any depth (a
    serializer may hide one inside the opaque value it returns). *)
Theorem no_instance_left : forall E retain flt df ser,
  (forall w v r, ser_apply ser w v = Some r -> inst_free r = true) ->
  forall inst r, asdict E true retain flt df ser inst = Some r -> inst_free r = true.
Proof. exact no_instance_left_l. Qed.
Print Assumptions no_instance_left.

(** retain_collection_types: every converted collection keeps its exact class. *)
Theorem retain_types : forall E k flt df ser v r,
  is_seq v = true -> asdict_anything E k true flt df ser v = Some r -> type_of r = type_of v.
Proof. exact retain_types_l. Qed.
Print Assumptions retain_types.

(** Otherwise collections become lists; in a dict key they become tuples ... *)
Theorem nonretain_types : forall E k flt df ser v r,
  is_seq v = true -> asdict_anything E k false flt df ser v = Some r ->
  type_of r = if k then TyT TkT else TyL.
Proof. exact nonretain_types_l. Qed.
Print Assumptions nonretain_types.

(** ... and so do, recursively, the collections inside such a key. *)
Theorem key_collections_become_tuples : forall E flt df ser v xs r,
  (v = VL xs \/ (exists t, v = VT t xs) \/ v = VS xs \/ v = VF xs) ->
  asdict_anything E true false flt df ser v = Some r ->
  exists items, r = VT TkT items /\
    Forall2 (fun x y => asdict_anything E true false flt df ser x = Some y) xs items.
Proof. exact key_members_are_keys_l. Qed.
Print Assumptions key_collections_become_tuples.

(** Field-level collections (converted by [asdict] itself). *)
Theorem field_collection_types : forall E rec_inst rec_any retain df ser c f v r,
  is_seq v = true -> ser_apply ser (Some (c, fst f)) v = None ->
  asdict_field E rec_inst rec_any true retain df ser c f v = Some r ->
  type_of r = if retain then type_of v else TyL.
Proof. exact field_collection_types_l. Qed.
Print Assumptions field_collection_types.

(** Dicts and nested instances come out of dict_factory. *)
Theorem dict_factory_used : forall E k retain flt df ser v r,
  (is_dict v || is_inst v) = true ->
  asdict_anything E k retain flt df ser v = Some r -> type_of r = TyD df.
Proof. exact dict_factory_used_l. Qed.
Print Assumptions dict_factory_used.

(** The positions at which value_serializer is applied. *)
Theorem serializer_positions : forall E,
  (forall rec_inst rec_any recurse retain df ser c f v r,
     ser_apply ser (Some (c, fst f)) v = Some r ->
     asdict_field E rec_inst rec_any recurse retain df ser c f v = Some r) /\
  (forall rec_inst rec_any recurse retain df ser c f v,
     ser_apply ser (Some (c, fst f)) v = None -> is_leaf v = true ->
     asdict_field E rec_inst rec_any recurse retain df ser c f v = Some v) /\
  (forall k retain flt df ser v,
     is_leaf v = true -> asdict_anything E k retain flt df ser v = Some (ser_value ser None v)).
Proof. exact serializer_positions_l. Qed.
Print Assumptions serializer_positions.

(** recurse=False: the values are returned untouched. *)
Theorem recurse_false_identity : forall E retain flt df c vs,
  NoDup (map fst (fields_of E c)) ->
  asdict E false retain flt df None (VI c vs) =
  Some (VD df (map (fun fv => (VStr (fst (fst fv)), snd fv)) (kept (passes flt) (fields_of E c) vs))).
Proof. exact recurse_false_identity_l. Qed.
Print Assumptions recurse_false_identity.

(** astuple equals its reference: field values positionally, one level deep. *)
Theorem astuple_reference : forall E recurse retain flt tf inst,
  wf E inst = true ->
  astuple E recurse retain flt tf inst = astuple_spec E recurse retain flt tf inst.
Proof. exact astuple_reference_l. Qed.
Print Assumptions astuple_reference.

(** astuple yields positionally what asdict yields by name. *)
Theorem astuple_corresponds : forall E retain flt df tf c vs,
  NoDup (map fst (fields_of E c)) ->
  exists items,
    asdict E false retain flt df None (VI c vs) = Some (VD df items) /\
    astuple E false retain flt tf (VI c vs) = Some (apply_tf tf (map snd items)).
Proof. exact astuple_corresponds_l. Qed.
Print Assumptions astuple_corresponds.

(** Flat class, public names: C( **asdict(x) ) reconstructs x. *)
Theorem asdict_roundtrip : forall E c vs,
  NoDup (map fst (fields_of E c)) ->
  (forall f, In f (fields_of E c) -> lstrip_us (fst f) = fst f) ->
  List.length vs = List.length (fields_of E c) ->
  Forall (fun v => is_leaf v = true) vs ->
  roundtrip E c vs = Some (VI c vs).
Proof. exact asdict_roundtrip_l. Qed.
Print Assumptions asdict_roundtrip.

(** What a passing correspondence case means: on results without sets the
    observed value IS the model's value and the reference's value (with sets:
    equal up to the order of members). *)
Theorem check_case_exact : forall c r,
  check_case c = true -> run_faithful c = Some r -> set_free r = true ->
  c_seen c = Some r /\ run_ideal c = Some r.
Proof. exact check_case_exact_l. Qed.
Print Assumptions check_case_exact.
