(** * C18 — Validators accept exactly their documented predicate, compositionally.

    Property theorems only; each is closed by [exact] of a lemma from [C18/Proofs.v] or
    [C18/ProofsEq.v] and followed by [Print Assumptions].

    [test] / [len] are the oracles for the atomic Python predicates (isinstance, in,
    operator.lt.., the chosen re function, callable, len): arbitrary functions here,
    tables of the really observed answers in the correspondence cases. *)
From Coq Require Import List Bool ZArith.
Import ListNotations.
From Attrs Require Import C18.Model C18.Proofs C18.ProofsEq C18.Corr C18.CorrSound.

(** For validator trees of ANY depth and shape: running the validator objects (loops with
    early exit, try/except filters) gives exactly the compositional reading of the
    documented predicates. *)
Theorem validator_compositional : forall test len v x, run test len v x = spec test len v x.
Proof. exact validator_compositional_l. Qed.
Print Assumptions validator_compositional.

(** Leaves: accepted iff the documented predicate answers True, the documented exception
    class when it answers False. *)
Theorem instance_of_iff : forall test len t x,
  (run test len (VInst t) x = Ok <-> test (AInst t) (vid x) = TT) /\
  (test (AInst t) (vid x) = FF -> run test len (VInst t) x = Raise ETypeError).
Proof. exact instance_of_iff_l. Qed.
Print Assumptions instance_of_iff.

Theorem matches_re_iff : forall test len p f x,
  (run test len (VRe p f) x = Ok <-> test (ARe f p) (vid x) = TT) /\
  (test (ARe f p) (vid x) = FF -> run test len (VRe p f) x = Raise EValueError).
Proof. exact matches_re_iff_l. Qed.
Print Assumptions matches_re_iff.

Theorem number_iff : forall test len b o x,
  (run test len (VNum b o) x = Ok <-> test (ACmp o b) (vid x) = TT) /\
  (test (ACmp o b) (vid x) = FF -> run test len (VNum b o) x = Raise EValueError).
Proof. exact number_iff_l. Qed.
Print Assumptions number_iff.

Theorem is_callable_iff : forall test len x,
  (run test len VCallable x = Ok <-> test ACallable (vid x) = TT) /\
  (test ACallable (vid x) = FF -> run test len VCallable x = Raise ENotCallable).
Proof. exact is_callable_iff_l. Qed.
Print Assumptions is_callable_iff.

Theorem in_iff : forall test len o r x,
  (run test len (VIn o r) x = Ok <-> test (AIn o) (vid x) = TT) /\
  (test (AIn o) (vid x) = FF -> run test len (VIn o r) x = Raise EValueError).
Proof. exact in_iff_l. Qed.
Print Assumptions in_iff.

(** A TypeError (or a subclass) from the membership test counts as absent; any other
    exception propagates. *)
Theorem in_typeerror_counts_as_absent : forall test len o r x c,
  test (AIn o) (vid x) = RR c ->
  (subclass c ETypeError = true -> run test len (VIn o r) x = Raise EValueError) /\
  (subclass c ETypeError = false -> run test len (VIn o r) x = Raise c).
Proof. exact in_typeerror_counts_as_absent_l. Qed.
Print Assumptions in_typeerror_counts_as_absent.

Theorem max_len_iff : forall (test : atom -> nat -> tri) len n x,
  (run test len (VMaxLen n) x = Ok <-> exists l, len (vid x) = LN l /\ (l <= n)%Z) /\
  (forall l, len (vid x) = LN l -> (l > n)%Z -> run test len (VMaxLen n) x = Raise EValueError) /\
  (forall c, len (vid x) = LR c -> run test len (VMaxLen n) x = Raise c).
Proof. exact max_len_iff_l. Qed.
Print Assumptions max_len_iff.

Theorem min_len_iff : forall (test : atom -> nat -> tri) len n x,
  (run test len (VMinLen n) x = Ok <-> exists l, len (vid x) = LN l /\ (l >= n)%Z) /\
  (forall l, len (vid x) = LN l -> (l < n)%Z -> run test len (VMinLen n) x = Raise EValueError) /\
  (forall c, len (vid x) = LR c -> run test len (VMinLen n) x = Raise c).
Proof. exact min_len_iff_l. Qed.
Print Assumptions min_len_iff.

(** optional(v) iff None or v. *)
Theorem optional_iff : forall test len w x,
  (run test len (VOpt w) x = Ok <-> isnone x = true \/ run test len w x = Ok) /\
  (isnone x = false -> run test len (VOpt w) x = run test len w x).
Proof. exact optional_iff_l. Qed.
Print Assumptions optional_iff.

(** and_ iff all, in order, the first failure propagating. *)
Theorem and_iff_all : forall test len l vs x,
  run test len (VAnd l vs) x = Ok <-> Forall (fun w => run test len w x = Ok) vs.
Proof. exact and_iff_all_l. Qed.
Print Assumptions and_iff_all.

Theorem and_first_failure : forall test len l vs x c,
  run test len (VAnd l vs) x = Raise c <->
  exists pre w post, vs = pre ++ w :: post /\
                     Forall (fun u => run test len u x = Ok) pre /\ run test len w x = Raise c.
Proof. exact and_first_failure_l. Qed.
Print Assumptions and_first_failure.

(** or_ iff any — exactly: some member accepts and every earlier one failed with an
    [Exception]; plainly "iff any" when no member leaves with a non-[Exception]. *)
Theorem or_iff_first : forall test len vs x,
  run test len (VOr vs) x = Ok <->
  exists pre w post, vs = pre ++ w :: post /\ run test len w x = Ok /\
    Forall (fun u => exists c, run test len u x = Raise c /\ subclass c EException = true) pre.
Proof. exact or_iff_first_l. Qed.
Print Assumptions or_iff_first.

Theorem or_iff_any : forall test len vs x,
  (forall w c, In w vs -> run test len w x = Raise c -> subclass c EException = true) ->
  (run test len (VOr vs) x = Ok <-> Exists (fun w => run test len w x = Ok) vs) /\
  (run test len (VOr vs) x <> Ok -> run test len (VOr vs) x = Raise EValueError).
Proof. exact or_iff_any_l. Qed.
Print Assumptions or_iff_any.

Theorem or_only_catches_Exception : forall test len pre w post x c,
  Forall (fun u => exists d, run test len u x = Raise d /\ subclass d EException = true) pre ->
  run test len w x = Raise c -> subclass c EException = false ->
  run test len (VOr (pre ++ w :: post)) x = Raise c.
Proof. exact or_only_catches_Exception_l. Qed.
Print Assumptions or_only_catches_Exception.

(** not_ iff the wrapped validator raises one of the listed classes (subclasses included);
    others propagate; an accepted value gives ValueError. *)
Theorem not_iff_listed_exception : forall test len w m e x,
  (run test len (VNot w m e) x = Ok <-> exists c, run test len w x = Raise c /\ caught c e = true) /\
  (forall c, run test len w x = Raise c -> caught c e = false -> run test len (VNot w m e) x = Raise c) /\
  (run test len w x = Ok -> run test len (VNot w m e) x = Raise EValueError).
Proof. exact not_iff_listed_exception_l. Qed.
Print Assumptions not_iff_listed_exception.

(** deep_iterable / deep_mapping iff the container validator and every member / key and
    value validator accept (and iterating / indexing the value does not raise). *)
Theorem deep_iterable_iff : forall test len m it x,
  run test len (VDeepIt m it) x = Ok <->
  (match it with None => True | Some w => run test len w x = Ok end) /\
  Forall (fun kg => run test len m (fst kg) = Ok) (items x) /\ fin x = None.
Proof. exact deep_iterable_iff_l. Qed.
Print Assumptions deep_iterable_iff.

Theorem deep_mapping_iff : forall test len kv vv mv x,
  run test len (VDeepMap kv vv mv) x = Ok <->
  (match mv with None => True | Some w => run test len w x = Ok end) /\
  Forall (fun kg => run test len kv (fst kg) = Ok /\
                    exists y, snd kg = GV y /\ run test len vv y = Ok) (items x) /\
  fin x = None.
Proof. exact deep_mapping_iff_l. Qed.
Print Assumptions deep_mapping_iff.

(** Returns None or raises; there is nothing else a call can do in the model (the real
    side checks `is None` and value-unchanged on every call). *)
Theorem validator_pure : forall test len v x,
  run test len v x = Ok \/ exists c, run test len v x = Raise c.
Proof. exact validator_pure_l. Qed.
Print Assumptions validator_pure.

(** The splicing done by and_ / or_ and the list sugar do not change any outcome. *)
Theorem and_flatten_equiv : forall test len vs x,
  run test len (and_ vs) x = run test len (VAnd false vs) x.
Proof. exact and_flatten_equiv_l. Qed.
Print Assumptions and_flatten_equiv.

Theorem or_flatten_equiv : forall test len vs x,
  run test len (or_ vs) x = run test len (VOr vs) x.
Proof. exact or_flatten_equiv_l. Qed.
Print Assumptions or_flatten_equiv.

Theorem optional_list_equiv : forall test len l es x,
  run test len (build (SOptL l es)) x = run test len (build (SOpt (SAnd es))) x.
Proof. exact optional_list_equiv_l. Qed.
Print Assumptions optional_list_equiv.

Theorem deep_iterable_list_equiv : forall test len l ms it x,
  run test len (build (SDeepItL l ms it)) x = run test len (build (SDeepIt (SAnd ms) it)) x.
Proof. exact deep_iterable_list_equiv_l. Qed.
Print Assumptions deep_iterable_list_equiv.

(** Validators built from equal parameters are equal and, when the parameters are
    hashable, hash-equal — given that the objects the constructors derive (tuple(options),
    the compiled pattern, its bound method) are equal again ([derived_same]). *)
Theorem validators_eq_hash :
  forall (peq : param -> param -> bool) (hashable : param -> bool) (ph : param -> Z)
         (mix : nat -> list Z -> Z),
  (forall a b, peq a b = true -> hashable a = true -> hashable b = true -> ph a = ph b) ->
  (forall p, hashable (PC p) = true) -> (forall f p, hashable (PM f p) = true) ->
  hashable PDef = true ->
  forall e1 e2,
    same_params peq e1 e2 = true -> derived_same peq e1 e2 = true ->
    veqb peq (build e1) (build e2) = true /\
    (params_hashable hashable e1 = true -> params_hashable hashable e2 = true ->
     vhashable hashable (build e1) = true /\ vhashable hashable (build e2) = true /\
     vhash ph mix (build e1) = vhash ph mix (build e2)).
Proof. exact validators_eq_hash_l. Qed.
Print Assumptions validators_eq_hash.

(** [derived_same] follows from equal parameters wherever tuple(), re.compile and method
    binding respect equality (lists; patterns served by the re cache). *)
Theorem derived_same_of_congruence : forall peq : param -> param -> bool,
  (forall p q, peq p q = true -> peq (PT p) (PT q) = true) ->
  (forall p q, peq p q = true -> peq (PC p) (PC q) = true) ->
  (forall f p q, peq p q = true -> peq (PM f p) (PM f q) = true) ->
  forall e1 e2, same_params peq e1 e2 = true -> derived_same peq e1 e2 = true.
Proof. exact derived_of_congruence. Qed.
Print Assumptions derived_same_of_congruence.

(** The generated __hash__ of the validator classes is consistent with their __eq__. *)
Theorem eq_implies_hash_eq :
  forall (peq : param -> param -> bool) (hashable : param -> bool) (ph : param -> Z)
         (mix : nat -> list Z -> Z),
  (forall a b, peq a b = true -> hashable a = true -> hashable b = true -> ph a = ph b) ->
  forall v w, veqb peq v w = true -> vhashable hashable v = true -> vhashable hashable w = true ->
              vhash ph mix v = vhash ph mix w.
Proof. exact eq_implies_hash_eq_l. Qed.
Print Assumptions eq_implies_hash_eq.

(** Unguarded, the equality sentence is false of the code (faithful model, witnesses):
    equal sets / dicts in different iteration order; equal patterns that are not the same
    object. *)
Theorem eq_unordered_options_refuted :
  exists (peq : param -> param -> bool) e1 e2,
    same_params peq e1 e2 = true /\ veqb peq (build e1) (build e2) = false.
Proof. exact eq_unordered_options_refuted_l. Qed.
Print Assumptions eq_unordered_options_refuted.

Theorem eq_recompiled_pattern_refuted :
  exists (peq : param -> param -> bool) e1 e2,
    same_params peq e1 e2 = true /\ veqb peq (build e1) (build e2) = false.
Proof. exact eq_recompiled_pattern_refuted_l. Qed.
Print Assumptions eq_recompiled_pattern_refuted.

(** in_ iff membership in the caller's container — given that the stored tuple answers like
    that container; refuted without the premise. *)
Theorem in_iff_membership : forall test len p conv x,
  (conv = true ->
   absorb_typeerror (test (AIn (PT p)) (vid x)) = absorb_typeerror (test (AIn p) (vid x))) ->
  (run test len (build (SIn p conv)) x = Ok <-> test (AIn p) (vid x) = TT) /\
  (absorb_typeerror (test (AIn p) (vid x)) = FF ->
   run test len (build (SIn p conv)) x = Raise EValueError).
Proof. exact in_iff_membership_l. Qed.
Print Assumptions in_iff_membership.

Theorem in_membership_refuted :
  exists (test : atom -> nat -> tri) len p x,
    test (AIn p) (vid x) = FF /\ run test len (build (SIn p true)) x = Ok.
Proof. exact in_membership_refuted_l. Qed.
Print Assumptions in_membership_refuted.

(** The correspondence check is sound: when [check_case] answers true, every observed
    outcome is the compositional reading ([spec]) of the tabulated documented predicates. *)
Theorem check_case_sound : forall e tb lt runs,
  check_case (CR e tb lt runs) = true ->
  Forall (fun xo => snd xo = to_obs (spec (lookup_test tb) (lookup_len lt) (build e) (fst xo))) runs.
Proof. exact check_case_sound_l. Qed.
Print Assumptions check_case_sound.
