(** * C05 — frozen instances cannot be mutated, and frozenness is inherited.

    Property theorems only; each is closed by [exact] of a lemma from
    [C05/Proofs.v] and followed by [Print Assumptions]. *)
From Coq Require Import List Bool String.
Import ListNotations.
From Attrs Require Import Core.Attr Core.Init Core.InitProofs C05.Model C05.Proofs.
Open Scope string_scope.

(** On an instance whose class resolves [__setattr__]/[__delattr__] to the frozen pair,
    every assignment, deletion and augmented assignment of any name — field or not —
    that is not exception bookkeeping raises (FrozenInstanceError; AttributeError when an
    augmented assignment cannot even read the name) and leaves the state as it was. *)
Theorem frozen_step : forall c s o,
  frozen_pair c -> let_through c o = false ->
  step c s o = (s, refusal c s o) /\ refusal c s o <> ROk.
Proof. intros c s o Hf Hl. split; [exact (frozen_step_l c s o Hf Hl) | exact (refusal_raises c s o)]. Qed.
Print Assumptions frozen_step.

(** The same for every history, of any length: every step raises and the state after
    every step — and at the end — is the initial one. *)
Theorem frozen_histories : forall c ops s,
  frozen_pair c -> (forall o, In o ops -> let_through c o = false) ->
  final c s ops = s /\ run c s ops = map (fun o => (refusal c s o, s)) ops.
Proof. exact frozen_histories_l. Qed.
Print Assumptions frozen_histories.

(** Instances that are not exceptions: nothing at all gets through. *)
Theorem frozen_nothing_gets_through : forall c o, ic_exc c = false -> let_through c o = false.
Proof. exact let_through_plain. Qed.
Print Assumptions frozen_nothing_gets_through.

(** Frozenness is inherited: in the class table built by ANY sequence of class
    statements, a class that is frozen directly (any front-end) or lies below such a
    class — through attrs subclasses of any front-end, dict or slotted, with or without
    frozen=True, and through undecorated subclasses, where neither the class nor a class
    in front of the frozen ancestor in its MRO writes its own [__setattr__]/[__delattr__]
    — resolves both methods to the frozen pair. *)
Theorem frozen_inherited : forall ds id,
  lineage (build [] ds) id -> frozen_cls (build [] ds) id.
Proof. exact frozen_inherited_l. Qed.
Print Assumptions frozen_inherited.

(** The guard is necessary (multiple inheritance with a hooked mutable attrs class in
    front: the subclass of a frozen class takes the mixin's [__setattr__]). *)
Theorem frozen_inherited_mi_refuted :
  exists ds id b c,
    nth_error (build [] ds) id = Some c /\ In b (c_bases c) /\ frozen_cls (build [] ds) b /\
    c_user_sa c = false /\ c_user_da c = false /\
    class_sa (build [] ds) id <> SaFrozen /\ class_da (build [] ds) id = DaFrozen.
Proof. exact frozen_inherited_mi_refuted_l. Qed.
Print Assumptions frozen_inherited_mi_refuted.

(** End to end: instances of every class of such a lineage refuse every history. *)
Theorem frozen_end_to_end : forall ds id env ic ops s,
  lineage (build [] ds) id -> icls_of (build [] ds) id env = Some ic ->
  (forall o, In o ops -> let_through ic o = false) ->
  final ic s ops = s /\ run ic s ops = map (fun o => (refusal ic s o, s)) ops.
Proof. exact frozen_end_to_end_l. Qed.
Print Assumptions frozen_end_to_end.

(** For every attrs class of every table the initializer is generated in frozen mode
    exactly when the class resolves to the frozen [__setattr__]. *)
Theorem frozen_flag_agrees : forall ds id c,
  nth_error (build [] ds) id = Some c -> c_attrs c = true ->
  exists k sc, c_spec c = Some k /\ make_init_script k = GenOk sc /\
               k_frozen k = sa_is_frozen (class_sa (build [] ds) id).
Proof. exact frozen_flag_agrees_l. Qed.
Print Assumptions frozen_flag_agrees.

(** Frozen classes still construct: the generated initializer of a frozen class never
    assigns through the class [__setattr__] (no [self.x = v] store), and construction
    finishes with the C01 values (converter(argument | default | factory value)), the
    hash cache initialised and BaseException.args set. *)
Theorem frozen_constructs : forall k sc von pos kw en,
  wf k -> k_frozen k = true -> make_init_script k = GenOk sc -> bind_call sc pos kw = Bound en ->
  no_plain_store (body sc) = true /\
  exists i,
    run_init k no_fault von pos kw = InitDone i (expected_trace k von en) /\
    (forall a, In a (k_attrs k) -> participates a = true -> read k i (a_name a) = Ok (spec_value a en)) /\
    (forall a, In a (k_attrs k) -> participates a = false -> read k i (a_name a) = Raise EAttributeError) /\
    (k_cache_hash k = true -> read k i HASH_CACHE = Ok VNone) /\
    i_args i = expected_args k en.
Proof. exact frozen_constructs_l. Qed.
Print Assumptions frozen_constructs.

(** Hooks cannot re-open a frozen class: a class-level hook or a field-level on_setattr
    on ANY field (also init=False without default: F7) is rejected at definition. *)
Theorem frozen_rejects_hooks : forall k,
  k_frozen k = true ->
  (has_cls_on_setattr (k_on_setattr k) = true \/ exists a, In a (k_attrs k) /\ a_on_setattr a <> OsNone) ->
  make_init_script k = GenValueError.
Proof. exact frozen_rejects_hooks_l. Qed.
Print Assumptions frozen_rejects_hooks.

(** Exceptions: exactly the listed names can be assigned, exactly [__notes__] deleted. *)
Theorem frozen_exc : forall c s n v,
  frozen_pair c -> ic_exc c = true ->
  (In n SET_OK -> do_set c s n v = generic_setattr c s n v) /\
  (~ In n SET_OK -> do_set c s n v = (s, RFrozen)) /\
  (In n DEL_OK -> do_del c s n = generic_delattr c s n) /\
  (~ In n DEL_OK -> do_del c s n = (s, RFrozen)).
Proof.
  intros c s n v Hf He.
  destruct (frozen_exc_set_l c s n v Hf He) as [A B]. destruct (frozen_exc_del_l c s n Hf He) as [C D]. auto.
Qed.
Print Assumptions frozen_exc.

(** raise ... from ..., with_traceback, implicit chaining, add_note work on frozen
    exception instances. *)
Theorem frozen_exc_bookkeeping : forall c s v,
  frozen_pair c -> ic_exc c = true -> exc_or_none v = true ->
  do_set c s "__cause__" v =
    ({| st_inst := st_inst s; st_cause := v; st_context := st_context s; st_tb := st_tb s;
        st_suppress := VBool true |}, ROk) /\
  do_set c s "__context__" v =
    ({| st_inst := st_inst s; st_cause := st_cause s; st_context := v; st_tb := st_tb s;
        st_suppress := st_suppress s |}, ROk) /\
  do_set c s "__traceback__" v =
    ({| st_inst := st_inst s; st_cause := st_cause s; st_context := st_context s; st_tb := v;
        st_suppress := st_suppress s |}, ROk).
Proof.
  intros c s v Hf He Hv. split; [|split].
  - exact (exc_set_cause c s v Hf He Hv).
  - exact (exc_set_context c s v Hf He Hv).
  - exact (exc_set_traceback c s v Hf He Hv).
Qed.
Print Assumptions frozen_exc_bookkeeping.

Theorem frozen_exc_notes : forall c s v,
  frozen_pair c -> ic_exc c = true -> k_has_dict (ic_spec c) = true -> is_slot (ic_spec c) "__notes__" = false ->
  exists i', do_set c s "__notes__" v = (with_inst s i', ROk) /\
             read (ic_spec c) i' "__notes__" = Ok v /\
             (forall m, m <> "__notes__" -> read (ic_spec c) i' m = read (ic_spec c) (st_inst s) m) /\
             i_args i' = i_args (st_inst s).
Proof. exact exc_set_notes. Qed.
Print Assumptions frozen_exc_notes.

(** On a frozen class — exception or not — no history changes what any name outside
    the bookkeeping set reads as (in particular every field), nor [args]. *)
Theorem frozen_fields_stable : forall c ops s m,
  frozen_pair c -> ~ In m SET_OK ->
  read (ic_spec c) (st_inst (final c s ops)) m = read (ic_spec c) (st_inst s) m /\
  i_args (st_inst (final c s ops)) = i_args (st_inst s).
Proof. exact frozen_fields_stable_l. Qed.
Print Assumptions frozen_fields_stable.
