(** * C01 — Generated __init__ stores converter(argument | default | fresh factory value).

    Property theorems only.  The model is [Core/Init.v] (script generator mirroring
    [_make_init_script]/[_attrs_to_init_script]/[_determine_setters], interpreter over a
    two-layer slots/dict instance, Python calling convention). *)
From Coq Require Import List Bool String Ascii.
Import ListNotations.
From Attrs Require Import Core.Attr Core.Init Core.InitProofs Core.InitProps Core.BindProofs.
Open Scope string_scope.

(** For every well-formed class of any number of fields and every call that binds:
    construction finishes; each participating field reads back exactly
    [spec_value] = converter(passed value | declared default | fresh factory result),
    the converter applied once with instance/field if requested; non-participating fields
    stay unset; nothing else is written except the hash-cache slot ([None]) and, for
    exception classes, [args].  [spec_value] mentions neither slots, frozen, cache_hash,
    the exception flag nor any hook: the clause "holds identically for dict and slotted,
    mutable and frozen, hash-caching, exception and inherited classes". *)
Theorem init_stores : forall k sc von pos kw en,
  wf k -> make_init_script k = GenOk sc -> bind_call sc pos kw = Bound en ->
  exists i,
    run_init k no_fault von pos kw = InitDone i (expected_trace k von en) /\
    (forall a, In a (k_attrs k) -> participates a = true -> read k i (a_name a) = Ok (spec_value a en)) /\
    (forall a, In a (k_attrs k) -> participates a = false -> read k i (a_name a) = Raise EAttributeError) /\
    (forall m, ~ In m (map a_name (k_attrs k)) -> m <> HASH_CACHE -> read k i m = Raise EAttributeError) /\
    (k_cache_hash k = true -> read k i HASH_CACHE = Ok VNone) /\
    i_args i = expected_args k en.
Proof. exact run_init_nofault. Qed.
Print Assumptions init_stores.

(** Positional parameters are the aliases of the init, non-keyword-only fields in field
    order; keyword-only ones follow in field order; init=False fields are not parameters;
    a parameter is optional iff its field has a default ([pdef_optional]). *)
Theorem init_signature : forall k sc,
  make_init_script k = GenOk sc ->
  pos_params sc = map (fun a => (alias_of a, pdef a))
                      (filter (fun a => a_init a && negb (a_kw_only a)) (k_attrs k)) /\
  kw_params sc = map (fun a => (alias_of a, pdef a))
                     (filter (fun a => a_init a && a_kw_only a) (k_attrs k)).
Proof. exact init_signature_l. Qed.
Print Assumptions init_signature.

Theorem parameter_optional_iff_default : forall a, (pdef a <> PMandatory) <-> has_default a = true.
Proof. exact pdef_optional. Qed.
Print Assumptions parameter_optional_iff_default.

(** The default alias is the name with its leading underscores stripped. *)
Theorem alias_default : forall s,
  exists n, s = underscores n ++ default_init_alias_for s /\
            (forall r, default_init_alias_for s <> String "_"%char r).
Proof. exact lstrip_spec_l. Qed.
Print Assumptions alias_default.

(** Annotations: the field's type without a converter, the converter's first-parameter
    type with one, nothing otherwise. *)
Theorem init_annotations : forall k sc,
  make_init_script k = GenOk sc ->
  annotations sc = flat_map field_annotation (filter participates (k_attrs k)).
Proof. exact init_annotations_l. Qed.
Print Assumptions init_annotations.

(** A call that does not bind (missing, unknown, duplicate, surplus argument) is a
    TypeError and runs no callback, under any fault oracle. *)
Theorem init_typeerror : forall k sc f von pos kw,
  make_init_script k = GenOk sc -> bind_call sc pos kw = BindTypeError ->
  run_init k f von pos kw = InitTypeError.
Proof. exact init_typeerror_l. Qed.
Print Assumptions init_typeerror.

(** Two classes with the same field tuple, whatever their modes, bind the same calls and
    leave the same value in every field. *)
Theorem init_mode_independent : forall k1 k2 sc1 sc2 von1 von2 pos kw en,
  wf k1 -> wf k2 -> k_attrs k1 = k_attrs k2 ->
  make_init_script k1 = GenOk sc1 -> make_init_script k2 = GenOk sc2 ->
  bind_call sc1 pos kw = Bound en ->
  bind_call sc2 pos kw = Bound en /\
  exists i1 i2 t1 t2,
    run_init k1 no_fault von1 pos kw = InitDone i1 t1 /\
    run_init k2 no_fault von2 pos kw = InitDone i2 t2 /\
    forall a, In a (k_attrs k1) -> read k1 i1 (a_name a) = read k2 i2 (a_name a).
Proof. exact init_mode_independent_l. Qed.
Print Assumptions init_mode_independent.

(** A call is rejected with TypeError exactly for the four causes: surplus positional
    arguments, an unknown keyword, an argument given both positionally and by keyword, a
    mandatory parameter left out. *)
Theorem bind_typeerror_iff : forall sc pos kw,
  bind_call sc pos kw = BindTypeError <->
  surplus sc pos \/ unknown_keyword sc kw \/ duplicate_argument sc pos kw \/ missing_argument sc pos kw.
Proof. exact bind_typeerror_iff_l. Qed.
Print Assumptions bind_typeerror_iff.

(** Otherwise the i-th positional argument is bound to the i-th positional parameter, and
    every other parameter to its keyword argument, else to its declared default. *)
Theorem bound_positional : forall sc pos kw en i p v,
  bind_call sc pos kw = Bound en -> NoDup (map fst (pos_params sc ++ kw_params sc)) ->
  nth_error (pos_params sc) i = Some p -> nth_error pos i = Some v ->
  lookup (fst p) en = Some v.
Proof. exact bound_positional_l. Qed.
Print Assumptions bound_positional.

Theorem bound_keyword_or_default : forall sc pos kw en p,
  bind_call sc pos kw = Bound en -> NoDup (map fst (pos_params sc ++ kw_params sc)) ->
  In p (skipn (List.length pos) (pos_params sc) ++ kw_params sc) ->
  lookup (fst p) en = match lookup (fst p) kw with Some v => Some v | None => default_val p end.
Proof. exact bound_keyword_or_default_l. Qed.
Print Assumptions bound_keyword_or_default.
