(** placeholder, replaced below *)
From Attrs Require Import Core.Attr Core.Init Core.InitProofs.
