(** * C03 — Generated equality is exact-class, field-wise [==].

    Property theorems only; each is closed by [exact] of a lemma from
    [C03/Proofs.v] and followed by [Print Assumptions].  [val] is any type of
    Python values, [py_eq] any behaviour of [==] on them (true / false / non-bool
    object / exception), [keyf] any key functions: the theorems hold for all. *)
From Coq Require Import List Bool.
Import ListNotations.
From Attrs Require Import C03.Common C03.Model C03.Proofs.

(** Same class: [__eq__] evaluates the eq fields' keyed pairs left to right, stops at
    the first non-truthy [==] (the calls made are exactly [upto_falsy]), returns the
    value of the last [==] made, and that value is truthy iff every eq field's keyed
    values are [==]-truthy.  Any number of fields. *)
Theorem eq_iff : forall val py_eq keyf attrs (x y : inst val),
  i_cls y = i_cls x ->
  exists o, gen_eq val py_eq keyf attrs x (OInst y)
              = (RV o, upto_falsy val py_eq (eq_operands val keyf attrs x y)) /\
    o = value_of val py_eq (upto_falsy val py_eq (eq_operands val keyf attrs x y)) /\
    (truthy o = true <->
     forall a, In a attrs -> f_eq a = true ->
       truthy (py_eq (keyed val keyf (f_eq_key a) (i_get x (f_name a)))
                     (keyed val keyf (f_eq_key a) (i_get y (f_name a)))) = true).
Proof. exact eq_iff_l. Qed.
Print Assumptions eq_iff.

(** [__eq__] of a class is the interpretation of the script [make_eq_script] derives from its
    field list (the script the harness compares with the real generated source text). *)
Theorem eq_is_script : forall val py_eq keyf attrs (x y : inst val),
  i_cls y = i_cls x ->
  gen_eq val py_eq keyf attrs x (OInst y) =
    (RV (fst (and_chain val py_eq (script_operands val keyf (make_eq_script attrs) x y))),
     snd (and_chain val py_eq (script_operands val keyf (make_eq_script attrs) x y))).
Proof. exact gen_eq_is_script_l. Qed.
Print Assumptions eq_is_script.

(** nothing is evaluated after the first falsy [==] *)
Theorem eq_short_circuit : forall val py_eq ps,
  snd (and_chain val py_eq ps) = upto_falsy val py_eq ps /\
  exists rest, ps = upto_falsy val py_eq ps ++ rest /\
    Forall (fun p => pair_truthy val py_eq p = true) (removelast (upto_falsy val py_eq ps)).
Proof. exact eq_short_circuit_l. Qed.
Print Assumptions eq_short_circuit.

(** Any other class (sub- and superclasses are just other positions of the chain):
    [__eq__] and [__ne__] return NotImplemented without comparing anything … *)
Theorem eq_other_class : forall val py_eq keyf attrs (x y : inst val),
  i_cls y <> i_cls x ->
  gen_eq val py_eq keyf attrs x (OInst y) = (RNotImpl, []) /\
  ne_of (fst (gen_eq val py_eq keyf attrs x (OInst y))) = RNotImpl.
Proof. exact eq_other_class_l. Qed.
Print Assumptions eq_other_class.

Theorem eq_foreign : forall val py_eq keyf attrs (x : inst val) eqr ner,
  gen_eq val py_eq keyf attrs x (OForeign eqr ner) = (RNotImpl, []) /\
  ne_of (fst (gen_eq val py_eq keyf attrs x (OForeign eqr ner))) = RNotImpl.
Proof. exact eq_foreign_l. Qed.
Print Assumptions eq_foreign.

(** … so Python's default (identity) decides, whatever each class of the chain
    generated or inherited. *)
Theorem eq_other_class_falls_back : forall val py_eq keyf eff_of (x y : inst val),
  i_cls y <> i_cls x ->
  op_eq val py_eq keyf eff_of x (OInst y) false = (PFalse, []) /\
  op_ne val py_eq keyf eff_of x (OInst y) false = (PTrue, []).
Proof. exact op_other_class_l. Qed.
Print Assumptions eq_other_class_falls_back.

Theorem eq_foreign_decides : forall val py_eq keyf eff_of attrs (x : inst val) eqr ner,
  eff_of (i_cls x) = Some attrs ->
  op_eq val py_eq keyf eff_of x (OForeign eqr ner) false =
    (match eqr with RV o => o | RNotImpl => PFalse end, []) /\
  op_ne val py_eq keyf eff_of x (OForeign eqr ner) false =
    (match ner with RV o => o | RNotImpl => PTrue end, []).
Proof. exact op_foreign_l. Qed.
Print Assumptions eq_foreign_decides.

(** [!=] is the negation of [==] (same evaluations, exceptions propagate) *)
Theorem ne_negation : forall val py_eq keyf eff_of attrs (x y : inst val) same,
  i_cls y = i_cls x -> eff_of (i_cls x) = Some attrs ->
  let e := op_eq val py_eq keyf eff_of x (OInst y) same in
  let n := op_ne val py_eq keyf eff_of x (OInst y) same in
  snd n = snd e /\
  match fst e with
  | PRaise ex => fst n = PRaise ex
  | o => fst n = of_bool (negb (truthy o))
  end.
Proof. exact ne_negation_l. Qed.
Print Assumptions ne_negation.

Theorem ne_method_negates : forall r,
  match r with
  | RNotImpl => ne_of r = RNotImpl
  | RV (PRaise e) => ne_of r = RV (PRaise e)
  | RV o => ne_of r = RV (of_bool (negb (truthy o)))
  end.
Proof. exact ne_of_spec. Qed.
Print Assumptions ne_method_negates.

(** Instances that differ only in fields with eq=False are indistinguishable, as
    left and as right operand. *)
Theorem eq_frame : forall val py_eq keyf attrs (x x' : inst val) other,
  agree_on_eq val attrs x x' ->
  gen_eq val py_eq keyf attrs x other = gen_eq val py_eq keyf attrs x' other /\
  forall z, gen_eq val py_eq keyf attrs z (OInst x) = gen_eq val py_eq keyf attrs z (OInst x').
Proof. exact eq_frame_l. Qed.
Print Assumptions eq_frame.

(** [==], not identity: a self-unequal value in an eq field makes [x == x] falsy *)
Theorem eq_not_identity : forall val py_eq keyf attrs (x : inst val) a,
  In a attrs -> f_eq a = true ->
  truthy (py_eq (keyed val keyf (f_eq_key a) (i_get x (f_name a)))
                (keyed val keyf (f_eq_key a) (i_get x (f_name a)))) = false ->
  forall o l, gen_eq val py_eq keyf attrs x (OInst x) = (o, l) -> res_truthy o = false.
Proof. exact eq_not_identity_l. Qed.
Print Assumptions eq_not_identity.

(** Which fields take part and with which key: all 125 shapes of (cmp, eq, order): None, True, False, callable, falsy callable object. *)
Theorem eq_participation : forall n cmp eq order,
  make_attribute n cmp eq order = participation_spec n cmp eq order.
Proof. exact eq_participation_l. Qed.
Print Assumptions eq_participation.

Theorem eq_false_fields : forall n cmp eq order a,
  make_attribute n cmp eq order = Ok a ->
  (f_eq a = false <-> (cmp = SF \/ (cmp = SN /\ eq = SF))).
Proof. exact field_eq_false_iff. Qed.
Print Assumptions eq_false_fields.

Theorem eq_key_fields : forall n cmp eq order a k,
  make_attribute n cmp eq order = Ok a ->
  (f_eq_key a = Some k <-> (is_key cmp k \/ (cmp = SN /\ is_key eq k))).
Proof. exact field_eq_key_iff. Qed.
Print Assumptions eq_key_fields.

(** a callable OBJECT whose truth value is False (empty callable dict subclass, __bool__
    False, __len__ 0) given as cmp= / eq= / order= is a key function like any other *)
Theorem falsy_key_honoured : forall n cmp eq order,
  make_attribute n cmp eq order = make_attribute n (unfalsy cmp) (unfalsy eq) (unfalsy order).
Proof. exact falsy_key_is_key. Qed.
Print Assumptions falsy_key_honoured.

Theorem field_settings_rejected : forall n cmp eq order,
  make_attribute n cmp eq order = VErr <->
  (is_set cmp = true /\ (is_set eq = true \/ is_set order = true)) \/
  (cmp = SN /\ eq = SF /\ (order = ST \/ exists k, order = SK k \/ order = SKf k)).
Proof. exact field_error_iff. Qed.
Print Assumptions field_settings_rejected.

