(** * C11 — repr format, cycle safety, residue-freedom and thread isolation.

    Property theorems only; each is closed by [exact] of a lemma from
    [C11/Proofs.v] / [C11/Threads.v] and followed by [Print Assumptions]. *)
From Coq Require Import List Bool Arith String Ascii.
Import ListNotations.
From Attrs Require Import C11.Model C11.Proofs C11.Threads C11.Script C11.ScriptProofs C11.Corr.
Open Scope string_scope.
Open Scope list_scope.

(** The class-name fragment [qualname.rsplit(">.", 1)[-1]]: the whole qualified name
    when [">."] does not occur in it, otherwise what follows the LAST occurrence ... *)
Theorem qualtail_spec : forall s,
  (~ occurs s /\ qualtail s = s) \/ (exists pre, s = pre ^^ ">." ^^ qualtail s).
Proof. exact qualtail_spec_l. Qed.
Print Assumptions qualtail_spec.

(** ... so, for every string, no [<locals>.] prefix survives. *)
Theorem qualtail_no_locals : forall s, ~ occurs (qualtail s).
Proof. exact qualtail_no_locals_l. Qed.
Print Assumptions qualtail_no_locals.

(** The stateful generated code (thread-local set mutated in place, try/finally,
    CPython's own guard for lists and dicts) computes, for every heap, fuel, state
    and fault sequence, exactly what the pure reference computes in which the sets
    of objects being rendered are parameters handed down the recursion - i.e. the
    marker is produced precisely for an object that is an ancestor on the current
    path - and it gives the two sets back as it found them. *)
Theorem repr_refines_reference : forall h n v st r st',
  repr_val h n v st = (r, st') ->
  ref_val h n (aset st) (pr st) v (faults st) = (r, faults st') /\
  aset st' = aset st /\ pr st' = pr st.
Proof. exact repr_refines_l. Qed.
Print Assumptions repr_refines_reference.

(** Format: [QualTail(f1=r1, f2=r2, ...)] over exactly the repr-enabled fields, in
    field order; every [ri] is what [repr()] / the field's callable returned for the
    attribute (for [NOTHING] when an init=False field is unset), evaluated while the
    instance itself is marked as being rendered. *)
Theorem repr_format : forall h n o st qn sf bs fs attrs s st',
  nth_error h o = Some (OI qn sf bs fs attrs) ->
  ~ In o (aset st) ->
  repr_val h (S n) (VRef o) st = (Ok s, st') ->
  exists rs,
    s = format_spec qn fs rs /\
    Forall2 (rendered (repr_val h n) attrs (o :: aset st) (pr st)) (filter enabled fs) rs.
Proof. exact repr_format_l. Qed.
Print Assumptions repr_format.

Theorem str_is_repr : forall h o st qn bs fs attrs,
  nth_error h o = Some (OI qn true bs fs attrs) -> str h o st = repr h (VRef o) st.
Proof. exact str_is_repr_l. Qed.
Print Assumptions str_is_repr.

(** Termination on every object graph, cyclic or not, from every state: the fuel
    [2 * |heap| + 1] is never exhausted (each nested call that does not return at once
    adds a new heap object to one of the two sets). *)
Theorem repr_terminates : forall h v st, fst (repr h v st) <> OutOfFuel.
Proof. exact repr_terminates_l. Qed.
Print Assumptions repr_terminates.

Theorem repr_fuel_irrelevant : forall h n k v st,
  measure h st < n -> repr_val h (n + k) v st = repr_val h n v st.
Proof. exact repr_val_fuel_irrelevant. Qed.
Print Assumptions repr_fuel_irrelevant.

(** An instance that is already being rendered in this thread renders as ['...']. *)
Theorem repr_cycle_marker : forall h n o st qn sf bs fs attrs,
  nth_error h o = Some (OI qn sf bs fs attrs) -> In o (aset st) ->
  repr_val h (S n) (VRef o) st = (Ok "...", st).
Proof. exact repr_cycle_marker_l. Qed.
Print Assumptions repr_cycle_marker.

(** No residue, after returning or raising, for every fault sequence ... *)
Theorem repr_residue_free : forall h n v st r st',
  repr_val h n v st = (r, st') -> aset st' = aset st /\ pr st' = pr st.
Proof. exact repr_residue_free_l. Qed.
Print Assumptions repr_residue_free.

(** ... hence a later repr of the same object behaves exactly like a first one
    (for every continuation [fl2] of the fault oracle, in particular the fault-free
    one: the complete string again). *)
Theorem repr_again_complete : forall h n v st r st' fl2,
  repr_val h n v st = (r, st') ->
  fst (repr_val h n v (T (ar st') (pr st') fl2)) = fst (repr_val h n v (T (ar st) (pr st) fl2)).
Proof. exact repr_again_l. Qed.
Print Assumptions repr_again_complete.

(** The [finally: already_repring.remove(id(self))] never raises KeyError. *)
Theorem repr_no_keyerror : forall h n v st, fst (repr_val h n v st) <> Raise EKey.
Proof. exact repr_no_keyerror_l. Qed.
Print Assumptions repr_no_keyerror.

(** The small-step stack machine run alone halts with [repr]'s answer. *)
Theorem machine_computes_repr : forall h v st,
  exists k, forall j, k <= j ->
    iter j (step_or_stay h) (Cf (CEval v) [] st)
    = Cf (CRet (fst (repr h v st))) [] (snd (repr h v st)).
Proof. exact solo_machine. Qed.
Print Assumptions machine_computes_repr.

(** Thread isolation: under EVERY schedule (any list of thread ids, any number of
    threads, any targets - in particular all the same instance) a thread that has
    finished produced exactly its solo answer and left its own set empty ... *)
Theorem repr_thread_isolation : forall h v fl sched t x,
  halted (view id_key (run_sched id_key h sched (start_world v fl)) t) = Some x ->
  x = repr h (v t) (clean (fl t)).
Proof. exact repr_thread_isolation_l. Qed.
Print Assumptions repr_thread_isolation.

(** ... and it does finish once scheduled often enough, whatever the others do. *)
Theorem repr_thread_progress : forall h v fl t,
  exists k, forall sched, k <= count t sched ->
    halted (view id_key (run_sched id_key h sched (start_world v fl)) t)
    = Some (repr h (v t) (clean (fl t))).
Proof. exact repr_thread_progress_l. Qed.
Print Assumptions repr_thread_progress.

(** The per-thread key is necessary: with one shared set a second thread entering
    repr of the same instance prints ["..."]. *)
Theorem shared_set_refuted :
  fst (repr demo_heap (VRef 0) (clean [])) = Ok "C(x=t)" /\
  exists sched,
    option_map fst (halted (view shared_key (run_sched shared_key demo_heap sched
                                               (start_world (fun _ => VRef 0) (fun _ => []))) 1))
    = Some (Ok "...").
Proof. exact shared_set_breaks_isolation. Qed.
Print Assumptions shared_set_refuted.

(** Script level: the syntax tree the model derives for a class's field list
    ([repr_function]: the try/except/else prologue on the thread-local attribute, the
    try/finally around the f-string, the f-string's pieces), executed by the statement
    interpreter, IS the model's instance semantics ([enter] / [run_parts] / [leave]) ... *)
Theorem script_semantics : forall h rec o st qn sf bs fs attrs,
  NoDup (map f_name fs) ->
  nth_error h o = Some (OI qn sf bs fs attrs) ->
  exec_function rec fs o qn attrs (repr_function fs) st = repr_obj h rec o st.
Proof. exact script_semantics_l. Qed.
Print Assumptions script_semantics.

(** ... so for every class whose REAL generated source parses to a tree on which
    [script_case_ok] answers [true] (checked by coqc for the classes of each run), the
    parsed real source means exactly the model, for all instances and states. *)
Theorem script_tie_meaning : forall c,
  script_case_ok c = true ->
  NoDup (map f_name (sc_fields c)) ->
  forall h rec o st qn sf bs attrs,
    nth_error h o = Some (OI qn sf bs (sc_fields c) attrs) ->
    exec_function rec (sc_fields c) o qn attrs (sc_body c) st = repr_obj h rec o st.
Proof. exact script_tie_meaning_l. Qed.
Print Assumptions script_tie_meaning.

(** The "already being rendered" test is by object IDENTITY: an instance that is not
    itself (same object) in the thread's set is never rendered as ['...'], however it
    compares under [==] to the instances that are. *)
Theorem repr_marker_only_for_same_object : forall h n o st qn sf bs fs attrs s st',
  nth_error h o = Some (OI qn sf bs fs attrs) ->
  ~ In o (aset st) ->
  repr_val h (S n) (VRef o) st = (Ok s, st') -> s <> "...".
Proof. exact repr_marker_only_for_same_object_l. Qed.
Print Assumptions repr_marker_only_for_same_object.

(** The field filter is [a.repr is not False]: whether the object passed as [repr=] is
    truthy or falsy (empty callable dict subclass, [__bool__] False) changes nothing -
    heaps that differ only in that bit render identically, whatever the graph. *)
Theorem repr_ignores_callable_truthiness : forall h1 h2 v st,
  map erase_truthy h1 = map erase_truthy h2 -> repr h1 v st = repr h2 v st.
Proof. exact repr_ignores_callable_truthiness_l. Qed.
Print Assumptions repr_ignores_callable_truthiness.

(** A case carries, per instance, both the qualified name of the class the decorator was
    applied to and (inside the heap) that of the RUNTIME class; the prediction reads only
    the latter ([repr_format]: the name fragment is [qualtail] of the heap's qualname). *)
Theorem output_depends_only_on_runtime_qualname : forall c dq',
  model_of (Case (c_heap c) (c_eqcls c) dq' (c_warm c) (c_faults c) (c_threaded c) (c_sched c) (c_rounds c)
                 (c_calls c) (c_seen c)) = model_of c.
Proof. exact model_ignores_defining_qualname. Qed.
Print Assumptions output_depends_only_on_runtime_qualname.
