(** * C07 — Field collection: once per name, MRO-fresh, definition order; introspection.

    Property theorems only; each is closed by [exact] of a lemma from
    [C07/Proofs.v] and followed by [Print Assumptions].  Class tables, MRO lists,
    bodies and transformers are arbitrary (unbounded); MRO lists are arbitrary
    lists of class ids, strictly more general than C3 linearisations. *)
From Coq Require Import List Bool String Ascii ZArith Sorted Permutation.
Import ListNotations.
From Attrs Require Import Core.Attr C07.Model C07.Proofs.

(** fields(C) lists every field exactly once — for every class statement without a
    transformer, through every front-end, in both collection modes, whatever the
    earlier classes look like (own names are the keys of a dict: of the class
    namespace, of __annotations__, or of these=). *)
Theorem fields_nodup : forall pre t k d res,
  d_ft d = None ->
  (forall th, d_these d = Some th -> NoDup (map fst th)) ->
  decorate pre t k d = Ok res -> NoDup (names res).
Proof. exact decorate_fields_nodup_l. Qed.
Print Assumptions fields_nodup.

(** With a transformer: exactly when the transformer's answer is duplicate-free. *)
Theorem fields_nodup_under_transformer : forall t mro by_mro kw ft own res,
  NoDup (names (ft (evolve_kw_only kw (base_attrs_of t mro by_mro (names own))
                    ++ evolve_kw_only kw own))) ->
  transform_attrs t mro by_mro kw (Some ft) own = Ok res -> NoDup (names res).
Proof. exact fields_nodup_ft_l. Qed.
Print Assumptions fields_nodup_under_transformer.

(** First the inherited ones (all flagged), then the own ones (none flagged) in
    definition order; no inherited field carries an own name. *)
Theorem fields_inherited_then_own : forall t mro by_mro kw own res,
  Forall (fun a => a_inherited a = false) own ->
  transform_attrs t mro by_mro kw None own = Ok res ->
  exists inh ow,
    res = inh ++ ow /\
    Forall (fun a => a_inherited a = true) inh /\
    Forall (fun a => a_inherited a = false) ow /\
    names ow = names own /\
    (forall n, In n (names inh) -> ~ In n (names own)).
Proof. exact fields_inherited_then_own_l. Qed.
Print Assumptions fields_inherited_then_own.

(** What [own] is: un-flagged attributes named like [ca_list], in its order. *)
Theorem own_fields_follow_ca_list : forall pre these auto body own,
  own_attrs pre these auto body = Ok own ->
  Forall (fun a => a_inherited a = false) own /\
  exists l, ca_list pre these auto (fst (namespace body)) (snd (namespace body)) = Ok l /\
            names own = map fst l.
Proof. exact own_attrs_spec. Qed.
Print Assumptions own_fields_follow_ca_list.

(** Counter mode: for ANY strictly increasing counter assignment along the source
    order, the sort returns the source order (the absolute value of the global
    counter is irrelevant); in general the result is a sorted permutation. *)
Theorem own_definition_order : forall l,
  StronglySorted (fun x y => (ca_counter (snd x) < ca_counter (snd y))%Z) l ->
  sort_by_counter l = l.
Proof. exact own_definition_order_l. Qed.
Print Assumptions own_definition_order.

Theorem counter_sort_is_sorted_permutation : forall l,
  Permutation l (sort_by_counter l) /\ Sorted counter_le (sort_by_counter l).
Proof. intros l. split; [apply sort_perm | apply sort_sorted]. Qed.
Print Assumptions counter_sort_is_sorted_permutation.

Theorem counter_mode_source_order : forall pre l,
  NoDup (map fst l) ->
  StronglySorted (fun x y => (ca_counter (snd x) < ca_counter (snd y))%Z) l ->
  ca_list pre None false (fst (namespace (body_ib l))) (snd (namespace (body_ib l))) = Ok l.
Proof. exact counter_mode_source_order_l. Qed.
Print Assumptions counter_mode_source_order.

(** collect_by_mro / define: for every name, the listed inherited definition is the
    own definition of the FIRST class of the MRO that defines the name itself. *)
Theorem mro_nearest_wins : forall t mro taken n,
  find (named n) (collect_base_attrs t mro taken) =
  if mem_str n taken then None
  else option_map (fun a => set_inherited a true) (nearest_def t mro n).
Proof. exact mro_nearest_wins_l. Qed.
Print Assumptions mro_nearest_wins.

Theorem mro_nearest_wins_in_fields : forall t mro kw own res,
  transform_attrs t mro true kw None own = Ok res ->
  forall n, ~ In n (names own) ->
    find (named n) res =
    option_map (fun a => resolve_alias (if kw then set_kw_only (inh a) true else inh a))
               (nearest_def t mro n).
Proof. exact mro_nearest_wins_result_l. Qed.
Print Assumptions mro_nearest_wins_in_fields.

(** Own fields shadow inherited ones of the same name (both collection modes). *)
Theorem own_shadows_inherited : forall t mro by_mro own a,
  In a (base_attrs_of t mro by_mro (names own)) -> ~ In (a_name a) (names own).
Proof. exact own_shadows_inherited_l. Qed.
Print Assumptions own_shadows_inherited.

(** Legacy collection = MRO-correct collection on linear chains ... *)
Theorem legacy_linear_agrees : forall t mro, chain_ok t mro ->
  forall taken, collect_base_attrs_broken t mro taken = collect_base_attrs t mro taken.
Proof. exact legacy_linear_agrees_l. Qed.
Print Assumptions legacy_linear_agrees.

(** ... and NOT on diamonds: issue #428 (finding K7), the reason for collect_by_mro. *)
Theorem legacy_diamond_refuted :
  exists t mro n,
    find (named n) (collect_base_attrs_broken t mro []) <>
    option_map inh (nearest_def t mro n).
Proof. exact legacy_diamond_refuted_l. Qed.
Print Assumptions legacy_diamond_refuted.

(** Index access, name access, fields_dict, __match_args__ and the initializer's
    parameter order are functions of the one tuple, related exactly like this. *)
Theorem introspection_agree : forall l,
  NoDup (fields_dict_keys l) /\
  (forall n, In n (fields_dict_keys l) <-> In n (names l)) /\
  (NoDup (names l) -> fields_dict_keys l = names l) /\
  (forall n, fields_dict_get l n =
             match index_of_name l n with Some j => nth_error l j | None => None end) /\
  (NoDup (names l) -> forall j a, nth_error l j = Some a -> index_of_name l (a_name a) = Some j) /\
  combine (match_args l) (init_positional l) =
    map (fun a => (a_name a, alias_of a)) (filter positional l) /\
  List.length (match_args l) = List.length (init_positional l) /\
  Permutation (init_positional l ++ init_kw_only l) (map alias_of (filter a_init l)).
Proof. exact introspection_agree_l. Qed.
Print Assumptions introspection_agree.

(** The tuple reflects exactly what the transformer returned (aliases resolved
    afterwards), for an arbitrary transformer function. *)
Theorem transformer_reflected : forall t mro by_mro kw ft own,
  let given := evolve_kw_only kw (base_attrs_of t mro by_mro (names own)) ++ evolve_kw_only kw own in
  transform_attrs t mro by_mro kw (Some ft) own =
  if order_ok (ft given) then Ok (map resolve_alias (ft given)) else Err EValue.
Proof. exact transformer_reflected_l. Qed.
Print Assumptions transformer_reflected.

(** define(auto_attribs=None) is annotation-driven iff no unannotated field() exists. *)
Theorem define_inference : forall pre t k d,
  d_auto d = AutoInfer ->
  decorate pre t k d =
  attrs_call pre t k d
    (match d_these d with Some _ => true | None => annotation_driven pre (k_body k) end).
Proof. exact define_inference_l. Qed.
Print Assumptions define_inference.

Theorem annotation_driven_characterised : forall pre body,
  annotation_driven pre body = true <->
  forall n, In n (map fst (counting_attrs (fst (namespace body)))) ->
            In n (annot_names pre (snd (namespace body))).
Proof. exact annotation_driven_iff. Qed.
Print Assumptions annotation_driven_characterised.

(** ClassVar: every documented spelling is recognised, bare and quoted. *)
Theorem classvar_documented : forall p s,
  In p documented_prefixes -> is_class_var documented_prefixes (p ++ s)%string = true.
Proof. exact classvar_documented_l. Qed.
Print Assumptions classvar_documented.

Theorem classvar_documented_quoted : forall p s q1 q2,
  In p documented_prefixes -> is_quote q1 = true -> is_quote q2 = true ->
  is_class_var documented_prefixes (String q1 ((p ++ s) ++ String q2 ""))%string = true.
Proof. exact classvar_documented_quoted_l. Qed.
Print Assumptions classvar_documented_quoted.

(** Default alias: the name without its leading underscores; explicit aliases stay. *)
Theorem alias_default_spec : forall a,
  (a_alias a = None \/ a_alias a = Some ""%string) ->
  exists k al, a_alias (resolve_alias a) = Some al /\
               a_name a = (underscores k ++ al)%string /\
               (forall r, al <> String "_"%char r).
Proof. exact alias_default_spec_l. Qed.
Print Assumptions alias_default_spec.

(** Equivalent declarations through different front-ends give the same own fields
    (hence, by [transform_attrs] being a function of them, the same tuple). *)
Theorem frontends_equal_these_vs_body : forall pre auto l,
  NoDup (map fst l) ->
  StronglySorted (fun x y => (ca_counter (snd x) < ca_counter (snd y))%Z) l ->
  own_attrs pre None false (body_ib l) = own_attrs pre (Some l) auto [].
Proof. exact frontends_these_vs_body_l. Qed.
Print Assumptions frontends_equal_these_vs_body.

Theorem frontends_equal_these_vs_annotations : forall pre auto (l : typed_spec),
  NoDup (tnames l) ->
  Forall (fun e => is_class_var pre (snd e) = false /\ a_type (ca_attr (snd (fst e))) = None) l ->
  own_attrs pre None true (body_ann l) = own_attrs pre (Some (these_of l)) auto [].
Proof. exact frontends_these_vs_annotations_l. Qed.
Print Assumptions frontends_equal_these_vs_annotations.
