(** * C07 — field collection and introspection (property theorems). *)
From Coq Require Import List Bool String.
Import ListNotations.
From Attrs Require Import Core.Attr C07.Model C07.Proofs.

Theorem names_survive_alias_resolution : forall l, names (map resolve_alias l) = names l.
Proof. exact names_resolve_alias. Qed.
Print Assumptions names_survive_alias_resolution.
