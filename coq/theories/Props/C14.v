(** * C14 — Method-generation decision table; user-defined methods are never replaced.

    Property theorems only; each is closed by [exact] of a lemma from [C14/Factor.v],
    [C14/Proofs.v], [C14/NS.v] or [C14/NSLink.v] and followed by [Print Assumptions]. *)
From Coq Require Import List Bool String.
Import ListNotations.
From Attrs Require Import C14.Model C14.Factor C14.Proofs C14.NS C14.NSLink.

(** The model of [attrs().wrap] (mirrors the code branch by branch) equals the decision
    list written from the property text, for EVERY configuration: api x auto_detect x
    slots x frozen x all flags x every subset of body-defined and base-defined dunders. *)
Theorem decision_table : forall c, decide c = spec c.
Proof. exact decision_table_l. Qed.
Print Assumptions decision_table.

(** An explicit True generates every method of the group (replacing the user's), an
    explicit False leaves every one of them untouched. *)
Theorem flag_obeyed : forall c g, no_error c -> g <> GHash ->
  (explicit_flag c g = tT -> group_generated c g) /\
  (explicit_flag c g = tF -> group_untouched c g).
Proof. exact flag_obeyed_l. Qed.
Print Assumptions flag_obeyed.

Theorem hash_flag_obeyed : forall c, no_error c ->
  (explicit_flag c GHash = tT -> prov_at (decide c) Dh = Some pG) /\
  (explicit_flag c GHash = tF -> prov_at (decide c) Dh = Some (untouched c Dh)).
Proof. exact hash_flag_obeyed_l. Qed.
Print Assumptions hash_flag_obeyed.

(** No flag + auto-detection: skipped iff the body defines one of the group's methods
    (any subset), otherwise the documented default. *)
Theorem auto_detect_iff_own : forall c g, no_error c -> g <> GHash ->
  explicit_flag c g = tN -> detects c g = true ->
  (existsb (body_defines c) (members g) = true -> group_untouched c g) /\
  (existsb (body_defines c) (members g) = false ->
     if documented_default c g then group_generated c g else group_untouched c g).
Proof. exact auto_detect_iff_own_l. Qed.
Print Assumptions auto_detect_iff_own.

Theorem auto_detect_skips_iff : forall c g, no_error c -> g <> GHash ->
  explicit_flag c g = tN -> detects c g = true -> documented_default c g = true ->
  (group_untouched c g <-> exists d, In d (members g) /\ body_defines c d = true).
Proof. exact auto_detect_iff. Qed.
Print Assumptions auto_detect_skips_iff.

(** No flag, no auto-detection: the default, whatever the body defines. *)
Theorem no_auto_detect_default : forall c g, no_error c -> g <> GHash ->
  explicit_flag c g = tN -> detects c g = false ->
  if documented_default c g then group_generated c g else group_untouched c g.
Proof. exact no_auto_detect_default_l. Qed.
Print Assumptions no_auto_detect_default.

Theorem hash_table : forall c, no_error c -> explicit_flag c GHash = tN ->
  prov_at (decide c) Dh = Some
    (if auto_detect c && class_defines c Dh then untouched c Dh
     else if negb (generate c GEq) then untouched c Dh
     else if effectively_frozen c then pG else pZ).
Proof. exact hash_table_l. Qed.
Print Assumptions hash_table.

(** Base-defined methods never change any decision. *)
Theorem inherited_methods_irrelevant : forall c inh, decide (with_inh c inh) = decide c.
Proof. exact inherited_methods_irrelevant_l. Qed.
Print Assumptions inherited_methods_irrelevant.

(** Defaults: order mirrors eq under attr.s and is off under define, pickling helpers
    follow slotted-ness, str is off; auto_detect / slots defaults of the two APIs. *)
Theorem defaults : forall c,
  (c_api c = AttrS -> c_cmp c = tN -> (c_order c = None \/ c_order c = Some tN) ->
     explicit_flag c GOrder = explicit_flag c GEq) /\
  (c_api c = Define -> c_cmp c = tN -> c_order c = None -> explicit_flag c GOrder = tF) /\
  (c_api c = Define -> c_cmp c = tN -> c_order c = Some tN ->
     explicit_flag c GOrder = explicit_flag c GEq) /\
  documented_default c GPickle =
    (slots c || (base_generated_pair (c_base c) && negb (class_defines c Dg))) /\
  (c_base c = BPlain -> documented_default c GPickle = slots c) /\
  (c_str c = None -> str_arg c = false) /\
  (c_ad c = None -> auto_detect c = match c_api c with AttrS => false | Define => true end) /\
  (c_slots c = None -> slots c = match c_api c with AttrS => false | Define => true end) /\
  (c_ma c = None -> match_args c = true).
Proof. exact defaults_l. Qed.
Print Assumptions defaults.

Theorem order_off_under_define : forall c, no_error c ->
  c_api c = Define -> c_order c = None -> group_untouched c GOrder.
Proof. exact order_off_under_define_l. Qed.
Print Assumptions order_off_under_define.

(** Pickling helpers follow slotted-ness — or are needed because the class would
    otherwise inherit an attrs-generated pair that only knows the base's fields. *)
Theorem pickling_follows_slots : forall c, no_error c -> c_gs c = tN ->
  auto_detect c && existsb (body_defines c) [Dg; Dst] = false ->
  if slots c || (base_generated_pair (c_base c) && negb (body_defines c Dg))
  then group_generated c GPickle else group_untouched c GPickle.
Proof. exact pickling_follows_slots_l. Qed.
Print Assumptions pickling_follows_slots.

(** The base: only whether it carries an attrs-GENERATED pickling pair matters (slotted
    or not, generated [__init__] or [__attrs_init__], user-defined dunders: irrelevant),
    and that only moves the default of the pickling group: every other name is
    unaffected, and an explicit flag or an auto-detected own method still wins. *)
Theorem base_kind_irrelevant : forall c b,
  base_generated_pair b = base_generated_pair (c_base c) ->
  base_frozen b = base_frozen (c_base c) -> decide (with_base c b) = decide c.
Proof. exact base_kind_irrelevant_l. Qed.
Print Assumptions base_kind_irrelevant.

Theorem generated_base_pair_only_default : forall c b, no_error c ->
  base_frozen b = base_frozen (c_base c) ->
  (forall d, d <> Dg -> d <> Dst -> prov_at (decide (with_base c b)) d = prov_at (decide c) d) /\
  (c_gs c <> tN \/ auto_detect c && existsb (body_defines c) [Dg; Dst] = true ->
     decide (with_base c b) = decide c).
Proof. exact generated_base_pair_only_default_l. Qed.
Print Assumptions generated_base_pair_only_default.

(** Frozenness is inherited from a frozen attrs base: leaving out [frozen=True] on the
    subclass changes no decision (hash default, frozen [__setattr__]/[__delattr__], the
    custom-[__setattr__] rejection) unless the body's own [__setattr__] hides the base's. *)
Theorem frozen_is_inherited : forall c,
  base_frozen (c_base c) = true -> body_defines c Dsa = false ->
  decide (with_frozen c false) = decide (with_frozen c true).
Proof. exact frozen_is_inherited_l. Qed.
Print Assumptions frozen_is_inherited.

Theorem str_off : forall c, no_error c ->
  prov_at (decide c) Ds = Some (if str_arg c then pG else untouched c Ds).
Proof. exact str_off_l. Qed.
Print Assumptions str_off.

(** [__attrs_init__] is generated exactly when [__init__] is not. *)
Theorem attrs_init_iff_no_init : forall c, no_error c ->
  (prov_at (decide c) Di = Some pG /\ prov_at (decide c) Da = Some pA) \/
  (prov_at (decide c) Di = Some (untouched c Di) /\ prov_at (decide c) Da = Some pG).
Proof. exact attrs_init_iff_no_init_l. Qed.
Print Assumptions attrs_init_iff_no_init.

(** A body-defined method attrs was not told to generate is still the user's object. *)
Theorem user_methods_preserved : forall c d, no_error c ->
  body_defines c d = true -> told c d = false -> prov_at (decide c) d = Some pU.
Proof. exact user_methods_preserved_l. Qed.
Print Assumptions user_methods_preserved.

Theorem never_removed : forall c d, no_error c -> body_defines c d = true ->
  prov_at (decide c) d = Some pU \/
  (told c d = true /\ (prov_at (decide c) d = Some pG \/ (d = Dh /\ prov_at (decide c) d = Some pZ))).
Proof. exact never_removed_l. Qed.
Print Assumptions never_removed.

(** The definition-time rejections are exactly the five rows of [spec_error]. *)
Theorem rejects_exactly : forall c e, decide c = RErr e <-> spec_error c = Some e.
Proof. exact decide_error_iff. Qed.
Print Assumptions rejects_exactly.

(** Frame: in a namespace of any size, [_patch_original_class] changes only the names
    in the builder's dict (and deletes the field definitions) ... *)
Theorem patch_frame : forall (K V : Type) (keqb : K -> K -> bool),
  (forall a b, keqb a b = true <-> a = b) ->
  forall cls fields cls_dict k,
  ~ In k fields -> ~ In k (keys K V cls_dict) ->
  lookup K V keqb k (patch_original_class K V keqb cls fields cls_dict) = lookup K V keqb k cls.
Proof. exact patch_frame_l. Qed.
Print Assumptions patch_frame.

(** ... and [_create_slots_class] keeps every entry that is not dropped (field names,
    [__dict__], [__weakref__], cached properties), not written, and not managed by
    [type()] itself (assumed law of [type()]: the hypothesis on [py_type]). *)
Theorem slots_frame : forall (K V : Type) (keqb : K -> K -> bool),
  (forall a b, keqb a b = true <-> a = b) ->
  forall (py_type : ns K V -> ns K V) (py_reserved : list K),
  (forall m k, inb K keqb k py_reserved = false -> lookup K V keqb k (py_type m) = lookup K V keqb k m) ->
  forall cls drop cls_dict extra k v,
  lookup K V keqb k cls = Some v -> drop (k, v) = false ->
  ~ In k (keys K V cls_dict) -> ~ In k (keys K V extra) -> inb K keqb k py_reserved = false ->
  lookup K V keqb k (create_slots_class K V keqb py_type cls drop cls_dict extra) = Some v.
Proof. exact slots_frame_l. Qed.
Print Assumptions slots_frame.

(** The decision table is what one reads off those namespaces. *)
Theorem patched_is_lookup : forall c ws rest fields d,
  others_only rest -> (forall f, In f fields -> exists n, f = NO n) ->
  classify (lookup name prov name_eqb (ND d)
     (patch_original_class name prov name_eqb (cls_ns c rest) fields (writes_ns ws)))
  = patched c ws d.
Proof. exact patched_is_lookup_l. Qed.
Print Assumptions patched_is_lookup.

Theorem slots_class_is_lookup : forall c ws rest drop extra d,
  others_only rest -> others_only extra -> keeps_dunders drop ->
  classify (lookup name prov name_eqb (ND d)
    (create_slots_class name prov name_eqb py_type_hash (cls_ns c rest) drop (writes_ns ws) extra))
  = slots_class c ws d.
Proof. exact slots_class_is_lookup_l. Qed.
Print Assumptions slots_class_is_lookup.

Theorem other_entries_survive_dict : forall c ws rest fields n,
  ~ In (NO n) fields ->
  lookup name prov name_eqb (NO n)
    (patch_original_class name prov name_eqb (cls_ns c rest) fields (writes_ns ws))
  = lookup name prov name_eqb (NO n) (cls_ns c rest).
Proof. exact other_entries_survive_dict_l. Qed.
Print Assumptions other_entries_survive_dict.

(** The literal reading "defined in the class BODY" is false for [__hash__] (Python's
    implicit [__hash__ = None] counts as the class's own): guarded versions above use
    [class_defines]. *)
Theorem literal_body_reading_of_hash_refuted :
  exists c, no_error c /\ explicit_flag c GHash = tN /\ auto_detect c = true /\
            body_defines c Dh = false /\ generate c GEq = true /\ c_frozen c = true /\
            prov_at (decide c) Dh = Some pZ.
Proof. exact literal_body_reading_of_hash_refuted_l. Qed.
Print Assumptions literal_body_reading_of_hash_refuted.

(** "An equivalent [__attrs_init__]": it comes from the same [_make_init_script] call as
    the [__init__] it replaces (argument lists tied to the source text by the AST
    extractor), including exception-ness, hash caching and the pre/post-init hooks. *)
Theorem attrs_init_same_generator_call :
  ic_args add_attrs_init_call = ic_args add_init_call /\
  ic_attrs_init add_attrs_init_call = true /\ ic_attrs_init add_init_call = false /\
  In "self._is_exc"%string (ic_args add_attrs_init_call) /\
  In "self._cache_hash"%string (ic_args add_attrs_init_call) /\
  In "self._has_pre_init"%string (ic_args add_attrs_init_call) /\
  In "self._has_post_init"%string (ic_args add_attrs_init_call).
Proof. exact attrs_init_same_generator_call_l. Qed.
Print Assumptions attrs_init_same_generator_call.
