(** * C16 — Class definition is a pure function of body, bases, arguments (no leaked state).

    Property theorems only; each is closed by [exact] of a lemma from
    [C16/Proofs.v] and followed by [Print Assumptions]. *)
From Coq Require Import List Bool String ZArith.
Import ListNotations.
From Attrs Require Import Core.Attr Core.Init C16.Model C16.Proofs.

(** Applying a decorator object (attr.s(...), define(...), frozen(...)) to ANY class
    leaves every closure cell of the object as it was. *)
Theorem decorator_state_invariant : forall w d cls, fst (fst (apply_deco w d cls)) = d.
Proof. exact decorator_state_invariant_l. Qed.
Print Assumptions decorator_state_invariant.

(** A definition step (decorator application or make_class) leaves every object of the
    caller — decorator objects, attr.ib() objects, these/attrs/class_body dicts,
    metadata dicts, validator/converter/hook lists — as it was; only the global counter
    moves forward and the new class is recorded. *)
Theorem definition_preserves_caller_objects : forall w o, is_def o = true ->
  same_objs w (step w o) /\ (w_counter w <= w_counter (step w o))%Z /\
  exists oc, w_defs (step w o) = w_defs w ++ [oc].
Proof. exact def_step_objs. Qed.
Print Assumptions definition_preserves_caller_objects.

(** After ANY history [h] of definitions (through the same decorator object or any
    other) the next definition has exactly the outcome it has alone. *)
Theorem definition_history_independent : forall dflt w h o,
  bounded w -> forallb is_def h = true -> is_def o = true ->
  last (w_defs (run w (h ++ [o]))) dflt = last (w_defs (run w [o])) dflt.
Proof. exact definition_history_independent_l. Qed.
Print Assumptions definition_history_independent.

(** The general statement: for every history of caller operations and definitions, the
    outcome of definition number [k] (with the class operations applied to it) is the outcome
    it has in the history without the other definitions and without the class operations on
    other classes, for any two start values of the global counter. *)
Theorem history_independent : forall dflt ops k c1 c2,
  (0 <= c1)%Z -> (0 <= c2)%Z -> k < n_defs ops ->
  nth k (w_defs (run (empty_world c1) ops)) dflt
  = last (w_defs (run (empty_world c2) (alone k ops))) dflt.
Proof. exact history_independent_l. Qed.
Print Assumptions history_independent.

(** The same on behaviour fingerprints, each observed at the END of its history (so also:
    nothing the caller or later definitions do afterwards shows in the class). *)
Theorem fingerprint_history_independent : forall ops k c1 c2,
  (0 <= c1)%Z -> (0 <= c2)%Z -> k < n_defs ops ->
  nth k (fingerprints (run (empty_world c1) ops)) (FExc EOther)
  = last (fingerprints (run (empty_world c2) (alone k ops))) (FExc EOther).
Proof. exact fingerprint_history_independent_l. Qed.
Print Assumptions fingerprint_history_independent.

Theorem make_class_readonly : forall w m, w_dicts (fst (make_class w m)) = w_dicts w.
Proof. exact make_class_readonly_l. Qed.
Print Assumptions make_class_readonly.

Theorem these_readonly : forall w d b, w_dicts (step w (OApply d b)) = w_dicts w.
Proof. exact these_readonly_l. Qed.
Print Assumptions these_readonly.

(** Definitions never write to an attr.ib() object (class-level kw_only evolves the new
    Attributes): a field is keyword-only without class-level kw_only exactly when its
    counting attr says so. *)
Theorem shared_counting_attr_independent : forall w o, is_def o = true -> w_cas (step w o) = w_cas w.
Proof. exact counting_attrs_untouched_l. Qed.
Print Assumptions shared_counting_attr_independent.

Theorem converter_objects_untouched : forall w o, is_def o = true -> w_convs (step w o) = w_convs w.
Proof. exact converter_objects_untouched_l. Qed.
Print Assumptions converter_objects_untouched.

(** [attrs.resolve_types(cls)] and the reading API ([fields], [Attribute.evolve], [validate] ...)
    applied to one class change no other class and none of the caller's objects. *)
Theorem class_op_local : forall d w c t t', t' <> t ->
  nth t' (w_defs (step w (OClassOp c t))) d = nth t' (w_defs w) d.
Proof. exact class_op_local_l. Qed.
Print Assumptions class_op_local.

Theorem class_op_preserves_caller_objects : forall w c t,
  same_objs w (step w (OClassOp c t)) /\ w_counter (step w (OClassOp c t)) = w_counter w.
Proof. exact class_op_objs_l. Qed.
Print Assumptions class_op_preserves_caller_objects.

(** Classes hold copies (metadata, validator/converter/hook members): whatever happens
    later, the fingerprints of the classes defined so far stay what they were. *)
Theorem metadata_isolated : forall w ops, Forall outcome_noalias (w_defs w) ->
  map (observe (run w ops)) (w_defs w) = map (observe w) (w_defs w).
Proof. exact later_ops_invisible_l. Qed.
Print Assumptions metadata_isolated.

Theorem reachable_classes_hold_copies : forall ops w,
  Forall outcome_noalias (w_defs w) -> Forall outcome_noalias (w_defs (run w ops)).
Proof. exact run_noalias. Qed.
Print Assumptions reachable_classes_hold_copies.

(** Only the relative order of the counters matters: sorting by counter gives source
    order for any strictly increasing assignment, whatever the start value. *)
Theorem counter_irrelevant : forall (A : Type) (key : A -> Z) l, increasing key l -> sort_by key l = l.
Proof. exact @counter_irrelevant_l. Qed.
Print Assumptions counter_irrelevant.

(** What the theorems exclude: the code before the three repairs. *)
Theorem buggy_attrs_hash_sticky :
  exists c clsA clsB,
    let '(c1, w1, _) := attrs_wrap_buggy w0 c clsA in
    snd (attrs_wrap_buggy w1 c1 clsB) <> snd (attrs_wrap_buggy w0 c clsB) /\ c1 <> c.
Proof. exact attrs_hash_sticky_refuted. Qed.
Print Assumptions buggy_attrs_hash_sticky.

Theorem buggy_define_noop_sticky :
  exists d clsA clsB,
    let '(d1, w1, _) := define_wrap_buggy w0 d clsA in
    snd (define_wrap_buggy w1 d1 clsB) <> snd (define_wrap_buggy w0 d clsB).
Proof. exact define_noop_sticky_refuted. Qed.
Print Assumptions buggy_define_noop_sticky.

Theorem buggy_define_default_sticky :
  exists d clsA clsB,
    let '(d1, w1, _) := define_wrap_buggy w0 d clsA in
    snd (define_wrap_buggy w1 d1 clsB) = Raised EValueError /\
    exists r, snd (define_wrap_buggy w0 d clsB) = Built r.
Proof. exact define_default_sticky_refuted. Qed.
Print Assumptions buggy_define_default_sticky.

Theorem buggy_make_class_pops :
  exists w m, w_dicts (fst (make_class_buggy w m)) <> w_dicts w.
Proof. exact make_class_pops_refuted. Qed.
Print Assumptions buggy_make_class_pops.

Theorem buggy_metadata_alias :
  exists w c cls k,
    let '(_, w1, o) := attrs_wrap_gen false meta_alias w c cls in
    observe (step w1 (OMetaSet 0 k)) o <> observe w1 o.
Proof. exact metadata_alias_refuted. Qed.
Print Assumptions buggy_metadata_alias.

Theorem buggy_metadata_proxy_alias :
  exists w c cls k,
    let '(_, w1, o) := attrs_wrap_gen false meta_alias_proxy w c cls in
    observe (step w1 (OMetaSet 0 k)) o <> observe w1 o /\
    observe (step w1 (OMetaDel 0 "k1")) o <> observe w1 o.
Proof. exact metadata_proxy_alias_refuted. Qed.
Print Assumptions buggy_metadata_proxy_alias.

Theorem buggy_make_class_annotations_update :
  w_dicts (fst (make_class_ann_update w_mk2 mkA)) <> w_dicts w_mk2 /\
  snd (make_class_ann_update (fst (make_class_ann_update w_mk2 mkA)) mkB) = Raised EValueError /\
  exists r, snd (make_class_ann_update w_mk2 mkB) = Built r.
Proof. exact make_class_annotations_update_refuted. Qed.
Print Assumptions buggy_make_class_annotations_update.
