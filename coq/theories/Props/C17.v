(** * C17 — Generated code is hermetic and its source is faithfully inspectable.

    Property theorems only; each is closed by [exact] of a lemma from
    [C17/NamingProofs.v], [C17/HermeticProofs.v] or [C17/LinecacheProofs.v] and
    followed by [Print Assumptions]. *)
From Coq Require Import List Bool String.
Import ListNotations.
From Attrs Require Import Core.Attr Core.Init C17.Model C17.Proofs.
Open Scope string_scope.

(** ** Naming *)

(** The six helper roles (custom repr, eq/hash key, factory, converter, validator,
    Attribute) are named [__attr_<role>_<field>]; no two roles ever produce the same
    name, whatever the field names. *)
Theorem role_prefixes_disjoint : forall r1 r2 n m,
  helper_name r1 n = helper_name r2 m -> r1 = r2.
Proof. exact role_prefixes_disjoint_l. Qed.
Print Assumptions role_prefixes_disjoint.

(** All six roles over all fields: equal names only for equal (role, field) pairs.
    No guard on field names. *)
Theorem helper_names_injective : forall r1 n r2 m,
  helper_name r1 n = helper_name r2 m -> r1 = r2 /\ n = m.
Proof. exact helper_names_injective_l. Qed.
Print Assumptions helper_names_injective.

(** ... and no helper name equals a fixed name (pinned builtin, attrs object,
    local variable, method name). *)
Theorem helper_names_not_fixed : forall r n, ~ In (helper_name r n) fixed_names.
Proof. exact helper_not_fixed_l. Qed.
Print Assumptions helper_names_not_fixed.

(** Helper objects have a history (one [Converter] instance may serve several fields and
    classes): the name it gets for field [n] is the name of [n], whatever it served before; a
    naming that memoises the first answer in the object is refuted. *)
Theorem converter_name_history_independent : forall h memo n,
  fst (current_naming (use_history current_naming memo h) n) = helper_name RConverter n.
Proof. exact converter_name_history_independent_l. Qed.
Print Assumptions converter_name_history_independent.

Theorem memo_naming_refuted :
  exists h n m, n <> m /\
    fst (memo_naming (use_history memo_naming None h) n) = fst (memo_naming (use_history memo_naming None h) m)
    /\ fst (memo_naming (use_history memo_naming None h) m) <> helper_name RConverter m.
Proof. exact memo_naming_refuted_l. Qed.
Print Assumptions memo_naming_refuted.

(** Within one class a name is bound to ONE helper; the bindings are a function of the class
    specification alone (no earlier class enters). *)
Theorem class_helper_names_functional : forall s e1 e2,
  In e1 (snippets s) -> In e2 (snippets s) -> fst e1 = fst e2 -> snd e1 = snd e2.
Proof. exact class_helper_names_functional_l. Qed.
Print Assumptions class_helper_names_functional.

(** What the repairs excluded.  [__attr_<n>] for the Attribute helper (before
    cc43dc1) collides with the converter helper of another field: *)
Theorem old_field_scheme_refuted :
  exists r n m, is_prefix_role r = true /\ r <> RField /\ old_field_name n = old_helper_name r m.
Proof. exact old_scheme_refuted. Qed.
Print Assumptions old_field_scheme_refuted.

(** [<n>_repr] / [_<n>_key] (before b8060e0) collide with the factory / converter
    helper of another field: *)
Theorem old_repr_key_scheme_refuted :
  (old_helper_name RRepr "__attr_factory" = old_helper_name RFactory "repr") /\
  (old_helper_name RKey "_attr_converter_b" = old_helper_name RConverter "b_key") /\
  name_guard RRepr "__attr_factory" = false /\ name_guard RKey "_attr_converter_b" = false.
Proof. exact old_helper_names_unguarded_refuted. Qed.
Print Assumptions old_repr_key_scheme_refuted.

(** The old scheme was injective exactly under [name_guard] (sufficient, and tight:
    every rejected name collided with the helper of some other possible field). *)
Theorem old_scheme_injective_under_guard : forall r1 n r2 m,
  name_guard r1 n = true -> name_guard r2 m = true ->
  old_helper_name r1 n = old_helper_name r2 m -> r1 = r2 /\ n = m.
Proof. exact old_helper_names_injective_l. Qed.
Print Assumptions old_scheme_injective_under_guard.

Theorem old_name_guard_tight : forall r n,
  name_guard r n = false -> exists r' m, r' <> r /\ old_helper_name r n = old_helper_name r' m.
Proof. exact old_name_guard_tight_l. Qed.
Print Assumptions old_name_guard_tight.

(** ** Hermeticity *)

(** For EVERY namespace of the defining module (including its own [__builtins__]
    entry) and every class specification satisfying the guard (no init alias equals a
    name the generated [__init__] uses; nothing is required of field names): each free name of each
    generated method, in the function body and in default-argument expressions,
    resolves in the assembled globals to exactly the object attrs means. *)
Theorem hermetic : forall module_ns s m st n b,
  guard s = true -> In m (generated_methods s) -> In (st, n, b) (free_refs s m) ->
  resolve (assemble module_ns s) (locals_at s m st) n = RGlobal b.
Proof. exact hermetic_l. Qed.
Print Assumptions hermetic.

(** Every free name of every generated script (function bodies and default-argument
    expressions) is a pinned builtin or a helper global that a script of the same class
    registers.  (The tie lemma [tie_script_free_names] re-proves the same of the global names the
    scripts emitted by the CURRENT generators actually load.) *)
Theorem free_names_pinned_or_helpers : forall s m st n b,
  In m (generated_methods s) -> In (st, n, b) (free_refs s m) ->
  In (n, b) pinned_ns \/ In (n, b) (snippets s).
Proof. exact free_names_pinned_or_helpers_l. Qed.
Print Assumptions free_names_pinned_or_helpers.

Theorem intended_never_a_module_binding : forall s m st n b,
  In m (generated_methods s) -> In (st, n, b) (free_refs s m) -> is_module_binding b = false.
Proof. exact intended_not_module_l. Qed.
Print Assumptions intended_never_a_module_binding.

(** Without any guard: the resolution of every free name is independent of the
    module namespace and never falls through to the builtins namespace. *)
Theorem module_independent : forall ns1 ns2 s m st n b,
  In m (generated_methods s) -> In (st, n, b) (free_refs s m) ->
  resolve (assemble ns1 s) (locals_at s m st) n = resolve (assemble ns2 s) (locals_at s m st) n
  /\ forall via x, resolve (assemble ns1 s) (locals_at s m st) n <> RBuiltins via x.
Proof. exact module_independent_l. Qed.
Print Assumptions module_independent.

(** The pre-repair assembly (module namespace merged over the helpers, builtins not
    pinned) is not hermetic. *)
Theorem hermetic_buggy_refuted :
  exists module_ns s m st n b,
    guard s = true /\ In m (generated_methods s) /\ In (st, n, b) (free_refs s m) /\
    exists t, resolve (assemble_buggy module_ns s) (locals_at s m st) n = RGlobal (BModule t).
Proof. exact hermetic_buggy_refuted_l. Qed.
Print Assumptions hermetic_buggy_refuted.

Theorem hermetic_buggy_builtin_refuted :
  exists module_ns s m st n b,
    guard s = true /\ In m (generated_methods s) /\ In (st, n, b) (free_refs s m) /\
    exists t, resolve (assemble_buggy module_ns s) (locals_at s m st) n = RGlobal (BModule t).
Proof. exact hermetic_buggy_builtin_refuted_l. Qed.
Print Assumptions hermetic_buggy_builtin_refuted.

(** The guard cannot be dropped: K9 (an init alias named like something [__init__]
    uses). *)
Theorem hermetic_alias_unguarded_refuted :
  guard k9_spec = false /\
  In (Body, "attr_dict", BAttrs "attr_dict") (free_refs k9_spec MInit) /\
  resolve (assemble [] k9_spec) (locals_at k9_spec MInit Body) "attr_dict" = RLocal.
Proof. exact hermetic_alias_unguarded_refuted_l. Qed.
Print Assumptions hermetic_alias_unguarded_refuted.

(** The [__getattr__] wrapper of slotted classes with cached properties is compiled
    with attrs' own three globals only; everything else is a local or a real builtin. *)
Theorem getattr_wrapper_hermetic : forall ho st n,
  In (st, n) (getattr_refs ho) ->
  match resolve getattr_globs (getattr_locals st) n with
  | RLocal => n = "_cls"
  | RGlobal b => b = BAttrs n
  | RBuiltins via x => via = None /\ x = n /\ In n ["super"; "AttributeError"; "hasattr"]
  end.
Proof. exact getattr_wrapper_hermetic_l. Qed.
Print Assumptions getattr_wrapper_hermetic.

(** ** Linecache *)

(** The candidate filenames [base], [base[:-1]-1>], [base[:-1]-2>], ... are pairwise
    distinct (decimal rendering is injective). *)
Theorem candidate_filenames_distinct : forall base i j, cand base i = cand base j -> i = j.
Proof. exact cand_inj. Qed.
Print Assumptions candidate_filenames_distinct.

(** The loop terminates within [|cache| + 1] iterations (pigeonhole). *)
Theorem linecache_terminates :
  forall (script : Type) (eqb : script -> script -> bool),
  (forall a b, eqb a b = true <-> a = b) ->
  forall (c : cache script) base s, linecache_and_compile eqb c base s <> None.
Proof. exact linecache_terminates_l. Qed.
Print Assumptions linecache_terminates.

(** After ANY history of definitions (arbitrary base names and scripts, any initial
    cache) every defined class's filename maps to exactly its own script, is one of
    the candidates of its base name, and no entry present before was changed. *)
Theorem linecache_own_entry :
  forall (script : Type) (eqb : script -> script -> bool),
  (forall a b, eqb a b = true <-> a = b) ->
  forall (defs : list (string * script)) (c0 : cache script),
  exists c files,
    run_history eqb c0 defs = Some (c, files) /\
    Forall2 (fun d f => clookup f c = Some (snd d) /\ exists i, f = cand (fst d) i) defs files /\
    (forall f v, clookup f c0 = Some v -> clookup f c = Some v).
Proof. exact linecache_own_entry_l. Qed.
Print Assumptions linecache_own_entry.

Theorem linecache_distinct_scripts_distinct_files :
  forall (script : Type) (eqb : script -> script -> bool),
  (forall a b, eqb a b = true <-> a = b) ->
  forall defs (c0 c : cache script) files d1 f1 d2 f2,
  run_history eqb c0 defs = Some (c, files) ->
  In (d1, f1) (combine defs files) -> In (d2, f2) (combine defs files) ->
  f1 = f2 -> snd d1 = snd d2.
Proof. exact linecache_distinct_scripts_l. Qed.
Print Assumptions linecache_distinct_scripts_distinct_files.

(** Same base name and identical script: the entry is shared (that is what the code
    does), the cache is unchanged. *)
Theorem linecache_identical_shares :
  forall (script : Type) (eqb : script -> script -> bool),
  (forall a b, eqb a b = true <-> a = b) ->
  forall (c : cache script) base s c1 f,
  linecache_and_compile eqb c base s = Some (c1, f) ->
  linecache_and_compile eqb c1 base s = Some (c1, f).
Proof. exact linecache_identical_shares_l. Qed.
Print Assumptions linecache_identical_shares.

(** Every step of any definer thread preserves the invariant "entries present at the
    start are unchanged and every finished definer's file maps to its own script" ... *)
Theorem linecache_step_preserves :
  forall (script : Type) (eqb : script -> script -> bool),
  (forall a b, eqb a b = true <-> a = b) ->
  forall (c0 : cache script) st i, sys_inv script c0 st -> sys_inv script c0 (sys_step eqb st i).
Proof. exact sys_step_preserves. Qed.
Print Assumptions linecache_step_preserves.

(** ... hence it holds after every interleaving of any number of definers. *)
Theorem linecache_interleaving_safe :
  forall (script : Type) (eqb : script -> script -> bool),
  (forall a b, eqb a b = true <-> a = b) ->
  forall (sched : list nat) (c0 : cache script) ts,
  Forall (done_ok c0) ts -> sys_inv script c0 (run_schedule eqb (c0, ts) sched).
Proof. exact linecache_interleaving_safe_l. Qed.
Print Assumptions linecache_interleaving_safe.

(** The sequential loop is the definer state machine running alone. *)
Theorem linecache_loop_is_solo_run :
  forall (script : Type) (eqb : script -> script -> bool),
  forall fuel (c : cache script) base f cnt s c' g,
  lc_loop eqb fuel c base f cnt s = Some (c', g) ->
  exists n, tsteps script eqb n c (TRun base f cnt s) = (c', TDone g s).
Proof. exact solo_refines_loop. Qed.
Print Assumptions linecache_loop_is_solo_run.
