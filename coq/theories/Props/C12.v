(** * C12 - evolve / assoc build an independent, invariant-respecting copy. *)
From Coq Require Import List Bool String.
Import ListNotations.
From Attrs Require Import Core.Attr Core.Init Core.InitProofs Core.InitProps C12.Model C12.Proofs.
Open Scope string_scope.

Theorem evolve_original_untouched : forall k f von i changes, fst (evolve k f von i changes) = i.
Proof. exact evolve_original_untouched_l. Qed.
Print Assumptions evolve_original_untouched.
