(** * C12 - evolve / assoc build an independent, invariant-respecting copy.

    Property theorems only; each is closed by [exact] of a lemma from [C12/Proofs.v].
    The model ([C12/Model.v]) sits on the shared class / initializer model ([Core/Init.v]):
    [evolve] collects the original's current values by alias and calls the initializer of
    C01 with keyword arguments only; [assoc] is [copy.copy], a reset of the hash cache, and raw stores under field names.  Both
    return (the original after the call, the outcome). *)
From Coq Require Import List Bool String.
Import ListNotations.
From Attrs Require Import Core.Attr Core.Init Core.InitProofs Core.InitProps C12.Model C12.Proofs.
Open Scope string_scope.
Open Scope list_scope.

(** ** evolve *)

(** For every well-formed class with unique init aliases, every original whose not-replaced
    init fields are readable and every change set keyed by init aliases: [evolve] returns the
    original untouched and a NEW instance that is exactly what the initializer builds for the
    environment binding each init alias to (the new value | the original's current value);
    the callback trace is the initializer's trace for those arguments (validators iff
    enabled); non-participating fields are unset, nothing else is written, the hash cache is
    [None], [args] are those of a fresh exception instance. *)
Theorem evolve_spec : forall k sc von i changes,
  wf k -> make_init_script k = GenOk sc -> aliases_unique k ->
  readable k i (map fst changes) -> changes_known k changes ->
  let en := evolve_env sc k i changes in
  (forall a, In a (k_attrs k) -> a_init a = true ->
             lookup (alias_of a) en = Some (evolve_arg k i changes a)) /\
  exists new,
    evolve k no_fault von i changes = (i, EvoInit (InitDone new (expected_trace k von en))) /\
    (forall a, In a (k_attrs k) -> participates a = true ->
               read k new (a_name a) = Ok (spec_value a en)) /\
    (forall a, In a (k_attrs k) -> participates a = false ->
               read k new (a_name a) = Raise EAttributeError) /\
    (forall m, ~ In m (map a_name (k_attrs k)) -> m <> HASH_CACHE ->
               read k new m = Raise EAttributeError) /\
    (k_cache_hash k = true -> read k new HASH_CACHE = Ok VNone) /\
    i_args new = expected_args k en.
Proof. exact evolve_spec_l. Qed.
Print Assumptions evolve_spec.

(** Field by field.  NOTE the second clause: "passed the original's current value" means
    through the initializer, so the carried-over value is CONVERTED AGAIN
    ([converted a old]); it equals [old] only for an idempotent converter.
    [field_from_arg a v] is [converted a v] except that a factory field given [NOTHING]
    gets a fresh factory value. *)
Theorem evolve_fields : forall k sc von i changes,
  wf k -> make_init_script k = GenOk sc -> aliases_unique k ->
  readable k i (map fst changes) -> changes_known k changes ->
  exists new t,
    evolve k no_fault von i changes = (i, EvoInit (InitDone new t)) /\
    (forall a v, In a (k_attrs k) -> a_init a = true -> lookup (alias_of a) changes = Some v ->
       read k new (a_name a) = Ok (field_from_arg a v) /\
       (is_nothing v = false -> read k new (a_name a) = Ok (converted a v))) /\
    (forall a old, In a (k_attrs k) -> a_init a = true -> lookup (alias_of a) changes = None ->
       read k i (a_name a) = Ok old ->
       read k new (a_name a) = Ok (field_from_arg a old) /\
       (is_nothing old = false -> read k new (a_name a) = Ok (converted a old))) /\
    (forall a, In a (k_attrs k) -> a_init a = false -> has_default a = true ->
       read k new (a_name a) = Ok (rederived a)) /\
    (forall a, In a (k_attrs k) -> a_init a = false -> has_default a = false ->
       read k new (a_name a) = Raise EAttributeError) /\
    (k_cache_hash k = true -> read k new HASH_CACHE = Ok VNone).
Proof. exact evolve_fields_l. Qed.
Print Assumptions evolve_fields.

(** An original that came out of the initializer: every unchanged init field of the
    result holds converter(converter(argument | default | factory value)). *)
Theorem evolve_reconverts : forall k sc von0 pos0 kw0 en0 i t0 von changes,
  wf k -> make_init_script k = GenOk sc -> aliases_unique k ->
  bind_call sc pos0 kw0 = Bound en0 -> run_init k no_fault von0 pos0 kw0 = InitDone i t0 ->
  changes_known k changes ->
  exists new t,
    evolve k no_fault von i changes = (i, EvoInit (InitDone new t)) /\
    forall a, In a (k_attrs k) -> a_init a = true -> lookup (alias_of a) changes = None ->
      read k new (a_name a) = Ok (field_from_arg a (converted a (raw_value a en0))).
Proof. exact evolve_reconverts_l. Qed.
Print Assumptions evolve_reconverts.

(** "As if freshly constructed": for EVERY fault oracle and validator switch the outcome of
    [evolve] IS the outcome of calling the class with the merged keyword arguments - so every
    statement of C01-C05 about a constructed instance (stored values, hash cache [None],
    frozenness being a property of the class [k], exception propagation) applies verbatim. *)
Theorem evolve_fresh_invariants : forall k f von i changes,
  aliases_unique k -> readable k i (map fst changes) ->
  evolve k f von i changes = (i, EvoInit (run_init k f von [] (evolve_kw k i changes))).
Proof. exact evolve_runs_init. Qed.
Print Assumptions evolve_fresh_invariants.

(** A key that is no init alias: TypeError, and nothing ran (no trace, no instance). *)
Theorem evolve_unknown_typeerror : forall k sc f von i changes n,
  make_init_script k = GenOk sc -> aliases_unique k -> readable k i (map fst changes) ->
  In n (map fst changes) ->
  (forall a, In a (k_attrs k) -> a_init a = true -> alias_of a <> n) ->
  evolve k f von i changes = (i, EvoInit InitTypeError).
Proof. exact evolve_unknown_typeerror_l. Qed.
Print Assumptions evolve_unknown_typeerror.

(** Fields are named by alias: the (private) name itself is rejected; so is an init=False
    field, by name or alias (same statement with that name). *)
Theorem evolve_uses_alias_not_name : forall k sc f von i changes a,
  make_init_script k = GenOk sc -> aliases_unique k -> readable k i (map fst changes) ->
  In a (k_attrs k) -> In (a_name a) (map fst changes) ->
  (forall b, In b (k_attrs k) -> a_init b = true -> alias_of b <> a_name a) ->
  evolve k f von i changes = (i, EvoInit InitTypeError).
Proof. exact evolve_uses_alias_not_name_l. Qed.
Print Assumptions evolve_uses_alias_not_name.

(** An init field that is unset on the original and not replaced: AttributeError before the
    class is called. *)
Theorem evolve_unset_attribute_error : forall k f von i changes a e0,
  aliases_unique k -> In a (k_attrs k) -> a_init a = true -> ~ In (alias_of a) (map fst changes) ->
  read k i (a_name a) = Raise e0 ->
  evolve k f von i changes = (i, EvoReadError EAttributeError).
Proof. exact evolve_unset_attribute_error_l. Qed.
Print Assumptions evolve_unset_attribute_error.

Theorem evolve_original_untouched : forall k f von i changes, fst (evolve k f von i changes) = i.
Proof. exact evolve_original_untouched_l. Qed.
Print Assumptions evolve_original_untouched.

(** ** assoc (the code after the repairs 1567142 and 2787de0) *)

(** Named fields hold the raw new value (no converter, validator, hook; frozen classes too),
    every other field what the original holds, the original is untouched; the hash cache of
    the result is [cache_after]: [None] wherever the class / the original has one - reset by
    the generated [__setstate__] or by [assoc] itself after the dict copy - never carried. *)
Theorem assoc_spec : forall k inh i changes,
  wf k -> copyable k inh i -> NoDup (map fst changes) ->
  (forall n, In n (map fst changes) -> In n (map a_name (k_attrs k))) ->
  exists new,
    assoc k inh i changes = (i, AssocDone new) /\
    (forall a, In a (k_attrs k) ->
       read k new (a_name a) = match lookup (a_name a) changes with
                               | Some v => Ok v
                               | None => read k i (a_name a)
                               end) /\
    read k new HASH_CACHE = cache_after k inh i.
Proof. exact assoc_spec_l. Qed.
Print Assumptions assoc_spec.

(** Unguarded hash consistency (this was K3a): hash-caching class, fully set original that
    has the cache attribute - whatever was hashed or reassigned before -, any set of field
    names: the copy's cache is [None] and therefore consistent with the copy's fields. *)
Theorem assoc_cache_reset : forall k inh i changes c0,
  wf k -> k_cache_hash k = true -> fields_readable k i -> read k i HASH_CACHE = Ok c0 ->
  NoDup (map fst changes) ->
  (forall n, In n (map fst changes) -> In n (map a_name (k_attrs k))) ->
  exists new, assoc k inh i changes = (i, AssocDone new) /\
    read k new HASH_CACHE = Ok VNone /\ cache_consistent k new = true.
Proof. exact assoc_cache_reset_l. Qed.
Print Assumptions assoc_cache_reset.

(** Only field names are ever stored under (this was K3b): a successful [assoc] had only
    field names as keys ... *)
Theorem assoc_only_fields : forall k inh i changes new,
  assoc k inh i changes = (i, AssocDone new) ->
  forall n, In n (map fst changes) -> In n (map a_name (k_attrs k)).
Proof. exact assoc_only_fields_l. Qed.
Print Assumptions assoc_only_fields.

(** ... and the first key that is no field name - [count], [index], any other attribute of
    tuple objects included - raises AttrsAttributeNotFoundError. *)
Theorem assoc_unknown_raises : forall k inh i pre n v post,
  wf k -> copyable k inh i ->
  (forall m, In m (map fst pre) -> In m (map a_name (k_attrs k))) ->
  ~ In n (map a_name (k_attrs k)) ->
  assoc k inh i (pre ++ (n, v) :: post) = (i, AssocNotFound).
Proof. exact assoc_unknown_raises_l. Qed.
Print Assumptions assoc_unknown_raises.

Theorem assoc_unset_attribute_error : forall k inh i changes a e0,
  has_getstate k inh = true -> In a (k_attrs k) -> read k i (a_name a) = Raise e0 ->
  assoc k inh i changes = (i, AssocRaised EAttributeError).
Proof. exact assoc_unset_attribute_error_l. Qed.
Print Assumptions assoc_unset_attribute_error.

Theorem assoc_original_untouched : forall k inh i changes, fst (assoc k inh i changes) = i.
Proof. exact assoc_original_untouched_l. Qed.
Print Assumptions assoc_original_untouched.

(** The code BEFORE the repairs ([assoc_buggy] = no cache reset, everything that is not
    NOTHING accepted) violated both: regression witnesses. *)
Theorem assoc_buggy_stale_cache_refuted :
  exists k inh i changes new,
    wf k /\ k_cache_hash k = true /\ has_getstate k inh = false /\
    fields_readable k i /\ cache_consistent k i = true /\
    NoDup (map fst changes) /\
    (forall n, In n (map fst changes) -> In n (hash_names k)) /\
    assoc_buggy k inh i changes = (i, AssocDone new) /\
    read k new HASH_CACHE = read k i HASH_CACHE /\
    cache_consistent k new = false.
Proof. exact assoc_buggy_stale_cache_refuted_l. Qed.
Print Assumptions assoc_buggy_stale_cache_refuted.

Theorem assoc_buggy_count_index_refuted :
  exists k inh i n v new,
    wf k /\ ~ In n (map a_name (k_attrs k)) /\ (n = "count" \/ n = "index") /\
    assoc_buggy k inh i [(n, v)] = (i, AssocDone new) /\ read k new n = Ok v.
Proof. exact assoc_buggy_count_index_refuted_l. Qed.
Print Assumptions assoc_buggy_count_index_refuted.
