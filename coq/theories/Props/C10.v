From Coq Require Import List Bool.
Import ListNotations.
From Attrs Require Import C10.Model C10.Proofs.

Theorem wire_drops_wrapper : forall v, match deep_pv v with PWrap _ => False | _ => True end.
Proof. exact deep_never_wrap. Qed.
Print Assumptions wire_drops_wrapper.
