(** * C10 — copy / deepcopy / pickle round trip keeps all fields, never carries a
    cached hash.

    Property theorems only; each is closed by [exact] of a lemma from
    [C10/Proofs.v] and followed by [Print Assumptions].  The statements quantify
    over arbitrary class chains (any length, any mixture of slotted and dict
    classes, any number of fields), arbitrary field values and arbitrary histories
    of hash / assign operations.  The full-strength statement (no guard) is FALSE of
    the faithful model — see the [_refuted] witnesses — so the round trip is proved
    under the explicit guard [wf], each conjunct of which excludes one witness. *)
From Coq Require Import List Bool Arith.
Import ListNotations.
From Attrs Require Import C10.Model C10.Proofs.

(** For every guarded (chain, operation, history) and all field values: the
    operation succeeds, every own and inherited field of the copy is equal, the
    copy == the original, and if the original is hashable the copy's hash equals
    the hash of a fresh instance with its field values and (unless the original's
    own cache is stale) the original's hash. *)
Theorem roundtrip_fields : forall m fv h o,
  wf m o h = true -> post_ok m h (observe m fv h o) = true.
Proof. exact roundtrip_post_l. Qed.
Print Assumptions roundtrip_fields.

(** After deepcopy, pickle (any protocol), the legacy tuple state, and after
    copy.copy through a generated pair, the copy's cache is None: the next hash()
    recomputes from the copy's own fields. *)
Theorem cache_not_carried : forall m fv h o,
  wf m o h = true -> leaf_cache m = true ->
  (is_copy o = true -> resolve m <> RDefault) ->
  exists y, run m (apply_hist m (init m fv) h) o = XOk y /\ getattr m y KCache = Some PNone.
Proof. exact cache_not_carried_l. Qed.
Print Assumptions cache_not_carried.

(** The generated __setstate__ of a cache_hash class always leaves the cache at
    None — whatever state it is fed (dict, legacy tuple, anything) and whatever
    the instance held before. *)
Theorem setstate_resets : forall m r st y,
  leaf_cache r = true -> getattr m (gen_setstate m r st y) KCache = Some PNone.
Proof. exact setstate_resets_l. Qed.
Print Assumptions setstate_resets.

(** getstate_setstate: explicit flag; else generated iff the class is slotted or
    would inherit an attrs-generated pair — unless its body brings its own pair. *)
Theorem gs_decision_table : forall c inh,
  gs_decision c inh =
  match s_gs c with
  | Some flag => flag
  | None => negb (s_autodetect c && s_usergs c) && (s_slots c || (negb (s_usergs c) && inh))
  end.
Proof. exact gs_decision_table_l. Qed.
Print Assumptions gs_decision_table.

(** Who satisfies the guard: a class that generates its own pair, over ANY mixture
    of slotted and dict bases … *)
Theorem wf_leaf_generated : forall c bases o h,
  gs_decision c (is_gen (resolve bases)) = true ->
  old_proto o && is_nil (attr_names (c :: bases)) && s_cache c = false ->
  wf (c :: bases) o h = true.
Proof. exact wf_leaf_generated_l. Qed.
Print Assumptions wf_leaf_generated.

(** … in particular (the K4 fix) every class with default arguments below a class
    whose pair is attrs-generated, dict or slotted … *)
Theorem wf_regenerates_below_generated : forall c bases o h,
  s_gs c = None -> s_usergs c = false -> is_gen (resolve bases) = true ->
  old_proto o && is_nil (attr_names (c :: bases)) && s_cache c = false ->
  wf (c :: bases) o h = true.
Proof. exact wf_regenerates_l. Qed.
Print Assumptions wf_regenerates_below_generated.

(** … every all-slotted chain with default arguments, of any length … *)
Theorem wf_all_slots : forall c bases o h,
  Forall plain_slots (c :: bases) ->
  old_proto o && is_nil (attr_names (c :: bases)) && s_cache c = false ->
  wf (c :: bases) o h = true.
Proof. exact wf_all_slots_l. Qed.
Print Assumptions wf_all_slots.

(** … and every all-dict chain with default arguments, except the shallow copy of
    a stale cache. *)
Theorem wf_all_dict : forall m o h,
  Forall plain_dict m -> o <> OLegacy ->
  is_copy o && leaf_cache m && stale m h = false ->
  wf m o h = true.
Proof. exact wf_all_dict_l. Qed.
Print Assumptions wf_all_dict.

(** ** Refuted: the witnesses that force the guard (each reproduced on the real
    library by the correspondence check, see known_findings.d/C10.json). *)

Theorem roundtrip_unguarded_refuted :
  exists m fv h o, post_ok m h (observe m fv h o) = false.
Proof. exact roundtrip_unguarded_refuted_l. Qed.
Print Assumptions roundtrip_unguarded_refuted.

Theorem K2_copy_carries_cache_refuted :
  observe [ex_dict_cache] ex_fv [PHash; PMut 0 (VH 7)] OCopy
  = Ob TOk [FEq] EqTrue HsOk (HoVal false true)
  /\ post_ok [ex_dict_cache] [PHash; PMut 0 (VH 7)]
       (observe [ex_dict_cache] ex_fv [PHash; PMut 0 (VH 7)] OCopy) = false
  /\ post_ok [ex_dict_cache] [PHash; PMut 0 (VH 7)]
       (observe [ex_dict_cache] ex_fv [PHash; PMut 0 (VH 7)] ODeep) = true.
Proof. exact K2_refuted_l. Qed.
Print Assumptions K2_copy_carries_cache_refuted.

Theorem K4_optout_below_generated_refuted :
  forallb (fun o =>
     match observe [ex_dict_leaf_optout; ex_slots_base] ex_fv [] o with
     | Ob TOk [FEq; FMissing] EqAttrErr _ _ => true
     | _ => false
     end) [OCopy; ODeep; OPickle 0; OPickle 2; OPickle 5; OLegacy] = true.
Proof. exact K4_refuted_l. Qed.
Print Assumptions K4_optout_below_generated_refuted.

Theorem K4_default_now_round_trips :
  forallb (fun o =>
     wf [ex_dict_leaf; ex_slots_base] o []
     && post_ok [ex_dict_leaf; ex_slots_base] []
          (observe [ex_dict_leaf; ex_slots_base] ex_fv [] o))
    [OCopy; ODeep; OPickle 0; OPickle 2; OPickle 5; OLegacy] = true
  /\ gs_kinds [ex_dict_leaf; ex_slots_base] = [GGen; GGen].
Proof. exact K4_fixed_l. Qed.
Print Assumptions K4_default_now_round_trips.

Theorem K4_cache_uninitialised_refuted :
  let leaf := C false false true false (Some false) false false true [] in
  observe [leaf; ex_slots_base] ex_fv [] ODeep = Ob TOk [FEq] EqTrue HsOk HoAttrErr.
Proof. exact K4_cache_refuted_l. Qed.
Print Assumptions K4_cache_uninitialised_refuted.

Theorem K5_slots_without_getstate_refuted :
  let c := C true false false true (Some false) false false false [0] in
  let f := C true true false true (Some false) false false false [0] in
  o_tag (observe [c] ex_fv [] (OPickle 0)) = TTypeError
  /\ o_tag (observe [c] ex_fv [] (OPickle 1)) = TTypeError
  /\ post_ok [c] [] (observe [c] ex_fv [] (OPickle 2)) = true
  /\ forallb (fun o => match o_tag (observe [f] ex_fv [] o) with TFrozen => true | _ => false end)
       [OCopy; ODeep; OPickle 2; OPickle 5] = true.
Proof. exact K5_refuted_l. Qed.
Print Assumptions K5_slots_without_getstate_refuted.

Theorem K12_empty_state_old_protocols_refuted :
  let c := C true false true false None false false true [] in
  observe [c] ex_fv [] (OPickle 1) = Ob TOk [] EqTrue HsOk HoAttrErr
  /\ post_ok [c] [] (observe [c] ex_fv [] (OPickle 2)) = true.
Proof. exact K12_refuted_l. Qed.
Print Assumptions K12_empty_state_old_protocols_refuted.
