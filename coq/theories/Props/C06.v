(** * C06 — on_setattr: assignment stores hook-chain(value); failure keeps the old value.

    Property theorems only; each is closed by [exact] of a lemma from [C06/Proofs*.v]
    and followed by [Print Assumptions]. *)
From Coq Require Import List Bool String Arith.
Import ListNotations.
From Attrs Require Import Core.Attr Core.Init Core.InitProofs Core.Faults
  C06.Model C06.Proofs C06.ProofsCls C06.ProofsAssign C06.Examples.
Open Scope string_scope.
Open Scope list_scope.

(** A fault-free assignment to a hooked field stores the chain's result; the trace grows by
    exactly the chain's callbacks; every other field and every non-field name is unchanged. *)
Theorem setattr_stores_chain : forall k tbl von n v a hs s evs w,
  sa_find n tbl = Some (a, hs) ->
  chain_ref von a (snapshot k (s_inst s)) hs v = (evs, Some w) ->
  storable k n ->
  exists i', setattr_op k (SaHooked tbl) von n v no_fault s =
               ADone {| s_inst := i'; s_trace := s_trace s ++ evs |} /\
    read k i' n = Ok w /\ (forall m, m <> n -> read k i' m = read k (s_inst s) m).
Proof. exact setattr_stores_chain_l. Qed.
Print Assumptions setattr_stores_chain.

(** The chain is a left fold over the hooks in the order given (setters.pipe), each
    built-in setter with its meaning; a chain containing setters.frozen stores nothing. *)
Theorem chain_is_left_to_right_pipe : forall von a snap hs v,
  ~ In HFrozen hs ->
  snd (chain_ref von a snap hs v) = Some (fold_left (fun acc h => hook_value a h acc) hs v).
Proof. exact chain_ref_value. Qed.
Print Assumptions chain_is_left_to_right_pipe.

Theorem frozen_hook_stores_nothing : forall k tbl von n v a hs s evs,
  sa_find n tbl = Some (a, hs) ->
  chain_ref von a (snapshot k (s_inst s)) hs v = (evs, None) ->
  setattr_op k (SaHooked tbl) von n v no_fault s = AFail EFrozenAttribute (with_trace s evs).
Proof. exact setattr_chain_frozen_l. Qed.
Print Assumptions frozen_hook_stores_nothing.

(** For ANY fault oracle: if the assignment raises — a hook, a converter, a validator or
    the final store — the instance is exactly the previous one, and exception and trace are
    the fault-free run cut at the first raising callback (that callback's own exception). *)
Theorem setattr_failure_atomic : forall k impl von n v f s e s',
  setattr_op k impl von n v f s = AFail e s' ->
  s_inst s' = s_inst s /\
  (forall m, read k (s_inst s') m = read k (s_inst s) m) /\
  Raised e (s_trace s') =
    cutoff f (List.length (s_trace s)) (to_outcome (setattr_op k impl von n v no_fault s)).
Proof. exact setattr_failure_atomic_l. Qed.
Print Assumptions setattr_failure_atomic.

Theorem setattr_under_faults : forall k impl von n v f s,
  let r0 := setattr_op k impl von n v no_fault s in
  let lo := List.length (s_trace s) in
  match first_fault f lo (List.length (trace_of (to_outcome r0)) - lo) with
  | Some j => exists s', setattr_op k impl von n v f s = AFail (EUser j) s' /\
                         s_inst s' = s_inst s /\
                         s_trace s' = firstn (S j) (trace_of (to_outcome r0)) /\ f j = true
  | None => setattr_op k impl von n v f s = r0
  end.
Proof. exact setattr_under_faults_l. Qed.
Print Assumptions setattr_under_faults.

(** Non-field names and fields without an effective hook: a plain store. *)
Theorem setattr_nonfield_plain : forall k von n v f s,
  ~ In n (map a_name (k_attrs k)) ->
  setattr_op k (SaHooked (sa_table k)) von n v f s = store k n v f s.
Proof. exact setattr_nonfield_plain_l. Qed.
Print Assumptions setattr_nonfield_plain.

Theorem setattr_unhooked_plain : forall k a von v f s,
  NoDup (map a_name (k_attrs k)) -> In a (k_attrs k) ->
  in_sa_attrs (effective_cls_on_setattr k) a = false ->
  setattr_op k (SaHooked (sa_table k)) von (a_name a) v f s = store k (a_name a) v f s.
Proof. exact setattr_unhooked_plain_l. Qed.
Print Assumptions setattr_unhooked_plain.

Theorem plain_store_spec : forall k n v s,
  storable k n ->
  exists i', store k n v no_fault s = ADone {| s_inst := i'; s_trace := s_trace s |} /\
    read k i' n = Ok v /\ (forall m, m <> n -> read k i' m = read k (s_inst s) m).
Proof. exact store_ok. Qed.
Print Assumptions plain_store_spec.

(** The effective chain of a field: field-level if given, NO_OP = none, else the
    class-level one of the class being defined, lists in the order given. *)
Theorem effective_chain : forall k a,
  NoDup (map a_name (k_attrs k)) -> In a (k_attrs k) ->
  sa_find (a_name a) (sa_table k) =
  match a_on_setattr a with
  | OsPipe hs => Some (a, hs)
  | OsNoOp => None
  | OsNone => if has_cls_on_setattr (effective_cls_on_setattr k)
              then Some (a, cls_hooks (effective_cls_on_setattr k)) else None
  end.
Proof. exact effective_chain_l. Qed.
Print Assumptions effective_chain.

(** Which [__setattr__] the class gets: its own table, or nothing attrs-made (an inherited
    generated one is reset to object's) — for every chain of bases satisfying the
    invariant, outside the "slotted confused" gap. *)
Theorem hook_resolution : forall c rest d k,
  inv rest -> slotted_confused c rest = false -> c_user_setattr c = None ->
  build_attrs c rest = Some d -> built_spec c rest = Some k ->
  lookup_setattr (d :: rest) = expected_impl k rest.
Proof. exact hook_resolution_l. Qed.
Print Assumptions hook_resolution.

Theorem hook_resolution_chain : forall c r d rest k,
  chain_confused (Attrs c :: r) = false ->
  build_chain (Attrs c :: r) = Some (d :: rest) ->
  c_user_setattr c = None -> built_spec c rest = Some k ->
  lookup_setattr (d :: rest) = expected_impl k rest.
Proof. exact hook_resolution_chain_l. Qed.
Print Assumptions hook_resolution_chain.

(** Two-level class table: whatever the base class and its hooks are, the subclass's
    [__setattr__] is a function of the subclass's own fields and own class-level hook. *)
Theorem base_hooks_not_inherited : forall b c db d,
  build_chain [Attrs c; Attrs b] = Some [d; db] ->
  c_user_setattr c = None -> is_frozen c [db] = false ->
  let k := spec_of c false (own_cls_on_setattr c) in
  lookup_setattr [d; db] =
  match sa_table k with
  | [] => if is_sa_hooked (lookup_setattr [db]) then SaObject else lookup_setattr [db]
  | t => SaHooked t
  end.
Proof. exact base_hooks_not_inherited_l. Qed.
Print Assumptions base_hooks_not_inherited.

(** The unguarded statement is false of the code ("slotted confused", K6). *)
Theorem hook_resolution_refuted :
  exists c r d rest k,
    build_chain (Attrs c :: r) = Some (d :: rest) /\ c_user_setattr c = None /\
    built_spec c rest = Some k /\
    expected_impl k rest = SaObject /\
    is_sa_hooked (lookup_setattr (d :: rest)) = true /\
    chain_confused (Attrs c :: r) = true.
Proof. exact hook_resolution_refuted_l. Qed.
Print Assumptions hook_resolution_refuted.

(** define's default: [o.f = x] leaves what constructing with [f=x] stores, with the same
    converter and validator calls. *)
Theorem define_assign_equals_init : forall k sc pos kw en a x s,
  wf k -> make_init_script k = GenOk sc -> bind_call sc pos kw = Bound en ->
  In a (k_attrs k) -> k_frozen k = false -> k_on_setattr k = COsDefault ->
  a_on_setattr a = OsNone -> a_init a = true ->
  lookup (alias_of a) en = Some x -> is_nothing x = false ->
  exists i0 i',
    run_init k no_fault true pos kw = InitDone i0 (expected_trace k true en) /\
    read k i0 (a_name a) = Ok (converted a x) /\
    setattr_op k (own_impl k) true (a_name a) x no_fault s =
      ADone {| s_inst := i'; s_trace := s_trace s ++ default_events k a x (snapshot k (s_inst s)) |} /\
    read k i' (a_name a) = Ok (converted a x) /\
    (forall m, m <> a_name a -> read k i' m = read k (s_inst s) m) /\
    field_events a en = conv_events (conv_call_of a) (a_name a) x /\
    (forall vn, a_validator a = Some vn ->
       In (EvValidator (a_name a) vn (converted a x) (spec_snapshot k en))
          (validator_events k en (spec_snapshot k en) (filtered_attrs k))) /\
    map strip_snap (default_events k a x (snapshot k (s_inst s))) =
      map strip_snap (field_events a en) ++
      match a_validator a with Some vn => [EvValidator (a_name a) vn (converted a x) []] | None => [] end.
Proof. exact define_assign_equals_init_l. Qed.
Print Assumptions define_assign_equals_init.

(** ... and it raises iff one of those callbacks raises: both sides are their fault-free
    run cut at the first raising callback. *)
Theorem define_assign_faults : forall k a x s f,
  NoDup (map a_name (k_attrs k)) -> In a (k_attrs k) -> k_frozen k = false ->
  k_on_setattr k = COsDefault -> a_on_setattr a = OsNone -> storable k (a_name a) ->
  let evs := default_events k a x (snapshot k (s_inst s)) in
  let lo := List.length (s_trace s) in
  match first_fault f lo (List.length evs) with
  | Some j => exists s', setattr_op k (own_impl k) true (a_name a) x f s = AFail (EUser j) s' /\
                         s_inst s' = s_inst s /\
                         s_trace s' = s_trace s ++ firstn (S j - lo) evs
  | None => setattr_op k (own_impl k) true (a_name a) x f s =
            setattr_op k (own_impl k) true (a_name a) x no_fault s
  end.
Proof. exact define_assign_faults_l. Qed.
Print Assumptions define_assign_faults.

Theorem construction_under_faults : forall k sc pos kw en f,
  wf k -> make_init_script k = GenOk sc -> bind_call sc pos kw = Bound en ->
  exists i,
    run_init k no_fault true pos kw = InitDone i (expected_trace k true en) /\
    run_init k f true pos kw =
    match first_fault f 0 (List.length (expected_trace k true en)) with
    | Some j => InitRaised (EUser j) (firstn (S j) (expected_trace k true en))
    | None => InitDone i (expected_trace k true en)
    end.
Proof. exact run_init_under_faults_l. Qed.
Print Assumptions construction_under_faults.

(** Histories of any length under any oracle: each step has the single-assignment effect
    or, if it raised, none; fault-free, the final state is the fold of the specification. *)
Theorem assign_histories : forall k impl von f ops s,
  hist_ok k impl von (s_inst s) ops (run_history k impl von f s ops).
Proof. exact assign_histories_l. Qed.
Print Assumptions assign_histories.

Theorem assign_histories_nofault : forall k impl von ops s,
  final_inst (s_inst s) (run_history k impl von no_fault s ops) =
  fold_left (step_spec k impl von) ops (s_inst s).
Proof. exact assign_histories_nofault_l. Qed.
Print Assumptions assign_histories_nofault.

(** Definition-time rejections. *)
Theorem hooks_rejected_on_frozen : forall c rest,
  is_frozen c rest = true ->
  (has_cls_on_setattr (c_on_setattr c) = true \/
   existsb (fun a => negb (os_is_none (a_on_setattr a))) (c_attrs c) = true) ->
  build_attrs c rest = None.
Proof. exact hooks_rejected_on_frozen_l. Qed.
Print Assumptions hooks_rejected_on_frozen.

Theorem hooks_rejected_under_frozen_base : forall c rest,
  base_frozen rest = true -> c_user_setattr c = None ->
  (has_cls_on_setattr (c_on_setattr c) = true \/
   existsb (fun a => negb (os_is_none (a_on_setattr a))) (c_attrs c) = true) ->
  build_attrs c rest = None.
Proof. exact hooks_rejected_under_frozen_base_l. Qed.
Print Assumptions hooks_rejected_under_frozen_base.

(** Without the guard it is false of the code: a [__setattr__] in the class body hides the
    frozen base from attr.s (finding K06.1). *)
Theorem hooks_under_frozen_base_refuted :
  exists c rest d,
    build_chain [Attrs frozen_root] = Some rest /\ base_frozen rest = true /\
    has_cls_on_setattr (c_on_setattr c) = true /\
    build_attrs c rest = Some d /\ is_sa_hooked (lookup_setattr (d :: rest)) = true.
Proof. exact hooks_under_frozen_base_refuted_l. Qed.
Print Assumptions hooks_under_frozen_base_refuted.

Theorem define_hooks_rejected_under_frozen_base : forall c rest,
  c_api c = ApiDefine -> base_frozen rest = true -> has_cls_on_setattr (c_on_setattr c) = true ->
  build_attrs c rest = None.
Proof. exact define_hooks_under_frozen_base_l. Qed.
Print Assumptions define_hooks_rejected_under_frozen_base.

Theorem hooks_rejected_with_own_setattr : forall c rest o,
  has_custom_setattr c = true -> builder_on_setattr c rest = Some o ->
  c_frozen_arg c = false ->
  existsb (in_sa_attrs (effective_cls_on_setattr (spec_of c (is_frozen c rest) o))) (c_attrs c) = true ->
  build_attrs c rest = None.
Proof. exact hooks_rejected_with_own_setattr_l. Qed.
Print Assumptions hooks_rejected_with_own_setattr.

Theorem mutable_class_accepted : forall c rest,
  is_frozen c rest = false -> base_frozen rest = false -> has_custom_setattr c = false ->
  exists d, build_attrs c rest = Some d.
Proof. exact mutable_class_accepted_l. Qed.
Print Assumptions mutable_class_accepted.
