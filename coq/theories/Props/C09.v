(** * C09 — Generated ordering equals tuple comparison of order fields, same class only.

    Property theorems only; each is closed by [exact] of a lemma from
    [C09/Proofs.v] (or the shared [C03/Resolution.v]) and followed by
    [Print Assumptions].  [val], [py_eq], [py_cmp], [py_is], [keyf] are arbitrary. *)
From Coq Require Import List Bool.
Import ListNotations.
From Attrs Require Import Base C03.Common C09.Model C09.Proofs.

(** The four methods return exactly Python's comparison of the tuples of the
    order-participating fields' values, through the order keys, in field order. *)
Theorem order_is_tuple_order : forall val py_eq py_cmp py_is keyf op attrs (x y : inst val),
  i_cls y = i_cls x ->
  gen_order val py_eq py_cmp py_is keyf op attrs x (OInst y) =
    RV (tuple_cmp val py_eq py_cmp py_is op
          (map (fun a => keyed val keyf (f_order_key a) (i_get x (f_name a))) (filter f_order attrs))
          (map (fun a => keyed val keyf (f_order_key a) (i_get y (f_name a))) (filter f_order attrs))).
Proof. exact order_is_tuple_order_l. Qed.
Print Assumptions order_is_tuple_order.

Theorem order_operator_is_method : forall val py_eq py_cmp py_is keyf op eff_of attrs (x y : inst val),
  i_cls y = i_cls x -> eff_of (i_cls x) = Some attrs ->
  RV (op_order val py_eq py_cmp py_is keyf op eff_of x (OInst y))
  = gen_order val py_eq py_cmp py_is keyf op attrs x (OInst y).
Proof. exact op_order_same_class_l. Qed.
Print Assumptions order_operator_is_method.

(** Fields with order=False never influence the result. *)
Theorem order_frame : forall val py_eq py_cmp py_is keyf op attrs (x x' : inst val) other,
  i_cls x = i_cls x' ->
  (forall a, In a attrs -> f_order a = true -> i_get x (f_name a) = i_get x' (f_name a)) ->
  gen_order val py_eq py_cmp py_is keyf op attrs x other =
  gen_order val py_eq py_cmp py_is keyf op attrs x' other.
Proof. exact order_frame_l. Qed.
Print Assumptions order_frame.

(** Over a total order (with [==] its equality and identical objects equal), Python's
    tuple comparison is the lexicographic order … *)
Theorem tuple_cmp_is_lexicographic :
  forall val (ltb eqb : val -> val -> bool),
  (forall a b, eqb a b = true <-> a = b) ->
  (forall a, ltb a a = false) ->
  forall py_eq py_cmp py_is,
  (forall a b, py_eq a b = of_bool (eqb a b)) ->
  (forall op a b, py_cmp op a b = of_bool (cmp_of val ltb eqb op a b)) ->
  (forall a b, py_is a b = true -> a = b) ->
  forall op t1 t2,
  tuple_cmp val py_eq py_cmp py_is op t1 t2 = of_bool (lex_spec val ltb eqb op t1 t2).
Proof. exact tuple_cmp_is_lexicographic_l. Qed.
Print Assumptions tuple_cmp_is_lexicographic.

(** … and the four methods are mutually consistent: x<y iff y>x (and x<=y iff y>=x), *)
Theorem lt_gt_converse :
  forall val (ltb eqb : val -> val -> bool),
  (forall a b, eqb a b = true <-> a = b) ->
  (forall a, ltb a a = false) ->
  forall py_eq py_cmp py_is keyf,
  (forall a b, py_eq a b = of_bool (eqb a b)) ->
  (forall op a b, py_cmp op a b = of_bool (cmp_of val ltb eqb op a b)) ->
  (forall a b, py_is a b = true -> a = b) ->
  forall attrs (x y : inst val), i_cls y = i_cls x ->
  gen_order val py_eq py_cmp py_is keyf Lt attrs x (OInst y) =
  gen_order val py_eq py_cmp py_is keyf Gt attrs y (OInst x) /\
  gen_order val py_eq py_cmp py_is keyf Le attrs x (OInst y) =
  gen_order val py_eq py_cmp py_is keyf Ge attrs y (OInst x).
Proof. exact lt_gt_converse_l. Qed.
Print Assumptions lt_gt_converse.

(** x<=y iff x<y or the tuples are equal, *)
Theorem le_iff_lt_or_eq :
  forall val (ltb eqb : val -> val -> bool),
  (forall a b, eqb a b = true <-> a = b) ->
  (forall a, ltb a a = false) ->
  forall py_eq py_cmp py_is keyf,
  (forall a b, py_eq a b = of_bool (eqb a b)) ->
  (forall op a b, py_cmp op a b = of_bool (cmp_of val ltb eqb op a b)) ->
  (forall a b, py_is a b = true -> a = b) ->
  forall attrs (x y : inst val), i_cls y = i_cls x ->
  let tx := attrs_to_tuple val keyf attrs x in
  let ty := attrs_to_tuple val keyf attrs y in
  gen_order val py_eq py_cmp py_is keyf Le attrs x (OInst y)
    = RV (of_bool (lex_lt val ltb eqb tx ty || tup_eqb val eqb tx ty)) /\
  gen_order val py_eq py_cmp py_is keyf Lt attrs x (OInst y)
    = RV (of_bool (lex_lt val ltb eqb tx ty)).
Proof. exact le_iff_lt_or_eq_l. Qed.
Print Assumptions le_iff_lt_or_eq.

(** x>=y iff not x<y, x>y iff not x<=y (this needs the order to be total). *)
Theorem ge_iff_not_lt :
  forall val (ltb eqb : val -> val -> bool),
  (forall a b, eqb a b = true <-> a = b) ->
  (forall a, ltb a a = false) ->
  (forall a b, ltb a b = true -> ltb b a = false) ->
  (forall a b, a = b \/ ltb a b = true \/ ltb b a = true) ->
  forall py_eq py_cmp py_is keyf,
  (forall a b, py_eq a b = of_bool (eqb a b)) ->
  (forall op a b, py_cmp op a b = of_bool (cmp_of val ltb eqb op a b)) ->
  (forall a b, py_is a b = true -> a = b) ->
  forall attrs (x y : inst val), i_cls y = i_cls x ->
  let tx := attrs_to_tuple val keyf attrs x in
  let ty := attrs_to_tuple val keyf attrs y in
  gen_order val py_eq py_cmp py_is keyf Ge attrs x (OInst y)
    = RV (of_bool (negb (lex_lt val ltb eqb tx ty))) /\
  gen_order val py_eq py_cmp py_is keyf Gt attrs x (OInst y)
    = RV (of_bool (negb (lex_lt val ltb eqb tx ty || tup_eqb val eqb tx ty))).
Proof. exact ge_iff_not_lt_l. Qed.
Print Assumptions ge_iff_not_lt.

(** Any other class (sub- and superclasses are other positions of the chain) or a
    foreign object: NotImplemented, so the operator raises TypeError. *)
Theorem order_other_class : forall val py_eq py_cmp py_is keyf op attrs (x y : inst val),
  i_cls y <> i_cls x -> gen_order val py_eq py_cmp py_is keyf op attrs x (OInst y) = RNotImpl.
Proof. exact order_other_class_l. Qed.
Print Assumptions order_other_class.

Theorem order_other_class_type_error : forall val py_eq py_cmp py_is keyf op eff_of (x y : inst val),
  i_cls y <> i_cls x ->
  op_order val py_eq py_cmp py_is keyf op eff_of x (OInst y) = PRaise exc_TypeError.
Proof. exact op_order_other_class_l. Qed.
Print Assumptions order_other_class_type_error.

Theorem order_foreign : forall val py_eq py_cmp py_is keyf op eff_of (x : inst val) r,
  op_order val py_eq py_cmp py_is keyf op eff_of x (OForeign r) =
    match r with RNotImpl => PRaise exc_TypeError | RV o => o end.
Proof. exact op_order_foreign_l. Qed.
Print Assumptions order_foreign.

(** Which methods a class gets: all 1536 combinations of decorator, cmp / eq / order
    (omitted, None, True, False), auto_detect (omitted, True, False), own __eq__, own __lt__. *)
Theorem order_decision : forall c, decide_class c = order_decision_spec c.
Proof. exact order_decision_l. Qed.
Print Assumptions order_decision.

Theorem attrs_order_mirrors_eq : forall cmp eq order auto e o,
  (order = None \/ order = Some TN) ->
  decide_class (CA AttrS cmp eq order auto false false) = Ok (e, o) -> o = e.
Proof. exact attrs_order_mirrors_eq_l. Qed.
Print Assumptions attrs_order_mirrors_eq.

Theorem define_order_off_by_default : forall eq auto oe oo e o,
  decide_class (CA Define None eq None auto oe oo) = Ok (e, o) -> o = false.
Proof. exact define_order_off_by_default_l. Qed.
Print Assumptions define_order_off_by_default.

Theorem order_without_eq_rejected : forall a cmp auto oe oo,
  decide_class (CA a cmp (Some TF) (Some TT) auto oe oo) = VErr.
Proof. exact order_without_eq_rejected_l. Qed.
Print Assumptions order_without_eq_rejected.

Theorem cmp_mixed_rejected : forall a c eq order auto oe oo,
  c <> TN -> (eq = Some TT \/ eq = Some TF \/ order = Some TT \/ order = Some TF) ->
  decide_class (CA a (Some c) eq order auto oe oo) = VErr.
Proof. exact cmp_mixed_rejected_l. Qed.
Print Assumptions cmp_mixed_rejected.

(** Field level: which fields take part in ordering and with which key. *)
Theorem order_participation : forall n cmp eq order,
  make_attribute n cmp eq order = participation_spec n cmp eq order.
Proof. exact eq_participation_l. Qed.
Print Assumptions order_participation.

Theorem order_false_fields : forall n cmp eq order a,
  make_attribute n cmp eq order = Ok a ->
  (f_order a = false <-> (cmp = SF \/ (cmp = SN /\ (order = SF \/ (order = SN /\ eq = SF))))).
Proof. exact field_order_false_iff. Qed.
Print Assumptions order_false_fields.

Theorem order_key_fields : forall n cmp eq order a k,
  make_attribute n cmp eq order = Ok a ->
  (f_order_key a = Some k <->
   (is_key cmp k \/ (cmp = SN /\ (is_key order k \/ (order = SN /\ is_key eq k))))).
Proof. exact field_order_key_iff. Qed.
Print Assumptions order_key_fields.

Theorem field_order_mirrors_eq_by_default : forall n cmp eq a,
  make_attribute n cmp eq SN = Ok a -> f_order a = f_eq a /\ f_order_key a = f_eq_key a.
Proof. exact field_order_mirrors_eq. Qed.
Print Assumptions field_order_mirrors_eq_by_default.
