(** * C20 — The global validator switch is honoured everywhere and scoped correctly.

    Property theorems only; each is closed by [exact] of a lemma from
    [C20/Proofs.v] and followed by [Print Assumptions]. *)
From Coq Require Import List Bool.
Import ListNotations.
From Attrs Require Import C20.Model C20.Proofs.

(** set_disabled/get_disabled and set/get_run_validators are views of one switch,
    and construction, hooked assignment and attr.validate run validators iff it is
    on; converters are unaffected — after every operation of every sequence. *)
Theorem views_and_read_sites_agree : forall ops s, Forall obs_coherent (run_ops s ops).
Proof. exact views_agree_l. Qed.
Print Assumptions views_and_read_sites_agree.

(** The frame machine (what the code does) equals the two-line reference machine on
    every block-structured program of any length and nesting depth. *)
Theorem switch_refines_reference : forall ps s,
  run_ops s (flatten_seq ps) = fst (ref_run_seq (run s) ps) /\
  run (final_state s (flatten_seq ps)) = snd (ref_run_seq (run s) ps) /\
  frames (final_state s (flatten_seq ps)) = frames s.
Proof. exact refinement_l. Qed.
Print Assumptions switch_refines_reference.

(** disabled() restores, on normal and exceptional exit, the state in effect on
    entry, whatever the body did, also when nested. *)
Theorem disabled_restores : forall body k s,
  let s' := final_state s (flatten (PWith body k)) in
  run s' = run s /\ frames s' = frames s.
Proof. exact disabled_restores_l. Qed.
Print Assumptions disabled_restores.

Theorem balanced_block_restores : forall body k s,
  depth_after 0 body = Some 0 ->
  let s' := final_state s (OEnter :: body ++ [OExit k]) in
  run s' = run s /\ frames s' = frames s.
Proof. exact balanced_block_restores_l. Qed.
Print Assumptions balanced_block_restores.

Theorem inside_disabled : forall s, run (fst (step s OEnter)) = false.
Proof. exact inside_disabled_l. Qed.
Print Assumptions inside_disabled.

Theorem legacy_setter_rejects_nonbool : forall s,
  step s (OSetRun ANonBool) = (s, RaisedTypeError).
Proof. exact legacy_setter_rejects_nonbool_l. Qed.
Print Assumptions legacy_setter_rejects_nonbool.
