(** * C20 — The global validator switch is honoured everywhere and scoped correctly.

    Property theorems only; each is closed by [exact] of a lemma from
    [C20/Proofs.v] and followed by [Print Assumptions]. *)
From Coq Require Import List Bool.
Import ListNotations.
From Attrs Require Import C20.Model C20.Proofs C20.Pipe C20.PipeProofs.

(** set_disabled/get_disabled and set/get_run_validators are views of one switch,
    and construction, hooked assignment and attr.validate run validators iff it is
    on; converters are unaffected — after every operation of every sequence. *)
Theorem views_and_read_sites_agree : forall ops s, Forall obs_coherent (run_ops s ops).
Proof. exact views_agree_l. Qed.
Print Assumptions views_and_read_sites_agree.

(** The frame machine (what the code does) equals the two-line reference machine on
    every block-structured program of any length and nesting depth. *)
Theorem switch_refines_reference : forall ps s,
  run_ops s (flatten_seq ps) = fst (ref_run_seq (run s) ps) /\
  run (final_state s (flatten_seq ps)) = snd (ref_run_seq (run s) ps) /\
  frames (final_state s (flatten_seq ps)) = frames s.
Proof. exact refinement_l. Qed.
Print Assumptions switch_refines_reference.

(** disabled() restores, on normal and exceptional exit, the state in effect on
    entry, whatever the body did, also when nested. *)
Theorem disabled_restores : forall body k s,
  let s' := final_state s (flatten (PWith body k)) in
  run s' = run s /\ frames s' = frames s.
Proof. exact disabled_restores_l. Qed.
Print Assumptions disabled_restores.

Theorem balanced_block_restores : forall body k s,
  depth_after 0 body = Some 0 ->
  let s' := final_state s (OEnter :: body ++ [OExit k]) in
  run s' = run s /\ frames s' = frames s.
Proof. exact balanced_block_restores_l. Qed.
Print Assumptions balanced_block_restores.

Theorem inside_disabled : forall s, run (fst (step s OEnter)) = false.
Proof. exact inside_disabled_l. Qed.
Print Assumptions inside_disabled.

Theorem legacy_setter_rejects_nonbool : forall s,
  step s (OSetRun ANonBool) = (s, RaisedTypeError).
Proof. exact legacy_setter_rejects_nonbool_l. Qed.
Print Assumptions legacy_setter_rejects_nonbool.

(** Converters and non-validating hooks are unaffected by the switch: for every hook tree a user can
    hand to on_setattr (stock setters and own callables, piped and nested to any depth), every value
    and every two switch states, two completed assignments leave the same trace of non-validator hook
    calls (with the same arguments, in the same order) and store the same value. *)
Theorem hooks_unaffected_by_switch : forall h thr v s1 s2 t1 o1 t2 o2,
  run_hook s1 thr h v = (t1, Some o1) -> run_hook s2 thr h v = (t2, Some o2) ->
  non_val t1 = non_val t2 /\ o1 = o2.
Proof. exact hook_unaffected_l. Qed.
Print Assumptions hooks_unaffected_by_switch.

(** Switched off, an assignment always completes, runs no validator and runs every other hook. *)
Theorem hooks_when_off : forall h thr v s, run s = false ->
  exists t o, run_hook s thr h v = (t, Some o) /\ existsb is_val t = false /\
              t = fst (run_novalidate (flatten_hook h) v).
Proof. exact hook_off_l. Qed.
Print Assumptions hooks_when_off.

(** Switched on, setters.validate runs the validator at each of its positions, on the value as the
    hooks before it left it, and the first rejection ends the assignment. *)
Theorem hooks_when_on : forall h thr v s, run s = true ->
  run_hook s thr h v = expected_on thr (flatten_hook h) v.
Proof. exact hook_on_l. Qed.
Print Assumptions hooks_when_on.

(** How hooks are grouped into pipes is immaterial. *)
Theorem pipe_nesting_immaterial : forall a b c s thr v,
  run_hook s thr (HPipe (a ++ [HPipe b] ++ c)) v = run_hook s thr (HPipe (a ++ b ++ c)) v.
Proof. exact pipe_nesting_l. Qed.
Print Assumptions pipe_nesting_immaterial.

(** Construction: whatever follows the validators in the generated __init__ (post-init hook, hash
    cache, BaseException.__init__) happens in every switch state in which construction completes. *)
Theorem init_tail_unaffected_by_switch : forall s thr t tr,
  run_init_tail s thr t = (tr, true) -> filter (fun e => negb (is_ival e)) tr = rest_of_init t.
Proof. exact init_tail_unaffected_l. Qed.
Print Assumptions init_tail_unaffected_by_switch.

Theorem init_tail_when_off : forall s thr t, run s = false -> run_init_tail s thr t = (rest_of_init t, true).
Proof. exact init_tail_off_l. Qed.
Print Assumptions init_tail_when_off.

Theorem init_tail_when_on : forall s thr t, run s = true -> (forall v, In v (t_validated t) -> v < thr) ->
  run_init_tail s thr t = (map IVal (t_validated t) ++ rest_of_init t, true).
Proof. exact init_tail_on_all_l. Qed.
Print Assumptions init_tail_when_on.

(** Creating a manager object ahead of use does nothing to the switch: the state restored on exit is
    the one in effect when the block is ENTERED, whenever the object was created. *)
Theorem creating_a_manager_is_no_operation : forall s, xstep s XCreate = (s, Done).
Proof. exact create_noop_l. Qed.
Print Assumptions creating_a_manager_is_no_operation.

Theorem creation_steps_are_immaterial : forall ops s, final_xstate s (erase_creates ops) = final_xstate s ops.
Proof. exact erase_creates_state_l. Qed.
Print Assumptions creation_steps_are_immaterial.

(** The decorator form: the decorated function runs with validators disabled and the state it was
    called in is back afterwards. *)
Theorem decorated_call_restores : forall s,
  fst (xstep s XCallDecorated) = s /\ snd (xstep s XCallDecorated) = Done /\ inside_decorated s = false.
Proof. exact call_decorated_restores_l. Qed.
Print Assumptions decorated_call_restores.
