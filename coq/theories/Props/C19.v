(** * C19 — Converter combinators, filters and cmp_using obey their algebraic laws.

    Property theorems only; each is closed by [exact] of a lemma from
    [C19/Proofs*.v] and followed by [Print Assumptions].
    [app] is an arbitrary interpretation of the user's callables (value or
    exception for every argument list); [i]/[fl] are the instance and the field. *)
From Coq Require Import List Bool Arith String ZArith.
Import ListNotations.
From Attrs Require Import C19.Model C19.Proofs.

(** ** Converter trees *)

(** The dispatch machinery (plain function vs Converter instance, the four
    __call__ lambdas, pipe's and optional's two closures) computes the reference
    meaning of the expression, for every tree of any width and depth. *)
Theorem dispatch_refines_reference : forall app c v i fl n,
  standalone app c v i fl n = ref app c i fl v n.
Proof. exact standalone_ref_l. Qed.
Print Assumptions dispatch_refines_reference.

(** pipe(c1..cn) = applying c1..cn in order, each invoked the way its kind demands. *)
Theorem pipe_spec : forall app cs v i fl n,
  standalone app (CPipe cs) v i fl n
  = pipe_loop (fun c v n => standalone app c v i fl n) cs v n.
Proof. exact pipe_spec_l. Qed.
Print Assumptions pipe_spec.

Theorem pipe_empty_is_identity : forall app v i fl n,
  standalone app (CPipe []) v i fl n = (Ok v, n).
Proof. exact pipe_empty_l. Qed.
Print Assumptions pipe_empty_is_identity.

Theorem pipe_cons : forall app c r v i fl n,
  standalone app (CPipe (c :: r)) v i fl n
  = bind (standalone app c v i fl n) (fun v' n' => standalone app (CPipe r) v' i fl n').
Proof. exact pipe_cons_l. Qed.
Print Assumptions pipe_cons.

Theorem pipe_concat : forall app a b v i fl n,
  standalone app (CPipe (a ++ b)) v i fl n
  = standalone app (CPipe [CPipe a; CPipe b]) v i fl n.
Proof. exact pipe_app_l. Qed.
Print Assumptions pipe_concat.

(** Instance and field reach exactly the Converter members, by their flags. *)
Theorem converter_member_gets_instance_and_field : forall app f ts tf v i fl n,
  standalone app (CConv f ts tf) v i fl n
  = (app f (v :: opt_args ts i ++ opt_args tf fl), n).
Proof. exact member_converter_l. Qed.
Print Assumptions converter_member_gets_instance_and_field.

Theorem plain_member_gets_value_only : forall app f v i fl n,
  standalone app (CFun f) v i fl n = (app f [v], n).
Proof. exact member_plain_l. Qed.
Print Assumptions plain_member_gets_value_only.

Theorem optional_none : forall app c i fl n,
  standalone app (COpt c) VNone i fl n = (Ok VNone, n).
Proof. exact optional_none_l. Qed.
Print Assumptions optional_none.

Theorem optional_not_none : forall app c v i fl n, v <> VNone ->
  standalone app (COpt c) v i fl n = standalone app c v i fl n.
Proof. exact optional_some_l. Qed.
Print Assumptions optional_not_none.

Theorem default_if_none_value : forall app d v i fl n,
  standalone app (CDef d) v i fl n = (Ok (if is_none v then d else v), n).
Proof. exact default_value_l. Qed.
Print Assumptions default_if_none_value.

Theorem default_if_none_factory_none : forall app g i fl n,
  standalone app (CFac g) VNone i fl n = (Ok (VFresh g n), S n).
Proof. exact default_factory_none_l. Qed.
Print Assumptions default_if_none_factory_none.

Theorem default_if_none_factory_not_none : forall app g v i fl n, v <> VNone ->
  standalone app (CFac g) v i fl n = (Ok v, n).
Proof. exact default_factory_some_l. Qed.
Print Assumptions default_if_none_factory_not_none.

(** Two factory replacements, with any converter run in between, differ. *)
Theorem factory_results_fresh : forall app g i fl n c v i' fl',
  let '(r1, n1) := standalone app (CFac g) VNone i fl n in
  let n2 := snd (standalone app c v i' fl' n1) in
  let '(r2, _) := standalone app (CFac g) VNone i fl n2 in
  r1 <> r2.
Proof. exact factory_fresh_l. Qed.
Print Assumptions factory_results_fresh.

Theorem counter_monotone : forall app c v i fl n, n <= snd (standalone app c v i fl n).
Proof. exact counter_mono_l. Qed.
Print Assumptions counter_monotone.

(** Generated __init__, setters.convert and a direct call agree. *)
Theorem contexts_agree_init : forall app c v self fld n,
  init_convert app (Some c) v self fld n = standalone app c v self fld n.
Proof. exact init_agrees_l. Qed.
Print Assumptions contexts_agree_init.

Theorem contexts_agree_setattr : forall app c v self fld n,
  setters_convert app (Some c) self fld v n = standalone app c v self fld n.
Proof. exact setattr_agrees_l. Qed.
Print Assumptions contexts_agree_setattr.

Theorem no_converter_is_identity : forall app v self fld n,
  init_convert app None v self fld n = (Ok v, n) /\
  setters_convert app None self fld v n = (Ok v, n).
Proof. exact no_converter_identity_l. Qed.
Print Assumptions no_converter_is_identity.

(** The machinery never raises a TypeError of its own (arities always fit). *)
Theorem dispatch_arity_consistent : forall app, app_no_etype app ->
  forall c v i fl n, fst (standalone app c v i fl n) <> Raise EType.
Proof. exact dispatch_arity_consistent_l. Qed.
Print Assumptions dispatch_arity_consistent.

(** ** to_bool *)

Theorem to_bool_true_iff : forall s,
  to_bool (TStr s) = BOk true <-> In (lower s) truthy_strings.
Proof. exact to_bool_str_true_l. Qed.
Print Assumptions to_bool_true_iff.

Theorem to_bool_false_iff : forall s,
  to_bool (TStr s) = BOk false <-> In (lower s) falsy_strings.
Proof. exact to_bool_str_false_l. Qed.
Print Assumptions to_bool_false_iff.

Theorem to_bool_error_iff : forall s,
  to_bool (TStr s) = BValueError <-> ~ In (lower s) (truthy_strings ++ falsy_strings).
Proof. exact to_bool_str_error_l. Qed.
Print Assumptions to_bool_error_iff.

(** Case-insensitive for ALL strings. *)
Theorem to_bool_case_insensitive : forall s s',
  lower s = lower s' -> to_bool (TStr s) = to_bool (TStr s').
Proof. exact to_bool_case_insensitive_l. Qed.
Print Assumptions to_bool_case_insensitive.

Theorem to_bool_lower : forall s, to_bool (TStr s) = to_bool (TStr (lower s)).
Proof. exact to_bool_lower_l. Qed.
Print Assumptions to_bool_lower.

(** Non-strings: decided by ==-equality with the listed elements (interpretation
    (iii) of DESIGN section 7: 1.0 is accepted because 1.0 == 1). *)
Theorem to_bool_non_string : forall eqs,
  (to_bool (TOther eqs) = BOk true <-> exists e, In e truthy /\ In e eqs) /\
  (to_bool (TOther eqs) = BOk false <->
     (~ exists e, In e truthy /\ In e eqs) /\ exists e, In e falsy /\ In e eqs) /\
  (to_bool (TOther eqs) = BValueError <-> ~ exists e, In e (truthy ++ falsy) /\ In e eqs).
Proof. exact to_bool_other_l. Qed.
Print Assumptions to_bool_non_string.

Theorem to_bool_total : forall x,
  to_bool x = BOk true \/ to_bool x = BOk false \/ to_bool x = BValueError.
Proof. exact to_bool_total_l. Qed.
Print Assumptions to_bool_total.

(** ** filters *)

Theorem exclude_is_negation : forall w a vt, exclude_ w a vt = negb (include_ w a vt).
Proof. exact exclude_is_negation_l. Qed.
Print Assumptions exclude_is_negation.

Theorem include_iff : forall w a vt,
  include_ w a vt = true <->
  In (WType vt) w \/ In (WName (a_name a)) w \/ In (WAttr a) w.
Proof. exact include_iff_l. Qed.
Print Assumptions include_iff.

Theorem exclude_iff : forall w a vt,
  exclude_ w a vt = true <->
  ~ (In (WType vt) w \/ In (WName (a_name a)) w \/ In (WAttr a) w).
Proof. exact exclude_iff_l. Qed.
Print Assumptions exclude_iff.

Theorem include_only_membership : forall w w' a vt,
  (forall x, In x w <-> In x w') -> include_ w a vt = include_ w' a vt.
Proof. exact include_only_membership_l. Qed.
Print Assumptions include_only_membership.

(** ** cmp_using *)

Theorem cmp_construct_spec : forall c,
  construct_ok c = false <-> (0 < num_order_functions c < 4 /\ has_eq c = false).
Proof. exact construct_spec_l. Qed.
Print Assumptions cmp_construct_spec.

(** A supplied function is called exactly once, on (a.value, b.value), and not at
    all between operands that are not comparable. *)
Theorem cmp_uses_supplied : forall V feq flt fle fgt fge same_cls c o a b,
  supplied c o = true ->
  meth V feq flt fle fgt fge same_cls c o a b
  = if is_comparable_to V same_cls c a b
    then (fn V feq flt fle fgt fge o (w_val V a) (w_val V b), [(o, w_val V a, w_val V b)])
    else (NI, []).
Proof. exact uses_supplied_l. Qed.
Print Assumptions cmp_uses_supplied.

Theorem cmp_ne_negates_eq : forall V feq flt fle fgt fge same_cls c a b,
  meth V feq flt fle fgt fge same_cls c ONe a b
  = (tri_not (fst (meth V feq flt fle fgt fge same_cls c OEq a b)),
     snd (meth V feq flt fle fgt fge same_cls c OEq a b)).
Proof. exact ne_negates_eq_l. Qed.
Print Assumptions cmp_ne_negates_eq.

(** Type mismatch under require_same_type: every operator, root or derived,
    answers NotImplemented and its call trace is empty (no supplied function is
    consulted, so a function that is only defined on one value type cannot raise). *)
Theorem cmp_type_mismatch_notimplemented : forall V feq flt fle fgt fge same_cls c o a b,
  same_type c = true ->
  same_cls (w_val V a) (w_val V b) = false -> same_cls (w_val V b) (w_val V a) = false ->
  w_id V a <> w_id V b ->
  meth V feq flt fle fgt fge same_cls c o a b = (NI, []).
Proof. exact type_mismatch_notimplemented_l. Qed.
Print Assumptions cmp_type_mismatch_notimplemented.

(** Every call any of the six methods makes is a call of a SUPPLIED function on
    the two wrapped values, between comparable operands. *)
Theorem cmp_only_supplied_called : forall V feq flt fle fgt fge same_cls c o a b,
  Forall (entry_ok V same_cls c a b) (snd (meth V feq flt fle fgt fge same_cls c o a b)).
Proof. exact only_supplied_called_l. Qed.
Print Assumptions cmp_only_supplied_called.

(** All 64 configurations: when the supplied functions describe one total
    order, every operator the class defines (supplied or derived by
    functools.total_ordering) answers according to that order. *)
Theorem cmp_derived_consistent : forall V feq flt fle fgt fge same_cls key c,
  construct_ok c = true ->
  (forall o, supplied c o = true ->
     forall x y, fn V feq flt fle fgt fge o x y = of_bool (honest o (key x) (key y))) ->
  forall a b, is_comparable_to V same_cls c a b = true ->
              is_comparable_to V same_cls c b a = true ->
  forall o, defined c o = true ->
  fst (meth V feq flt fle fgt fge same_cls c o a b)
  = of_bool (honest o (key (w_val V a)) (key (w_val V b))).
Proof. exact derived_consistent_l. Qed.
Print Assumptions cmp_derived_consistent.

Theorem cmp_all_order_ops_defined : forall c, construct_ok c = true ->
  0 < num_order_functions c ->
  defined c OLt = true /\ defined c OLe = true /\ defined c OGt = true /\ defined c OGe = true.
Proof. exact all_order_ops_defined_l. Qed.
Print Assumptions cmp_all_order_ops_defined.
