(** * C02 — Init protocol: step order, exactly-once, hook arguments, failure propagation. *)
From Coq Require Import List Bool String Arith.
Import ListNotations.
From Attrs Require Import Core.Attr Core.Init Core.InitProofs Core.Faults Core.InitProps.
From Attrs Require C02.Compose C02.ComposeProofs.
Open Scope string_scope.

(** The fault-free callback trace is exactly
    [pre-init(args)]? ++ per field in field order [factory?][converter?]
    ++ (validators in field order iff enabled) ++ [post-init]?
    ([expected_trace]), and args = tuple of the init fields' stored values for auto_exc classes. *)
Theorem init_trace : forall k sc von pos kw en,
  wf k -> make_init_script k = GenOk sc -> bind_call sc pos kw = Bound en ->
  exists i, run_init k no_fault von pos kw = InitDone i (expected_trace k von en) /\
            i_args i = expected_args k en.
Proof.
  intros k sc von pos kw en W G B.
  destruct (run_init_nofault k sc von pos kw en W G B) as (i & R & _ & _ & _ & _ & A). eauto.
Qed.
Print Assumptions init_trace.

(** Exactly once: a field contributes at most one factory call and one converter call,
    and the factory only when no value was supplied. *)
Theorem init_each_once : forall a en,
  List.length (factory_events a en) <= 1 /\
  List.length (conv_events (conv_call_of a) (a_name a) (raw_value a en)) <= 1.
Proof. exact field_events_once. Qed.
Print Assumptions init_each_once.

Theorem factory_only_when_no_value : forall a en,
  a_init a = true -> is_nothing (env_get en (alias_of a)) = false -> factory_events a en = [].
Proof. exact factory_only_without_value. Qed.
Print Assumptions factory_only_when_no_value.

(** Validators receive (instance, Attribute, converted value) on a fully populated instance. *)
Theorem validators_see_full_instance : forall k en snap l ev,
  In ev (validator_events k en snap l) ->
  exists a v, In a l /\ a_validator a = Some v /\ ev = EvValidator (a_name a) v (spec_value a en) snap.
Proof. exact validators_see_full_instance_l. Qed.
Print Assumptions validators_see_full_instance.

Theorem snapshot_fully_populated : forall k en a,
  In a (k_attrs k) -> participates a = true -> In (a_name a, Some (spec_value a en)) (spec_snapshot k en).
Proof. exact spec_snapshot_full. Qed.
Print Assumptions snapshot_fully_populated.

(** on_setattr hooks never run during construction, for every hook configuration. *)
Theorem no_hooks_during_init : forall k von en,
  forallb (fun ev => negb (is_hook ev)) (expected_trace k von en) = true.
Proof. exact no_hooks_l. Qed.
Print Assumptions no_hooks_during_init.

(** For EVERY fault oracle: the first callback that raises ends construction, its own
    exception comes out, and the trace is the fault-free trace up to that callback. *)
Theorem fault_propagation : forall k sc f von pos kw en,
  wf k -> make_init_script k = GenOk sc -> bind_call sc pos kw = Bound en ->
  run_init k f von pos kw =
  match first_fault f 0 (List.length (expected_trace k von en)) with
  | None => run_init k no_fault von pos kw
  | Some j => InitRaised (EUser j) (firstn (S j) (expected_trace k von en))
  end.
Proof. exact fault_propagation_l. Qed.
Print Assumptions fault_propagation.

Theorem single_fault : forall k sc von pos kw en j,
  wf k -> make_init_script k = GenOk sc -> bind_call sc pos kw = Bound en ->
  j < List.length (expected_trace k von en) ->
  run_init k (fun i => Nat.eqb i j) von pos kw =
  InitRaised (EUser j) (firstn (S j) (expected_trace k von en)).
Proof. exact single_fault_l. Qed.
Print Assumptions single_fault.

(** ** Composite callbacks (converter lists / pipe with Converter members, validator lists /
    shared and_ composites): what runs inside one field's converter and validator.
    For EVERY fault oracle, any number of fields, members and validators: the step-by-step
    run is the specification trace - all converter members in list order, each exactly once,
    each on the previous member's result and given instance/field iff it is a Converter
    asking for them, fields in order; then every validator of every field in order on the
    stored value - cut after the first raising callback; construction finishes, with
    member-composition values stored, iff no callback of that trace raises. *)
Theorem composite_protocol : forall f von fs,
  Compose.run_ctor f von fs =
  (Compose.cut f (Compose.expected von fs) 0,
   if Compose.faulty f (List.length (Compose.expected von fs)) 0 then None
   else Some (Compose.stored fs 0)).
Proof. exact ComposeProofs.run_ctor_spec. Qed.
Print Assumptions composite_protocol.

Theorem composite_fault_free : forall von fs,
  Compose.run_ctor Compose.no_fault von fs = (Compose.expected von fs, Some (Compose.stored fs 0)).
Proof. exact ComposeProofs.run_ctor_nofault. Qed.
Print Assumptions composite_fault_free.

(** a single raising callback at position k of the trace: exactly the prefix up to and including it *)
Theorem composite_single_fault : forall k evs,
  k < List.length evs -> Compose.cut (Nat.eqb k) evs 0 = firstn (S k) evs.
Proof.
  intros k evs H. rewrite ComposeProofs.cut_single. cbn [Nat.add Nat.leb].
  apply Nat.ltb_lt in H. rewrite H. cbn. now rewrite Nat.sub_0_r.
Qed.
Print Assumptions composite_single_fault.

(** the members of a converter list run once each, in list order *)
Theorem composite_members_once : forall fld steps x,
  map (fun e => match e with Compose.EConv _ fn _ _ _ => fn | Compose.EVal _ fn _ => fn end)
      (Compose.pipe_events fld steps x) = map Compose.s_fn steps.
Proof. exact ComposeProofs.pipe_events_fns. Qed.
Print Assumptions composite_members_once.

(** non-vacuity: a two-field class with a mixed converter list and a shared validator pair *)
Example composite_example :
  let st := [Compose.Build_step "f" false false; Compose.Build_step "g" true false; Compose.Build_step "h" false false] in
  let fs := [Compose.Build_cfield "a" st ["v1"; "v2"]; Compose.Build_cfield "b" [] ["v1"; "v2"]] in
  List.length (Compose.expected true fs) = 7 /\
  fst (Compose.run_ctor (Nat.eqb 1) true fs) = firstn 2 (Compose.expected true fs).
Proof. vm_compute. split; reflexivity. Qed.
