(** * C08 — the slotted build is a faithful replacement and agrees with the dict build.

    Property theorems only; each is closed by [exact] of a lemma from [C08/Proofs.v],
    [C08/InitLink.v] or [C08/Corr.v] and followed by [Print Assumptions].
    The model is [C08/Model.v]: [_create_slots_class] as a transformation of the class
    namespace (any size), closure cells as ids in a store, any MRO. *)
From Coq Require Import List Bool String.
Import ListNotations.
From Attrs Require Import Core.Attr Core.Init Core.InitProofs Core.InitProps C08.InitLink.
From Attrs Require Import C14.NS C08.Model C08.Proofs C08.Corr.
Open Scope string_scope.
Open Scope list_scope.

(** ** The class is observationally the original *)

(** Every entry of the original namespace that is not a field definition, [__dict__],
    [__weakref__] or a cached_property, and whose name is none of the six attrs writes,
    is found in the new class: the identical object (methods, class attributes, nested
    classes, docstring, module ...). *)
Theorem slots_preserve_namespace : forall i o k e,
  NoDup (keys name entry (i_ns i)) -> create_slots_class i = ROk o ->
  lookupS k (i_ns i) = Some e -> dropped_name i k = false -> is_cached_kind (e_kind e) = false ->
  ~ In k fixed_written ->
  lookupS k (o_ns o) = Some e.
Proof. exact slots_preserve_namespace_l. Qed.
Print Assumptions slots_preserve_namespace.

Theorem slots_adds_nothing_else : forall i o k, create_slots_class i = ROk o ->
  lookupS k (i_ns i) = None -> ~ In k (i_attr_names i) -> k <> "__weakref__" -> ~ In k fixed_written ->
  lookupS k (o_ns o) = None.
Proof. exact slots_absent_l. Qed.
Print Assumptions slots_adds_nothing_else.

(** Name, bases, metaclass are the original's; [__qualname__], [__module__], [__doc__]
    reach [type()] unchanged. *)
Theorem header_carried_over : forall i o,
  create_slots_class i = ROk o -> ~ In "__module__" (i_attr_names i) -> ~ In "__doc__" (i_attr_names i) ->
  NoDup (keys name entry (i_ns i)) ->
  (forall e, lookupS "__module__" (i_ns i) = Some e -> is_cached_kind (e_kind e) = false) ->
  (forall e, lookupS "__doc__" (i_ns i) = Some e -> is_cached_kind (e_kind e) = false) ->
  header_same i o = [true; true; true; true; true; true].
Proof. exact header_carried_over_l. Qed.
Print Assumptions header_carried_over.

(** ** __class__ / super() cells *)

(** The rewrite loop, exactly: afterwards a cell holds the new class iff it held the old
    class and some inspected item lists it; every other cell is untouched. *)
Theorem cells_rewritten : forall i o c, create_slots_class i = ROk o ->
  get c (o_store o) =
    if existsb (mentions c) (o_items o) && cellval_eqb (get c (o_store0 o)) (CCls (i_old i))
    then CCls (i_new i) else get c (o_store0 o).
Proof. exact cells_rewritten_l. Qed.
Print Assumptions cells_rewritten.

(** Functions, classmethods, staticmethods and property getters / setters / deleters of
    the new class are bound to the new class. *)
Theorem members_rebound : forall i o k e c, create_slots_class i = ROk o ->
  lookupS k (o_ns o) = Some e -> In c (inspected_cells (e_kind e)) ->
  get c (o_store0 o) = CCls (i_old i) -> get c (o_store o) = CCls (i_new i).
Proof. exact members_rebound_l. Qed.
Print Assumptions members_rebound.

(** Guard: a cell listed by no inspected item keeps the old class ... *)
Theorem uninspected_cell_kept : forall i o c, create_slots_class i = ROk o ->
  existsb (mentions c) (o_items o) = false -> get c (o_store o) = get c (o_store0 o).
Proof. exact uninspected_cell_kept_l. Qed.
Print Assumptions uninspected_cell_kept.

(** ... witness: the only user of the cell is hidden in a custom descriptor. *)
Theorem uninspected_kind_is_missed :
  exists i o, create_slots_class i = ROk o /\
    lookupS "m" (o_ns o) = Some (10, KDescr [0]) /\ get 0 (o_store0 o) = CCls (i_old i) /\
    get 0 (o_store o) = CCls (i_old i).
Proof. exact uninspected_kind_refuted. Qed.
Print Assumptions uninspected_kind_is_missed.

(** ** Slots *)

Theorem own_field_one_slot : forall i o n,
  NoDup (i_attr_names i) -> create_slots_class i = ROk o ->
  In n (i_attr_names i) -> ~ In n (i_base_names i) -> n <> Model.HASH_CACHE ->
  count_in n (o_slots o) = if in_names n (map fst (o_existing o)) then 0 else 1.
Proof. exact own_field_one_slot_l. Qed.
Print Assumptions own_field_one_slot.

Theorem inherited_not_slotted : forall i o n,
  create_slots_class i = ROk o -> In n (i_base_names i) -> n <> Model.HASH_CACHE -> ~ In n (o_slots o).
Proof. exact inherited_not_slotted_l. Qed.
Print Assumptions inherited_not_slotted.

Theorem slots_no_duplicates : forall i o n,
  NoDup (i_attr_names i) -> NoDup (keys name entry (i_ns i)) ->
  ~ In Model.HASH_CACHE (i_attr_names i) -> ~ In Model.HASH_CACHE (keys name entry (i_ns i)) ->
  create_slots_class i = ROk o -> count_in n (o_slots o) <= 1.
Proof. exact slots_no_duplicates_l. Qed.
Print Assumptions slots_no_duplicates.

(** ** Weak references *)

Theorem weakref_iff : forall i o,
  create_slots_class i = ROk o -> ~ In "__weakref__" (i_attr_names i) ->
  (In "__weakref__" (o_slots o) <->
   add_weakref i = true /\ ~ In "__weakref__" (i_base_names i) /\ ~ In "__weakref__" (map fst (o_existing o))).
Proof. exact weakref_iff_l. Qed.
Print Assumptions weakref_iff.

Theorem weakrefable_iff : forall i o,
  create_slots_class i = ROk o -> ~ In "__weakref__" (i_attr_names i) -> ~ In "__weakref__" (i_base_names i) ->
  mro_consistent i o ->
  weakrefable i o = (i_weakref_slot i || weakref_inherited i).
Proof. exact weakrefable_iff_l. Qed.
Print Assumptions weakrefable_iff.

(** A class body that itself lists [__weakref__] in [__slots__]: honoured (was K08.1;
    [weakref_own_slots_old_rule_refuted] in C08/Proofs.v keeps the pre-repair witness). *)
Theorem weakref_own_slots_honoured :
  exists o, create_slots_class own_weakref_slots_input = ROk o /\
            o_slots o = ["x"; "__weakref__"] /\ weakrefable own_weakref_slots_input o = true.
Proof. exact weakref_own_slots_honoured_l. Qed.
Print Assumptions weakref_own_slots_honoured.

(** A base whose [__slots__] is a single string contributes that one slot, whatever its
    name (was K08.2; [string_slots_old_scan_refuted] keeps the pre-repair witness) ... *)
Theorem string_slots_single_slot : forall n d,
  dict_of_slots (iter_slots (SlotsStr n (Some d))) [] = Some [(n, d)].
Proof. exact string_slots_single_slot_l. Qed.
Print Assumptions string_slots_single_slot.

(** ... and the class is built; an own field of that name re-uses the base's slot. *)
Theorem string_slots_base_builds :
  exists o, create_slots_class
              {| i_old := 0; i_new := 1; i_ns := []; i_attr_names := ["ab"; "x"]; i_base_names := [];
                 i_mro := [str_base "ab" (Some 20)]; i_weakref_slot := true; i_cache_hash := false; i_orig_slots := ["ab"];
                 i_wrote_own_setattr := false; i_has_custom_setattr := false; i_store := []; i_fresh := 0 |} = ROk o /\
            o_slots o = ["x"; "__weakref__"] /\ lookupS "ab" (o_ns o) = Some (20, KSlotDescr).
Proof. exact string_slots_base_builds_l. Qed.
Print Assumptions string_slots_base_builds.

(** ** cached_property *)

Theorem cached_property_once : forall c ops, gets_only ops = true ->
  let '(rs, st) := run c empty_state ops in
  (forall i n, resolves (ic_layers c) n = true ->
     count_calls (i, n) (st_calls st) =
       if existsb (fun o => match o with OGet i' n' => key_eqb (i, n) (i', n') | _ => false end) ops then 1 else 0) /\
  Forall2 (result_ok c) ops rs.
Proof. exact cached_property_once_l. Qed.
Print Assumptions cached_property_once.

Theorem own_cached_property_is_reached : forall L rest n, In n (l_cached L) -> resolves (L :: rest) n = true.
Proof. exact own_cached_resolves. Qed.
Print Assumptions own_cached_property_is_reached.

(** ** __attrs_init_subclass__ *)

Theorem init_subclass_once : forall i o,
  create_slots_class i = ROk o -> existsb b_hook (i_mro i) = true ->
  lookupS "__attrs_init_subclass__" (i_ns i) = None -> ~ In "__attrs_init_subclass__" (i_attr_names i) ->
  hook_calls i o = [(i_new i, o_store o)].
Proof. exact init_subclass_once_l. Qed.
Print Assumptions init_subclass_once.

Theorem init_subclass_sees_rebound_members : forall i o c st k e cell,
  create_slots_class i = ROk o -> In (c, st) (hook_calls i o) ->
  lookupS k (o_ns o) = Some e -> In cell (inspected_cells (e_kind e)) -> get cell (o_store0 o) = CCls (i_old i) ->
  c = i_new i /\ get cell st = CCls (i_new i).
Proof. exact hook_sees_rebound_l. Qed.
Print Assumptions init_subclass_sees_rebound_members.

Theorem init_subclass_own_definition_not_called : forall i o e,
  NoDup (keys name entry (i_ns i)) -> create_slots_class i = ROk o ->
  lookupS "__attrs_init_subclass__" (i_ns i) = Some e -> ~ In "__attrs_init_subclass__" (i_attr_names i) ->
  is_cached_kind (e_kind e) = false -> hook_calls i o = [].
Proof. exact init_subclass_own_not_called_l. Qed.
Print Assumptions init_subclass_own_definition_not_called.

(** ** Slots build vs dict build: the four places the [slots] flag reaches *)

(** (i) class re-creation: both builds expose the same user members. *)
Theorem slots_dict_same_members : forall i o k e,
  NoDup (keys name entry (i_ns i)) -> create_slots_class i = ROk o ->
  lookupS k (i_ns i) = Some e -> dropped_name i k = false -> is_cached_kind (e_kind e) = false ->
  ~ In k fixed_written ->
  lookupS k (patch_class i) = Some e /\ lookupS k (o_ns o) = Some e.
Proof. exact slots_dict_same_members_l. Qed.
Print Assumptions slots_dict_same_members.

(** (ii) the generated initializer: same bound calls, same stored values, same cache. *)
Theorem slots_dict_agree_init : forall k sc1 sc2 von1 von2 pos kw en,
  wf k -> k_slots k = true ->
  make_init_script k = GenOk sc1 -> make_init_script (dict_twin k) = GenOk sc2 ->
  bind_call sc1 pos kw = Bound en ->
  bind_call sc2 pos kw = Bound en /\
  exists i1 i2 t1 t2,
    run_init k no_fault von1 pos kw = InitDone i1 t1 /\
    run_init (dict_twin k) no_fault von2 pos kw = InitDone i2 t2 /\
    forall a, In a (k_attrs k) -> read k i1 (a_name a) = read (dict_twin k) i2 (a_name a).
Proof. exact init_slots_dict_same_values_l. Qed.
Print Assumptions slots_dict_agree_init.

Theorem slots_dict_agree_cache : forall k sc1 sc2 von pos kw en,
  wf k -> k_cache_hash k = true ->
  make_init_script k = GenOk sc1 -> make_init_script (dict_twin k) = GenOk sc2 ->
  bind_call sc1 pos kw = Bound en -> bind_call sc2 pos kw = Bound en ->
  exists i1 i2,
    run_init k no_fault von pos kw = InitDone i1 (expected_trace k von en) /\
    run_init (dict_twin k) no_fault von pos kw = InitDone i2 (expected_trace (dict_twin k) von en) /\
    read k i1 Init.HASH_CACHE = Ok VNone /\ read (dict_twin k) i2 Init.HASH_CACHE = Ok VNone.
Proof. exact init_slots_dict_same_cache_l. Qed.
Print Assumptions slots_dict_agree_cache.

Theorem slots_dict_agree_trace : forall k von en,
  k_pre_init_has_args k = false ->
  expected_trace (dict_twin k) von en = expected_trace k von en /\
  expected_args (dict_twin k) en = expected_args k en.
Proof. exact init_slots_dict_same_trace_l. Qed.
Print Assumptions slots_dict_agree_trace.

(** (iv) the [__setattr__] reset: agreement under the guard, K6 without it. *)
Theorem setattr_reset_agree : forall i, reset_guard i = true -> dict_reset i = slots_reset i.
Proof. exact setattr_reset_agree_l. Qed.
Print Assumptions setattr_reset_agree.

Theorem setattr_reset_slotted_confused :
  exists i, i_wrote_own_setattr i = false /\ i_has_custom_setattr i = false /\
            dict_reset i = true /\ slots_reset i = false.
Proof. exact setattr_reset_refuted. Qed.
Print Assumptions setattr_reset_slotted_confused.

(** ... and with two attrs bases in the order (slotted hook-free, unslotted hooked) it is the
    dict build that does not reset (K08.4). *)
Theorem setattr_reset_two_bases_counterexample :
  exists i, i_wrote_own_setattr i = false /\ i_has_custom_setattr i = false /\
            dict_reset i = false /\ slots_reset i = true.
Proof. exact setattr_reset_two_bases_refuted. Qed.
Print Assumptions setattr_reset_two_bases_counterexample.

(** ** Correspondence *)
Theorem correspondence_sound : forall b,
  check_case (CBody b) = true <-> c_seen b = model_obs b /\ (post_ok b = true \/ c_flagged b = true).
Proof. exact check_case_sound. Qed.
Print Assumptions correspondence_sound.

Theorem metamorphic_check_sound : forall l,
  check_case (CMeta l) = true <-> forall lbl x y, In (lbl, x, y) l -> x = y.
Proof. exact check_meta_sound. Qed.
Print Assumptions metamorphic_check_sound.
