(** * C15 — Contradictory specifications are rejected when the class is defined, with
    the documented exception type; a failed decoration leaves the class untouched;
    everything outside the table defines.

    Property theorems only; each is closed by [exact] of a lemma from
    [C15/Proofs.v] and followed by [Print Assumptions]. *)
From Coq Require Import List Bool String.
Import ListNotations.
From Attrs Require Import Base Core.Attr Core.Init C07.Model C15.Model C15.Table C15.Proofs.

(** The checks of the code, run in the order the code runs them (field calls in body
    order, decorator expression, [define.wrap], [attrs.wrap], the class builder, the
    compilation of the generated initializer, including [define]'s second attempt),
    raise exactly what the table says when it is read row by row: same phase, same
    exception class, and [Defined] exactly when no row is reached.  For every
    specification: any number of fields, bases, any transformer of the case language. *)
Theorem rejects_exactly : forall s, build s = table s.
Proof. exact build_table. Qed.
Print Assumptions rejects_exactly.

(** No spurious rejection, no missed rejection: the class defines iff no row of the
    table applies. *)
Theorem valid_defines : forall s, build s = Defined <-> applicable s = [].
Proof. exact defined_iff_no_row. Qed.
Print Assumptions valid_defines.

(** A rejection carries the exception class of a row that applies. *)
Theorem rejected_with_documented_type : forall s p e,
  build s = Rejected p e -> exists r, In r (applicable s) /\ rule_exc r = e.
Proof. exact rejected_by_row. Qed.
Print Assumptions rejected_with_documented_type.

(** The property's own list: unless one of the four rows that the list lacks applies
    (K8 equal [__init__] aliases, K10 [str] without [repr] / non-callable [factory],
    K15.1 field-level [NO_OP] on a frozen class), the verdict is a rejection with the
    type of a listed row that applies, or a definition when none does. *)
Theorem property_outside_known_findings : forall s,
  flagged s = false -> prop_ok s (build s) = true.
Proof. exact property_outside_findings. Qed.
Print Assumptions property_outside_known_findings.

(** ... and a verdict that violates the property's postcondition always has such a row. *)
Theorem violation_pins_unlisted_row : forall s,
  prop_ok s (build s) = false -> exists r, In r (applicable s) /\ documented r = false.
Proof. exact violation_needs_unlisted_row. Qed.
Print Assumptions violation_pins_unlisted_row.

(** The unguarded statement is false of the faithful model: the four witnesses. *)
Theorem property_refuted :
  build k8_spec = Rejected PDeco XSyntax /\ prop_ok k8_spec (build k8_spec) = false /\
  build k10a_spec = Rejected PDeco XValue /\ prop_ok k10a_spec (build k10a_spec) = false /\
  build k10b_spec = Rejected PBody XValue /\ prop_ok k10b_spec (build k10b_spec) = false /\
  build k151_spec = Rejected PDeco XValue /\ prop_ok k151_spec (build k151_spec) = false.
Proof. exact property_refuted_l. Qed.
Print Assumptions property_refuted.

(** Every row of the table is reachable, alone, with its own exception class. *)
Theorem every_row_reachable : forall r, In r all_rules ->
  applicable (reach r) = [r] /\ exists p, build (reach r) = Rejected p (rule_exc r).
Proof. exact every_row_reachable_l. Qed.
Print Assumptions every_row_reachable.

(** When the class statement fails, the class object has received no write: the
    builder accumulates in its own dictionary and [_patch_original_class] is the
    last step, after the last check (also across [define]'s two attempts). *)
Theorem failed_build_no_mutation : forall s p e,
  build s = Rejected p e -> mutation_events s = [].
Proof. exact failed_build_no_mutation_l. Qed.
Print Assumptions failed_build_no_mutation.

(** Every prefix of the builder's checking steps leaves the class alone. *)
Theorem no_write_before_the_patch : forall s a n b b',
  run_steps (firstn n (checks_of (deco_plan s a))) b = Go b' -> b_events b' = b_events b.
Proof. exact no_write_before_patch. Qed.
Print Assumptions no_write_before_the_patch.

(** Non-vacuity: a late rejection with a non-empty builder dictionary and no write; a
    successful dict class is written to; a builder that tested after the patch would
    leave a mutated class behind. *)
Theorem mutation_theorem_not_vacuous :
  (build late_reject_spec = Rejected PDeco XType /\
   (exists b, decorate_run late_reject_spec fresh = Stop XType b /\ b_pending b <> [] /\ b_events b = []) /\
   mutation_events late_reject_spec = [] /\
   mutation_events (one_class (opts AttrS) [fld "x"]) <> []) /\
  (exists e b, run_steps (late_steps late_init_spec false) fresh = Stop e b /\ b_events b <> []).
Proof. exact (conj late_reject_l check_after_patch_would_mutate). Qed.
Print Assumptions mutation_theorem_not_vacuous.

(** A successful definition writes to the given class iff it is not slotted. *)
Theorem defined_class_patched_iff_dict : forall s,
  build s = Defined -> (mutation_events s = [] <-> slots (s_o s) = true).
Proof. exact defined_patches_iff_dict. Qed.
Print Assumptions defined_class_patched_iff_dict.

(** The mandatory-after-default loop, for field lists of ANY length: it rejects iff
    some positional [__init__] field with a default precedes a mandatory one. *)
Theorem order_rule_characterised : forall l,
  order_ok l = false <->
  exists i j a b, i < j /\ nth_error l i = Some a /\ nth_error l j = Some b /\
                  pos_default a = true /\ pos_mandatory b = true.
Proof. exact order_rule_characterised_l. Qed.
Print Assumptions order_rule_characterised.

(** ... wherever the two fields come from: inherited part and own part of the list
    (the same split serves a transformer's output). *)
Theorem order_rule_across_positions : forall inherited own,
  bad_order (inherited ++ own) =
  bad_order inherited || bad_order own
  || (existsb pos_default inherited && existsb pos_mandatory own).
Proof. exact bad_order_app. Qed.
Print Assumptions order_rule_across_positions.

(** Class-level [kw_only=True] lifts the order rule altogether. *)
Theorem kw_only_class_any_order : forall s a,
  o_kw (s_o s) = true -> o_ft (s_o s) = None -> chk_order s a = None.
Proof. exact kw_only_class_any_order_l. Qed.
Print Assumptions kw_only_class_any_order.

(** [define(auto_attribs=None)] infers instead of raising. *)
Theorem define_infers_instead_of_raising : forall s p,
  auto_of (s_o s) = AutoInfer -> build s <> Rejected p XUnannotated.
Proof. exact define_infers_l. Qed.
Print Assumptions define_infers_instead_of_raising.

(** The frozen-class rows are [Core.Init.make_init_script]'s [GenValueError]. *)
Theorem frozen_hooks_rows : forall s a,
  make_init_script (kspec s a) = GenValueError <->
  capplies_at a CR_hooks_frozen s = true \/ capplies_at a CR_noop_frozen s = true.
Proof. exact frozen_hooks_rows_l. Qed.
Print Assumptions frozen_hooks_rows.

(** A hook collection of ANY length, the empty one included ([on_setattr=[]], [()],
    [setters.pipe()]), at class or at field level, is a request for hooks: on a frozen
    class (also frozen by inheritance) the frozen-hooks row applies, and next to an
    auto-detected own [__setattr__] the hooks + own [__setattr__] row applies. *)
Theorem hook_collections_of_any_length_are_hooks : forall s hs,
  (is_frozen (s_o s) = true ->
   (builder_os (s_o s) = COsPipe hs \/
    exists x, In x (fields s (eff_auto s)) /\ a_on_setattr x = OsPipe hs) ->
   capplies CR_hooks_frozen s = true) /\
  (ad (s_o s) = true -> o_own_setattr (s_o s) = true -> frozen_arg (s_o s) = false ->
   fields s (eff_auto s) <> [] ->
   (builder_os (s_o s) = COsPipe hs /\ (forall x, In x (fields s (eff_auto s)) -> a_on_setattr x = OsNone) \/
    exists x, In x (fields s (eff_auto s)) /\ a_on_setattr x = OsPipe hs) ->
   capplies CR_hooks_own_setattr s = true).
Proof. exact (fun s hs => conj (hook_collections_any_length_l s hs) (hook_collections_own_setattr_l s hs)). Qed.
Print Assumptions hook_collections_of_any_length_are_hooks.

Theorem empty_hook_collection_rejected :
  build empty_hooks_spec = Rejected PDeco XValue /\ applicable empty_hooks_spec = [CR_hooks_frozen].
Proof. exact empty_hooks_rejected_l. Qed.
Print Assumptions empty_hook_collection_rejected.
