(** * C04 — Hash/eq contract, hash inputs, caching, and the hashability decision table.

    Property theorems only; each is closed by [exact] of a lemma from
    [C04/Proofs.v] and followed by [Print Assumptions].

    Part A is about [Model.decide] (the hash block of [attrs()]'s [wrap]) over ALL
    configurations [cfg]: api x auto_detect x auto_exc x slots x cmp x eq x hash x
    unsafe_hash x frozen x own __hash__/__eq__/__ne__/__init__ x cache_hash x init x
    base class facts.  Part B is about [Model.compute] / [Model.do_hash] /
    [Model.step] for arbitrary field lists, values, key functions ([key]), element
    hash ([ehash]) and tuple hash ([H]). *)
From Coq Require Import List Bool ZArith.
Import ListNotations.
From Attrs Require Import C04.Model C04.Corr C04.Proofs.

(** ** A. the decision table *)

(** The code's decision equals the property's decision list (auto_exc exception class
    => untouched; else unsafe_hash=True => generated (False: legacy row, untouched);
    else own __hash__ auto-detected or eq off => untouched; else frozen, also by
    inheritance => generated; else unhashable; cache_hash only with a generated hash
    and a generated __init__, else TypeError) on every well-formed configuration. *)
Theorem hash_decision_table : forall c, validb c = true -> decide c = spec_kind c.
Proof. exact hash_decision_table_l. Qed.
Print Assumptions hash_decision_table.

Theorem malformed_rejected : forall c, validb c = false -> exists e, decide c = Err e.
Proof. exact malformed_rejected_l. Qed.
Print Assumptions malformed_rejected.

(** "A class gets a generated hash iff unsafe_hash=True or (unsafe_hash unset, eq on,
    frozen -- also by inheritance)" — with the precedence of the other two sentences. *)
Theorem generated_iff : forall c, validb c = true -> c_cache c = false ->
  (decide c = Generated <->
   exc_class c = false /\
   (eff_hash c = HT \/
    (eff_hash c = HN /\ own_hash_detected c = false /\ eq_on c = true /\ frozen_incl c = true))).
Proof. exact generated_iff_l. Qed.
Print Assumptions generated_iff.

(** The sentence verbatim, for classes that are no auto_exc exception and have no own __hash__. *)
Theorem generated_iff_plain : forall c, validb c = true -> c_cache c = false ->
  exc_class c = false -> own_hash_detected c = false ->
  (decide c = Generated <->
   eff_hash c = HT \/ (eff_hash c = HN /\ eq_on c = true /\ frozen_incl c = true)).
Proof. exact generated_iff_plain_l. Qed.
Print Assumptions generated_iff_plain.

(** "it is made unhashable iff unsafe_hash is unset, eq is on and it is not frozen" *)
Theorem unhashable_iff : forall c, validb c = true -> c_cache c = false ->
  (decide c = Unhashable <->
   eff_hash c = HN /\ eq_on c = true /\ frozen_incl c = false /\
   exc_class c = false /\ own_hash_detected c = false).
Proof. exact unhashable_iff_l. Qed.
Print Assumptions unhashable_iff.

(** "its inherited hash is left untouched iff eq is off, or its own __hash__ was
    auto-detected, or it is an auto_exc exception class" — outside the legacy row. *)
Theorem untouched_iff : forall c, validb c = true -> c_cache c = false -> legacy_row c = false ->
  (decide c = Untouched <->
   exc_class c = true \/
   (eff_hash c <> HT /\ (eq_on c = false \/ own_hash_detected c = true))).
Proof. exact untouched_iff_l. Qed.
Print Assumptions untouched_iff.

Theorem legacy_row_untouched : forall c, validb c = true -> c_cache c = false ->
  legacy_row c = true -> decide c = Untouched.
Proof. exact legacy_row_untouched_l. Qed.
Print Assumptions legacy_row_untouched.

Theorem cache_hash_accepted_iff : forall c, validb c = true -> c_cache c = true ->
  (decide c = Generated <-> table c = Generated /\ init_on c = true) /\
  (decide c <> Generated -> decide c = Err ETypeError).
Proof. exact cache_hash_accepted_iff_l. Qed.
Print Assumptions cache_hash_accepted_iff.

(** "Untouched" = the class dict keeps the entry it had (the user's function, the
    None Python adds for an own __eq__, or nothing); only in the legacy row does a
    slotted build pick up Python's implicit None. *)
Theorem untouched_keeps_entry : forall c, validb c = true -> decide c = Untouched ->
  legacy_row c = false -> final_entry c = entry_before c.
Proof. exact untouched_keeps_entry_l. Qed.
Print Assumptions untouched_keeps_entry.

Theorem implicit_none_only_legacy : forall c, validb c = true -> decide c = Untouched ->
  entry_before c = EAbsent -> final_entry c = ENone -> legacy_row c = true /\ slots c = true.
Proof. exact implicit_none_only_legacy_l. Qed.
Print Assumptions implicit_none_only_legacy.

(** "Hashing an instance of an attrs class that is hashable ... never raises" —
    class level, GUARDED: false without the guard (K1 below). *)
Theorem hash_total_class : forall c,
  resolved_hashable c (final_entry c) = true ->
  constructible c = true ->
  inherited_cache_uninitialised c = false ->
  probe_of c = PReturns.
Proof. exact hash_total_A_l. Qed.
Print Assumptions hash_total_class.

Theorem hash_total_refuted_K1 :
  exists c, validb c = true /\ decide c = Untouched /\ table c = Untouched /\
            resolved_hashable c (final_entry c) = true /\ constructible c = true /\
            probe_of c = PAttributeError.
Proof. exact hash_total_refuted_K1_l. Qed.
Print Assumptions hash_total_refuted_K1.

(** The signature defaults of attr.s / define / frozen the model resolves arguments with
    are the ones in the source ([Gen/C04_consts.v] is regenerated on every run). *)
Theorem defaults_match_source :
  Gen.C04_consts.src_attrs =
  [Some (dflt_auto_detect ApiS); Some (dflt_auto_exc ApiS); Some (dflt_slots ApiS);
   Some (dflt_frozen ApiS); Some false; None; None; None; None; None] /\
  Gen.C04_consts.src_define =
  [Some (dflt_auto_detect ApiD); Some (dflt_auto_exc ApiD); Some (dflt_slots ApiD);
   Some (dflt_frozen ApiD); Some false; None; None; None; None] /\
  Gen.C04_consts.src_frozen_partial_of_define = true /\
  Gen.C04_consts.src_frozen_overrides =
    [None; None; None; Some (Some (dflt_frozen ApiF)); None; None; None; None; None].
Proof.
  exact (conj consts_attrs (conj consts_define (conj (proj1 consts_frozen) (proj1 (proj2 consts_frozen))))).
Qed.
Print Assumptions defaults_match_source.

(** ** B. hash value and cache protocol *)

(** The hash depends only on the class (salt, field list) and the keyed values of the
    hash-participating fields: instances that agree on those hash equal, whatever the
    other fields hold. *)
Theorem hash_frame : forall (val : Type) (key : keyid -> val -> val) (ts : ktests) (eh : Type) (ehash : val -> eh)
  (hres : Type) (H : Z -> list eh -> hres) (c : cls) (xs ys : list val),
  agree val key ts (flds c) xs ys ->
  compute val key ts eh ehash hres H c xs = compute val key ts eh ehash hres H c ys.
Proof. exact hash_frame_l. Qed.
Print Assumptions hash_frame.

(** Equal instances have equal hashes: generated __eq__ truthy (exact same class, all
    eq fields' keyed values ==) implies equal generated hashes, when every hash field
    is an eq field, the field values' own == / hash are consistent, and __eq__ and
    __hash__ decide in the same way whether a field has a key ([tests_consistent];
    [source_key_tests_consistent] below discharges it for the source of this run). *)
Theorem hash_eq_contract : forall (val : Type) (key : keyid -> val -> val) (ts : ktests) (eh : Type)
  (ehash : val -> eh) (hres : Type) (H : Z -> list eh -> hres) (py_eq : val -> val -> bool),
  (forall a b : val, py_eq a b = true -> ehash a = ehash b) ->
  tests_consistent ts = true ->
  forall x y : obj val hres,
  (cid (o_cls val hres x) = cid (o_cls val hres y) -> o_cls val hres x = o_cls val hres y) ->
  hash_within_eq (o_cls val hres x) = true ->
  length (vals (o_inst val hres x)) = length (vals (o_inst val hres y)) ->
  gen_eq val key ts hres py_eq x y = Some true ->
  compute val key ts eh ehash hres H (o_cls val hres x) (vals (o_inst val hres x)) =
  compute val key ts eh ehash hres H (o_cls val hres y) (vals (o_inst val hres y)).
Proof. exact hash_eq_contract_l. Qed.
Print Assumptions hash_eq_contract.

(** Stable across calls. *)
Theorem hash_stable : forall (val : Type) (key : keyid -> val -> val) (ts : ktests) (eh : Type) (ehash : val -> eh)
  (hres : Type) (H : Z -> list eh -> hres) (c : cls) (i : inst val hres) (h : hres)
  (i' : inst val hres) (comp : bool),
  do_hash val key ts eh ehash hres H c i = Some (h, i', comp) ->
  exists comp' : bool, do_hash val key ts eh ehash hres H c i' = Some (h, i', comp').
Proof. exact hash_stable_l. Qed.
Print Assumptions hash_stable.

(** With cache_hash, over any interleaving of hash() calls and field assignments on a
    freshly constructed instance, the hash is computed exactly once (if hash() is
    called at all). *)
Theorem cache_once : forall (val : Type) (key : keyid -> val -> val) (ts : ktests) (eh : Type) (ehash : val -> eh)
  (hres : Type) (H : Z -> list eh -> hres) (c : cls) (ops : list (op val)) (vs : list val),
  cache c = true -> forallb (hash_or_set val) ops = true ->
  computations hres (run val key ts eh ehash hres H c (init val hres c vs) ops)
  = if existsb (fun o => negb (is_set val o)) ops then 1 else 0.
Proof. exact cache_once_init_l. Qed.
Print Assumptions cache_once.

(** n >= 1 consecutive calls: the first computes, all return the uncached value. *)
Theorem cache_once_repeat : forall (val : Type) (key : keyid -> val -> val) (ts : ktests) (eh : Type)
  (ehash : val -> eh) (hres : Type) (H : Z -> list eh -> hres) (c : cls) (n : nat) (vs : list val),
  cache c = true ->
  run val key ts eh ehash hres H c (init val hres c vs) (repeat OHash (S n)) =
  MHashed (compute val key ts eh ehash hres H c vs) true
  :: repeat (MHashed (compute val key ts eh ehash hres H c vs) false) n.
Proof. exact cache_once_repeat_l. Qed.
Print Assumptions cache_once_repeat.

(** Across every history of hash / copy / deepcopy / pickle / evolve / fresh-instance
    operations WITHOUT field assignment, every hash() returns the uncached hash of the
    current field values (cached or not).  (After an assignment the cached value is
    stale by design: [Proofs.cache_stale_after_set].) *)
Theorem cached_equals_uncached : forall (val : Type) (key : keyid -> val -> val) (ts : ktests) (eh : Type)
  (ehash : val -> eh) (hres : Type) (H : Z -> list eh -> hres) (c : cls) (ops : list (op val))
  (vs : list val),
  forallb (fun o => negb (is_set val o)) ops = true ->
  hashes_uncached val key ts eh ehash hres H c (init val hres c vs) ops.
Proof. exact cached_equals_uncached_init_l. Qed.
Print Assumptions cached_equals_uncached.

(** Instance level "never raises": on an instance built by the class's OWN generated
    __init__ (and everything derived from it by the history operations) the generated
    __hash__ always returns. *)
Theorem hash_total : forall (val : Type) (key : keyid -> val -> val) (ts : ktests) (eh : Type) (ehash : val -> eh)
  (hres : Type) (H : Z -> list eh -> hres) (c : cls) (ops : list (op val)) (vs : list val),
  hash_returns val key ts eh ehash hres H c (init val hres c vs) ops.
Proof. exact hash_total_init_l. Qed.
Print Assumptions hash_total.

(** K1: the guard is needed — the caching __hash__ of a base applied to an instance
    built by a non-caching subclass's __init__ raises. *)
Theorem hash_total_inherited_refuted : forall (val : Type) (key : keyid -> val -> val) (ts : ktests) (eh : Type)
  (ehash : val -> eh) (hres : Type) (H : Z -> list eh -> hres) (base sub : cls) (vs : list val),
  cache base = true -> cache sub = false ->
  do_hash val key ts eh ehash hres H base (init val hres sub vs) = None.
Proof. exact inherited_caching_hash_refuted_l. Qed.
Print Assumptions hash_total_inherited_refuted.

(** Equality of the free hashes the correspondence check compares means equality
    under every hash oracle. *)
Theorem free_complete : forall (eh hres : Type) (ehash : nat -> eh) (H : Z -> list eh -> hres) c xs ys,
  fcompute c xs = fcompute c ys ->
  compute nat fkey fts eh ehash hres H c xs = compute nat fkey fts eh ehash hres H c ys.
Proof. exact free_complete_l. Qed.
Print Assumptions free_complete.

(** The script term the generator is compared with (script-level tie, [Corr.script_case_ok])
    denotes the model's computation: its elements evaluate to the tuple elements [compute]
    hashes, the wrapper argument and a caching store appear iff the class caches. *)
Theorem script_denotes : forall (val : Type) (key : keyid -> val -> val) (ts : ktests) (dv : val) (c : cls)
  (vs : list val), length (flds c) = length vs ->
  map (eval_elem val key ts dv (flds c) vs) (hs_elems (make_hash_script ts c)) = hash_elems val key ts (flds c) vs
  /\ hs_wrapper_arg (make_hash_script ts c) = cache c
  /\ (hs_store (make_hash_script ts c) = StReturn <-> cache c = false).
Proof. exact script_denotes_l. Qed.
Print Assumptions script_denotes.

(** ** B.0 key presence: truthiness vs [is not None] *)

(** The three sites read from the source of this run ([Attribute.__init__]'s [eq_key or eq],
    [if a.eq_key:] in [_make_eq_script] and in [_make_hash_script]) decide consistently. *)
Theorem source_key_tests_consistent :
  match Gen.C04_consts.src_key_tests_read with
  | Some ts => tests_consistent ts = true
  | None => True   (* a site has a shape the reader does not recognise: nothing is claimed *)
  end.
Proof. exact source_key_tests_consistent_l. Qed.
Print Assumptions source_key_tests_consistent.

(** Consistent tests: the key [__eq__] applies is the key [__hash__] applies, for every field
    (also for falsy key callables). *)
Theorem keys_agree : forall ts, tests_consistent ts = true -> forall f, f_key_eq ts f = f_key ts f.
Proof. exact keys_agree_l. Qed.
Print Assumptions keys_agree.

(** ... and the consistency hypothesis is needed: with the attribute and [__eq__] testing
    [is not None] and [__hash__] testing truthiness, a falsy key makes equal instances hash
    differently. *)
Theorem inconsistent_tests_break_contract :
  tests_consistent seed_tests = false /\
  let fs := [F None (EqK K0f)] in
  eq_fields nat fkey seed_tests Nat.eqb fs [0] [2] = true /\
  hash_elems nat fkey seed_tests fs [0] <> hash_elems nat fkey seed_tests fs [2].
Proof. exact inconsistent_tests_break_contract_l. Qed.
Print Assumptions inconsistent_tests_break_contract.

(** Every key callable that is given is applied by [__eq__] and by [__hash__] and advertised on the
    Attribute — also a falsy one (fix cb57cf9); the three sites of this run's source say so. *)
Theorem honoured_keys_applied : forall ts, keys_honoured ts = true ->
  forall f, f_key ts f = f_key_given f /\ f_key_eq ts f = f_key_given f /\ attr_key ts f = f_key_given f.
Proof. exact honoured_keys_applied_l. Qed.
Print Assumptions honoured_keys_applied.

Theorem source_keys_honoured :
  match Gen.C04_consts.src_key_tests_read with
  | Some ts => keys_honoured ts = true
  | None => True
  end.
Proof. exact source_keys_honoured_l. Qed.
Print Assumptions source_keys_honoured.

(** ** B.1 construction with __attrs_post_init__ *)

(** When the cache initialisation is the last event of the tail of the generated __init__
    (after __attrs_post_init__), every instance construction hands out hashes without raising
    and — until a field is assigned — every hash() equals the uncached value of the fields it
    holds then, WHATEVER the post-init program did (hash self, assign hashed fields). *)
Theorem constructed_instances_hash_correctly : forall (val : Type) (key : keyid -> val -> val)
  (ts : ktests) (eh : Type) (ehash : val -> eh) (hres : Type) (H : Z -> list eh -> hres)
  (tail : list tail_ev) (c : cls) (vs : list val) (post : list (op val)) (i : inst val hres)
  (ms : list (mobs hres)) (ops : list (op val)),
  ends_with_cache tail = true ->
  construct val key ts eh ehash hres H tail c vs post = (Some i, ms) ->
  hash_returns val key ts eh ehash hres H c i ops /\
  (forallb (fun o => negb (is_set val o)) ops = true ->
   hashes_uncached val key ts eh ehash hres H c i ops).
Proof. exact constructed_instances_hash_correctly_l. Qed.
Print Assumptions constructed_instances_hash_correctly.

(** "The cache is not readable before construction completes": with the order post-init, then
    cache initialisation, a post-init that hashes self of a cache_hash class fails loudly. *)
Theorem post_init_hash_refused : forall (val : Type) (key : keyid -> val -> val) (ts : ktests)
  (eh : Type) (ehash : val -> eh) (hres : Type) (H : Z -> list eh -> hres) (c : cls)
  (vs : list val) (post : list (op val)),
  cache c = true ->
  construct val key ts eh ehash hres H [TPost; TCache] c vs (OHash :: post) = (None, [MRaised]).
Proof. exact post_init_hash_refused_l. Qed.
Print Assumptions post_init_hash_refused.

(** The order found in the source of this run ends with the cache initialisation
    ([None]: shape not recognised, nothing claimed).  [Proofs.cache_before_post_init_is_stale]
    shows what the other order does. *)
Theorem source_init_tail_ends_with_cache :
  match Gen.C04_consts.src_init_tail_read with
  | Some t => ends_with_cache t = true
  | None => True
  end.
Proof. exact source_init_tail_ends_with_cache_l. Qed.
Print Assumptions source_init_tail_ends_with_cache.
