From Attrs Require Import C04.Model C04.Proofs.
Theorem stub_t : True. Proof. exact stub. Qed.
Print Assumptions stub_t.
